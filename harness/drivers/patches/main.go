// Driver for spec/Patches.tla (property C10): replays the input vectors TLC
// enumerates (spec/MCPatches.tla) against the real patch & transform code
//
//	composite.Resolve / composite.ResolveTransforms            (family "transform")
//	composite.Apply                                            (family "patch")
//	composite.RenderFromCompositePatches / RenderToCompositePatches,
//	composite.RenderComposedResourceMetadata, composite.ComposedTemplates,
//	composite.NewPTComposer(...).Compose on simapi              (family "render")
//
// Every vector is materialised as real v1.Transform / v1.Patch objects and
// unstructured XR / composed resources and run TWICE on fresh, equal inputs.
// One trace event per vector carries the vector and the projected outcome of
// both runs (outcome ok | error | panic - panics are recovered and recorded -,
// the produced value, digests of the source and target objects before / after,
// the values found at fixed probe paths of the target, the write log of the
// judged Compose). No property logic lives here: spec/MonPatches.tla judges.
package main

import (
	"context"
	"crypto/sha256"
	"encoding/json"
	"flag"
	"fmt"
	"math"
	"os"
	"strconv"
	"strings"

	corev1 "k8s.io/api/core/v1"
	extv1 "k8s.io/apiextensions-apiserver/pkg/apis/apiextensions/v1"
	metav1 "k8s.io/apimachinery/pkg/apis/meta/v1"
	"k8s.io/apimachinery/pkg/apis/meta/v1/unstructured"
	"k8s.io/apimachinery/pkg/runtime"
	"k8s.io/apimachinery/pkg/runtime/schema"
	kjson "k8s.io/apimachinery/pkg/util/json"
	"k8s.io/utils/ptr"

	xpv1 "github.com/crossplane/crossplane-runtime/apis/common/v1"
	"github.com/crossplane/crossplane-runtime/pkg/fieldpath"
	"github.com/crossplane/crossplane-runtime/pkg/resource/unstructured/composed"
	ucomposite "github.com/crossplane/crossplane-runtime/pkg/resource/unstructured/composite"

	v1 "github.com/crossplane/crossplane/apis/apiextensions/v1"
	"github.com/crossplane/crossplane/internal/controller/apiextensions/composite"
	"github.com/crossplane/crossplane/zzverif/scen"
	"github.com/crossplane/crossplane/zzverif/simapi"
	"github.com/crossplane/crossplane/zzverif/trace"
)

// ------------------------------------------------------------------ input

type valIn struct {
	T  string   `json:"t"`
	I  int64    `json:"i"`
	S  []string `json:"s"`
	J  string   `json:"j"`
	Ex bool     `json:"ex"`
}

type trIn struct {
	Ty   string   `json:"ty"`
	Cfg  bool     `json:"cfg"`
	Op   string   `json:"op"`
	Sub  bool     `json:"sub"`
	HasN bool     `json:"hasn"`
	N    int64    `json:"n"`
	A    []string `json:"a"`
	Fb   string   `json:"fb"`
}

type pathIn struct {
	K   string `json:"k"`
	P   string `json:"p"`
	Set bool   `json:"set"`
}

type patchIn struct {
	PType  string   `json:"ptype"`
	From   pathIn   `json:"from"`
	To     pathIn   `json:"to"`
	Pol    string   `json:"pol"`
	Mo     string   `json:"mo"`
	Chain  []trIn   `json:"chain"`
	Vars   []pathIn `json:"vars"`
	CFmt   []string `json:"cfmt"`
	CStrat string   `json:"cstrat"`
}

type input struct {
	Fam   string    `json:"fam"`
	Sub   string    `json:"sub"`
	Val   valIn     `json:"val"`
	Chain []trIn    `json:"chain"`
	P     patchIn   `json:"p"`
	Dir   string    `json:"dir"`
	Ps    []patchIn `json:"ps"`
	// meta
	Label string `json:"label"`
	RName string `json:"rname"`
	Ctrl  string `json:"ctrl"`
	Claim bool   `json:"claim"`
	// tmpl
	Shape string `json:"shape"`
	// compose
	N     int    `json:"n"`
	Kind  string `json:"kind"`
	Fail  int    `json:"fail"`
	Phase string `json:"phase"`
}

// ------------------------------------------------- values: in and out

func chars(s []string) string { return strings.Join(s, "") }

// mkValue materialises a value of the lattice the way the API machinery
// decodes JSON (int64 for integers, float64 for fractions).
func mkValue(v valIn) any {
	switch v.T {
	case "null":
		return nil
	case "bool":
		return v.I == 1
	case "int":
		n, err := strconv.ParseInt(v.J, 10, 64)
		if err != nil {
			panic("bad int in vector: " + v.J)
		}
		return n
	case "float":
		f, err := strconv.ParseFloat(v.J, 64)
		if err != nil {
			panic("bad float in vector: " + v.J)
		}
		return f
	case "string":
		return chars(v.S)
	case "object", "array":
		var out any
		if err := kjson.Unmarshal([]byte(v.J), &out); err != nil {
			panic("bad JSON in vector: " + v.J)
		}
		return out
	}
	panic("unknown value type " + v.T)
}

const exactLimit = 1000000

func splitChars(s string) []any {
	out := []any{}
	for _, r := range s {
		out = append(out, string(r))
	}
	return out
}

func canon(x any) string {
	b, err := json.Marshal(x)
	if err != nil {
		return "<unmarshalable:" + err.Error() + ">"
	}
	return string(b)
}

// projVal projects a Go value onto the value record of Patches.tla.
func projVal(x any) map[string]any {
	r := map[string]any{"t": "other", "i": 0, "s": []any{}, "j": "", "ex": true}
	intv := func(n int64) {
		r["t"], r["j"] = "int", strconv.FormatInt(n, 10)
		if n >= -exactLimit && n <= exactLimit {
			r["i"] = n
		} else {
			r["ex"] = false
		}
	}
	switch t := x.(type) {
	case nil:
		r["t"], r["j"] = "null", "null"
	case bool:
		r["t"], r["j"] = "bool", strconv.FormatBool(t)
		if t {
			r["i"] = 1
		}
	case int:
		intv(int64(t))
	case int32:
		intv(int64(t))
	case int64:
		intv(t)
	case float64:
		r["t"], r["j"] = "float", canon(t)
		h := t * 2
		if h == math.Trunc(h) && math.Abs(h) <= exactLimit {
			r["i"] = int64(h)
		} else {
			r["ex"] = false
		}
	case string:
		r["t"], r["s"] = "string", splitChars(t)
	case map[string]any:
		r["t"], r["j"] = "object", canon(t)
	case []any:
		r["t"], r["j"] = "array", canon(t)
	default:
		r["j"] = fmt.Sprintf("%T", x)
	}
	return r
}

func digest(x any) string {
	h := sha256.Sum256([]byte(canon(x)))
	return fmt.Sprintf("%x", h[:8])
}

// --------------------------------------------- transforms and patches

func raw(s string) extv1.JSON { return extv1.JSON{Raw: []byte(s)} }

// the named pattern lists of Patches.tla PatternList
func patterns(name string) []v1.MatchTransformPattern {
	mk := func(kind, res string) v1.MatchTransformPattern {
		p := v1.MatchTransformPattern{Result: raw(strconv.Quote(res))}
		switch kind {
		case "lit-a":
			p.Type, p.Literal = v1.MatchTransformPatternTypeLiteral, ptr.To("a")
		case "re-digits":
			p.Type, p.Regexp = v1.MatchTransformPatternTypeRegexp, ptr.To("^[0-9]+$")
		case "re-lower":
			p.Type, p.Regexp = v1.MatchTransformPatternTypeRegexp, ptr.To("^[a-z]+$")
		case "bad-re":
			p.Type, p.Regexp = v1.MatchTransformPatternTypeRegexp, ptr.To("(")
		case "no-lit":
			p.Type = v1.MatchTransformPatternTypeLiteral
		case "bogus":
			p.Type, p.Literal = "bogus", ptr.To("a")
		}
		return p
	}
	switch name {
	case "lit":
		return []v1.MatchTransformPattern{mk("lit-a", "L")}
	case "re":
		return []v1.MatchTransformPattern{mk("re-digits", "R")}
	case "litre":
		return []v1.MatchTransformPattern{mk("lit-a", "L"), mk("re-lower", "R")}
	case "relit":
		return []v1.MatchTransformPattern{mk("re-lower", "R"), mk("lit-a", "L")}
	case "badre":
		return []v1.MatchTransformPattern{mk("bad-re", "R")}
	case "nolit":
		return []v1.MatchTransformPattern{mk("no-lit", "L")}
	case "bogus":
		return []v1.MatchTransformPattern{mk("bogus", "L")}
	}
	return nil
}

func mkTransform(t trIn) v1.Transform {
	out := v1.Transform{Type: v1.TransformType(t.Ty)}
	if !t.Cfg {
		return out
	}
	a := chars(t.A)
	switch t.Ty {
	case "math":
		m := &v1.MathTransform{Type: v1.MathTransformType(t.Op)}
		if t.HasN {
			switch t.Op {
			case "ClampMin":
				m.ClampMin = ptr.To(t.N)
			case "ClampMax":
				m.ClampMax = ptr.To(t.N)
			default:
				m.Multiply = ptr.To(t.N)
			}
		}
		out.Math = m
	case "map":
		m := &v1.MapTransform{Pairs: map[string]extv1.JSON{}}
		if t.Op == "pairs" {
			m.Pairs["a"], m.Pairs["1"], m.Pairs["true"], m.Pairs["x-y"] = raw(`"A"`), raw(`true`), raw(`{"k":"v"}`), raw(`{`)
		}
		out.Map = m
	case "match":
		m := &v1.MatchTransform{Patterns: patterns(t.Op)}
		switch t.Fb {
		case "value":
			m.FallbackValue = raw(`"F"`)
		case "input":
			m.FallbackTo = v1.MatchFallbackToTypeInput
		case "both":
			m.FallbackValue, m.FallbackTo = raw(`"F"`), v1.MatchFallbackToTypeInput
		}
		out.Match = m
	case "string":
		s := &v1.StringTransform{Type: v1.StringTransformType(t.Op)}
		if t.Sub {
			switch t.Op {
			case "Convert":
				s.Convert = ptr.To(v1.StringConversionType(a))
			case "TrimPrefix", "TrimSuffix":
				s.Trim = ptr.To(a)
			case "Regexp":
				s.Regexp = &v1.StringTransformRegexp{Match: a}
				if t.HasN {
					s.Regexp.Group = ptr.To(int(t.N))
				}
			case "Join":
				s.Join = &v1.StringTransformJoin{Separator: a}
			default:
				s.Format = ptr.To(a)
			}
		}
		out.String = s
	case "convert":
		c := &v1.ConvertTransform{ToType: v1.TransformIOType(t.Op)}
		if t.Sub {
			c.Format = ptr.To(v1.ConvertTransformFormat(a))
		}
		out.Convert = c
	}
	return out
}

func mkTransforms(ts []trIn) []v1.Transform {
	var out []v1.Transform
	for _, t := range ts {
		out = append(out, mkTransform(t))
	}
	return out
}

func mkPatch(p patchIn) v1.Patch {
	out := v1.Patch{Type: v1.PatchType(p.PType), Transforms: mkTransforms(p.Chain)}
	if p.From.Set {
		out.FromFieldPath = ptr.To(p.From.P)
	}
	if p.To.Set {
		out.ToFieldPath = ptr.To(p.To.P)
	}
	switch p.Pol {
	case "empty":
		out.Policy = &v1.PatchPolicy{}
	case "Optional":
		out.Policy = &v1.PatchPolicy{FromFieldPath: ptr.To(v1.FromFieldPathPolicyOptional)}
	case "Required":
		out.Policy = &v1.PatchPolicy{FromFieldPath: ptr.To(v1.FromFieldPathPolicyRequired)}
	}
	if p.Mo != "nil" && p.Mo != "" {
		if out.Policy == nil {
			out.Policy = &v1.PatchPolicy{}
		}
		mo := &xpv1.MergeOptions{}
		if p.Mo == "keep" || p.Mo == "both" {
			mo.KeepMapValues = ptr.To(true)
		}
		if p.Mo == "append" || p.Mo == "both" {
			mo.AppendSlice = ptr.To(true)
		}
		out.Policy.MergeOptions = mo
	}
	if p.CStrat != "nocombine" && p.CStrat != "" {
		c := &v1.Combine{Strategy: v1.CombineStrategy(p.CStrat)}
		if p.CStrat == "nocfg" {
			c.Strategy = v1.CombineStrategyString
		} else {
			c.String = &v1.StringCombine{Format: chars(p.CFmt)}
		}
		for _, f := range p.Vars {
			c.Variables = append(c.Variables, v1.CombineVariable{FromFieldPath: f.P})
		}
		out.Combine = c
	}
	return out
}

func mkPatches(ps []patchIn) []v1.Patch {
	var out []v1.Patch
	for _, p := range ps {
		out = append(out, mkPatch(p))
	}
	return out
}

// guard runs fn and turns a panic into the outcome "panic".
func guard(fn func() error) (outcome, msg string) {
	defer func() {
		if r := recover(); r != nil {
			outcome, msg = "panic", fmt.Sprint(r)
		}
	}()
	if err := fn(); err != nil {
		return "error", err.Error()
	}
	return "ok", ""
}

// ------------------------------------------------------ family transform

func runTransform(in input) (map[string]any, string) {
	val := mkValue(in.Val)
	before := digest(val)
	var res any
	outcome, msg := guard(func() error {
		var err error
		ts := mkTransforms(in.Chain)
		if len(ts) == 1 {
			res, err = composite.Resolve(ts[0], val)
		} else {
			res, err = composite.ResolveTransforms(v1.Patch{Transforms: ts}, val)
		}
		return err
	})
	if outcome != "ok" {
		res = nil
	}
	return map[string]any{"outcome": outcome, "v": projVal(res), "srcBefore": before, "srcAfter": digest(val)}, msg
}

// --------------------------------------------------- family patch / rpatch

var (
	xrGVK = schema.GroupVersionKind{Group: "ex.org", Version: "v1", Kind: "XThing"}
	cdGVK = schema.GroupVersionKind{Group: "ex.org", Version: "v1", Kind: "Thing"}
)

// the source and target skeletons documented in Patches.tla
func sourceContent(v valIn, gvk schema.GroupVersionKind, name string) map[string]any {
	return map[string]any{"apiVersion": gvk.GroupVersion().String(), "kind": gvk.Kind, "metadata": map[string]any{"name": name},
		"spec": map[string]any{"val": mkValue(v), "wrap": []any{mkValue(v)}, "str": "s", "nul": nil, "obj": map[string]any{"k": "v"}}}
}

func targetContent(gvk schema.GroupVersionKind, name string) map[string]any {
	return map[string]any{"apiVersion": gvk.GroupVersion().String(), "kind": gvk.Kind, "metadata": map[string]any{"name": name},
		"spec": map[string]any{"str": "s", "obj": map[string]any{"a": "old", "z": true}, "lst": []any{"a"},
			"items": []any{map[string]any{"v": "p"}, map[string]any{"v": "q"}}}}
}

var probes = map[string]string{"out": "spec.out", "n3": "spec.n1.n2.n3", "ann": "metadata.annotations[x.y/z]", "obj": "spec.obj",
	"lst": "spec.lst", "items": "spec.items", "val": "spec.val", "wrap": "spec.wrap", "kind": "kind"}

func probe(content map[string]any) map[string]any {
	out := map[string]any{"none": ""}
	for k, p := range probes {
		v, err := fieldpath.Pave(content).GetValue(p)
		switch {
		case fieldpath.IsNotFound(err):
			out[k] = "<absent>"
		case err != nil:
			out[k] = "<error>"
		default:
			out[k] = canon(v)
		}
	}
	return out
}

// toXR tells whether a patch of this type reads the composed resource and writes the XR.
func toXR(pt string) bool { return pt == "ToCompositeFieldPath" || pt == "CombineToComposite" }

func runPatchLike(val valIn, srcIsXR bool, call func(xr *ucomposite.Unstructured, cd *composed.Unstructured) error) (map[string]any, string) {
	xr := ucomposite.New()
	cd := composed.New()
	if srcIsXR {
		xr.SetUnstructuredContent(sourceContent(val, xrGVK, "xr1"))
		cd.SetUnstructuredContent(targetContent(cdGVK, "cd1"))
	} else {
		cd.SetUnstructuredContent(sourceContent(val, cdGVK, "cd1"))
		xr.SetUnstructuredContent(targetContent(xrGVK, "xr1"))
	}
	src := func() map[string]any {
		if srcIsXR {
			return xr.UnstructuredContent()
		}
		return cd.UnstructuredContent()
	}
	tgt := func() map[string]any {
		if srcIsXR {
			return cd.UnstructuredContent()
		}
		return xr.UnstructuredContent()
	}
	sb, tb := digest(src()), digest(tgt())
	outcome, msg := guard(func() error { return call(xr, cd) })
	return map[string]any{"outcome": outcome, "srcBefore": sb, "srcAfter": digest(src()), "tgtBefore": tb, "tgtAfter": digest(tgt()), "at": probe(tgt())}, msg
}

func runPatch(in input) (map[string]any, string) {
	return runPatchLike(in.Val, !toXR(in.P.PType), func(xr *ucomposite.Unstructured, cd *composed.Unstructured) error {
		return composite.Apply(mkPatch(in.P), xr, cd)
	})
}

func runRPatch(in input) (map[string]any, string) {
	return runPatchLike(in.Val, in.Dir == "from", func(xr *ucomposite.Unstructured, cd *composed.Unstructured) error {
		if in.Dir == "from" {
			return composite.RenderFromCompositePatches(cd, xr, mkPatches(in.Ps))
		}
		return composite.RenderToCompositePatches(xr, cd, mkPatches(in.Ps))
	})
}

// ------------------------------------------------------------ sub meta

const (
	labelComposite = "crossplane.io/composite"
	labelClaimName = "crossplane.io/claim-name"
	labelClaimNS   = "crossplane.io/claim-namespace"
	annName        = "crossplane.io/composition-resource-name"
)

func runMeta(in input) (map[string]any, string) {
	xr := ucomposite.New(ucomposite.WithGroupVersionKind(xrGVK))
	xr.SetName("xr1")
	xr.SetUID("xr-uid")
	lb := map[string]string{}
	switch in.Label {
	case "present":
		lb[labelComposite] = "xr1"
	case "empty":
		lb[labelComposite] = ""
	}
	if in.Claim {
		lb[labelClaimName], lb[labelClaimNS] = "claim1", "ns1"
	}
	xr.SetLabels(lb)
	cd := composed.New()
	cd.SetGroupVersionKind(cdGVK)
	other := metav1.OwnerReference{APIVersion: "ex.org/v1", Kind: "XThing", Name: "other", UID: "other-uid"}
	switch in.Ctrl {
	case "same":
		cd.SetOwnerReferences([]metav1.OwnerReference{{APIVersion: "ex.org/v1", Kind: "XThing", Name: "xr1", UID: "xr-uid", Controller: ptr.To(true), BlockOwnerDeletion: ptr.To(true)}})
	case "other":
		other.Controller = ptr.To(true)
		cd.SetOwnerReferences([]metav1.OwnerReference{other})
	case "otherowner":
		cd.SetOwnerReferences([]metav1.OwnerReference{other})
	}
	sb := digest(xr.UnstructuredContent())
	outcome, msg := guard(func() error {
		return composite.RenderComposedResourceMetadata(cd, xr, composite.ResourceName(in.RName))
	})
	ctrl := ""
	if c := metav1.GetControllerOf(cd); c != nil {
		ctrl = string(c.UID)
	}
	lbl := func(k string) string {
		if v, ok := cd.GetLabels()[k]; ok {
			return v
		}
		return "<none>"
	}
	ann, ok := cd.GetAnnotations()[annName]
	if !ok {
		ann = "<none>"
	}
	return map[string]any{"outcome": outcome, "srcBefore": sb, "srcAfter": digest(xr.UnstructuredContent()), "gen": cd.GetGenerateName(), "ann": ann,
		"lbl": lbl(labelComposite), "claimName": lbl(labelClaimName), "claimNS": lbl(labelClaimNS), "ctrl": ctrl, "owners": len(cd.GetOwnerReferences())}, msg
}

// ------------------------------------------------------------ sub tmpl

func runTmpl(in input) (map[string]any, string) {
	fp := func(s string) v1.Patch {
		return v1.Patch{Type: v1.PatchTypeFromCompositeFieldPath, FromFieldPath: ptr.To(s)}
	}
	ps := func(n string) v1.Patch { return v1.Patch{Type: v1.PatchTypePatchSet, PatchSetName: ptr.To(n)} }
	tpl := func(n string, p ...v1.Patch) v1.ComposedTemplate {
		return v1.ComposedTemplate{Name: ptr.To(n), Patches: p}
	}
	var pss []v1.PatchSet
	var cts []v1.ComposedTemplate
	switch in.Shape {
	case "ok":
		pss = []v1.PatchSet{{Name: "ps1", Patches: []v1.Patch{fp("a"), fp("b")}}}
		cts = []v1.ComposedTemplate{tpl("t1", fp("x"), ps("ps1"), fp("y"))}
	case "two":
		pss = []v1.PatchSet{{Name: "ps1", Patches: []v1.Patch{fp("a")}}, {Name: "ps2", Patches: []v1.Patch{fp("b")}}}
		cts = []v1.ComposedTemplate{tpl("t1", ps("ps2"), ps("ps1")), tpl("t2", ps("ps1"))}
	case "none":
		cts = []v1.ComposedTemplate{tpl("t1", fp("x"))}
	case "undefined":
		pss = []v1.PatchSet{{Name: "ps1", Patches: []v1.Patch{fp("a")}}}
		cts = []v1.ComposedTemplate{tpl("t1", fp("x"), ps("nope"))}
	case "noname":
		pss = []v1.PatchSet{{Name: "ps1", Patches: []v1.Patch{fp("a")}}}
		cts = []v1.ComposedTemplate{tpl("t1", v1.Patch{Type: v1.PatchTypePatchSet})}
	case "nested":
		pss = []v1.PatchSet{{Name: "ps1", Patches: []v1.Patch{ps("ps2")}}, {Name: "ps2", Patches: []v1.Patch{fp("b")}}}
		cts = []v1.ComposedTemplate{tpl("t1", ps("ps1"))}
	}
	var res []v1.ComposedTemplate
	outcome, msg := guard(func() error {
		var err error
		res, err = composite.ComposedTemplates(pss, cts)
		return err
	})
	ids := []any{}
	if outcome == "ok" {
		for _, t := range res {
			one := []any{}
			for _, p := range t.Patches {
				one = append(one, string(p.Type)+":"+p.GetFromFieldPath())
			}
			ids = append(ids, one)
		}
	}
	return map[string]any{"outcome": outcome, "ids": ids}, msg
}

// --------------------------------------------------------- sub compose

var xrKey = simapi.Key{Group: "ex.org", Kind: "XThing", Name: "xr1"}

type world struct {
	s      *simapi.Server
	c, uc  *simapi.Client
	ids    map[string]string // real composed resource name -> o1, o2, ... by first appearance
	writes []any
	judged bool
	probeN int // availability probes (Gets of absent Things) seen in the judged Compose
	failAt int // fail the failAt-th probe (0 = none)
	noMatch bool // ... with "no matches for kind"
}

func (w *world) idOf(name string) string {
	if name == "" {
		return ""
	}
	if id, ok := w.ids[name]; ok {
		return id
	}
	id := fmt.Sprintf("o%d", len(w.ids)+1)
	w.ids[name] = id
	return id
}

func tname(i int) string { return fmt.Sprintf("t%d", i) }

func templates(in input, judged bool) []v1.ComposedTemplate {
	var out []v1.ComposedTemplate
	for i := 1; i <= in.N; i++ {
		if !judged && (in.Kind == "namegen" || in.Kind == "namegen-nomatch") && i == in.Fail {
			continue // the template whose name generation fails is new in the judged Compose
		}
		t := v1.ComposedTemplate{Name: ptr.To(tname(i)),
			Base:    runtime.RawExtension{Raw: []byte(fmt.Sprintf(`{"apiVersion":"ex.org/v1","kind":"Thing","spec":{"param":"%s"}}`, tname(i)))},
			Patches: []v1.Patch{{Type: v1.PatchTypeFromCompositeFieldPath, FromFieldPath: ptr.To("spec.size"), ToFieldPath: ptr.To("spec.size")}}}
		if judged && i == in.Fail {
			switch in.Kind {
			case "required":
				t.Patches = append(t.Patches, v1.Patch{Type: v1.PatchTypeFromCompositeFieldPath, FromFieldPath: ptr.To("spec.missing"), ToFieldPath: ptr.To("spec.m"),
					Policy: &v1.PatchPolicy{FromFieldPath: ptr.To(v1.FromFieldPathPolicyRequired)}})
			case "optional":
				t.Patches = append(t.Patches, v1.Patch{Type: v1.PatchTypeFromCompositeFieldPath, FromFieldPath: ptr.To("spec.missing"), ToFieldPath: ptr.To("spec.m"),
					Policy: &v1.PatchPolicy{FromFieldPath: ptr.To(v1.FromFieldPathPolicyOptional)}})
			case "transform":
				t.Patches = append(t.Patches, v1.Patch{Type: v1.PatchTypeFromCompositeFieldPath, FromFieldPath: ptr.To("spec.mode"), ToFieldPath: ptr.To("spec.mode"),
					Transforms: []v1.Transform{{Type: v1.TransformTypeConvert, Convert: &v1.ConvertTransform{ToType: v1.TransformIOTypeInt64}}}})
			case "topath":
				t.Patches = append(t.Patches, v1.Patch{Type: v1.PatchTypeFromCompositeFieldPath, FromFieldPath: ptr.To("spec.size"), ToFieldPath: ptr.To("spec.param.x")})
			}
		}
		out = append(out, t)
	}
	return out
}

func (w *world) compose(in input, judged bool) (string, string, int) {
	w.judged = judged
	w.c.BeginReconcile()
	cur := w.s.Peek(xrKey)
	xr := ucomposite.New()
	xr.SetUnstructuredContent(runtime.DeepCopyJSON(cur.Object))
	rev := &v1.CompositionRevision{ObjectMeta: metav1.ObjectMeta{Name: "rev1"}}
	rev.Spec.CompositeTypeRef = v1.TypeReference{APIVersion: "ex.org/v1", Kind: "XThing"}
	rev.Spec.Resources = templates(in, judged)
	ptc := composite.NewPTComposer(w.c, w.uc)
	events := 0
	outcome, msg := guard(func() error {
		res, err := ptc.Compose(context.Background(), xr, composite.CompositionRequest{Revision: rev})
		events = len(res.Events)
		return err
	})
	return outcome, msg, events
}

// byTemplate finds the stored Thing annotated with the template name.
func (w *world) byTemplate(t string) *unstructured.Unstructured {
	for _, o := range w.s.All(schema.GroupKind{Group: "ex.org", Kind: "Thing"}) {
		if o.GetAnnotations()[annName] == t {
			return o
		}
	}
	return nil
}

func (w *world) refNames() []string {
	var out []string
	xr := w.s.Peek(xrKey)
	rs, _, _ := unstructured.NestedSlice(xr.Object, "spec", "resourceRefs")
	for _, r := range rs {
		m, _ := r.(map[string]any)
		n, _ := m["name"].(string)
		out = append(out, n)
	}
	return out
}

func runCompose(in input) (map[string]any, string) {
	sch := runtime.NewScheme()
	_ = v1.AddToScheme(sch)
	_ = corev1.AddToScheme(sch)
	s := simapi.NewServer(sch)
	w := &world{s: s, ids: map[string]string{}}
	w.c = simapi.NewClient(s, "xr")
	icpt := func(cl *simapi.Call) simapi.Decision {
		if w.judged && cl.Key.Kind == "Thing" && cl.Verb == "get" && s.Peek(cl.Key) == nil {
			w.probeN++
			if w.probeN == w.failAt {
				if w.noMatch {
					return simapi.FailNoMatch
				}
				return simapi.FailError
			}
		}
		return simapi.Proceed
	}
	w.c.Intercept = icpt
	w.uc = w.c.Sibling("xr-uncached")
	s.OnEvent = func(e *simapi.Event) {
		if e.Kind != "Thing" {
			return
		}
		if e.Verb == "get" || e.Verb == "list" {
			if e.Outcome == "ok" {
				w.idOf(e.Name)
			}
			return
		}
		t := "?"
		for _, o := range []*unstructured.Unstructured{e.PostObj, e.PreObj} {
			if o != nil && o.GetAnnotations()[annName] != "" {
				t = o.GetAnnotations()[annName]
				break
			}
		}
		name := e.Name
		if e.PostObj != nil {
			name = e.PostObj.GetName()
		}
		id := w.idOf(name)
		if w.judged {
			w.writes = append(w.writes, map[string]any{"tpl": t, "verb": e.Verb, "applied": e.Applied && !e.DryRun, "noop": e.Noop, "outcome": e.Outcome, "obj": id})
		}
	}

	xr := &unstructured.Unstructured{Object: map[string]any{}}
	xr.SetGroupVersionKind(xrGVK)
	xr.SetName("xr1")
	if !(in.Kind == "label" && in.Phase == "create") {
		xr.SetLabels(map[string]string{labelComposite: "xr1"})
	}
	_ = unstructured.SetNestedField(xr.Object, "large", "spec", "size")
	_ = unstructured.SetNestedField(xr.Object, "abc", "spec", "mode")
	s.Put(xr)

	if in.Phase == "update" {
		// a healthy Compose first, then the XR changes
		if oc, msg, _ := w.compose(in, false); oc != "ok" {
			return map[string]any{"outcome": "setup-" + oc}, msg
		}
		s.Mutate(xrKey, func(u *unstructured.Unstructured) {
			_ = unstructured.SetNestedField(u.Object, "small", "spec", "size")
			if in.Kind == "label" {
				u.SetLabels(nil)
			}
		})
	}
	if in.Kind == "namegen" || in.Kind == "namegen-nomatch" {
		w.noMatch = in.Kind == "namegen-nomatch"
		w.failAt = in.Fail
		if in.Phase == "update" {
			w.failAt = 1
		}
	}
	wantSize, _, _ := unstructured.NestedString(s.Peek(xrKey).Object, "spec", "size")
	before := []any{}
	refs := map[string]bool{}
	for _, n := range w.refNames() {
		refs[n] = true
	}
	for i := 1; i <= in.N; i++ {
		id := ""
		if o := w.byTemplate(tname(i)); o != nil && refs[o.GetName()] {
			id = w.idOf(o.GetName())
		}
		before = append(before, id)
	}
	outcome, msg, events := w.compose(in, true)
	after := []any{}
	for _, n := range w.refNames() {
		after = append(after, w.idOf(n))
	}
	stored := []any{}
	for i := 1; i <= in.N; i++ {
		st := map[string]any{"tpl": tname(i), "exists": false, "size": "<none>", "obj": ""}
		if o := w.byTemplate(tname(i)); o != nil {
			st["exists"], st["obj"] = true, w.idOf(o.GetName())
			if sz, ok, _ := unstructured.NestedString(o.Object, "spec", "size"); ok {
				st["size"] = sz
			}
		}
		stored = append(stored, st)
	}
	if w.writes == nil {
		w.writes = []any{}
	}
	things := len(s.All(schema.GroupKind{Group: "ex.org", Kind: "Thing"}))
	return map[string]any{"outcome": outcome, "events": events, "writes": w.writes, "refsBefore": before, "refsAfter": after, "stored": stored,
		"wantSize": wantSize, "things": things, "probes": w.probeN}, msg
}

// ------------------------------------------------------------------ main

func runOnce(in input) (map[string]any, string) {
	switch in.Fam {
	case "transform":
		return runTransform(in)
	case "patch":
		return runPatch(in)
	case "render":
		switch in.Sub {
		case "rpatch":
			return runRPatch(in)
		case "meta":
			return runMeta(in)
		case "tmpl":
			return runTmpl(in)
		case "compose":
			return runCompose(in)
		}
	}
	panic("unknown family " + in.Fam + "/" + in.Sub)
}

type summary struct {
	Scenarios int            `json:"scenarios"`
	Runs      int            `json:"runs"`
	Events    int            `json:"events"`
	Counts    map[string]int `json:"counts"`
	Outcomes  map[string]int `json:"outcomes"`
	Panics    []any          `json:"panics"`
	Samples   []any          `json:"samples"`
}

func main() {
	scenarios := flag.String("scenarios", "", "NDJSON file of {id, input} vectors")
	tracePath := flag.String("trace", "", "output trace")
	sumPath := flag.String("summary", "", "output summary JSON")
	chunk := flag.Int("chunk", 0, "split the trace into files of about this many events")
	_ = flag.Int("seed", 1, "unused: the driver makes no random choice")
	flag.Parse()

	raws, err := scen.Load(*scenarios)
	if err != nil {
		fmt.Fprintln(os.Stderr, err)
		os.Exit(2)
	}
	tw, err := trace.New(*tracePath, *chunk)
	if err != nil {
		fmt.Fprintln(os.Stderr, err)
		os.Exit(2)
	}
	sum := &summary{Counts: map[string]int{}, Outcomes: map[string]int{}}
	seenSample := map[string]bool{}
	for _, rawSc := range raws {
		var sc struct {
			ID    string          `json:"id"`
			Input json.RawMessage `json:"input"`
		}
		if err := json.Unmarshal(rawSc, &sc); err != nil || len(sc.Input) == 0 {
			fmt.Fprintln(os.Stderr, "bad scenario:", err, string(rawSc))
			os.Exit(2)
		}
		var in input
		if err := json.Unmarshal(sc.Input, &in); err != nil {
			fmt.Fprintln(os.Stderr, "bad vector:", err, string(sc.Input))
			os.Exit(2)
		}
		tw.Boundary()
		out, msg := runOnce(in)
		out2, _ := runOnce(in)
		fam := in.Fam
		if in.Sub != "" {
			fam += "/" + in.Sub
		}
		ev := map[string]any{"ev": "vec", "scenario": sc.ID, "fam": in.Fam, "sub": in.Sub, "input": sc.Input, "out": out, "out2": out2, "msg": msg}
		tw.Emit(ev)
		sum.Scenarios++
		sum.Runs += 2
		sum.Counts[fam]++
		oc, _ := out["outcome"].(string)
		sum.Outcomes[fam+":"+oc]++
		if oc == "panic" && len(sum.Panics) < 20 {
			sum.Panics = append(sum.Panics, map[string]any{"id": sc.ID, "msg": msg})
		}
		if !seenSample[fam] {
			seenSample[fam] = true
			sum.Samples = append(sum.Samples, ev)
		}
	}
	sum.Events = tw.Lines
	if err := tw.Close(); err != nil {
		fmt.Fprintln(os.Stderr, err)
		os.Exit(2)
	}
	if err := scen.WriteJSON(*sumPath, sum); err != nil {
		fmt.Fprintln(os.Stderr, err)
		os.Exit(2)
	}
}
