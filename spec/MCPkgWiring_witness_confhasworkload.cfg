SPECIFICATION Spec
CONSTANTS
  Profiles <- Profiles1
  Perturb = "conf-has-workload"
CHECK_DEADLOCK FALSE
INVARIANTS RefConsistent
