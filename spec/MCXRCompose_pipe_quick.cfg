SPECIFICATION Spec
CONSTANTS
  Mode = "Pipeline"
  Names = {"a", "b"}
  MaxObjs = 4
  MaxRecs = 3
  MaxFaults = 1
  MaxEnv = 2
  ForeignAt = "none"
  RenderFails = FALSE
  CacheMisses = TRUE
  VerBumps = TRUE
  Forges = TRUE
  Legacies = TRUE
  FailKinds = {"fnerror1", "fatal2", "reqlabel2", "reqflip2"}
VIEW view
ACTION_CONSTRAINT Emit
CHECK_DEADLOCK FALSE
INVARIANTS NoLeak AtMostOne StepProps GcExact
PROPERTIES NameStable
