SPECIFICATION Spec
CONSTANTS
  Kind = "provider"
  Starts <- StartsUp
  Certs <- BoolT
  Tmpls <- TmplEdge
  Drc0 <- DrcNamed
  EnvKinds <- EnvMid
  Interf <- InterfDeps
  MaxEdits = 1
  MaxFaults = 1
  MaxRecs = 2
  MaxNest = 1
  MidEnv = TRUE
  GuardInactive = TRUE
  GuardHealth = TRUE
  OwnDelete = FALSE
  CacheMiss = TRUE
VIEW view
ACTION_CONSTRAINT Emit
CHECK_DEADLOCK FALSE
PROPERTIES InactiveNeverCreates Owned Order HealthTruth
