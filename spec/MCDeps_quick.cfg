SPECIFICATION Spec
CONSTANTS
  DagPlain <- N3
  DagMixed <- N2
  PointVers <- PointAll
  PointCons <- AllCons
  ListPool <- Pool7
  ListMax = 3
  ListCons <- FewCons
  UpdCons <- UCons5
  UpdIvs <- UIvs4
  UpdPool <- UPool5
  UpdMax = 2
  ResCons <- RCons4
  ResVers <- RVers2
  ResTargets <- TgtSAB
  ResSelf <- TgtAB
ACTION_CONSTRAINT Emit
CHECK_DEADLOCK FALSE
INVARIANTS RefDag RefInstall RefUpdate
