#!/usr/bin/env python3
"""Anti-vacuity self test of the X07 check (run by hand: python3 checks/x07_selftest.py [mutant-name ...]).

1. the witness configurations of the model (a guard switched off / the code as written must violate the named invariant,
   the candidate repair must hold it);
2. sanity mutants of the real code (pkg/manager/reconciler.go, pkg/manager/revisioner.go, pkg/revision/reconciler.go,
   xpkg/config.go), applied ONLY through `go build -overlay` on scratch copies under /verif/.work/X07/selftest (nothing is
   written to /repo): each must make MonPkgLifecycle report the expected formulas (formulas that do not fire, or fire less
   often, on the unchanged tree); among them the reverts of the repairs of the findings F-a and F-c;
3. seeded corruption of one recorded field of a real trace: MonPkgLifecycle must reject exactly that line."""
import json
import os
import subprocess
import sys

sys.path.insert(0, os.path.dirname(os.path.dirname(os.path.abspath(__file__))))
import vlib  # noqa: E402
from checks import x07  # noqa: E402

MGR = "/repo/internal/controller/pkg/manager/reconciler.go"
RVR = "/repo/internal/controller/pkg/manager/revisioner.go"
REV = "/repo/internal/controller/pkg/revision/reconciler.go"
CFG = "/repo/internal/xpkg/config.go"
MUTANTS = [
    # (name, file, old text, new text, formulas that must fire)
    ("mgr-pause-only-before-first-install", MGR,
     "\tif meta.IsPaused(p) {", "\tif meta.IsPaused(p) && p.GetCurrentRevision() == \"\" {",
     ["Paused.Calls"]),
    ("mgr-config-secret-replaces-own-secrets", RVR,
     "\t\tps = append(ps, extraPullSecrets...)", "\t\tps = extraPullSecrets",
     ["Secrets.OwnKept"]),
    ("imageconfig-first-match-instead-of-longest", CFG,
     "\t\t\tif strings.HasPrefix(image, m.Prefix) && len(m.Prefix) > longest {",
     "\t\t\tif strings.HasPrefix(image, m.Prefix) && longest == 0 {",
     ["Select.Longest"]),
    ("mgr-skip-dependency-resolution-not-handed-down", MGR,
     "\tpr.SetSkipDependencyResolution(p.GetSkipDependencyResolution())\n", "",
     ["Mgr.HandDown.SkipDependencies"]),
    ("mgr-new-revision-keeps-old-package-health", MGR,
     "\tif prHealthy := pr.GetCondition(v1.TypeHealthy); prHealthy.Status == corev1.ConditionUnknown {",
     "\tif prHealthy := pr.GetCondition(v1.TypeHealthy); prHealthy.Status == corev1.ConditionUnknown && pr.GetUID() != \"\" {",
     ["Mgr.Health.Mirror"]),
    ("mgr-hands-down-to-old-revisions-too", MGR,
     "\t\t\trev.SetDesiredState(v1.PackageRevisionInactive)\n",
     "\t\t\trev.SetDesiredState(v1.PackageRevisionInactive)\n\t\t\trev.SetPackagePullPolicy(p.GetPackagePullPolicy())\n\t\t\trev.SetIgnoreCrossplaneConstraints(p.GetIgnoreCrossplaneConstraints())\n",
     ["Mgr.Deactivate.Only"]),
    # (dropping the guard from the Apply of the CURRENT revision changes nothing: the API server refuses a second
    #  controller reference)
    ("mgr-deactivates-foreign-revision", MGR,
     "\t\t\tif err := r.client.Apply(ctx, rev, resource.MustBeControllableBy(p.GetUID())); err != nil {",
     "\t\t\tif err := r.client.Apply(ctx, rev); err != nil {",
     ["Mgr.Foreign.Untouched"]),
    ("mgr-polls-unless-never", MGR,
     "\tif p != nil && *p == corev1.PullAlways {", "\tif p != nil && *p != corev1.PullNever {",
     ["Mgr.Requeue.Final"]),
    ("mgr-status-written-after-failed-apply", MGR,
     "\t\terr = errors.Wrap(err, errApplyPackageRevision)\n\t\tr.record.Event(p, event.Warning(reasonInstall, err))\n\t\treturn reconcile.Result{}, err\n\t}\n\n\t// Handle changes in labels",
     "\t\terr = errors.Wrap(err, errApplyPackageRevision)\n\t\tr.record.Event(p, event.Warning(reasonInstall, err))\n\t\t_ = r.client.Status().Update(ctx, p)\n\t\treturn reconcile.Result{}, err\n\t}\n\n\t// Handle changes in labels",
     ["Mgr.Exit.NoStatus"]),
    ("rev-deletion-beats-pause", REV,
     "\tif meta.IsPaused(pr) {", "\tif meta.IsPaused(pr) && !meta.WasDeleted(pr) {",
     ["Paused.Calls", "Rev.Finalizer.Kept"]),
    ("rev-lock-error-ignored-on-deletion", REV,
     "\t\t// resolution, we will not be present in the lock.\n\t\tif err := r.lock.RemoveSelf(ctx, pr); err != nil {",
     "\t\t// resolution, we will not be present in the lock.\n\t\tif err := r.lock.RemoveSelf(ctx, pr); err != nil && kerrors.IsConflict(err) {",
     ["Rev.Deleting.LockStage"]),
    ("rev-cache-entry-not-removed", REV,
     "\t\tif err := r.cache.Delete(pr.GetName()); err != nil {", "\t\tif err := error(nil); err != nil {",
     ["Rev.Deleting.CacheFirst", "Settled.Gone.CacheEntry"]),
    ("rev-finalizer-skipped", REV,
     "\tif err := r.revision.AddFinalizer(ctx, pr); err != nil {", "\tif err := error(nil); err != nil {",
     ["Rev.Finalizer.First", "Settled.Rev.Finalizer"]),
    ("rev-inactive-goes-on-although-it-knows-its-objects", REV,
     "\t\tif len(pr.GetObjects()) > 0 {", "\t\tif len(pr.GetObjects()) > 1 {",
     ["Rev.Inactive.WithRefs"]),
    ("rev-establish-always-controls", REV,
     "\trefs, err := r.objects.Establish(ctx, pkg.GetObjects(), pr, pr.GetDesiredState() == v1.PackageRevisionActive)",
     "\trefs, err := r.objects.Establish(ctx, pkg.GetObjects(), pr, true)",
     ["Rev.Establish.Control"]),
    ("rev-lint-failure-without-condition", REV,
     "\t\terr = errors.Wrap(err, errLintPackage)\n\t\tpr.SetConditions(v1.Unhealthy().WithMessage(err.Error()))\n",
     "\t\terr = errors.Wrap(err, errLintPackage)\n",
     ["Rev.Exit.Condition"]),
    ("rev-version-gate-inverted", REV,
     "\tif pr.GetIgnoreCrossplaneConstraints() == nil || !*pr.GetIgnoreCrossplaneConstraints() {",
     "\tif pr.GetIgnoreCrossplaneConstraints() != nil && *pr.GetIgnoreCrossplaneConstraints() {",
     ["Rev.Order.Gate"]),
    ("rev-polls-after-success", REV,
     "\tpr.SetConditions(v1.Healthy())\n\treturn reconcile.Result{Requeue: false}, errors.Wrap(",
     "\tpr.SetConditions(v1.Healthy())\n\treturn reconcile.Result{RequeueAfter: time.Minute}, errors.Wrap(",
     ["Rev.Requeue.NeverPolls"]),
    ("rev-post-hook-before-establish-result-recorded", REV,
     "\t\t\terr = errors.Wrap(err, errPostHook)\n\t\t\tpr.SetConditions(v1.Unhealthy().WithMessage(err.Error()))\n",
     "\t\t\terr = errors.Wrap(err, errPostHook)\n\t\t\tpr.SetConditions(v1.Healthy())\n",
     ["Rev.Exit.Condition", "Rev.Exit.HealthyTrue"]),
]
# the reverts of the repairs of the findings F-a (5d1ffe1) and F-c (5866e3a): their formulas must fire again
MUTANTS += [
    ("revert-5d1ffe1-removed-optional-fields-stay-on-the-revision", MGR,
     "\tsame := reflect.DeepEqual(pr.GetCommonLabels(), p.GetCommonLabels()) &&\n\t\t(len(pr.GetPackagePullSecrets()) == 0 || len(p.GetPackagePullSecrets()) > 0)\n"
     "\tif pwok && prok && prwr.GetControllerConfigRef() != nil && pwr.GetControllerConfigRef() == nil {\n\t\tsame = false\n\t\tprwr.SetControllerConfigRef(nil)\n\t}\n"
     "\tif !same {\n\t\tpr.SetCommonLabels(p.GetCommonLabels())\n\t\tpr.SetPackagePullSecrets(p.GetPackagePullSecrets())\n",
     "\tsame := reflect.DeepEqual(pr.GetCommonLabels(), p.GetCommonLabels())\n\tif !same {\n\t\tpr.SetCommonLabels(p.GetCommonLabels())\n",
     ["Mgr.HandDown.PullSecrets.Removed", "Mgr.HandDown.ControllerConfigRef.Removed", "Settled.HandDown.Removed"]),
    ("revert-5866e3a-manual-policy-leaves-the-desired-state-empty", MGR,
     "\tif pr.GetDesiredState() == \"\" {\n\t\tpr.SetDesiredState(v1.PackageRevisionInactive)\n\t}\n", "",
     ["Mgr.Activate.Manual", "Mgr.Activate.Defined", "Settled.Rev.Health.UndefinedState"]),
]


def build_mutant(ctx, name, path, old, new):
    src = open(path).read()
    if src.count(old) != 1:
        raise SystemExit("mutant %s: anchor text occurs %d times in %s" % (name, src.count(old), path))
    d = os.path.join(ctx.work, "mutants", name)
    os.makedirs(d, exist_ok=True)
    mp = os.path.join(d, os.path.basename(path))
    with open(mp, "w") as f:
        f.write(src.replace(old, new))
    ov = os.path.join(d, "overlay.json")
    with open(ov, "w") as f:
        json.dump({"Replace": {path: mp}}, f)
    out = os.path.join(d, "pkglifecycle")
    e = dict(os.environ)
    e.update(vlib.GOENV)
    p = subprocess.run(["go", "build", "-overlay", ov, "-o", out, "./drivers/pkglifecycle"], cwd=vlib.HARNESS, env=e,
                       stdout=subprocess.PIPE, stderr=subprocess.STDOUT, text=True)
    if p.returncode != 0:
        raise SystemExit("mutant %s does not build:\n%s" % (name, p.stdout[-3000:]))
    return out


def judge(ctx, binp, scs, tag):
    prefix, _ = ctx.run_sharded(binp, scs, ["-sweep", "0", "-chunk", "60000"], shards=6, name="trace_" + tag)
    viols, _ = ctx.monitor("MonPkgLifecycle", prefix)
    by = {}
    for f, _, _ in viols:
        by[f] = by.get(f, 0) + 1
    return by, prefix


def main():
    only = set(sys.argv[1:])
    ctx = vlib.Ctx("X07/selftest", "quick", 1)
    ok = True
    if not only:
        for name, expect in x07.WITNESS:
            mc = ctx.model_check(x07.MODULE, "%s_%s.cfg" % (x07.MODULE, name), sub="mc_" + name, workers=1, timeout=300, expect_violations=expect)
            print("model %-40s violated %s (expected %s)" % (name, mc["violated"], expect), flush=True)
    scs = [s for s in x07.regression()]
    for name, n in x07.QUICK:
        mc = ctx.model_check(x07.MODULE, "%s_%s.cfg" % (x07.MODULE, name), sub="mc_" + name, workers=8, timeout=300)
        scs += [{"id": "X07-%s-%07d" % (name, i), "hist": h} for i, h in x07.sample(ctx, mc, n)]
    base, prefix = judge(ctx, ctx.go_build("./drivers/pkglifecycle"), scs, "base")
    print("unchanged tree:", base, flush=True)
    for name, path, old, new, expect in MUTANTS:
        if only and name not in only:
            continue
        got, _ = judge(ctx, build_mutant(ctx, name, path, old, new), scs, name)
        raised = {f: n for f, n in got.items() if n > base.get(f, 0)}
        hit = all(f in raised for f in expect)
        ok &= hit
        print("mutant %-52s %s  new/raised: %s" % (name, "DETECTED" if hit else "MISSED (expected %s)" % expect, raised), flush=True)
    if only:
        print("selftest (subset)", "PASSED" if ok else "FAILED")
        return 0 if ok else 1

    # seeded corruption of recorded fields of a real trace
    first = sorted(f for f in os.listdir(ctx.work) if f.startswith(os.path.basename(prefix)))[0]
    lines = open(os.path.join(ctx.work, first)).read().splitlines()

    def rev(e, a=None):
        return [r for r in e["post"]["revs"] if r["name"] == (a or e["tgt"])][0]
    corruptions = [
        ("establisher ran before the finalizer was there", lambda p, e: e["ev"] == "seam" and e["cls"] == "establish",
         lambda e: e["arg"].update(fin=False), "Rev.Finalizer.First"),
        ("establisher was told to control for an Inactive revision", lambda p, e: e["ev"] == "seam" and e["cls"] == "establish" and e["seen"]["des"] == "Active",
         lambda e: e["seen"].update(des="Inactive"), "Rev.Establish.Control"),
        ("registry got the config's secret instead of the package's own", lambda p, e: e["ev"] == "seam" and e["cls"] == "head" and len(e["seen"]["secs"]) == 1,
         lambda e: e["arg"].update(secrets=["stranger"]), "Secrets.OwnKept"),
        ("package Healthy=True although the listed revision was not", lambda p, e: e["ev"] == "call" and e["abs"] == "status:pkg" and e["outcome"] == "ok"
         and e["post"]["pkg"]["healthy"] == "True:HealthyPackageRevision" and e["listed"],
         lambda e: [x.update(healthy="none") for x in e["listed"]], "Mgr.Health.Mirror"),
        ("pull policy not handed down", lambda p, e: e["ev"] == "call" and e["actor"] == "mgr" and e["cls"] in ("patch", "create") and e["outcome"] == "ok"
         and rev(e, e["name"])["ex"] and rev(e, e["name"])["des"] == "Active",
         lambda e: rev(e, e["name"]).update(pull="Never"), "Mgr.HandDown.PullPolicy"),
        ("write by a reconcile that read a paused revision", lambda p, e: e["ev"] == "call" and e["actor"] == "rev" and e["cls"] == "status" and e["seen"]["paused"],
         lambda e: e.update(cls="meta", abs="meta:" + e["tgt"]), "Paused.Calls"),
        ("Healthy=True without the Post hook", lambda p, e: e["ev"] == "call" and e["actor"] == "rev" and e["cls"] == "status" and e["outcome"] == "ok"
         and "post:ok" in e["stages"], lambda e: e.update(stages=[s for s in e["stages"] if s != "post:ok"]), "Rev.Exit.HealthyTrue"),
        ("finalizer gone although the cache entry is still there", lambda p, e: e["ev"] == "call" and e["cls"] == "rmfin" and e["applied"],
         lambda e: e["post"].update(cache=e["post"]["cache"] + [e["tgt"]]), "Rev.Deleting.CacheFirst"),
        ("revision reconciler asks to be polled", lambda p, e: e["ev"] == "end" and e["actor"] == "rev" and e["result"] == "ok",
         lambda e: e.update(after=60000), "Rev.Requeue.NeverPolls"),
        ("world changed in a steady reconcile", lambda p, e: e["ev"] == "end" and e["steady"] and not e["prevCleaning"] and e["actor"] == "rev",
         lambda e: e.update(prevDigest="0000"), "Rev.Quiescent"),
        ("aftermath did not come to rest", lambda p, e: e["ev"] == "settled" and e["stable"] and e["post"]["pkg"]["inst"] != "False:InactivePackageRevision",
         lambda e: e.update(stable=False), "Settled.Stable"),
    ]
    for what, pick, mutate, formula in corruptions:
        idx = None
        for i in range(1, len(lines)):
            if pick(json.loads(lines[i - 1]), json.loads(lines[i])):
                idx = i
                break
        if idx is None:
            ok = False
            print("corruption %-62s NO CANDIDATE LINE" % what)
            continue
        e = json.loads(lines[idx])
        mutate(e)
        lo = max(0, idx - 60)
        cp = os.path.join(ctx.work, "corrupt.ndjson")
        with open(cp, "w") as f:
            f.write("\n".join(lines[lo:idx] + [json.dumps(e)] + lines[idx + 1:idx + 60]) + "\n")
        viols, _ = ctx.monitor("MonPkgLifecycle", cp)
        hit = any(f == formula and ln == idx - lo + 1 for f, ln, _ in viols)
        ok &= hit
        print("corruption %-62s line %d: %s" % (what, idx + 1, "REJECTED by " + formula if hit else "NOT NOTICED %s" % viols[:5]), flush=True)
    print("selftest", "PASSED" if ok else "FAILED")
    return 0 if ok else 1


if __name__ == "__main__":
    sys.exit(main())
