SPECIFICATION Spec
CONSTANTS
  CSeq <- CSeq3
  Shape <- Shape3
  InitC = {"c1", "c2", "c3"}
  Sels = {"none"}
  MaxEdits = 2
  MaxStrips = 1
  MaxFaults = 0
  MaxRecs = 4
  MidEnv = FALSE
  MidFetch = FALSE
  FixLatest = FALSE
VIEW view
CHECK_DEADLOCK FALSE
INVARIANTS CurrentHighest
