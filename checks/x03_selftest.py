#!/usr/bin/env python3
"""Anti-vacuity self test of the X03 check (run by hand: python3 checks/x03_selftest.py [mutant-name ...]).

1. sanity mutants of the real code (composite/reconciler.go, composite/api.go, definition/reconciler.go), applied ONLY
   through `go build -overlay` on scratch copies under /verif/.work/X03/selftest (nothing is written to /repo): each must
   make MonXRLifecycle report the expected formulas (formulas that do not fire, or fire less often, on the unchanged tree);
2. seeded corruption of one recorded field of a real trace: MonXRLifecycle must reject exactly that line."""
import json
import os
import subprocess
import sys

sys.path.insert(0, os.path.dirname(os.path.dirname(os.path.abspath(__file__))))
import vlib  # noqa: E402
from checks import x03  # noqa: E402

XP = "/repo/internal/controller/apiextensions/"
REC = XP + "composite/reconciler.go"
API = XP + "composite/api.go"
DEF = XP + "definition/reconciler.go"
MUTANTS = [
    # (name, file, old text, new text, formulas that must fire)
    ("pause-only-once-finalized", REC,
     "\tif meta.IsPaused(xr) {", "\tif meta.IsPaused(xr) && meta.FinalizerExists(xr, finalizer) {",
     ["Paused.OnlyStatus", "Paused.Calls"]),
    ("unpublish-error-ignored", REC,
     "\t\tif err := r.composite.UnpublishConnection(ctx, xr, nil); err != nil {",
     "\t\tif err := r.composite.UnpublishConnection(ctx, xr, nil); err != nil && len(xr.GetFinalizers()) == 0 {",
     ["Deleting.UnpublishFirst"]),
    ("addfinalizer-error-ignored", REC,
     "\tif err := r.composite.AddFinalizer(ctx, xr); err != nil {",
     "\tif err := r.composite.AddFinalizer(ctx, xr); err != nil && kerrors.IsConflict(err) {",
     # (the finalizer set in memory is persisted by the next Update / patch of the XR, so the ordering survives; what
     #  breaks is "a failed call ends in Synced=False")
     ["Exit.SyncedFalse", "Requeue.OnFailure"]),
    ("addfinalizer-skipped", REC,
     "\tif err := r.composite.AddFinalizer(ctx, xr); err != nil {",
     "\tif err := error(nil); err != nil {",
     ["Finalizer.BeforeCompose", "Finalizer.BeforePublish"]),
    ("deleting-still-composes", REC,
     "\tif meta.WasDeleted(xr) {", "\tif meta.WasDeleted(xr) && !meta.FinalizerExists(xr, finalizer) {",
     ["Deleting.NoCompose", "Deleting.Calls"]),
    ("selector-ignores-version", API,
     "\t\tif comp.Spec.CompositeTypeRef.APIVersion == v && comp.Spec.CompositeTypeRef.Kind == k {",
     "\t\tif v != \"\" && comp.Spec.CompositeTypeRef.Kind == k {",
     ["Select.Compatible"]),
    ("enforced-only-when-unset", API,
     "\tif cp.GetCompositionReference() != nil && cp.GetCompositionReference().Name == s.def.Spec.EnforcedCompositionRef.Name {",
     "\tif cp.GetCompositionReference() != nil {",
     ["Compose.Ref"]),
    ("default-beats-selector", API,
     "\tif cp.GetCompositionReference() != nil || cp.GetCompositionSelector() != nil {",
     "\tif cp.GetCompositionReference() != nil {",
     ["Select.Compatible"]),
    ("naming-overwrites-user-label", API,
     "\tif cp.GetLabels()[xcrd.LabelKeyNamePrefixForComposed] != \"\" {",
     "\tif cp.GetLabels()[xcrd.LabelKeyNamePrefixForComposed] == cp.GetName() {",
     ["Configure.LabelKept"]),
    ("configurator-overwrites-secret-ref", API,
     "\tif cp.GetWriteConnectionSecretToReference() != nil || rev.Spec.WriteConnectionSecretsToNamespace == nil {",
     "\tif rev.Spec.WriteConnectionSecretsToNamespace == nil || (cp.GetWriteConnectionSecretToReference() != nil && cp.GetWriteConnectionSecretToReference().Name == string(cp.GetUID())) {",
     ["Configure.SecretRefKept"]),
    ("configurator-drops-version-check", API,
     "\tif rev.Spec.CompositeTypeRef.APIVersion != apiVersion || rev.Spec.CompositeTypeRef.Kind != kind {",
     "\tif apiVersion == \"\" || rev.Spec.CompositeTypeRef.Kind != kind {",
     ["Compose.Compatible"]),
    ("validation-skipped", REC,
     "\tif err := r.revision.Validate(rev); err != nil {", "\tif err := r.revision.Validate(rev); err != nil && rev == nil {",
     ["Compose.Valid"]),
    ("select-failure-without-condition", REC,
     "\t\terr = errors.Wrap(err, errSelectComp)\n\t\tr.record.Event(xr, event.Warning(reasonResolve, err))\n\t\txr.SetConditions(xpv1.ReconcileError(err))\n",
     "\t\terr = errors.Wrap(err, errSelectComp)\n\t\tr.record.Event(xr, event.Warning(reasonResolve, err))\n",
     ["Repair.Reason"]),
    ("wiring-label-selector-before-enforced", DEF,
     "\t\t\tcomposite.NewEnforcedCompositionSelector(*d, r.record),\n\t\t\tcomposite.NewAPIDefaultCompositionSelector(r.engine.GetCached(), *meta.ReferenceTo(d, v1.CompositeResourceDefinitionGroupVersionKind), r.record),\n\t\t\tcomposite.NewAPILabelSelectorResolver(r.engine.GetCached()),\n",
     "\t\t\tcomposite.NewAPIDefaultCompositionSelector(r.engine.GetCached(), *meta.ReferenceTo(d, v1.CompositeResourceDefinitionGroupVersionKind), r.record),\n\t\t\tcomposite.NewAPILabelSelectorResolver(r.engine.GetCached()),\n\t\t\tcomposite.NewEnforcedCompositionSelector(*d, r.record),\n",
     ["Select.Enforced"]),
    ("poll-jitter-too-wide", REC,
     "(float64(interval)*0.1))", "(float64(interval)*0.6))",
     ["Requeue.Poll"]),
]


def build_mutant(ctx, name, path, old, new):
    src = open(path).read()
    if src.count(old) != 1:
        raise SystemExit("mutant %s: anchor text occurs %d times in %s" % (name, src.count(old), path))
    d = os.path.join(ctx.work, "mutants", name)
    os.makedirs(d, exist_ok=True)
    mp = os.path.join(d, os.path.basename(path))
    with open(mp, "w") as f:
        f.write(src.replace(old, new))
    ov = os.path.join(d, "overlay.json")
    with open(ov, "w") as f:
        json.dump({"Replace": {path: mp}}, f)
    out = os.path.join(d, "xrlifecycle")
    e = dict(os.environ)
    e.update(vlib.GOENV)
    p = subprocess.run(["go", "build", "-overlay", ov, "-o", out, "./drivers/xrlifecycle"], cwd=vlib.HARNESS, env=e,
                       stdout=subprocess.PIPE, stderr=subprocess.STDOUT, text=True)
    if p.returncode != 0:
        raise SystemExit("mutant %s does not build:\n%s" % (name, p.stdout[-3000:]))
    return out


def judge(ctx, binp, scs, tag):
    prefix, _ = ctx.run_sharded(binp, scs, ["-sweep", "0", "-chunk", "60000"], shards=6, name="trace_" + tag)
    viols, _ = ctx.monitor("MonXRLifecycle", prefix)
    by = {}
    for f, _, _ in viols:
        by[f] = by.get(f, 0) + 1
    return by, prefix


def main():
    only = set(sys.argv[1:])
    ctx = vlib.Ctx("X03/selftest", "quick", 1)
    scs = x03.regression()
    for name, n in x03.QUICK:
        mc = ctx.model_check(x03.MODULE, "%s_%s.cfg" % (x03.MODULE, name), sub="mc_" + name, workers=8, timeout=300)
        scs += [{"id": "X03-%s-%07d" % (name, i), "hist": h} for i, h in ctx.sample_lines(mc["emitted_file"], n, mc["emitted"])]
    ok = True
    base, prefix = judge(ctx, ctx.go_build("./drivers/xrlifecycle"), scs, "base")
    print("unchanged tree:", base, flush=True)
    for name, path, old, new, expect in MUTANTS:
        if only and name not in only:
            continue
        got, _ = judge(ctx, build_mutant(ctx, name, path, old, new), scs, name)
        raised = {f: n for f, n in got.items() if n > base.get(f, 0)}
        hit = all(f in raised for f in expect)
        ok &= hit
        print("mutant %-40s %s  new/raised: %s" % (name, "DETECTED" if hit else "MISSED (expected %s)" % expect, raised), flush=True)
    if only:
        print("selftest (subset)", "PASSED" if ok else "FAILED")
        return 0 if ok else 1

    # seeded corruption of recorded fields of a real trace
    first = sorted(f for f in os.listdir(ctx.work) if f.startswith(os.path.basename(prefix)))[0]
    lines = open(os.path.join(ctx.work, first)).read().splitlines()

    def xr(e):
        return e["post"]["xr"]
    corruptions = [
        ("composer ran without the finalizer", lambda p, e: e["ev"] == "compose",
         lambda e: e["arg"].update(fin=False), "Finalizer.BeforeCompose"),
        ("composer ran with an incompatible revision", lambda p, e: e["ev"] == "compose",
         lambda e: e["arg"].update(compat=False), "Compose.Compatible"),
        ("composer ran for a deleting XR", lambda p, e: e["ev"] == "compose",
         lambda e: e["seen"].update(**{"del": True}), "Deleting.NoCompose"),
        ("naming label rewritten", lambda p, e: e["ev"] == "call" and xr(p)["ex"] and xr(e)["ex"] and xr(p)["lab"] == "xr1" and e["scenario"] == p["scenario"],
         lambda e: xr(e).update(lab="other"), "Configure.LabelKept"),
        ("reference changed without an enforced one", lambda p, e: e["ev"] == "call" and xr(p)["ex"] and xr(e)["ex"] and xr(p)["ref"] == "c1"
         and e["post"]["xrd"]["captured"] == "none" and e["scenario"] == p["scenario"],
         lambda e: xr(e).update(ref="cv"), "Select.RefStable"),
        ("metadata write to a paused XR", lambda p, e: e["ev"] == "call" and e["abs"] == "status:xr" and e["applied"] and xr(p)["paused"] and e["scenario"] == p["scenario"],
         lambda e: e.update(verb="update"), "Paused.OnlyStatus"),
        ("Synced=True without composing", lambda p, e: e["ev"] == "call" and e["abs"] == "status:xr" and e["outcome"] == "ok"
         and xr(e)["synced"] == "True:ReconcileSuccess" and e["composed"] == "ok" and not e["seen"]["del"],
         lambda e: e.update(composed="none"), "Exit.SyncedTrueNeedsCompose"),
        ("finalizer removed although unpublish did not succeed", lambda p, e: e["ev"] == "call" and e["abs"] == "rmfin:xr" and e["applied"],
         lambda e: e.update(unpub=False), "Deleting.UnpublishFirst"),
        ("requeue after success far off the poll interval", lambda p, e: e["ev"] == "end" and e["result"] == "ok" and e["composed"] == "ok"
         and not e["fails"] and e["after"] > 0, lambda e: e.update(after=10000), "Requeue.Poll"),
        ("world changed in a steady reconcile", lambda p, e: e["ev"] == "end" and e["steady"] and not e["seen"]["del"],
         lambda e: e.update(prevDigest="0000"), "Quiescent"),
    ]
    for what, pick, mutate, formula in corruptions:
        idx = None
        for i in range(1, len(lines)):
            if pick(json.loads(lines[i - 1]), json.loads(lines[i])):
                idx = i
                break
        if idx is None:
            ok = False
            print("corruption %-52s NO CANDIDATE LINE" % what)
            continue
        e = json.loads(lines[idx])
        mutate(e)
        lo = max(0, idx - 60)
        cp = os.path.join(ctx.work, "corrupt.ndjson")
        with open(cp, "w") as f:
            f.write("\n".join(lines[lo:idx] + [json.dumps(e)] + lines[idx + 1:idx + 60]) + "\n")
        viols, _ = ctx.monitor("MonXRLifecycle", cp)
        hit = any(f == formula and ln == idx - lo + 1 for f, ln, _ in viols)
        ok &= hit
        print("corruption %-52s line %d: %s" % (what, idx + 1, "REJECTED by " + formula if hit else "NOT NOTICED %s" % viols[:5]), flush=True)
    print("selftest", "PASSED" if ok else "FAILED")
    return 0 if ok else 1


if __name__ == "__main__":
    sys.exit(main())
