package main

// Structural counterpart of the behavioural client log: which of the world's API clients an object REACHES through
// its fields (any visibility, through pointers, interfaces, slices, maps and wrappers), found by identity.

import (
	"reflect"
	"strings"
	"unsafe"
)

var skipPkgs = []string{"sync", "crypto", "google.golang.org", "k8s.io/apimachinery/pkg/runtime", "k8s.io/client-go", "net", "time", "context",
	"github.com/go-logr", "math", "regexp", "k8s.io/apimachinery/pkg/api/meta"}

type scanner struct {
	known map[uintptr]string
	seen  map[uintptr]bool
	out   map[string]bool
	tls   map[string]bool // "same" / "other" / "nil" for every *tls.Config field named tcfg met on the way
	w     *world
}

func (w *world) newScanner() *scanner {
	s := &scanner{known: map[uintptr]string{}, seen: map[uintptr]bool{}, out: map[string]bool{}, tls: map[string]bool{}, w: w}
	for name, c := range map[string]any{"mgr": w.mgrC, "cached": w.cachedC, "uncached": w.uncachedC, "apireader": w.apiReader, "xfn": theFnReader} {
		if c != nil {
			s.known[reflect.ValueOf(c).Pointer()] = name
		}
	}
	return s
}

func launder(f reflect.Value) reflect.Value {
	if f.CanAddr() {
		return reflect.NewAt(f.Type(), unsafe.Pointer(f.UnsafeAddr())).Elem()
	}
	return f
}

func (s *scanner) visit(v reflect.Value, depth int) {
	if !v.IsValid() || depth > 14 {
		return
	}
	switch v.Kind() {
	case reflect.Interface:
		if v.IsNil() {
			return
		}
		e := v.Elem()
		if e.Kind() == reflect.Struct {
			// a struct held by value in an interface is not addressable: work on a copy
			c := reflect.New(e.Type()).Elem()
			if e.CanInterface() {
				c.Set(e)
				s.visit(c, depth+1)
			}
			return
		}
		s.visit(e, depth+1)
	case reflect.Ptr:
		if v.IsNil() {
			return
		}
		p := v.Pointer()
		if name, ok := s.known[p]; ok {
			s.out[name] = true
			return
		}
		if s.seen[p] {
			return
		}
		s.seen[p] = true
		if v.Elem().Kind() == reflect.Struct && v.Elem().Type().String() == "tls.Config" {
			return
		}
		s.visit(v.Elem(), depth+1)
	case reflect.Struct:
		pk := v.Type().PkgPath()
		if pk == "main" {
			return // the driver's own stand-ins (they know the whole world)
		}
		for _, sp := range skipPkgs {
			if pk == sp || strings.HasPrefix(pk, sp+"/") || strings.HasPrefix(pk, sp+".") {
				return
			}
		}
		for i := 0; i < v.NumField(); i++ {
			f := launder(v.Field(i))
			if v.Type().Field(i).Name == "tcfg" && f.Kind() == reflect.Ptr {
				switch {
				case f.IsNil():
					s.tls["nil"] = true
				case f.Pointer() == reflect.ValueOf(s.w.tlsCfg).Pointer():
					s.tls["same"] = true
				default:
					s.tls["other"] = true
				}
				continue
			}
			s.visit(f, depth+1)
		}
	case reflect.Slice, reflect.Array:
		if v.Kind() == reflect.Slice && v.IsNil() {
			return
		}
		if v.Len() > 64 {
			return
		}
		for i := 0; i < v.Len(); i++ {
			s.visit(launder(v.Index(i)), depth+1)
		}
	case reflect.Map:
		if v.IsNil() || v.Len() > 64 {
			return
		}
		it := v.MapRange()
		for it.Next() {
			s.visit(it.Value(), depth+1)
		}
	}
}

// held lists the clients reachable from the values.
func (w *world) held(vs ...reflect.Value) ([]any, []any) {
	s := w.newScanner()
	for _, v := range vs {
		s.visit(v, 0)
	}
	return sortedSet(s.out), sortedSet(s.tls)
}
