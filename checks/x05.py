"""X05 (extension) - the schema-aware Composition validator is sound for the runtime, validates field paths against the right
schema, obeys its modes, and is total and deterministic.
Reference: spec/CompValidation.tla (the dynamic type flow of the runtime and the static typing of the validator over one
universe of field shapes / patch types / transforms); vectors: spec/MCCompValidation.tla (families patch, mode, ready, conn,
malformed; design-level invariant DesignSound + witness); driver: harness/drivers/compvalidation (the REAL library validator,
the REAL admission webhook on simapi in the modes strict / loose / warn, the schema-less Validate(), and the REAL runtime
Apply / IsReady / ExtractConnectionDetails on schema-conforming sample values); judge: spec/MonCompValidation.tla.
VIOL lines are violations, INFO lines (Complete.*, Precise.*, Total.WithoutLogicalValidation: the documentation is silent) and
DRIFT lines (Ref.*: the transcriptions no longer describe the code) are recorded in the evidence and never fail the check."""
import glob
import json
import os
import re

import vlib

PID = "X05"
MON_FORMULAS = ["Total.Validator", "Total.Webhook", "Total.Logical", "Total.Runtime", "Deterministic.Repeat", "Deterministic.Instance",
                "Sound.Applies", "Sound.ConvertObjectInput", "Sound.ConvertFormatOnInteger", "Sound.OptionalAbsent",
                "Path.FromInvalid", "Path.ToInvalid", "Path.Plain", "Mode.Agree.Strict", "Mode.Agree.Loose", "Mode.Agree.Warn",
                "Mode.Logical", "Mode.BadAnnotation", "Mode.LookupError", "Mode.FeatureOff", "Mode.Strict.MissingCRD", "Mode.Loose.MissingCRD",
                "Mode.Warn.MissingCRD", "Mode.Strict.SchemaError", "Mode.Loose.SchemaError", "Mode.Warn.SchemaError", "Mode.Valid",
                "Mode.UpdateSameAsCreate", "Readiness.PathInvalid", "Readiness.TypeMismatch", "Readiness.Accepts", "Readiness.Sound", "Readiness.Sound.NoMatchCondition",
                "ConnDetails.PathInvalid", "ConnDetails.Accepts", "ConnDetails.Sound"]
INFO_FORMULAS = ["Complete.ResultType", "Complete.ResultType.ToDefaulted", "Precise.Wildcard", "Precise.IntOrString", "Precise.MathOnInteger",
                 "Precise.ArraySource", "Precise.StringifiedInput", "Precise.Other", "Total.WithoutLogicalValidation"]
DRIFT_FORMULAS = ["Ref.Validator", "Ref.Flow", "Ref.Conforms", "Ref.Logical"]
MAX_REPLAY_FILES_PER_FORMULA = 3


def regression():
    out = []
    for p in sorted(glob.glob(os.path.join(vlib.VERIF, "scenarios", PID, "*.json"))):
        with open(p) as f:
            out.append(json.load(f))
    return out


def monitor_lines(ctx):
    """COUNT / INFO / DRIFT lines of the monitor runs."""
    counts, info, drift = {}, [], []
    for out in sorted(glob.glob(os.path.join(ctx.work, "mon*", "tlc_MonCompValidation.out"))):
        with open(out) as f:
            txt = f.read()
        for m in re.finditer(r'^"COUNT\|([^|"]+)\|(\d+)"$', txt, re.M):
            counts[m.group(1)] = counts.get(m.group(1), 0) + int(m.group(2))
        for m in re.finditer(r'^"(INFO|DRIFT)\|([^|"]+)\|(\d+)\|([^"]*)"$', txt, re.M):
            (info if m.group(1) == "INFO" else drift).append((m.group(2), m.group(4)))
    return counts, info, drift


def describe(inp):
    """One line per vector for the evidence file."""
    keep = ("fam", "ptype", "via", "from", "to", "chain", "pol", "vars", "cstrat", "xrs", "cds", "res", "mode", "feat", "crds", "body", "rtype", "path",
            "ms", "mi", "mc", "ctype", "name", "shape")
    return {k: inp[k] for k in keep if k in inp and inp[k] not in ([], "nil", "none", "typed", "inline", "r1")}


def drive_and_judge(ctx, scs, shards=6):
    by_id = {s["id"]: s for s in scs}
    binp = ctx.go_build("./drivers/compvalidation")
    chunk = max(400, len(scs) // (shards * 2) + 1)
    prefix, s = ctx.run_sharded(binp, scs, ["-chunk", str(chunk), "-seed", str(ctx.seed)], shards=shards)
    viols, nlines = ctx.monitor("MonCompValidation", prefix, par=8)
    viols = sorted(set(viols))     # a formula quantified over the sample values prints one line per failing sample
    files, per_formula = {}, {}
    for formula, line, scid in sorted(viols, key=lambda v: (v[0], not v[2].startswith(PID + "-reg"), v[2])):
        per_formula[formula] = per_formula.get(formula, 0) + 1
        if per_formula[formula] <= MAX_REPLAY_FILES_PER_FORMULA:
            files[(formula, per_formula[formula])] = ctx.replay_file(by_id.get(scid, {"id": scid}))
            rp = files[(formula, per_formula[formula])]
        else:
            rp = files[(formula, 1)]  # more of the same formula: point at the first scenario
        ctx.violation(formula, scid, rp, "trace line %d" % line, fingerprint=formula)
    counts, info, drift = monitor_lines(ctx)

    def summarise(pairs):
        out = {}
        for formula, scid in sorted(pairs):
            e = out.setdefault(formula, {"count": 0, "examples": []})
            e["count"] += 1
            if len(e["examples"]) < 3 and scid in by_id:
                e["examples"].append({"scenario": scid, "vector": describe(by_id[scid]["input"]), "replay": ctx.replay_file(by_id[scid])})
        return out
    info_s, drift_s = summarise(info), summarise(drift)
    for f, e in sorted(info_s.items()):
        vlib.log("  information %s: %d vectors, e.g. %s" % (f, e["count"], json.dumps(e["examples"][0]["vector"]) if e["examples"] else "-"))
    for f, e in sorted(drift_s.items()):
        vlib.log("DRIFT: %s on %d vectors (the reference transcription no longer describes the code), e.g. %s" %
                 (f, e["count"], e["examples"][0]["replay"] if e["examples"] else "-"))
    return s, nlines, per_formula, counts, info_s, drift_s


def run(ctx):
    quick = ctx.quick
    cfg = "MCCompValidation_quick.cfg" if quick else "MCCompValidation_thorough.cfg"
    mc = ctx.model_check("MCCompValidation", cfg, workers=8 if quick else 16, timeout=180 if quick else 1500, heap="6g" if quick else "12g")
    # design-level witnesses: without the open cell (D23), and with the repaired convert guard (67466d9) switched off, the static
    # typing is NOT sound for the dynamic type flow
    wit = ctx.model_check("MCCompValidation", "MCCompValidation_witness_sound.cfg", sub="mcw", workers=2, timeout=120,
                          expect_violations=["DesignSoundDone"])
    wit2 = ctx.model_check("MCCompValidation", "MCCompValidation_witness_convobj.cfg", sub="mcw2", workers=2, timeout=120,
                           expect_violations=["DesignSoundDone"])
    deep = None
    if not quick:
        # beyond the replayed bound, at design level only: every chain of three transforms
        deep = ctx.model_check("MCCompValidation", "MCCompValidation_deep.cfg", sub="mcd", workers=16, timeout=1200, heap="12g")
    emitted = ctx.sample_lines(mc["emitted_file"], mc["emitted"], mc["emitted"])   # every vector: the replay is exhaustive
    # TLC's workers emit in a varying order: number the vectors in a canonical order so that ids are stable across runs
    emitted = list(enumerate(sorted((v for _, v in emitted), key=lambda v: json.dumps(v, sort_keys=True)), 1))
    scs = [{"id": "%s-%07d" % (PID, i), "input": v} for i, v in emitted]
    # the long-lived validator / webhook see the vectors in a seeded order (their CRDs are edited in place between vectors)
    ctx.rng.shuffle(scs)
    reg = regression()
    s, nlines, per_formula, counts, info, drift = drive_and_judge(ctx, reg + scs, shards=6 if quick else 12)
    # anti-vacuity: a formula whose antecedent was never true in the whole run is worth a line
    idle = sorted(k for k, n in counts.items() if n == 0)
    if idle:
        vlib.log("  note: formulas never exercised by this run: %s" % ", ".join(idle))
    fams = {}
    for sc in scs:
        fams[sc["input"]["fam"]] = fams.get(sc["input"]["fam"], 0) + 1
    ctx.cov.update(dict(
        states=mc["states"], transitions=mc["transitions"], traces_validated_against_impl=s["runs"],
        samples=(s.get("samples") or [])[:3], constants=dict(cfg=cfg, vectors=mc["emitted"], per_family=fams),
        design_deep=(dict(cfg="MCCompValidation_deep.cfg", states=deep["states"], violated=deep["violated"]) if deep else None),
        design_witness=dict(cfg="MCCompValidation_witness_sound.cfg", violated=wit["violated"], states=wit["states"]),
        design_witness_convert_object=dict(cfg="MCCompValidation_witness_convobj.cfg", violated=wit2["violated"], states=wit2["states"]),
        scenarios_emitted=mc["emitted"], scenarios_replayed=s["scenarios"], regression_scenarios=len(reg),
        events=nlines, per_family_counts=s["counts"], real_outcomes=s["outcomes"], panics=(s.get("panics") or [])[:5],
        driver_stage_ms=s.get("stage_ms"), formula_antecedent_hits=counts, formulas_never_exercised=idle, violations_per_formula=per_formula,
        information=info, drift=dict(unmatched_calls=0, reference=drift),
        monitor_formulas=MON_FORMULAS, information_formulas=INFO_FORMULAS, drift_formulas=DRIFT_FORMULAS, exhaustive=True,
        checker_cmd="tlc MCCompValidation (M,G) -> harness/drivers/compvalidation on /repo (T) -> tlc MonCompValidation",
        rule="one run per enumerated vector through the real library validator (long-lived + fresh instance), the real webhook "
             "(strict / loose / warn) and the real runtime on schema-conforming sample values; verdict by spec/MonCompValidation.tla",
    ))
    ctx.assumptions += ["simapi serves the webhook's CRD lists (MatchingFields on the index the webhook registers)",
                        "the universe is bounded: one XR kind and one composed kind over 34 field paths, 29 transforms, chains of at "
                        "most two transforms (three at design level), 5 schema variants; sample values are a handful per JSON type",
                        "a runtime error is classified as a type error by the error texts of composition_transforms.go",
                        "Complete.* / Precise.* (the documentation is silent) are information, Ref.* are drift: neither fails the check",
                        "verdict only from runs of the real validator, webhook and runtime judged by MonCompValidation.tla"]


def replay(ctx, path):
    with open(path) as f:
        sc = json.load(f)
    s, nlines, per_formula, counts, info, drift = drive_and_judge(ctx, [sc], shards=1)
    ctx.cov.update(dict(states=1, transitions=1, traces_validated_against_impl=s["runs"], samples=(s.get("samples") or [])[:1], events=nlines,
                        violations_per_formula=per_formula, information=info, drift=dict(unmatched_calls=0, reference=drift)))
