SPECIFICATION Spec
CONSTANTS
  InitPkgs <- PkgOdd
  InitRevs <- RevsOddMgr
  InitICs <- IcAll
  InitLock <- OnlyFalse
  ICs <- NoICs
  Img <- ImgBothOk
  MaxMgr = 2
  MaxRev = 0
  MaxFaults = 1
  MaxEnv = 1
  MidEnv = TRUE
  EnvKinds <- EnvPkg
  Edits <- EditsFlow
  FaultKinds <- FaultsFew
  SeamOuts <- SeamsErr
  FinFirst = TRUE
  FixRemoval = TRUE
  ManualInactive = TRUE
VIEW view
ACTION_CONSTRAINT Emit
CHECK_DEADLOCK FALSE
INVARIANTS DesiredStateDefined StepProps LockBeforeFin RepairedRev RepairedMgr HealthyTruth
