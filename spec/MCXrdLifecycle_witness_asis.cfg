SPECIFICATION Spec
CONSTANTS
  Inits <- InitsCreated
  EnvKinds = {"ver"}
  FaultKinds = {"fail", "efail"}
  MaxEnv = 1
  MaxFaults = 1
  MaxRecs = 3
  Interleave = TRUE
  MidEnv = TRUE
  WaitEstablished = TRUE
  FixTypeRef = FALSE
  FixWatches = FALSE
VIEW view

CHECK_DEADLOCK FALSE
INVARIANTS Safe Converges
PROPERTIES ForeignFrozen XrdSpecKept
