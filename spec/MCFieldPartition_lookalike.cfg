SPECIFICATION Spec
CONSTANTS
  Strength = 1
  PairMod = 0
  Lookalike = TRUE
  SyncModes <- SM_All
  ClaimPols <- PolNone
  XRPols <- PolEq
ACTION_CONSTRAINT Emit
CHECK_DEADLOCK FALSE
INVARIANTS InvNoLeakToXR InvPropagated InvRevision InvReserved InvXRSide InvClaimRef InvUserStatus InvNoLeakToClaim InvCompRef InvExtToClaim
