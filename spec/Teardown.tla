------------------------------ MODULE Teardown ------------------------------
(***************************************************************************)
(* C08 - teardown happens in dependency order.  The joint model of the     *)
(* controllers that take part in deleting an XRD and its instances, as     *)
(* implemented at the pinned commit:                                       *)
(*   def   = definition.Reconciler (composite CRD, XR controller),         *)
(*   off   = offered.Reconciler   (claim CRD, claim controller),           *)
(*   claim = claim.Reconciler     (runs only while the claim controller    *)
(*           runs), xr = composite.Reconciler (only while its controller   *)
(*           runs),                                                        *)
(* plus the environment: users deleting the XRD / the claim / the XR,      *)
(* Kubernetes cleaning up the instances of a deleted CRD, third parties    *)
(* removing finalizers.  One action per API call (or engine call) whose    *)
(* timing matters; reads that only feed logging and status updates of the  *)
(* XRD conditions are not modelled.  The conformance harness runs each     *)
(* real reconciler in its own goroutine and pauses it at exactly these     *)
(* calls, so every interleaving TLC explores is replayed on the real code. *)
(***************************************************************************)
EXTENDS Integers, Sequences, FiniteSets, TLC

CONSTANTS
  Foreground,   \* the claim's compositeDeletePolicy is Foreground
  MaxRecs,      \* reconciles per actor
  MaxEnv,       \* environment steps
  MaxFaults,    \* injected API errors
  ThirdParty    \* third parties may remove finalizers

Actors == {"def", "off", "claim", "xr"}

VARIABLES
  xrd,      \* [ex, del, fd, fo, v]  fd / fo: the defined / offered finalizers; v: resourceVersion counter
  crdX, crdC,   \* "none" | "live" | "deleting"
  cm,       \* the claim: [ex, del, fin, ref]
  xr,       \* the composite: [ex, del, fin, fg]   fg: foreground-deletion finalizer present
  runX, runC,   \* the XR / claim controller is running
  pc,       \* actor -> program counter
  loc,      \* actor -> local copies read earlier in the reconcile
  recs, envs, faults,
  bad,      \* ghost: violated ordering rules
  hist

vars == <<xrd, crdX, crdC, cm, xr, runX, runC, pc, loc, recs, envs, faults, bad, hist>>
view == <<xrd, crdX, crdC, cm, xr, runX, runC, pc, loc, recs, envs, faults, bad>>

NoLoc == [v |-> 0, crd |-> "none", seen |-> FALSE, seenDel |-> FALSE, seen2 |-> FALSE, del |-> FALSE, ref |-> FALSE, fin |-> FALSE]
Gone == [ex |-> FALSE, del |-> FALSE, fin |-> FALSE]
H(a, k, f) == [t |-> "call", a |-> a, k |-> k, f |-> f]
E(k) == [t |-> "env", a |-> "env", k |-> k, f |-> ""]
Log(e) == hist' = Append(hist, e)

Init ==
  /\ xrd = [ex |-> TRUE, del |-> FALSE, fd |-> TRUE, fo |-> TRUE, v |-> 1]
  /\ crdX = "live" /\ crdC = "live" /\ runX = TRUE /\ runC = TRUE
  /\ cm \in {[ex |-> TRUE, del |-> FALSE, fin |-> TRUE, ref |-> TRUE], [ex |-> FALSE, del |-> FALSE, fin |-> FALSE, ref |-> FALSE]}
  /\ xr = (IF cm.ex THEN [ex |-> TRUE, del |-> FALSE, fin |-> TRUE, fg |-> FALSE] ELSE [ex |-> FALSE, del |-> FALSE, fin |-> FALSE, fg |-> FALSE])
  /\ pc = [a \in Actors |-> "idle"] /\ loc = [a \in Actors |-> NoLoc]
  /\ recs = [a \in Actors |-> 0] /\ envs = 0 /\ faults = 0 /\ bad = {}
  /\ hist = << [t |-> "init", a |-> "", k |-> IF cm.ex THEN "claim" ELSE "empty", f |-> IF Foreground THEN "Foreground" ELSE "Background"] >>

----------------------------------------------------------------------------
(* Environment *)
EnvOK == envs < MaxEnv
EnvUnch == envs' = envs + 1 /\ UNCHANGED <<pc, loc, recs, faults, bad, runX, runC>>
DeleteObj(o) == IF o.fin \/ (o = xr /\ o.fg) THEN [o EXCEPT !.del = TRUE] ELSE [o EXCEPT !.ex = FALSE, !.del = FALSE]
UserDeleteXRD == /\ EnvOK /\ xrd.ex /\ ~xrd.del /\ xrd' = [xrd EXCEPT !.del = TRUE, !.v = @ + 1] /\ Log(E("delete-xrd"))
                 /\ UNCHANGED <<crdX, crdC, cm, xr>> /\ EnvUnch
UserDeleteClaim == /\ EnvOK /\ cm.ex /\ ~cm.del /\ cm' = DeleteObj(cm) /\ Log(E("delete-claim"))
                   /\ UNCHANGED <<xrd, crdX, crdC, xr>> /\ EnvUnch
UserDeleteXR == /\ EnvOK /\ xr.ex /\ ~xr.del /\ xr' = DeleteObj(xr) /\ Log(E("delete-xr"))
                /\ UNCHANGED <<xrd, crdX, crdC, cm>> /\ EnvUnch
\* Kubernetes: a deleting CRD deletes its instances and disappears once none is left; a foreground-deleting XR with no
\* dependents loses the foreground finalizer (steps are free: they do not count as environment edits)
KubeUnch == UNCHANGED <<xrd, pc, loc, recs, envs, faults, bad, runX, runC>>
CleanX1 == /\ crdX = "deleting" /\ xr.ex /\ ~xr.del /\ xr' = DeleteObj(xr) /\ Log(E("crd-cleanup-xr")) /\ UNCHANGED <<crdX, crdC, cm>> /\ KubeUnch
CleanX2 == /\ crdX = "deleting" /\ ~xr.ex /\ crdX' = "none" /\ Log(E("crd-gone-x")) /\ UNCHANGED <<xr, crdC, cm>> /\ KubeUnch
CleanC1 == /\ crdC = "deleting" /\ cm.ex /\ ~cm.del /\ cm' = DeleteObj(cm) /\ Log(E("crd-cleanup-claim")) /\ UNCHANGED <<crdX, crdC, xr>> /\ KubeUnch
CleanC2 == /\ crdC = "deleting" /\ ~cm.ex /\ crdC' = "none" /\ Log(E("crd-gone-c")) /\ UNCHANGED <<cm, crdX, xr>> /\ KubeUnch
KubeFg == /\ xr.ex /\ xr.del /\ xr.fg
          /\ xr' = (IF xr.fin THEN [xr EXCEPT !.fg = FALSE] ELSE [ex |-> FALSE, del |-> FALSE, fin |-> FALSE, fg |-> FALSE])
          /\ Log(E("gc-foreground-xr")) /\ UNCHANGED <<crdX, crdC, cm>> /\ KubeUnch
\* a third party removes our finalizer from a deleted claim / XR
StripClaim == /\ ThirdParty /\ EnvOK /\ cm.ex /\ cm.fin
              /\ cm' = (IF cm.del THEN [ex |-> FALSE, del |-> FALSE, fin |-> FALSE, ref |-> FALSE] ELSE [cm EXCEPT !.fin = FALSE])
              /\ Log(E("strip-claim")) /\ UNCHANGED <<xrd, crdX, crdC, xr>> /\ EnvUnch
StripXR == /\ ThirdParty /\ EnvOK /\ xr.ex /\ xr.fin
           /\ xr' = (IF xr.del /\ ~xr.fg THEN [ex |-> FALSE, del |-> FALSE, fin |-> FALSE, fg |-> FALSE] ELSE [xr EXCEPT !.fin = FALSE])
           /\ Log(E("strip-xr")) /\ UNCHANGED <<xrd, crdX, crdC, cm>> /\ EnvUnch
Env == UserDeleteXRD \/ UserDeleteClaim \/ UserDeleteXR \/ CleanX1 \/ CleanX2 \/ CleanC1 \/ CleanC2 \/ KubeFg \/ StripClaim \/ StripXR

----------------------------------------------------------------------------
(* Reconcile plumbing: a step of actor a at call k either happens or (within the fault budget) fails without effect *)
Go(a, next) == pc' = [pc EXCEPT ![a] = next]
End(a) == pc' = [pc EXCEPT ![a] = "idle"] /\ recs' = [recs EXCEPT ![a] = @ + 1]
Ok(a, k) == Log(H(a, k, "ok")) /\ UNCHANGED faults
Fails(a, k) == /\ faults < MaxFaults /\ faults' = faults + 1 /\ Log(H(a, k, "error")) /\ End(a)
Set(a, f, val) == loc' = [loc EXCEPT ![a][f] = val]

\* ---- definition reconciler, deletion branch
DGet == /\ pc["def"] = "idle" /\ recs["def"] < MaxRecs /\ xrd.ex /\ xrd.del /\ xrd.fd
        /\ \/ /\ Ok("def", "get:xrd") /\ Go("def", "getcrd") /\ Set("def", "v", xrd.v) /\ UNCHANGED recs
           \/ /\ Fails("def", "get:xrd") /\ UNCHANGED loc
        /\ UNCHANGED <<xrd, crdX, crdC, cm, xr, runX, runC, envs, bad>>
DGetCrd == /\ pc["def"] = "getcrd"
           /\ \/ /\ Ok("def", "get:crdx") /\ Set("def", "crd", crdX) /\ UNCHANGED recs
                 /\ Go("def", IF crdX = "none" THEN "stopfin" ELSE "delall")
              \/ /\ Fails("def", "get:crdx") /\ UNCHANGED loc
           /\ UNCHANGED <<xrd, crdX, crdC, cm, xr, runX, runC, envs, bad>>
\* the CRD is gone (or was never ours): stop the controller (a no-op if stopped), drop the finalizer
DStopFin == /\ pc["def"] = "stopfin"
            /\ \/ /\ Ok("def", "stop:x") /\ runX' = FALSE /\ Go("def", "remfin") /\ UNCHANGED recs
               \/ /\ Fails("def", "stop:x") /\ UNCHANGED runX
            /\ UNCHANGED <<xrd, crdX, crdC, cm, xr, runC, loc, envs, bad>>
DRemFin == /\ pc["def"] = "remfin"
           /\ \/ /\ Ok("def", "update:xrd") /\ End("def")
                 /\ (IF loc["def"].v = xrd.v
                     THEN /\ xrd' = (IF ~xrd.fo THEN [xrd EXCEPT !.ex = FALSE, !.fd = FALSE] ELSE [xrd EXCEPT !.fd = FALSE, !.v = @ + 1])
                          /\ bad' = bad \cup (IF crdX # "none" THEN {"XrdFinalizer.CrdStillThere"} ELSE {})
                     ELSE UNCHANGED <<xrd, bad>>)       \* conflict: requeue
              \/ /\ Fails("def", "update:xrd") /\ UNCHANGED <<xrd, bad>>
           /\ UNCHANGED <<crdX, crdC, cm, xr, runX, runC, loc, envs>>
\* the CRD is still there: delete every XR, wait until none is listed, stop the controller, delete the CRD
DDelAll == /\ pc["def"] = "delall"
           /\ \/ /\ Ok("def", "deleteallof:xr") /\ Go("def", "list") /\ UNCHANGED recs
                 /\ xr' = (IF xr.ex /\ ~xr.del THEN DeleteObj(xr) ELSE xr)
              \/ /\ Fails("def", "deleteallof:xr") /\ UNCHANGED xr
           /\ UNCHANGED <<xrd, crdX, crdC, cm, runX, runC, loc, envs, bad>>
DList == /\ pc["def"] = "list"
         /\ \/ /\ Ok("def", "list:xr") /\ (IF xr.ex THEN End("def") ELSE Go("def", "stop") /\ UNCHANGED recs)
            \/ Fails("def", "list:xr")
         /\ UNCHANGED <<xrd, crdX, crdC, cm, xr, runX, runC, loc, envs, bad>>
DStop == /\ pc["def"] = "stop"
         /\ \/ /\ Ok("def", "stop:x") /\ runX' = FALSE /\ Go("def", "delcrd") /\ UNCHANGED recs
               /\ bad' = bad \cup (IF xr.ex THEN {"StopAfterGone.Instances"} ELSE {})
            \/ /\ Fails("def", "stop:x") /\ UNCHANGED <<runX, bad>>
         /\ UNCHANGED <<xrd, crdX, crdC, cm, xr, runC, loc, envs>>
DDelCrd == /\ pc["def"] = "delcrd"
           /\ \/ /\ Ok("def", "delete:crdx") /\ End("def") /\ crdX' = (IF crdX = "live" THEN "deleting" ELSE crdX)
                 /\ bad' = bad \cup (IF xr.ex THEN {"CrdAfterAll.Instances"} ELSE {}) \cup (IF runX THEN {"CrdAfterAll.Running"} ELSE {})
              \/ /\ Fails("def", "delete:crdx") /\ UNCHANGED <<crdX, bad>>
           /\ UNCHANGED <<xrd, crdC, cm, xr, runX, runC, loc, envs>>

\* ---- offered reconciler, deletion branch
OGet == /\ pc["off"] = "idle" /\ recs["off"] < MaxRecs /\ xrd.ex /\ xrd.del /\ xrd.fo
        /\ \/ /\ Ok("off", "get:xrd") /\ Go("off", "getcrd") /\ Set("off", "v", xrd.v) /\ UNCHANGED recs
           \/ /\ Fails("off", "get:xrd") /\ UNCHANGED loc
        /\ UNCHANGED <<xrd, crdX, crdC, cm, xr, runX, runC, envs, bad>>
OGetCrd == /\ pc["off"] = "getcrd"
           /\ \/ /\ Ok("off", "get:crdc") /\ Set("off", "crd", crdC) /\ UNCHANGED recs
                 /\ Go("off", IF crdC = "none" THEN "stopfin" ELSE "list")
              \/ /\ Fails("off", "get:crdc") /\ UNCHANGED loc
           /\ UNCHANGED <<xrd, crdX, crdC, cm, xr, runX, runC, envs, bad>>
OStopFin == /\ pc["off"] = "stopfin"
            /\ \/ /\ Ok("off", "stop:c") /\ runC' = FALSE /\ Go("off", "remfin") /\ UNCHANGED recs
               \/ /\ Fails("off", "stop:c") /\ UNCHANGED runC
            /\ UNCHANGED <<xrd, crdX, crdC, cm, xr, runX, loc, envs, bad>>
ORemFin == /\ pc["off"] = "remfin"
           /\ \/ /\ Ok("off", "update:xrd") /\ End("off")
                 /\ (IF loc["off"].v = xrd.v
                     THEN /\ xrd' = (IF ~xrd.fd THEN [xrd EXCEPT !.ex = FALSE, !.fo = FALSE] ELSE [xrd EXCEPT !.fo = FALSE, !.v = @ + 1])
                          /\ bad' = bad \cup (IF crdC # "none" THEN {"XrdFinalizer.CrdStillThere"} ELSE {})
                     ELSE UNCHANGED <<xrd, bad>>)
              \/ /\ Fails("off", "update:xrd") /\ UNCHANGED <<xrd, bad>>
           /\ UNCHANGED <<crdX, crdC, cm, xr, runX, runC, loc, envs>>
OList == /\ pc["off"] = "list"
         /\ \/ /\ Ok("off", "list:claim") /\ Go("off", IF cm.ex THEN "delcm" ELSE "stop") /\ UNCHANGED recs
            \/ Fails("off", "list:claim")
         /\ UNCHANGED <<xrd, crdX, crdC, cm, xr, runX, runC, loc, envs, bad>>
ODelCm == /\ pc["off"] = "delcm"
          /\ \/ /\ Ok("off", "delete:claim") /\ End("off") /\ cm' = (IF cm.ex /\ ~cm.del THEN DeleteObj(cm) ELSE cm)
             \/ /\ Fails("off", "delete:claim") /\ UNCHANGED cm
          /\ UNCHANGED <<xrd, crdX, crdC, xr, runX, runC, loc, envs, bad>>
OStop == /\ pc["off"] = "stop"
         /\ \/ /\ Ok("off", "stop:c") /\ runC' = FALSE /\ Go("off", "delcrd") /\ UNCHANGED recs
               /\ bad' = bad \cup (IF cm.ex THEN {"StopAfterGone.Instances"} ELSE {})
            \/ /\ Fails("off", "stop:c") /\ UNCHANGED <<runC, bad>>
         /\ UNCHANGED <<xrd, crdX, crdC, cm, xr, runX, loc, envs>>
ODelCrd == /\ pc["off"] = "delcrd"
           /\ \/ /\ Ok("off", "delete:crdc") /\ End("off") /\ crdC' = (IF crdC = "live" THEN "deleting" ELSE crdC)
                 /\ bad' = bad \cup (IF cm.ex THEN {"CrdAfterAll.Instances"} ELSE {}) \cup (IF runC THEN {"CrdAfterAll.Running"} ELSE {})
              \/ /\ Fails("off", "delete:crdc") /\ UNCHANGED <<crdC, bad>>
           /\ UNCHANGED <<xrd, crdX, cm, xr, runX, runC, loc, envs>>

\* ---- claim reconciler (while its controller runs)
CGet == /\ pc["claim"] = "idle" /\ recs["claim"] < MaxRecs /\ runC /\ cm.ex
        /\ \/ /\ Ok("claim", "get:claim") /\ Go("claim", IF cm.ref THEN "getxr" ELSE "branch") /\ UNCHANGED recs
              /\ loc' = [loc EXCEPT !["claim"] = [NoLoc EXCEPT !.del = cm.del, !.ref = cm.ref, !.fin = cm.fin]]
           \/ /\ Fails("claim", "get:claim") /\ UNCHANGED loc
        /\ UNCHANGED <<xrd, crdX, crdC, cm, xr, runX, runC, envs, bad>>
CGetXr == /\ pc["claim"] = "getxr"
          /\ \/ /\ Ok("claim", "get:xr") /\ Go("claim", "branch") /\ UNCHANGED recs
                /\ loc' = [loc EXCEPT !["claim"].seen = xr.ex, !["claim"].seenDel = xr.ex /\ xr.del]
             \/ /\ Fails("claim", "get:xr") /\ UNCHANGED loc
          /\ UNCHANGED <<xrd, crdX, crdC, cm, xr, runX, runC, envs, bad>>
\* local decision (no API call)
CBranch == /\ pc["claim"] = "branch"
           /\ LET L == loc["claim"] IN
              IF L.del THEN
                 IF L.seen /\ L.seenDel /\ Foreground THEN End("claim")               \* wait for the XR to go away
                 ELSE IF L.seen THEN Go("claim", "delxr") /\ UNCHANGED recs
                 ELSE Go("claim", "remfin") /\ UNCHANGED recs
              ELSE Go("claim", IF L.fin THEN (IF L.ref THEN "apply" ELSE "ref") ELSE "addfin") /\ UNCHANGED recs
           /\ UNCHANGED <<xrd, crdX, crdC, cm, xr, runX, runC, loc, envs, faults, bad, hist>>
CDelXr == /\ pc["claim"] = "delxr"
          /\ \/ /\ Ok("claim", "delete:xr")
                /\ xr' = (IF xr.ex /\ ~xr.del
                          THEN (IF Foreground THEN [xr EXCEPT !.del = TRUE, !.fg = TRUE] ELSE DeleteObj(xr))
                          ELSE xr)
                /\ (IF Foreground THEN End("claim") ELSE Go("claim", "remfin") /\ UNCHANGED recs)
             \/ /\ Fails("claim", "delete:xr") /\ UNCHANGED xr
          /\ UNCHANGED <<xrd, crdX, crdC, cm, runX, runC, loc, envs, bad>>
CRemFin == /\ pc["claim"] = "remfin"
           /\ \/ /\ Ok("claim", "update:claim") /\ End("claim")
                 /\ (IF cm.ex /\ cm.fin
                     THEN /\ cm' = (IF cm.del THEN [ex |-> FALSE, del |-> FALSE, fin |-> FALSE, ref |-> FALSE] ELSE [cm EXCEPT !.fin = FALSE])
                          /\ bad' = bad \cup (IF loc["claim"].ref /\ xr.ex /\ (~xr.del \/ Foreground) THEN {"ClaimAfterXR"} ELSE {})
                     ELSE UNCHANGED <<cm, bad>>)
              \/ /\ Fails("claim", "update:claim") /\ UNCHANGED <<cm, bad>>
           /\ UNCHANGED <<xrd, crdX, crdC, xr, runX, runC, loc, envs>>
CAddFin == /\ pc["claim"] = "addfin"
           /\ \/ /\ Ok("claim", "update:claim") /\ Go("claim", IF loc["claim"].ref THEN "apply" ELSE "ref") /\ UNCHANGED recs
                 /\ cm' = (IF cm.ex THEN [cm EXCEPT !.fin = TRUE] ELSE cm)
              \/ /\ Fails("claim", "update:claim") /\ UNCHANGED cm
           /\ UNCHANGED <<xrd, crdX, crdC, xr, runX, runC, loc, envs, bad>>
CRef == /\ pc["claim"] = "ref"
        /\ \/ /\ Ok("claim", "update:claim") /\ Go("claim", "apply") /\ UNCHANGED recs
              /\ cm' = (IF cm.ex THEN [cm EXCEPT !.ref = TRUE] ELSE cm)
           \/ /\ Fails("claim", "update:claim") /\ UNCHANGED cm
        /\ UNCHANGED <<xrd, crdX, crdC, xr, runX, runC, loc, envs, bad>>
\* bind (client.Apply = Get, then Create or Patch): the XR is created if the Get does not find it (the claim already
\* records its name); an existing, unchanged XR is not written
CApplyGet == /\ pc["claim"] = "apply"
             /\ \/ /\ Ok("claim", "get2:xr") /\ Set("claim", "seen2", xr.ex)
                   /\ (IF xr.ex THEN End("claim") ELSE Go("claim", "applyw") /\ UNCHANGED recs)
                \/ /\ Fails("claim", "get2:xr") /\ UNCHANGED loc
             /\ UNCHANGED <<xrd, crdX, crdC, cm, xr, runX, runC, envs, bad>>
CApply == /\ pc["claim"] = "applyw"
          /\ \/ /\ Ok("claim", "apply:xr") /\ End("claim")
                \* a Create of an object that was read earlier in this reconcile carries its resourceVersion and is refused
                /\ xr' = (IF ~xr.ex /\ crdX = "live" /\ ~loc["claim"].seen THEN [ex |-> TRUE, del |-> FALSE, fin |-> FALSE, fg |-> FALSE] ELSE xr)
             \/ /\ Fails("claim", "apply:xr") /\ UNCHANGED xr
          /\ UNCHANGED <<xrd, crdX, crdC, cm, runX, runC, loc, envs, bad>>

\* ---- XR reconciler (while its controller runs): adds its finalizer, finalises a deleted XR
XGet == /\ pc["xr"] = "idle" /\ recs["xr"] < MaxRecs /\ runX /\ xr.ex
        /\ \/ /\ Ok("xr", "get:xr") /\ Set("xr", "del", xr.del) /\ UNCHANGED recs
              /\ (IF xr.del \/ ~xr.fin THEN Go("xr", "fin") ELSE End("xr") /\ UNCHANGED <<>>)
           \/ /\ Fails("xr", "get:xr") /\ UNCHANGED loc
        /\ UNCHANGED <<xrd, crdX, crdC, cm, xr, runX, runC, envs, bad>>
XFin == /\ pc["xr"] = "fin"
        /\ \/ /\ Ok("xr", "update:xr") /\ End("xr")
              /\ xr' = (IF ~xr.ex THEN xr
                        ELSE IF loc["xr"].del
                             THEN (IF xr.fg THEN [xr EXCEPT !.fin = FALSE] ELSE [ex |-> FALSE, del |-> FALSE, fin |-> FALSE, fg |-> FALSE])
                             ELSE [xr EXCEPT !.fin = TRUE])
           \/ /\ Fails("xr", "update:xr") /\ UNCHANGED xr
        /\ UNCHANGED <<xrd, crdX, crdC, cm, runX, runC, loc, envs, bad>>

Rec == DGet \/ DGetCrd \/ DStopFin \/ DRemFin \/ DDelAll \/ DList \/ DStop \/ DDelCrd
       \/ OGet \/ OGetCrd \/ OStopFin \/ ORemFin \/ OList \/ ODelCm \/ OStop \/ ODelCrd
       \/ CGet \/ CGetXr \/ CBranch \/ CDelXr \/ CRemFin \/ CAddFin \/ CRef \/ CApplyGet \/ CApply
       \/ XGet \/ XFin
Next == Env \/ Rec
Spec == Init /\ [][Next]_vars

----------------------------------------------------------------------------
Ordered == bad = {}
\* nothing is left behind with our finalizer and nobody to remove it
NoOrphanXR == ~(xr.ex /\ xr.fin /\ ~runX /\ crdX # "live" /\ ~xrd.ex)
=============================================================================
