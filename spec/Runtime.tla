------------------------------ MODULE Runtime ------------------------------
(***************************************************************************)
(* X01 - the package-revision RUNTIME of Crossplane as implemented at the  *)
(* pinned commit (an extension beyond the 20 listed properties).           *)
(*                                                                         *)
(* Code: internal/controller/pkg/revision/reconciler.go (Reconcile,        *)
(* deactivateRevision, runtimeManifestBuilderOptions), runtime.go          *)
(* (RuntimeManifestBuilder), runtime_provider.go / runtime_function.go     *)
(* (the Pre / Post / Deactivate hooks), runtime_defaults.go,               *)
(* runtime_override_options.go, internal/initializer/tls.go (the           *)
(* certificate generator the Pre hook runs), crossplane-runtime            *)
(* resource.APIPatchingApplicator (Get, then Create or merge Patch).       *)
(*                                                                         *)
(* One package with two revisions r1, r2 (reconciled by one controller,    *)
(* possibly at the same time), one DeploymentRuntimeConfig, and the        *)
(* runtime objects in the Crossplane namespace: the per-package Service    *)
(* and TLS Secrets, ServiceAccounts and Deployments (named after the       *)
(* revision unless the DeploymentRuntimeConfig names them).  One action    *)
(* per API call in code order; the reconciler's local copies (desired      *)
(* state and object references of the revision as read, the runtime config *)
(* as read, the result of Apply's Get) are explicit; every call may end    *)
(* ok / with an error value / with a Conflict / with the process dying     *)
(* before or after the effect.  The environment acts between reconciles    *)
(* AND in the middle of them: the package manager flips desiredState       *)
(* (never two Active: that is C14), the user edits the runtime config      *)
(* (names, a ServiceAccount of their own), the Deployment controller       *)
(* reports Available true / false, a stranger takes an object over,        *)
(* creates it first or removes it, and the other revision's reconcile runs *)
(* in between two calls ("nest").                                          *)
(*                                                                         *)
(* WHAT THE CODE'S AUTHORS EVIDENTLY INTEND (checked against code and      *)
(* comments; each is a formula of MonRuntime.tla judged on traces of the   *)
(* real code, and - where it is a safety property of single steps - an     *)
(* action property here):                                                  *)
(*                                                                         *)
(* I1 InactiveNeverCreates  "if pr.GetDesiredState() != Active return nil" *)
(*    in Pre and Post: a reconcile that read Inactive creates / patches no *)
(*    runtime object; Deactivate only deletes.                             *)
(* I2 Deactivate            "Delete the deployment if it exists": after a  *)
(*    reconcile that read Inactive got past the hook, no Deployment        *)
(*    controlled by that revision is left under the name the builder       *)
(*    computes.  ServiceAccount, Service and Secrets are deliberately kept *)
(*    ("might be used by other package revisions", "created per package"). *)
(* I3 HandOver              Deactivate is the clean-up of the revision     *)
(*    being deactivated; the runtime of the ACTIVE revision is not its     *)
(*    business.  An inactive revision's reconcile therefore must not       *)
(*    delete a Deployment that the active revision controls.  THE CODE     *)
(*    DOES NOT KEEP THIS when the runtime config names the Deployment      *)
(*    (both revisions compute the same name and Deactivate deletes by      *)
(*    name): constant OwnDelete = FALSE is the code as written.            *)
(* I4 Owned                 every object the hooks create or patch carries *)
(*    the revision as controller afterwards (builder: "Overrides that we   *)
(*    are opinionated about").  The certificate generator's own write      *)
(*    names the owner it was given (the package for a provider).           *)
(* I5 Order                 "we create objects named after the package in  *)
(*    the pre hook and objects named after the package revision in the     *)
(*    post hook", SA before Deployment: when the Deployment is written the *)
(*    same reconcile has applied Service, TLS Secrets (with certificates)  *)
(*    and - unless the user manages it - the ServiceAccount.               *)
(* I6 HealthTruth           Post returns an error unless the Deployment it *)
(*    just applied reports Available=True: an Active revision is written   *)
(*    Healthy only then.  (An Inactive revision is Healthy by design.)     *)
(* I7 Mandatory / Defaults  whatever the runtime config says, the          *)
(*    Deployment written has the runtime container first, the selector     *)
(*    and pod labels of the revision (equal to the Service's selector),    *)
(*    the namespace, the ports / env / volumes the runtime needs; what the *)
(*    config leaves out (or says with empty templates) is defaulted, what  *)
(*    it says is kept; the ServiceAccount gets Crossplane's pull secrets   *)
(*    and keeps those "added by external controllers"; a provider          *)
(*    revision's status carries the package's permission requests; a       *)
(*    function revision's endpoint names the Service.  (Judged on the      *)
(*    objects the real code wrote; no counterpart in this module, the      *)
(*    template content is opaque here: Tmpls.)                             *)
(* I8 Settles               after any of the above, fault-free reconciles  *)
(*    (woken up as the controller's watches would) reach a fixpoint in     *)
(*    which at most one revision - the Active one - controls a Deployment, *)
(*    it is the one the builder names, and the prerequisites exist.        *)
(*    THE CODE DOES NOT KEEP THIS after the user changed the Deployment    *)
(*    name in the runtime config: the Deployment under the old name stays  *)
(*    controlled by the revision and keeps running (formula                *)
(*    Settled.Leftover.Renamed of the monitor).                            *)
(*                                                                         *)
(* NOT promised by the code (verified; dropped as formulas, counted as     *)
(* observations by the driver): objects controlled by a stranger are       *)
(* adopted, patched and deleted like any other - Apply is used without     *)
(* MustBeControllableBy and Deactivate deletes by name.  Service, Secrets  *)
(* and a ServiceAccount named by the runtime config are meant to be handed *)
(* from revision to revision.  When applySA's read of the existing         *)
(* ServiceAccount fails, the pull secrets other controllers added are      *)
(* dropped by the patch (the error is ignored on purpose).  An Inactive    *)
(* revision is reported Healthy whatever happens to Deployments.           *)
(*                                                                         *)
(* Not modelled: deletion of a revision (no hook runs: the garbage         *)
(* collector removes what it controls), ControllerConfig (deprecated),     *)
(* pull secrets / pull policy of the revision, a missing runtime config.   *)
(***************************************************************************)
EXTENDS Integers, Sequences, FiniteSets, TLC

CONSTANTS
  Kind,           \* "provider" | "function"
  Starts,         \* start configurations: subset of {"fresh", "steady", "handover"}
  Certs,          \* for a fresh start: do the TLS Secrets (with certificates) exist already? subset of BOOLEAN
  Tmpls,          \* what else the runtime config says ("plain" | "rich"); opaque here
  Drc0,           \* initial name settings of the runtime config: set of [dn, san, ext]
  EnvKinds,       \* enabled kinds of environment step
  Interf,         \* objects a stranger may grab / create first / remove
  MaxEdits, MaxFaults, MaxRecs, MaxNest,
  MidEnv,         \* TRUE: the environment also acts in the middle of a reconcile
  GuardInactive,  \* TRUE = as written: Pre / Post do nothing for an Inactive revision
  GuardHealth,    \* TRUE = as written: Post fails unless the Deployment is Available
  OwnDelete,      \* FALSE = as written: Deactivate deletes by name; TRUE = only what the revision controls
  CacheMiss       \* TRUE: a read of Apply may be answered NotFound although the object exists (informer cache lag)

Revs == {"r1", "r2"}
Other(r) == IF r = "r1" THEN "r2" ELSE "r1"
Deps == {"dep-r1", "dep-r2", "dep-dx"}
SAs == {"sa-r1", "sa-r2", "sa-sx"}
Obj == {"svc", "secS", "secC"} \cup SAs \cup Deps
Provider == Kind = "provider"

VARIABLES
  obj,    \* runtime objects: alias -> [ex, ctrl, sel, avail, data]
  rev,    \* revisions: r -> [des, hl, refs]
  drc,    \* the runtime config: its names [dn, san, ext] and what else it says (tmpl, never edited)
  loc,    \* r -> the local state of r's reconcile in flight
  cur,    \* the revision whose reconcile is executing ("none": the controller is idle)
  susp,   \* the revision whose reconcile is suspended while the other one's runs in between ("none")
  edits, faults, recs, nests,
  act,    \* ghost: what the last step was: [t, who]
  hist    \* ghost: the behaviour so far as scenario steps (hidden by VIEW)

vars == <<obj, rev, drc, loc, cur, susp, edits, faults, recs, nests, act, hist>>
view == <<obj, rev, drc, loc, cur, susp, edits, faults, recs, nests>>

Absent == [ex |-> FALSE, ctrl |-> "none", sel |-> "none", avail |-> "none", data |-> FALSE]
Made(c, s, d) == [ex |-> TRUE, ctrl |-> c, sel |-> s, avail |-> "none", data |-> d]
IdleLoc == [pc |-> "idle", des |-> "none", refs |-> FALSE, dn |-> "none", san |-> "none", ext |-> FALSE,
            found |-> FALSE, est |-> FALSE, dirty |-> FALSE, done |-> {}, davail |-> "unset"]

DepOf(r, dn) == IF dn = "none" THEN "dep-" \o r ELSE "dep-" \o dn
SaOf(r, san) == IF san = "none" THEN "sa-" \o r ELSE "sa-" \o san

H(t, k, o, f) == [t |-> t, k |-> k, o |-> o, f |-> f]

----------------------------------------------------------------------------
(* Initial configurations *)
Installed(d) ==
  [a \in Obj |->
     IF a = "svc" THEN Made("r1", "none", FALSE)
     ELSE IF a = "secS" \/ (a = "secC" /\ Provider) THEN Made("r1", "none", TRUE)
     ELSE IF a = SaOf("r1", d.san) /\ ~d.ext THEN Made("r1", "none", FALSE)
     ELSE IF a = DepOf("r1", d.dn) THEN [Made("r1", "r1", FALSE) EXCEPT !.avail = "true"]
     ELSE Absent]
Fresh(c) == [a \in Obj |-> IF c /\ (a = "secS" \/ (a = "secC" /\ Provider)) THEN Made("r1", "none", TRUE) ELSE Absent]

Init ==
  \E st \in Starts, d \in Drc0, tm \in Tmpls, c \in Certs :
    /\ (st # "fresh" => c)
    /\ drc = [dn |-> d.dn, san |-> d.san, ext |-> d.ext, tmpl |-> tm]
    /\ obj = (IF st = "fresh" THEN Fresh(c) ELSE Installed(d))
    /\ rev = [r \in Revs |->
                IF st = "fresh" THEN [des |-> IF r = "r1" THEN "Active" ELSE "Inactive", hl |-> "unknown", refs |-> FALSE]
                ELSE IF r = "r1" THEN [des |-> IF st = "steady" THEN "Active" ELSE "Inactive", hl |-> "true", refs |-> TRUE]
                ELSE [des |-> IF st = "steady" THEN "Inactive" ELSE "Active", hl |-> "unknown", refs |-> FALSE]]
    /\ loc = [r \in Revs |-> IdleLoc]
    /\ cur = "none" /\ susp = "none"
    /\ edits = 0 /\ faults = 0 /\ recs = 0 /\ nests = 0
    /\ act = [t |-> "init", who |-> "none"]
    /\ hist = << [t |-> "init", kind |-> Kind, start |-> st, certs |-> c, tmpl |-> tm, drc |-> d,
                  des |-> [r \in Revs |-> IF (st = "handover") = (r = "r2") THEN "Active" ELSE "Inactive"]] >>

----------------------------------------------------------------------------
(* Environment *)
Nested == susp # "none"
EnvOK(k) == /\ k \in EnvKinds /\ edits < MaxEdits /\ ~Nested
            /\ (cur = "none" \/ MidEnv)
EnvStep(k, o, f) == /\ edits' = edits + 1
                    /\ hist' = Append(hist, H("env", k, o, f))
                    /\ act' = [t |-> "env", who |-> "none"]
                    /\ UNCHANGED <<cur, susp, faults, recs, nests>>

\* the package manager never makes two revisions Active (C14): it deactivates first
Flip == /\ EnvOK("flip")
        /\ \E r \in Revs :
             LET to == IF rev[r].des = "Active" THEN "Inactive" ELSE "Active" IN
             /\ (to = "Active" => rev[Other(r)].des = "Inactive")
             /\ rev' = [rev EXCEPT ![r].des = to]
             /\ loc' = [loc EXCEPT ![r].dirty = (loc[r].pc # "idle")]
             /\ EnvStep("flip", r, to)
        /\ UNCHANGED <<obj, drc>>
EditDn == /\ EnvOK("dn")
          /\ LET v == IF drc.dn = "none" THEN "dx" ELSE "none" IN drc' = [drc EXCEPT !.dn = v] /\ EnvStep("dn", v, "")
          /\ UNCHANGED <<obj, rev, loc>>
EditSan == /\ EnvOK("san")
           /\ LET v == IF drc.san = "none" THEN "sx" ELSE "none" IN drc' = [drc EXCEPT !.san = v] /\ EnvStep("san", v, "")
           /\ UNCHANGED <<obj, rev, loc>>
EditExt == /\ EnvOK("ext")
           /\ drc' = [drc EXCEPT !.ext = ~@] /\ EnvStep("ext", IF drc.ext THEN "false" ELSE "true", "")
           /\ UNCHANGED <<obj, rev, loc>>
\* the Deployment controller reports
Avail == /\ EnvOK("avail")
         /\ \E d \in Deps, v \in {"true", "false"} :
              /\ obj[d].ex /\ obj[d].avail # v
              /\ obj' = [obj EXCEPT ![d].avail = v] /\ EnvStep("avail", d, v)
         /\ UNCHANGED <<rev, drc, loc>>
\* a stranger
Grab == /\ EnvOK("grab")
        /\ \E a \in Interf : /\ obj[a].ex /\ obj[a].ctrl # "foreign"
                             /\ obj' = [obj EXCEPT ![a].ctrl = "foreign"] /\ EnvStep("grab", a, "")
        /\ UNCHANGED <<rev, drc, loc>>
FCreate == /\ EnvOK("fcreate")
           /\ \E a \in Interf : /\ ~obj[a].ex
                                /\ obj' = [obj EXCEPT ![a] = Made("foreign", IF a \in Deps THEN "foreign" ELSE "none", FALSE)]
                                /\ EnvStep("fcreate", a, "")
           /\ UNCHANGED <<rev, drc, loc>>
Vanish == /\ EnvOK("vanish")
          /\ \E a \in Interf : /\ obj[a].ex
                               /\ obj' = [obj EXCEPT ![a] = Absent] /\ EnvStep("vanish", a, "")
          /\ UNCHANGED <<rev, drc, loc>>
\* the controller's other worker starts the other revision's reconcile between two calls of this one
Nest == /\ "nest" \in EnvKinds /\ cur # "none" /\ ~Nested /\ nests < MaxNest
        /\ LET o == Other(cur) IN
           /\ susp' = cur /\ cur' = o /\ nests' = nests + 1
           /\ loc' = [loc EXCEPT ![o] = [IdleLoc EXCEPT !.pc = "drc", !.des = rev[o].des, !.refs = rev[o].refs]]
           /\ hist' = Append(hist, H("env", "nest", o, ""))
        /\ act' = [t |-> "env", who |-> "none"]
        /\ UNCHANGED <<obj, rev, drc, edits, faults, recs>>

Env == Flip \/ EditDn \/ EditSan \/ EditExt \/ Avail \/ Grab \/ FCreate \/ Vanish \/ Nest

----------------------------------------------------------------------------
(* The reconcile of revision r = cur.                                      *)
(* Outcomes of a call: "ok" (no injected fault; the call may still be      *)
(* refused: NotFound, AlreadyExists, Invalid, Conflict), "error" (an error *)
(* value, no effect), "fail" (a Conflict, no effect; writes only),         *)
(* "crashBefore" (no effect, the process is gone), "crashAfter" (effect,   *)
(* the process is gone; writes only), "miss" (a cached read that does not   *)
(* see the object yet).  A nested reconcile is fault free.                 *)

PostPcs == {"sa.g0", "sa.g", "sa.w", "dep.g", "dep.w"}
\* "miss" (reads of Apply only): the controller's cached client has not seen the object yet and answers NotFound
MissPcs == {"svc.g", "secS.g", "sa.g", "dep.g"}
Outs(w, pc) == IF Nested \/ faults >= MaxFaults THEN {"ok"}
               ELSE IF w THEN {"ok", "error", "fail", "crashBefore", "crashAfter"}
               ELSE {"ok", "error", "crashBefore"} \cup (IF CacheMiss /\ pc \in MissPcs THEN {"miss"} ELSE {})

\* the call made at the current pc: [k, o, w]
CallOf(r) ==
  LET l == loc[r]
      ap(a) == [k |-> IF l.found THEN "patch" ELSE "create", o |-> a, w |-> TRUE]
      gt(a) == [k |-> "get", o |-> a, w |-> FALSE]
  IN CASE l.pc = "drc" -> gt("drc")
       [] l.pc = "del" -> [k |-> "delete", o |-> DepOf(r, l.dn), w |-> TRUE]
       [] l.pc = "updrev" -> [k |-> "update", o |-> "rev-" \o r, w |-> TRUE]
       [] l.pc = "svc.g" -> gt("svc")      [] l.pc = "svc.w" -> ap("svc")
       [] l.pc = "secC.g" -> gt("secC")    [] l.pc = "secC.w" -> ap("secC")
       [] l.pc = "secS.g" -> gt("secS")    [] l.pc = "secS.w" -> ap("secS")
       [] l.pc = "genS" -> [k |-> "gupdate", o |-> "secS", w |-> TRUE]
       [] l.pc = "genC" -> [k |-> "gupdate", o |-> "secC", w |-> TRUE]
       [] l.pc \in {"sa.g0", "sa.g"} -> gt(SaOf(r, l.san))
       [] l.pc = "sa.w" -> ap(SaOf(r, l.san))
       [] l.pc = "dep.g" -> gt(DepOf(r, l.dn))
       [] l.pc = "dep.w" -> ap(DepOf(r, l.dn))
       [] l.pc \in {"status", "errstatus"} -> [k |-> "update-status", o |-> "rev-" \o r, w |-> TRUE]

PostStart(l) == IF l.ext THEN "dep.g" ELSE "sa.g0"
AfterGenS(l, o2) == IF Provider /\ ~o2["secC"].data THEN "genC" ELSE PostStart(l)
AfterSecS(l, o2) == IF ~o2["secS"].data THEN "genS" ELSE AfterGenS(l, o2)
\* where an error value leads: the reconcile returns it (after trying to record Unhealthy, except on the deactivation
\* path and for the status update itself); applySA ignores a failed read of the existing ServiceAccount
ErrLoc(l) == IF l.pc \in {"del", "status", "errstatus"} THEN [l EXCEPT !.pc = "END"]
             ELSE IF l.pc = "sa.g0" THEN [l EXCEPT !.pc = "sa.g"] ELSE [l EXCEPT !.pc = "errstatus", !.est = (l.pc \in PostPcs)]

\* Apply = Get, then Create or merge Patch.  A Deployment's selector is immutable.
ApplyW(r, a, nxt) ==
  LET l == loc[r]
      isDep == a \in Deps
      bad == [obj |-> obj, rev |-> rev, l |-> ErrLoc(l)]
  IN IF l.found
     THEN IF ~obj[a].ex \/ (isDep /\ obj[a].sel # r) THEN bad
          ELSE LET o2 == [obj EXCEPT ![a] = [@ EXCEPT !.ctrl = r]] IN
               [obj |-> o2, rev |-> rev, l |-> [l EXCEPT !.pc = nxt, !.done = @ \cup {a}]]
     ELSE IF obj[a].ex THEN bad
          ELSE LET o2 == [obj EXCEPT ![a] = Made(r, IF isDep THEN r ELSE "none", FALSE)] IN
               [obj |-> o2, rev |-> rev, l |-> [l EXCEPT !.pc = nxt, !.done = @ \cup {a}]]

\* the effect of the call at the current pc when no fault is injected: [obj, rev, l]; l.pc = "END" ends the reconcile
OkEffect(r) ==
  LET l == loc[r]
      same(nl) == [obj |-> obj, rev |-> rev, l |-> nl]
      got(a, nxt) == same([l EXCEPT !.pc = nxt, !.found = obj[a].ex])
      d == DepOf(r, l.dn)
      s == SaOf(r, l.san)
  IN CASE l.pc = "drc" -> same([l EXCEPT !.dn = drc.dn, !.san = drc.san, !.ext = drc.ext,
                                          !.pc = IF l.des = "Inactive" THEN "del" ELSE "updrev"])
       [] l.pc = "del" ->
            LET nl == [l EXCEPT !.pc = IF l.refs THEN "status" ELSE "updrev"] IN
            IF obj[d].ex /\ (OwnDelete => obj[d].ctrl \in {r, "none"})
            THEN [obj |-> [obj EXCEPT ![d] = Absent], rev |-> rev, l |-> nl]
            ELSE same(nl)
       [] l.pc = "updrev" ->
            IF l.dirty THEN same([l EXCEPT !.pc = "END"])      \* Conflict: requeue
            ELSE same([l EXCEPT !.pc = IF l.des = "Active" \/ ~GuardInactive THEN "svc.g" ELSE "status"])
       [] l.pc = "svc.g" -> got("svc", "svc.w")
       [] l.pc = "svc.w" -> ApplyW(r, "svc", IF Provider THEN "secC.g" ELSE "secS.g")
       [] l.pc = "secC.g" -> got("secC", "secC.w")
       [] l.pc = "secC.w" -> ApplyW(r, "secC", "secS.g")
       [] l.pc = "secS.g" -> got("secS", "secS.w")
       [] l.pc = "secS.w" ->
            LET e == ApplyW(r, "secS", "tbd") IN
            IF e.l.pc = "tbd" THEN [e EXCEPT !.l.pc = AfterSecS(l, e.obj)] ELSE e
       [] l.pc = "genS" ->
            LET o2 == [obj EXCEPT !["secS"] = [@ EXCEPT !.ex = TRUE, !.data = TRUE, !.ctrl = IF Provider THEN "pkg" ELSE r]] IN
            [obj |-> o2, rev |-> rev, l |-> [l EXCEPT !.pc = AfterGenS(l, o2)]]
       [] l.pc = "genC" ->
            LET o2 == [obj EXCEPT !["secC"] = [@ EXCEPT !.ex = TRUE, !.data = TRUE, !.ctrl = "pkg"]] IN
            [obj |-> o2, rev |-> rev, l |-> [l EXCEPT !.pc = PostStart(l)]]
       [] l.pc = "sa.g0" -> same([l EXCEPT !.pc = "sa.g"])
       [] l.pc = "sa.g" -> got(s, "sa.w")
       [] l.pc = "sa.w" -> ApplyW(r, s, "dep.g")
       [] l.pc = "dep.g" -> got(d, "dep.w")
       [] l.pc = "dep.w" ->
            LET e == ApplyW(r, d, "tbd") IN
            IF e.l.pc # "tbd" THEN e
            ELSE LET av == e.obj[d].avail IN
                 [e EXCEPT !.l.davail = av, !.l.est = TRUE,
                           !.l.pc = IF av = "true" \/ ~GuardHealth THEN "status" ELSE "errstatus"]
       [] l.pc = "status" ->
            IF l.dirty THEN same([l EXCEPT !.pc = "END"])
            ELSE [obj |-> obj, rev |-> [rev EXCEPT ![r] = [@ EXCEPT !.hl = "true", !.refs = TRUE]], l |-> [l EXCEPT !.pc = "END"]]
       [] l.pc = "errstatus" ->
            IF l.dirty THEN same([l EXCEPT !.pc = "END"])
            ELSE [obj |-> obj, rev |-> [rev EXCEPT ![r] = [@ EXCEPT !.hl = "false", !.refs = @ \/ l.est]], l |-> [l EXCEPT !.pc = "END"]]

End(r) == /\ loc' = [loc EXCEPT ![r] = IdleLoc]
          /\ IF Nested THEN cur' = susp /\ susp' = "none" /\ UNCHANGED recs
                       ELSE cur' = "none" /\ recs' = recs + 1 /\ UNCHANGED susp
Continue(r, nl) == IF nl.pc = "END" THEN End(r)
                   ELSE loc' = [loc EXCEPT ![r] = nl] /\ UNCHANGED <<cur, susp, recs>>
Log(k, o, f) == IF Nested THEN UNCHANGED hist ELSE hist' = Append(hist, H("call", k, o, f))

\* a top-level reconcile starts: Get of the revision
Start == /\ cur = "none" /\ recs < MaxRecs
         /\ \E r \in Revs, f \in Outs(FALSE, "rev") :
              /\ Log("get", "rev-" \o r, f)
              /\ faults' = (IF f = "ok" THEN faults ELSE faults + 1)
              /\ act' = [t |-> "call", who |-> r]
              /\ IF f = "ok"
                 THEN /\ cur' = r /\ UNCHANGED recs
                      /\ loc' = [loc EXCEPT ![r] = [IdleLoc EXCEPT !.pc = "drc", !.des = rev[r].des, !.refs = rev[r].refs]]
                 ELSE recs' = recs + 1 /\ UNCHANGED <<cur, loc>>
         /\ UNCHANGED <<obj, rev, drc, susp, edits, nests>>

Step == /\ cur # "none"
        /\ LET r == cur
               c == CallOf(r)
               e == OkEffect(r)
           IN \E f \in Outs(c.w, loc[r].pc) :
                /\ Log(c.k, c.o, f)
                /\ faults' = (IF f = "ok" THEN faults ELSE faults + 1)
                /\ act' = [t |-> "call", who |-> r]
                /\ CASE f = "ok" -> obj' = e.obj /\ rev' = e.rev /\ Continue(r, e.l)
                     [] f = "crashAfter" -> obj' = e.obj /\ rev' = e.rev /\ End(r)
                     [] f = "error" -> UNCHANGED <<obj, rev>> /\ Continue(r, ErrLoc(loc[r]))
                     [] f = "miss" -> UNCHANGED <<obj, rev>> /\ Continue(r, [e.l EXCEPT !.found = FALSE])
                     [] OTHER -> UNCHANGED <<obj, rev>> /\ End(r)
        /\ UNCHANGED <<drc, edits, nests>>

Next == Env \/ Start \/ Step
Spec == Init /\ [][Next]_vars

----------------------------------------------------------------------------
(* Design-level properties (safety of single steps of a reconcile)         *)
ByRec == act'.t = "call"
Who == act'.who
Changed(a) == obj'[a] # obj[a]
IsGen == cur # "none" /\ loc[cur].pc \in {"genS", "genC"}

\* I1
InactiveNeverCreates ==
  [][(ByRec /\ cur # "none" /\ loc[cur].des = "Inactive") => \A a \in Obj : Changed(a) => ~obj'[a].ex]_vars
\* I3 (holds only with OwnDelete = TRUE: the code as written deletes by name)
HandOverSafe ==
  [][ByRec => \A d \in Deps : (obj[d].ex /\ ~obj'[d].ex) => ~(obj[d].ctrl = Other(Who) /\ rev[Other(Who)].des = "Active")]_vars
\* I4
Owned ==
  [][(ByRec /\ ~IsGen) => \A a \in Obj : (Changed(a) /\ obj'[a].ex) => obj'[a].ctrl = Who]_vars
\* I5
Order ==
  [][ByRec => \A d \in Deps : (Changed(d) /\ obj'[d].ex) =>
        LET l == loc[Who] IN
        /\ {"svc", "secS"} \subseteq l.done
        /\ (Provider => "secC" \in l.done)
        /\ (~l.ext => SaOf(Who, l.san) \in l.done)]_vars
\* I6
HealthTruth ==
  [][(ByRec /\ cur # "none" /\ loc[cur].des = "Active" /\ rev'[cur].hl = "true" /\ rev'[cur] # rev[cur]) => loc[cur].davail = "true"]_vars
=============================================================================
