// Package replay aligns a behaviour emitted by TLC (a sequence of environment
// steps and expected controller calls) with the calls the real code makes, so
// that faults and mid-reconcile environment steps are injected at the point the
// model chose. The scenario only steers the environment: when the real code
// makes calls the model did not predict (or omits predicted ones) the replay
// continues and the divergence is counted as drift; the verdict always comes
// from the recorded real trace.
package replay

import (
	"encoding/json"

	"github.com/crossplane/crossplane/zzverif/simapi"
)

// Entry is one step of a TLC history.
type Entry struct {
	T   string         `json:"t"`
	K   string         `json:"k"`
	O   string         `json:"o"`
	F   string         `json:"f"`
	Raw map[string]any `json:"-"`
}

// Abs is the abstract call key of a call entry.
func (e Entry) Abs() string { return e.K + ":" + e.O }

// Parse decodes a TLC history (a JSON array of records).
func Parse(raw json.RawMessage) ([]Entry, error) {
	var ms []map[string]any
	if err := json.Unmarshal(raw, &ms); err != nil {
		return nil, err
	}
	out := make([]Entry, len(ms))
	for i, m := range ms {
		s := func(k string) string { v, _ := m[k].(string); return v }
		out[i] = Entry{T: s("t"), K: s("k"), O: s("o"), F: s("f"), Raw: m}
	}
	return out, nil
}

// Block is one reconcile of an actor: the environment steps that precede it
// and the (call | env) entries that make it up.
type Block struct {
	Pre   []Entry
	Steps []Entry
}

// Split cuts the entries after the init entry into reconcile blocks. A block
// starts at a call entry for which isStart holds and extends to the last call
// entry before the next start; env entries after that belong to the next block's Pre.
func Split(hist []Entry, isStart func(Entry) bool) (blocks []Block, trailing []Entry) {
	var cur *Block
	var pend []Entry
	flush := func() {
		if cur != nil {
			blocks = append(blocks, *cur)
			cur = nil
		}
	}
	for _, e := range hist {
		switch {
		case e.T == "call" && isStart(e):
			flush()
			cur = &Block{Pre: pend}
			pend = nil
			cur.Steps = append(cur.Steps, e)
		case e.T == "call":
			if cur == nil {
				cur = &Block{Pre: pend}
				pend = nil
			}
			cur.Steps = append(cur.Steps, pend...)
			pend = nil
			cur.Steps = append(cur.Steps, e)
		case e.T == "env":
			pend = append(pend, e)
		}
	}
	flush()
	return blocks, pend
}

// Aligner walks a block while the real code runs.
type Aligner struct {
	Steps   []Entry
	Variant simapi.Decision // how a "fail" entry is realised: FailError, FailConflict or CrashBefore
	// DiesAs is how a "crashBefore" entry is realised: CrashBefore (default) or,
	// for controllers that return at once on a conflict, FailConflict (writes only).
	DiesAs simapi.Decision
	Env     func(Entry)     // executes an environment entry
	// Virtual marks call entries that have no counterpart among the real calls of
	// this driver (they are skipped); Ignore marks real calls the model does not
	// describe (they proceed and are not counted as drift).
	Virtual func(Entry) bool
	Ignore  func(abs string) bool
	// Window is how far ahead OnCall looks for a matching call entry when the
	// next one does not match (the code iterates Go maps: loop order is free).
	Window  int
	Matched *Entry // the entry matched by the last OnCall, nil if none
	// PastEnv (optional) lets OnCall look past environment entries: when the call being made matches the entry right
	// after a run of environment entries and PastEnv(envs, skipped) says the environment steps commute with the
	// call entries that would be skipped (they concern other objects), the environment steps are executed now and the
	// skipped entries stay pending. For code whose call order differs from the model's (the model collects after all
	// reads, the code interleaves reads and collection per object).
	PastEnv func(envs, skipped []Entry) bool
	i       int

	Drift    int    // real calls the model did not predict + predicted calls never made
	Injected string // the fault injected in this reconcile, if any
	EnvSteps int    // environment steps executed in the middle of this reconcile
	DriftAbs []string // the abstract keys that did not match ("+key" extra real call, "-key" predicted call never made)
}

func (a *Aligner) runEnv() {
	for a.i < len(a.Steps) && a.Steps[a.i].T == "env" {
		if a.Env != nil {
			a.Env(a.Steps[a.i])
		}
		a.EnvSteps++
		a.i++
	}
}

// OnCall is given the abstract key of a real call and says what to do with it.
func (a *Aligner) OnCall(abs string, write bool) simapi.Decision {
	a.Matched = nil
	if a.Ignore != nil && a.Ignore(abs) {
		return simapi.Proceed
	}
	a.skipVirtual()
	a.runEnvPeek(abs)
	a.skipVirtual()
	a.lookPastEnv(abs)
	j := a.find(abs)
	if j < 0 {
		a.Drift++
		a.DriftAbs = append(a.DriftAbs, "+"+abs)
		return simapi.Proceed
	}
	// rotate the matched entry to the front
	e := a.Steps[j]
	copy(a.Steps[a.i+1:j+1], a.Steps[a.i:j])
	a.Steps[a.i] = e
	a.Matched = &a.Steps[a.i]
	a.i++
	switch e.F {
	case "fail":
		d := a.Variant
		if d == simapi.FailConflict && !write {
			d = simapi.FailError
		}
		a.Injected = d.String()
		return d
	case "error":
		a.Injected = simapi.FailError.String()
		return simapi.FailError
	case "crashBefore":
		d := simapi.CrashBefore
		if a.DiesAs == simapi.FailConflict && write {
			d = simapi.FailConflict
		}
		a.Injected = d.String()
		return d
	case "crashAfter":
		a.Injected = simapi.CrashAfter.String()
		return simapi.CrashAfter
	case "miss":
		// not a fault: the informer cache has not seen the object yet (reads only)
		if !write {
			return simapi.CacheMiss
		}
	}
	return simapi.Proceed
}

func (a *Aligner) skipVirtual() {
	for a.Virtual != nil && a.i < len(a.Steps) && a.Steps[a.i].T == "call" && a.Virtual(a.Steps[a.i]) {
		a.i++
	}
}

// find returns the index of the first call entry with the given key among the
// next Window+1 call entries (not looking past an environment entry), or -1.
func (a *Aligner) find(abs string) int {
	seen := 0
	for j := a.i; j < len(a.Steps) && seen <= a.Window; j++ {
		if a.Steps[j].T != "call" {
			return -1
		}
		if a.Virtual != nil && a.Virtual(a.Steps[j]) {
			continue
		}
		if a.Steps[j].Abs() == abs {
			return j
		}
		seen++
	}
	return -1
}

// lookPastEnv: see PastEnv.
func (a *Aligner) lookPastEnv(abs string) {
	if a.PastEnv == nil || a.find(abs) >= 0 {
		return
	}
	seen, j := 0, a.i
	var skipped []Entry
	for ; j < len(a.Steps) && seen <= a.Window && a.Steps[j].T == "call"; j++ {
		if a.Virtual != nil && a.Virtual(a.Steps[j]) {
			continue
		}
		skipped = append(skipped, a.Steps[j])
		seen++
	}
	k := j
	for k < len(a.Steps) && a.Steps[k].T == "env" {
		k++
	}
	if k == j || k >= len(a.Steps) || a.Steps[k].T != "call" || a.Steps[k].Abs() != abs || !a.PastEnv(a.Steps[j:k], skipped) {
		return
	}
	// move the environment entries and the matched call in front of the skipped call entries
	moved := append([]Entry(nil), a.Steps[j:k+1]...)
	rest := append([]Entry(nil), a.Steps[a.i:j]...)
	copy(a.Steps[a.i:], moved)
	copy(a.Steps[a.i+len(moved):], rest)
	a.runEnv()
}

// runEnvPeek executes pending env entries only if the call after them is the
// one being made now (otherwise the real call is an extra one and the
// environment step has to wait for its place).
func (a *Aligner) runEnvPeek(abs string) {
	j := a.i
	for j < len(a.Steps) && a.Steps[j].T == "env" {
		j++
	}
	if j < len(a.Steps) && a.Steps[j].Abs() == abs {
		a.runEnv()
	}
}

// Finish executes what is left of the block after the real reconcile returned.
func (a *Aligner) Finish() {
	for a.i < len(a.Steps) {
		if a.Steps[a.i].T == "env" {
			if a.Env != nil {
				a.Env(a.Steps[a.i])
			}
			a.EnvSteps++
		} else if a.Virtual == nil || !a.Virtual(a.Steps[a.i]) {
			a.Drift++
			a.DriftAbs = append(a.DriftAbs, "-"+a.Steps[a.i].Abs())
		}
		a.i++
	}
}
