SPECIFICATION Spec
CONSTANTS
  Syncer = "SSA"
  Pres <- PresFresh
  Cdps <- PolNone
  Xdefs <- PolNone
  Ofins <- OnlyFalse
  Rdys <- RdyNone
  Conn = TRUE
  MaxRecs = 1
  MaxFaults = 1
  MaxEnv = 0
  MidEnv = TRUE
  EnvKinds <- NoEnv
  FaultKinds <- NoFaults
  FinFirst = FALSE
  RvCheck = TRUE
  FixDeleting = TRUE
  FixMiss = FALSE
  FixStale = FALSE
VIEW view
ACTION_CONSTRAINT Emit
CHECK_DEADLOCK FALSE
INVARIANTS StepProps FinBeforeSync
