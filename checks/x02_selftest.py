#!/usr/bin/env python3
"""Anti-vacuity self test of the X02 check (run by hand: python3 checks/x02_selftest.py [mutant names]).

Sanity mutants of the real definition / offered reconcilers, applied ONLY through `go build -overlay` on scratch
copies (nothing is written to /repo): each must make MonXrdLifecycle report the expected formulas under their PLAIN
names (not under the fingerprints .StaleRecord / .RunningBranch of the findings D17 / D18, which the unchanged tree
shows).  Then seeded corruptions of recorded fields of a real trace: the monitor must reject exactly that line.
Scratch: /verif/.work/X02-selftest."""
import json
import os
import subprocess
import sys

sys.path.insert(0, os.path.dirname(os.path.dirname(os.path.abspath(__file__))))
import vlib  # noqa: E402
from checks import x02  # noqa: E402

DEF = "internal/controller/apiextensions/definition/reconciler.go"
OFF = "internal/controller/apiextensions/offered/reconciler.go"
KNOWN = {"CondTruth.Watches.RunningBranch", "CondTruth.Version.StaleRecord", "CondTruth.TypeRef.StaleRecord",
         "AfterReconcile.Watches.RunningBranch", "AfterReconcile.Version.StaleRecord", "AfterReconcile.TypeRef.StaleRecord"}
MUTANTS = [
    # (name, file in /repo, [(old text, new text)], formulas that must fire)
    ("def-does-not-wait-for-established", DEF,
     [("\tif !xcrd.IsEstablished(crd.Status) {\n\t\tlog.Debug(waitCRDEstablish)", "\tif false && !xcrd.IsEstablished(crd.Status) {\n\t\tlog.Debug(waitCRDEstablish)")],
     ["StartOnlyEstablished"]),
    ("def-no-restart-on-version-change", DEF,
     [("\tif observed.APIVersion != \"\" && observed != desired {\n\t\tif err := r.engine.Stop(ctx, composite.ControllerName(d.GetName())); err != nil {\n\t\t\terr = errors.Wrap(err, errStopController)\n\t\t\tr.record.Event(d, event.Warning(reasonEstablishXR, err))",
       "\tif false && observed != desired {\n\t\tif err := r.engine.Stop(ctx, composite.ControllerName(d.GetName())); err != nil {\n\t\t\terr = errors.Wrap(err, errStopController)\n\t\t\tr.record.Event(d, event.Warning(reasonEstablishXR, err))")],
     ["CondTruth.Version", "AfterReconcile.Version"]),
    ("off-applies-without-controllable-check", OFF,
     [("r.client.Apply(ctx, crd, resource.MustBeControllableBy(d.GetUID()), resource.StoreCurrentRV(&origRV))", "r.client.Apply(ctx, crd, resource.StoreCurrentRV(&origRV))")],
     []),  # the claim CRD is never foreign in the explored worlds: must stay silent (see def- variant below)
    ("def-applies-without-controllable-check", DEF,
     [("r.client.Apply(ctx, crd, resource.MustBeControllableBy(d.GetUID()), resource.StoreCurrentRV(&origRV))", "r.client.Apply(ctx, crd, resource.StoreCurrentRV(&origRV))")],
     ["Foreign.Untouched", "Foreign.Stops"]),
    ("def-skips-finalizer", DEF,
     [("\tif err := r.composite.AddFinalizer(ctx, d); err != nil {\n\t\tlog.Debug(errAddFinalizer", "\tif err := error(nil); err != nil {\n\t\tlog.Debug(errAddFinalizer")],
     ["FinalizerFirst", "AfterReconcile.Finalizer"]),
    ("off-does-not-record-type", OFF,
     [("\td.Status.Controllers.CompositeResourceClaimTypeRef = v1.TypeReferenceTo(d.GetClaimGroupVersionKind())\n", "")],
     ["CondTruth.TypeRef", "AfterReconcile.TypeRef"]),
    ("off-skips-startwatches", OFF,
     [("\tif err := r.engine.StartWatches(claim.ControllerName(d.GetName()),", "\tif err := func(string, ...engine.Watch) error { return nil }(claim.ControllerName(d.GetName()),")],
     ["CondTruth.Watches", "AfterReconcile.Watches"]),
    ("def-reports-established-before-start", DEF,
     [("\tif err := r.engine.Start(name, co...); err != nil {", "\td.Status.SetConditions(v1.WatchingComposite())\n\t_ = r.client.Status().Update(ctx, d)\n\tif err := r.engine.Start(name, co...); err != nil {")],
     ["CondTruth.Running"]),
    ("def-patches-instead-of-updating", DEF,
     [("Applicator: resource.NewAPIUpdatingApplicator(c)}", "Applicator: resource.NewAPIPatchingApplicator(c)}")],
     ["Faithful.Write", "AfterReconcile.Crd"]),
    ("def-memoises-rendering-by-name-and-generation", DEF,
     [("\t\t\tCRDRenderer: CRDRenderFn(xcrd.ForCompositeResource),", "\t\t\tCRDRenderer: memoRender(xcrd.ForCompositeResource),"),
      ("// A Reconciler reconciles CompositeResourceDefinitions.\ntype Reconciler struct {",
       "func memoRender(fn CRDRenderFn) CRDRenderFn {\n\tcache := map[string]*extv1.CustomResourceDefinition{}\n"
       "\treturn func(d *v1.CompositeResourceDefinition) (*extv1.CustomResourceDefinition, error) {\n"
       "\t\tk := fmt.Sprintf(\"%s/%d\", d.GetName(), d.GetGeneration())\n\t\tif c, ok := cache[k]; ok {\n\t\t\treturn c.DeepCopy(), nil\n\t\t}\n"
       "\t\tc, err := fn(d)\n\t\tif err == nil {\n\t\t\tcache[k] = c.DeepCopy()\n\t\t}\n\t\treturn c, err\n\t}\n}\n\n"
       "// A Reconciler reconciles CompositeResourceDefinitions.\ntype Reconciler struct {")],
     ["Faithful.Write"]),
    ("def-restarts-on-every-reconcile", DEF,
     [("\tif observed.APIVersion != \"\" && observed != desired {\n\t\tif err := r.engine.Stop(ctx, composite.ControllerName(d.GetName())); err != nil {\n\t\t\terr = errors.Wrap(err, errStopController)\n\t\t\tr.record.Event(d, event.Warning(reasonEstablishXR, err))",
       "\tif observed.APIVersion != \"\" {\n\t\tif err := r.engine.Stop(ctx, composite.ControllerName(d.GetName())); err != nil {\n\t\t\terr = errors.Wrap(err, errStopController)\n\t\t\tr.record.Event(d, event.Warning(reasonEstablishXR, err))")],
     ["Restart.NoNeedlessStop", "Quiescent"]),
]


def build_mutant(ctx, name, rel, edits):
    src = open(os.path.join("/repo", rel)).read()
    for old, new in edits:
        if src.count(old) != 1:
            raise SystemExit("mutant %s: anchor text occurs %d times in %s" % (name, src.count(old), rel))
        src = src.replace(old, new)
    d = os.path.join(ctx.work, "mutants", name)
    os.makedirs(d, exist_ok=True)
    mp = os.path.join(d, os.path.basename(rel))
    with open(mp, "w") as f:
        f.write(src)
    ov = os.path.join(d, "overlay.json")
    with open(ov, "w") as f:
        json.dump({"Replace": {os.path.join("/repo", rel): mp}}, f)
    out = os.path.join(d, "xrdlifecycle")
    e = dict(os.environ)
    e.update(vlib.GOENV)
    p = subprocess.run(["go", "build", "-overlay", ov, "-o", out, "./drivers/xrdlifecycle"], cwd=vlib.HARNESS, env=e,
                       stdout=subprocess.PIPE, stderr=subprocess.STDOUT, text=True)
    if p.returncode != 0:
        raise SystemExit("mutant %s does not build:\n%s" % (name, p.stdout[-3000:]))
    return out


def judge(ctx, binp, scs, tag):
    prefix, s = ctx.run_sharded(binp, scs, [], shards=8, name="trace_" + tag)
    viols, _ = ctx.monitor("MonXrdLifecycle", prefix, par=8, heap="3g")
    by = {}
    for f, _, _ in viols:
        by[f] = by.get(f, 0) + 1
    return by, prefix, s


def main():
    only = set(sys.argv[1:])
    ctx = vlib.Ctx("X02-selftest", "quick", 1)
    scs = x02.regression()
    for name, n in x02.QUICK:
        mc = ctx.model_check("MCXrdLifecycle", "MCXrdLifecycle_%s.cfg" % name, sub="mc_" + name, workers=4, timeout=300)
        scs += [{"id": "%s-%s-%07d" % (x02.PID, name, i), "hist": h}
                for i, h in ctx.sample_lines_stratified(mc["emitted_file"], n // 2, mc["emitted"], key=x02.feats)]
    ok = True
    base, prefix, s = judge(ctx, ctx.go_build("./drivers/xrdlifecycle"), scs, "base")
    print("unchanged tree (%d schedules, drift %d):" % (len(scs), s["drift"]), base)
    ok &= set(base) <= KNOWN
    for name, rel, edits, expect in MUTANTS:
        if only and name not in only:
            continue
        got, _, s = judge(ctx, build_mutant(ctx, name, rel, edits), scs, name)
        fresh = {f: c for f, c in got.items() if f not in KNOWN}
        hit = all(f in got for f in expect) and (bool(expect) or not fresh)
        ok &= hit
        print("mutant %-48s %s  fired: %s  (drift %d)" % (name, ("DETECTED" if expect else "SILENT (as expected)") if hit else "MISSED (expected %s)" % expect,
                                                       fresh, s["drift"]), flush=True)
    # seeded corruption of recorded fields of the real trace
    trace = prefix + ".s00"
    lines = open(trace).read().splitlines()

    def call(abs_, **kw):
        def pick(e):
            return e["ev"] == "call" and e["abs"] == abs_ and all(e.get(k) == v for k, v in kw.items())
        return pick
    corruptions = [
        ("start although the applied CRD was not Established", call("start", outcome="ok"), lambda e: e["seen"].update(aest=False), "StartOnlyEstablished"),
        ("engine not running when Watching is reported", lambda e: call("status:xrd", outcome="ok", actor="def")(e) and e["post"]["xrd"]["condx"] == "True",
         lambda e: e["post"].update(runx=False), "CondTruth.Running"),
        ("CRD written with another storage version", lambda e: call("update:crd", actor="def")(e) and e["applied"],
         lambda e: e["post"]["crdx"].update(ver="v9"), "Faithful.Write"),
        ("CRD written without a controller reference to the XRD", lambda e: call("create:crd", actor="def")(e) and e["applied"],
         lambda e: e["post"]["crdx"].update(ctrl="foreign"), "Faithful.Write"),
        ("XRD write changes the spec", lambda e: e["ev"] == "call" and e["kind"] == "xrd" and e["applied"],
         lambda e: e["post"]["xrd"].update(s=7), "Faithful.XrdSpecKept"),
        ("a settled reconcile is followed by a write", lambda e: e["ev"] == "call" and e["sb"] and e["quiet"] and e["abs"] == "update:crd",
         lambda e: e.update(applied=True), "Quiescent"),
        ("done although the CRD is not Established", lambda e: e["ev"] == "end" and e["result"] == "done" and e["quiet"] and e["seen"]["got"] and e["actor"] == "def" and e["post"]["xrd"]["ex"],
         lambda e: e["post"]["crdx"].update(est=False), "AfterReconcile.Crd"),
    ]
    for what, pick, mutate, formula in corruptions:
        idx = next((i for i, ln in enumerate(lines) if pick(json.loads(ln))), None)
        if idx is None:
            print("corruption %-52s no suitable line" % what)
            ok = False
            continue
        e = json.loads(lines[idx])
        mutate(e)
        cp = os.path.join(ctx.work, "corrupt.ndjson")
        with open(cp, "w") as f:
            f.write("\n".join(lines[:idx] + [json.dumps(e)] + lines[idx + 1:]) + "\n")
        viols, _ = ctx.monitor("MonXrdLifecycle", cp)
        hit = any(f == formula and ln == idx + 1 for f, ln, _ in viols)
        ok &= hit
        print("corruption %-52s line %d: %s" % (what, idx + 1, "REJECTED by " + formula if hit else "NOT NOTICED"), flush=True)
    print("selftest", "PASSED" if ok else "FAILED")
    return 0 if ok else 1


if __name__ == "__main__":
    sys.exit(main())
