SPECIFICATION Spec
CONSTANTS
  OSeq <- OSeq3
  Pkg1 = {"a", "b"}
  Pkg2 = {"b", "c"}
  PreStates = {"absent", "R1", "Q"}
  MaxRej = 0
  FreeRefs = FALSE
  Grabs = FALSE
  MaxEdits = 2
  MaxFaults = 1
  MaxRecs = 3
VIEW view
ACTION_CONSTRAINT Emit
CHECK_DEADLOCK FALSE
INVARIANTS OneController InactiveSettled
PROPERTIES AllOrNothing OnlyActiveCreates InactivePlainStep ReleaseKeeps PkgOwner ForeignUntouched
