#!/usr/bin/env python3
"""Anti-vacuity self test of the C19 check (run by hand: python3 checks/c19_selftest.py).

1. sanity mutants of the real code, applied ONLY through `go build -overlay` on scratch copies (nothing is
   written to /repo): each must make MonUsage report the expected formula under its plain name (the D11
   fingerprints *.StaleUnlabel are present on the unchanged tree and do not count);
2. a mutated copy of cluster/webhookconfigurations/usage.yaml (objectSelector value changed): the API server no
   longer consults the webhook -> Protected;
3. seeded corruption of one recorded field of a real trace: MonUsage must reject that line.
Scratch: /verif/.work/C19-selftest."""
import json
import os
import subprocess
import sys

sys.path.insert(0, os.path.dirname(os.path.dirname(os.path.abspath(__file__))))
import vlib  # noqa: E402
from checks import c19  # noqa: E402

REC = "internal/controller/apiextensions/usage/reconciler.go"
HND = "internal/usage/handler.go"
GET_USED = ("\t// Get the used resource\n\tif err := r.client.Get(ctx, client.ObjectKey{Name: of.ResourceRef.Name}, used); err != nil {\n"
            "\t\tlog.Debug(errGetUsed, \"error\", err)\n\t\terr = errors.Wrap(err, errGetUsed)\n"
            "\t\tr.record.Event(u, event.Warning(reasonGetUsed, err))\n\t\treturn reconcile.Result{}, err\n\t}\n\n"
            "\t// Used resource should have in-use label.")
MUTANTS = [
    # (name, file in /repo, old text, new text, formulas that must fire)
    ("a-ready-before-labelling", REC, GET_USED,
     "\tu.Status.SetConditions(xpv1.Available())\n\tif err := r.client.Status().Update(ctx, u); err != nil {\n"
     "\t\treturn reconcile.Result{}, errors.Wrap(err, errUpdateStatus)\n\t}\n\n" + GET_USED,
     ["LabelFirst", "Protected"]),
    ("b-unlabel-whatever-remains", REC, "if len(usageList.Items) < 2 {", "if len(usageList.Items) < 3 {", ["LabelLast", "Protected"]),
    ("c1-webhook-allows-one-usage", HND, "if len(usageList.Items) > 0 {", "if len(usageList.Items) > 1 {", ["Protected"]),
    ("c2-index-without-group", HND, "return fmt.Sprintf(\"%s.%s.%s\", gr.Group, kind, name)",
     "_ = gr\n\treturn fmt.Sprintf(\"%s.%s\", kind, name)", ["Allowed", "IndexAgree"]),
    ("c3-index-with-version", HND, "return fmt.Sprintf(\"%s.%s.%s\", gr.Group, kind, name)",
     "_ = gr\n\treturn fmt.Sprintf(\"%s.%s.%s\", apiVersion, kind, name)", ["Protected", "IndexAgree"]),
    ("d-composer-option-drops-owners", REC, "\t\tcu, ok := current.(*composed.Unstructured)\n\t\tif !ok ||",
     "\t\tcu, ok := current.(*composed.Unstructured)\n\t\tif true || !ok ||", ["Owned"]),
    ("d2-composer-without-the-option", "internal/controller/apiextensions/composite/composition_pt.go",
     "o := []resource.ApplyOption{resource.MustBeControllableBy(xr.GetUID()), usage.RespectOwnerRefs()}",
     "_ = usage.RespectOwnerRefs\n\t\to := []resource.ApplyOption{resource.MustBeControllableBy(xr.GetUID())}", ["Owned"]),
    ("f-no-owner-reference", REC, "if owners := u.GetOwnerReferences(); len(owners) == 0 || owners[0].UID != using.GetUID() {",
     "if owners := u.GetOwnerReferences(); false && (len(owners) == 0 || owners[0].UID != using.GetUID()) {", ["Owned"]),
    ("g-attempt-not-recorded", HND, "if u.GetAnnotations() == nil || u.GetAnnotations()[AnnotationKeyDeletionAttempt] != string(policy) {",
     "if false {", ["Protected.NotRecorded"]),
    ("h-composed-usage-does-not-wait", REC, "if by != nil && u.Labels[xcrd.LabelKeyNamePrefixForComposed] != \"\" {",
     "if by != nil && u.Labels[xcrd.LabelKeyNamePrefixForComposed] == \"never\" {", ["UsageAfterUser"]),
]


def build_mutant(ctx, name, rel, old, new):
    src = open(os.path.join("/repo", rel)).read()
    if src.count(old) != 1:
        raise SystemExit("mutant %s: anchor text occurs %d times in %s" % (name, src.count(old), rel))
    d = os.path.join(ctx.work, "mutants", name)
    os.makedirs(d, exist_ok=True)
    mp = os.path.join(d, os.path.basename(rel))
    with open(mp, "w") as f:
        f.write(src.replace(old, new))
    ov = os.path.join(d, "overlay.json")
    with open(ov, "w") as f:
        json.dump({"Replace": {os.path.join("/repo", rel): mp}}, f)
    out = os.path.join(d, "usage")
    e = dict(os.environ)
    e.update(vlib.GOENV)
    p = subprocess.run(["go", "build", "-overlay", ov, "-o", out, "./drivers/usage"], cwd=vlib.HARNESS, env=e,
                       stdout=subprocess.PIPE, stderr=subprocess.STDOUT, text=True)
    if p.returncode != 0:
        raise SystemExit("mutant %s does not build:\n%s" % (name, p.stdout[-3000:]))
    return out


def judge(ctx, binp, scs, tag, extra=()):
    prefix, _ = ctx.run_sharded(binp, scs, ["-chunk", "40000"] + list(extra), shards=6, name="trace_" + tag)
    viols, _ = ctx.monitor("MonUsage", prefix, par=8)
    by = {}
    for f, _, _ in viols:
        by[f] = by.get(f, 0) + 1
    return by, prefix


def main():
    ctx = vlib.Ctx("C19-selftest", "quick", 1)
    scs = c19.regression()
    for cfg, n in [("MCUsage_quick_race.cfg", 1400), ("MCUsage_quick_faults.cfg", 1400), ("MCUsage_quick_two.cfg", 600), ("MCUsage_quick_comp.cfg", 1500)]:
        name = cfg[len("MCUsage_"):-4]
        mc = ctx.model_check("MCUsage", cfg, sub="mc_" + name, workers=8, timeout=300)
        scs += [{"id": "C19-%s-%07d" % (name, i), "hist": h} for i, h in ctx.sample_lines(mc["emitted_file"], n, mc["emitted"])]
    ok = True
    binp = ctx.go_build("./drivers/usage")
    base, _ = judge(ctx, binp, scs, "base")
    print("unchanged tree:", base)
    plain = [f for f in base if not f.endswith(".StaleUnlabel")]
    if plain:
        print("unchanged tree reports formulas outside the D11 fingerprints:", plain)
        ok = False
    for name, rel, old, new, expect in MUTANTS:
        got, _ = judge(ctx, build_mutant(ctx, name, rel, old, new), scs, name)
        new_formulas = {f: n for f, n in got.items() if n > base.get(f, 0)}
        hit = all(f in new_formulas for f in expect)
        ok &= hit
        print("mutant %-36s %s  new/raised: %s" % (name, "DETECTED" if hit else "MISSED (expected %s)" % expect, new_formulas))
    # the webhook configuration is an input too: a selector that no longer matches the marker the controller writes
    y = open("/repo/cluster/webhookconfigurations/usage.yaml").read()
    assert 'crossplane.io/in-use: "true"' in y
    yp = os.path.join(ctx.work, "usage_mutated.yaml")
    with open(yp, "w") as f:
        f.write(y.replace('crossplane.io/in-use: "true"', 'crossplane.io/in-use: "yes"'))
    got, _ = judge(ctx, binp, scs, "yaml", extra=["-webhookcfg", yp])
    hit = got.get("Protected", 0) > 0
    ok &= hit
    print("mutant %-36s %s  %s" % ("e-objectSelector-other-value (yaml)", "DETECTED" if hit else "MISSED (expected Protected)", got))

    # seeded corruption of recorded fields of one real trace (the protect-and-release regression scenario)
    reg = [s for s in c19.regression() if "protect-and-release" in s["id"]]
    _, prefix = judge(ctx, binp, reg, "one")
    tf = sorted(os.path.join(ctx.work, f) for f in os.listdir(ctx.work) if f.startswith(os.path.basename(prefix) + "."))[0]
    lines = open(tf).read().splitlines()

    def used(e, i="u1"):
        return [u for u in e["post"]["used"] if u["id"] == i][0]

    def usage(e, i):
        return [s for s in e["post"]["us"] if s["id"] == i][0]

    corruptions = [
        ("a probe flipped to allow", lambda e: usage(e, "s1")["ready"] and not usage(e, "s1")["del"] and used(e)["ex"],
         lambda e: used(e)["probes"][0].update(o="allow", via="bypass"), "Protected"),
        ("marker dropped before Ready", lambda e: e["abs"] == "update:label" and e["actor"] == "s2",
         lambda e: used(e).update(label=False), "LabelFirst", 1),
        ("owner reference dropped", lambda e: usage(e, "s1")["ready"] and usage(e, "s1")["by"] == "b1",
         lambda e: usage(e, "s1").update(owners=[]), "Owned"),
        ("index value of another version", lambda e: usage(e, "s1")["ex"],
         lambda e: usage(e, "s1").update(idx=["example.org/v1beta1.Thing.u1"]), "IndexAgree"),
        ("denied request not recorded", lambda e: e["ev"] == "delreq" and e["req"]["o"] == "deny",
         lambda e: used(e).update(ann="none"), "Protected.NotRecorded"),
        ("marker removed while s2 is live", lambda e: e["abs"] == "update:rmfin" and e["actor"] == "s1",
         lambda e: used(e).update(label=False), "LabelLast"),
    ]
    for c in corruptions:
        what, pick, mutate, formula = c[:4]
        off = c[4] if len(c) > 4 else 0      # the formula fires this many lines after the corrupted one
        idx = next(i for i, ln in enumerate(lines) if pick(json.loads(ln)))
        e = json.loads(lines[idx])
        mutate(e)
        cp = os.path.join(ctx.work, "corrupt.ndjson")
        with open(cp, "w") as f:
            f.write("\n".join(lines[:idx] + [json.dumps(e)] + lines[idx + 1:]) + "\n")
        viols, _ = ctx.monitor("MonUsage", cp)
        hit = any(f == formula and idx + 1 <= ln <= idx + 1 + off for f, ln, _ in viols)
        ok &= hit
        print("corruption %-34s line %d: %s" % (what, idx + 1, "REJECTED by " + formula if hit else "NOT NOTICED %s" % viols[:4]))
    print("selftest", "PASSED" if ok else "FAILED")
    return 0 if ok else 1


if __name__ == "__main__":
    sys.exit(main())
