---------------------------- MODULE MonPkgManager ----------------------------
(***************************************************************************)
(* Trace monitor for PkgManager: evaluates the C14 formulas (and the C02   *)
(* placement on revisions) on every recorded state / step of executions of *)
(* the real package manager reconciler.  The trace is fully logged (every  *)
(* event carries the whole projected state), so the search is linear: one  *)
(* state per line.  A violated formula is reported as a VIOL line and the  *)
(* monitor keeps going, so that every violation in a batch of traces is    *)
(* seen (known findings are filtered by the check script, by fingerprint). *)
(***************************************************************************)
EXTENDS Integers, Sequences, FiniteSets, TLC, Json, IOUtils

Trace == ndJsonDeserialize(IOEnv.VERIF_TRACE)
VARIABLE l
Range(s) == {s[i] : i \in DOMAIN s}
Max(S) == IF S = {} THEN 0 ELSE CHOOSE m \in S : \A x \in S : x <= m
Min(S) == CHOOSE m \in S : \A x \in S : m <= x

Revs(e) == Range(e.post.revs)
ActiveD(e) == {r.d : r \in {x \in Revs(e) : x.act}}

\* ---- state formulas (every recorded state)
OneActive(e) == Cardinality({i \in DOMAIN e.post.revs : e.post.revs[i].act}) <= 1
NameFunction(e) == /\ \A r \in Revs(e) : r.known
                   /\ \A i, j \in DOMAIN e.post.revs : i # j => e.post.revs[i].d # e.post.revs[j].d

\* ---- step formulas (p = previous event of the same run, e = this event)
\* history GC: the victim is the oldest non-current revision the reconciler listed, more than limit+1 were listed, limit not 0 / nil
IsGc(e) == e.ev = "call" /\ e.verb = "delete" /\ e.kind = "rev" /\ e.applied
Listed(e) == Range(e.seen.listed)
\* (the candidates are the listed revisions the package controls: one that another owner controls is not the package's to
\* delete - C02, fix c80b2fe - and so is not "the oldest" the package could have chosen either)
NonCur(e) == {x \in Listed(e) : x.d # e.seen.cur /\ x.ctrl # "foreign"}
GcVictimNotCurrent(e) == IsGc(e) => e.target # e.seen.cur
GcOldest(e) == (IsGc(e) /\ e.target # e.seen.cur) =>
                 \E x \in NonCur(e) : x.d = e.target /\ x.num = Min({y.num : y \in NonCur(e)})
GcLimit(e) == IsGc(e) => (e.seen.limit # 0 /\ e.seen.limit # -1)
GcEnough(e) == IsGc(e) => Cardinality(Listed(e)) > e.seen.limit + 1
ActivateLast(p, e) ==
  e.ev = "call" => \A d \in ActiveD(e) \ ActiveD(p) : ActiveD(p) \ {d} = {}
\* C02: a revision controlled by a foreign owner is not written or deleted
ForeignFrozen(p, e) ==
  (e.ev = "call" /\ e.kind = "rev" /\ e.target # "none" /\ e.applied) =>
    \A r \in Revs(p) : r.d = e.target => r.ctrl # "foreign"
\* a fault-free reconcile in a quiet environment leaves the current revision existing, numbered last, active unless manual
AfterReconcile(e) ==
  (e.ev = "end" /\ e.result = "ok" /\ e.quiet /\ ~e.faulty) =>
    /\ e.seen.cur # "none"
    /\ \E r \in Revs(e) : /\ r.d = e.seen.cur
                          /\ r.num = Max({x.num : x \in Revs(e)})
                          /\ \A x \in Revs(e) : x.d # r.d => x.num < r.num
                          /\ (~e.post.pkg.manual => r.act)

Viol(name, i) == PrintT("VIOL|" \o name \o "|" \o ToString(i) \o "|" \o Trace[i].scenario)
Check(i) ==
  LET e == Trace[i] IN
  /\ (OneActive(e) \/ Viol("OneActive", i))
  /\ (NameFunction(e) \/ Viol("NameFunction", i))
  /\ (GcVictimNotCurrent(e) \/ Viol("GcSafe.VictimIsCurrent", i))
  /\ (GcOldest(e) \/ Viol("GcSafe.NotOldest", i))
  /\ (GcLimit(e) \/ Viol("GcSafe.Limit", i))
  /\ (GcEnough(e) \/ Viol("GcSafe.TooFew", i))
  /\ (AfterReconcile(e) \/ Viol("AfterReconcile", i))
  /\ (e.ev = "reset" \/ i = 1 \/
        LET p == Trace[i - 1] IN
        /\ (ActivateLast(p, e) \/ Viol("ActivateLast", i))
        /\ (ForeignFrozen(p, e) \/ Viol("ForeignFrozen", i)))

Init == l = 0
Next == /\ l < Len(Trace) /\ l' = l + 1 /\ Check(l')
        /\ (l' < Len(Trace) \/ PrintT("DONE|" \o ToString(l')))
Spec == Init /\ [][Next]_l
=============================================================================
