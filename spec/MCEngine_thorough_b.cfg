SPECIFICATION Spec
CONSTANTS
  Ctrls = {"c1", "c2"}
  Wids = {"xr", "rev", "cdA", "cdB"}
  Procs = {1, 2}
  MaxOps = 2
  MaxInst = 3
  MaxSrc = 5
  OpKinds <- AllOps
  SWSets <- SW_b
  FixGC = TRUE
  FixSnapshot = TRUE
  FixLost = TRUE
  MaxStopFails = 1
  FixStopped = TRUE
VIEW view
ACTION_CONSTRAINT Emit
CHECK_DEADLOCK FALSE
INVARIANTS OneWatch StopClean StepProps
