package simapi

import (
	"context"
	"testing"

	corev1 "k8s.io/api/core/v1"
	kerrors "k8s.io/apimachinery/pkg/api/errors"
	metav1 "k8s.io/apimachinery/pkg/apis/meta/v1"
	"k8s.io/apimachinery/pkg/apis/meta/v1/unstructured"
	"k8s.io/apimachinery/pkg/runtime"
	"k8s.io/apimachinery/pkg/types"
	"k8s.io/utils/ptr"
	"sigs.k8s.io/controller-runtime/pkg/client"
)

func thing(name string) *unstructured.Unstructured {
	u := &unstructured.Unstructured{Object: map[string]any{}}
	u.SetAPIVersion("ex.org/v1")
	u.SetKind("Thing")
	u.SetName(name)
	return u
}

func TestBasics(t *testing.T) {
	sch := runtime.NewScheme()
	_ = corev1.AddToScheme(sch)
	s := NewServer(sch)
	c := NewClient(s, "t")
	ctx := context.Background()

	a := thing("a")
	_ = unstructured.SetNestedField(a.Object, "x", "spec", "f")
	if err := c.Create(ctx, a); err != nil {
		t.Fatal(err)
	}
	if a.GetUID() == "" || a.GetResourceVersion() == "" {
		t.Fatalf("no uid/rv: %v", a.Object)
	}
	if err := c.Create(ctx, thing("a")); !kerrors.IsAlreadyExists(err) {
		t.Fatalf("want exists, got %v", err)
	}
	// no-op update keeps rv
	rv := a.GetResourceVersion()
	if err := c.Update(ctx, a); err != nil {
		t.Fatal(err)
	}
	if a.GetResourceVersion() != rv {
		t.Fatalf("no-op update bumped rv %s -> %s", rv, a.GetResourceVersion())
	}
	// stale update conflicts
	stale := a.DeepCopy()
	_ = unstructured.SetNestedField(a.Object, "y", "spec", "f")
	if err := c.Update(ctx, a); err != nil {
		t.Fatal(err)
	}
	if a.GetGeneration() != 2 {
		t.Fatalf("generation %d", a.GetGeneration())
	}
	_ = unstructured.SetNestedField(stale.Object, "z", "spec", "f")
	if err := c.Update(ctx, stale); !kerrors.IsConflict(err) {
		t.Fatalf("want conflict, got %v", err)
	}
	// status is ignored on the main resource
	_ = unstructured.SetNestedField(a.Object, "s", "status", "g")
	if err := c.Update(ctx, a); err != nil {
		t.Fatal(err)
	}
	if _, ok := s.Peek(KeyOf(a)).Object["status"]; ok {
		t.Fatalf("status written through main resource")
	}
	_ = unstructured.SetNestedField(a.Object, "s", "status", "g")
	if err := c.Status().Update(ctx, a); err != nil {
		t.Fatal(err)
	}
	if v, _, _ := unstructured.NestedString(s.Peek(KeyOf(a)).Object, "status", "g"); v != "s" {
		t.Fatalf("status not written")
	}

	// two controllers are invalid
	b := thing("b")
	b.SetOwnerReferences([]metav1.OwnerReference{{APIVersion: "v1", Kind: "K", Name: "o1", UID: "u1", Controller: ptr.To(true)}})
	if err := c.Patch(ctx, b, client.Apply, client.ForceOwnership, client.FieldOwner("m1")); err != nil {
		t.Fatal(err)
	}
	b2 := thing("b")
	b2.SetOwnerReferences([]metav1.OwnerReference{{APIVersion: "v1", Kind: "K", Name: "o2", UID: "u2", Controller: ptr.To(true)}})
	if err := c.Patch(ctx, b2, client.Apply, client.ForceOwnership, client.FieldOwner("m2")); !kerrors.IsInvalid(err) {
		t.Fatalf("want invalid, got %v", err)
	}
	// a plain owner merges by uid
	b3 := thing("b")
	b3.SetOwnerReferences([]metav1.OwnerReference{{APIVersion: "v1", Kind: "K", Name: "o3", UID: "u3"}})
	if err := c.Patch(ctx, b3, client.Apply, client.ForceOwnership, client.FieldOwner("m3")); err != nil {
		t.Fatal(err)
	}
	if n := len(s.Peek(KeyOf(b)).GetOwnerReferences()); n != 2 {
		t.Fatalf("owner refs = %d", n)
	}
	// SSA removes fields the manager stops asserting, keeps other managers' fields
	x := thing("x")
	_ = unstructured.SetNestedField(x.Object, "1", "spec", "p")
	_ = unstructured.SetNestedField(x.Object, "2", "spec", "q")
	if err := c.Patch(ctx, x, client.Apply, client.ForceOwnership, client.FieldOwner("m1")); err != nil {
		t.Fatal(err)
	}
	y := thing("x")
	_ = unstructured.SetNestedField(y.Object, "3", "spec", "r")
	if err := c.Patch(ctx, y, client.Apply, client.ForceOwnership, client.FieldOwner("m2")); err != nil {
		t.Fatal(err)
	}
	x2 := thing("x")
	_ = unstructured.SetNestedField(x2.Object, "1", "spec", "p")
	rvb := s.Peek(KeyOf(x)).GetResourceVersion()
	if err := c.Patch(ctx, x2, client.Apply, client.ForceOwnership, client.FieldOwner("m1")); err != nil {
		t.Fatal(err)
	}
	spec, _, _ := unstructured.NestedMap(s.Peek(KeyOf(x)).Object, "spec")
	if len(spec) != 2 || spec["p"] != "1" || spec["r"] != "3" {
		t.Fatalf("spec = %v", spec)
	}
	if s.Peek(KeyOf(x)).GetResourceVersion() == rvb {
		t.Fatalf("rv not bumped")
	}
	// identical apply is a no-op
	rvb = s.Peek(KeyOf(x)).GetResourceVersion()
	x3 := thing("x")
	_ = unstructured.SetNestedField(x3.Object, "1", "spec", "p")
	if err := c.Patch(ctx, x3, client.Apply, client.ForceOwnership, client.FieldOwner("m1")); err != nil {
		t.Fatal(err)
	}
	if s.Peek(KeyOf(x)).GetResourceVersion() != rvb {
		t.Fatalf("no-op apply bumped rv")
	}

	// finalizers
	f := thing("f")
	f.SetFinalizers([]string{"fin"})
	if err := c.Create(ctx, f); err != nil {
		t.Fatal(err)
	}
	if err := c.Delete(ctx, f); err != nil {
		t.Fatal(err)
	}
	g := thing("f")
	if err := c.Get(ctx, types.NamespacedName{Name: "f"}, g); err != nil || g.GetDeletionTimestamp() == nil {
		t.Fatalf("want deleting object, got %v %v", err, g.Object)
	}
	g.SetFinalizers(nil)
	if err := c.Update(ctx, g); err != nil {
		t.Fatal(err)
	}
	if s.Peek(KeyOf(f)) != nil {
		t.Fatalf("object not finalized")
	}

	// typed round trip
	sec := &corev1.Secret{ObjectMeta: metav1.ObjectMeta{Name: "s", Namespace: "ns"}, Data: map[string][]byte{"k": []byte("v")}}
	if err := c.Create(ctx, sec); err != nil {
		t.Fatal(err)
	}
	got := &corev1.Secret{}
	if err := c.Get(ctx, types.NamespacedName{Namespace: "ns", Name: "s"}, got); err != nil || string(got.Data["k"]) != "v" {
		t.Fatalf("secret: %v %v", err, got)
	}
	l := &corev1.SecretList{}
	if err := c.List(ctx, l, client.InNamespace("ns")); err != nil || len(l.Items) != 1 {
		t.Fatalf("list: %v %d", err, len(l.Items))
	}
	// merge patch with optimistic lock
	old := got.DeepCopy()
	got.Data["k2"] = []byte("v2")
	if err := c.Patch(ctx, got, client.MergeFromWithOptions(old, client.MergeFromWithOptimisticLock{})); err != nil {
		t.Fatal(err)
	}
	old.Data["k3"] = []byte("v3")
	oo := old.DeepCopy()
	delete(oo.Data, "k3")
	if err := c.Patch(ctx, old, client.MergeFromWithOptions(oo, client.MergeFromWithOptimisticLock{})); !kerrors.IsConflict(err) {
		t.Fatalf("want conflict, got %v", err)
	}

	// managed fields reset via JSON patch
	mf := s.Peek(KeyOf(x)).GetManagedFields()
	if len(mf) < 2 {
		t.Fatalf("managed fields: %v", mf)
	}
	p := []byte(`[{"op":"replace","path":"/metadata/managedFields","value":[{}]}]`)
	if err := c.Patch(ctx, thing("x"), client.RawPatch(types.JSONPatchType, p)); err != nil {
		t.Fatal(err)
	}
	if mf := s.Peek(KeyOf(x)).GetManagedFields(); len(mf) != 0 {
		t.Fatalf("managed fields not cleared: %v", mf)
	}
	x4 := thing("x")
	_ = unstructured.SetNestedField(x4.Object, "1", "spec", "p")
	if err := c.Patch(ctx, x4, client.Apply, client.ForceOwnership, client.FieldOwner("m1")); err != nil {
		t.Fatal(err)
	}
	names := []string{}
	for _, e := range s.Peek(KeyOf(x)).GetManagedFields() {
		names = append(names, e.Manager)
	}
	if len(names) != 2 {
		t.Fatalf("want m1 + before-first-apply, got %v", names)
	}

	// faults
	c.BeginReconcile()
	c.Intercept = func(cl *Call) Decision {
		if cl.Idx == 2 {
			return CrashAfter
		}
		return Proceed
	}
	_ = c.Get(ctx, types.NamespacedName{Name: "a"}, thing("a"))
	z := thing("z")
	if err := c.Create(ctx, z); err != ErrCrashed {
		t.Fatalf("want crash, got %v", err)
	}
	if s.Peek(Key{Group: "ex.org", Kind: "Thing", Name: "z"}) == nil {
		t.Fatalf("crashAfter lost the effect")
	}
	if err := c.Create(ctx, thing("zz")); err != ErrCrashed {
		t.Fatalf("want crash, got %v", err)
	}
	if s.Peek(Key{Group: "ex.org", Kind: "Thing", Name: "zz"}) != nil {
		t.Fatalf("dead actor wrote")
	}
}
