package main

// Watch probes: every watch handler / predicate of a captured controller is driven with create / update / delete /
// generic events of a fixed set of probe objects on a recording queue. Reported per (kind, probe, event): the union of
// the requests enqueued by ALL watches of that kind whose predicates let the event pass - i.e. what the controller
// would be asked to reconcile when that happens. No expectation is computed here.

import (
	"context"
	"sort"

	appsv1 "k8s.io/api/apps/v1"
	rbacv1 "k8s.io/api/rbac/v1"
	extv1 "k8s.io/apiextensions-apiserver/pkg/apis/apiextensions/v1"
	metav1 "k8s.io/apimachinery/pkg/apis/meta/v1"
	"k8s.io/apimachinery/pkg/apis/meta/v1/unstructured"
	"k8s.io/apimachinery/pkg/types"
	"k8s.io/utils/ptr"
	"sigs.k8s.io/controller-runtime/pkg/client"
	"sigs.k8s.io/controller-runtime/pkg/event"

	v1 "github.com/crossplane/crossplane/apis/apiextensions/v1"
	"github.com/crossplane/crossplane/apis/apiextensions/v1beta1"
	pkgv1 "github.com/crossplane/crossplane/apis/pkg/v1"
	"github.com/crossplane/crossplane/zzverif/simapi"
)

// attrs is everything a watch handler or predicate of these controllers can look at.
type attrs struct {
	Name      string `json:"name"`
	Ns        string `json:"ns"`        // "none" = cluster scoped
	OwnKind   string `json:"ownKind"`   // "none" = no owner reference
	OwnName   string `json:"ownName"`   // "none"
	OwnCtrl   bool   `json:"ownCtrl"`   // the owner reference is a controller reference
	Cat       string `json:"cat"`       // CRD category: none | composite | claim
	Offers    bool   `json:"offers"`    // XRD offers a claim
	Pfam      string `json:"pfam"`      // provider family label ("none")
	Reqs      bool   `json:"reqs"`      // ProviderRevision has permission requests
	ClaimNs   string `json:"claimNs"`   // XR claim reference ("none")
	ClaimName string `json:"claimName"` // "none"
	Comp      string `json:"comp"`      // composition label of a revision ("none")
}

func base(name string) attrs {
	return attrs{Name: name, Ns: "none", OwnKind: "none", OwnName: "none", Cat: "none", Pfam: "none", ClaimNs: "none", ClaimName: "none", Comp: "none"}
}

func (a attrs) owned(kind, name string, ctrl bool) attrs {
	a.OwnKind, a.OwnName, a.OwnCtrl = kind, name, ctrl
	return a
}
func (a attrs) cat(c string) attrs      { a.Cat = c; return a }
func (a attrs) offers() attrs           { a.Offers = true; return a }
func (a attrs) fam(f string) attrs      { a.Pfam = f; return a }
func (a attrs) reqs() attrs             { a.Reqs = true; return a }
func (a attrs) claim(ns, n string) attrs { a.ClaimNs, a.ClaimName = ns, n; return a }
func (a attrs) comp(c string) attrs     { a.Comp = c; return a }
func (a attrs) in(ns string) attrs      { a.Ns = ns; return a }

type probe struct {
	id   string
	evs  []string
	o, n attrs
}

var allEvs = []string{"create", "update", "delete", "generic"}

const (
	kXRD  = "CompositeResourceDefinition"
	kCRD  = "CustomResourceDefinition"
	kComp = "Composition"
	kRev  = "CompositionRevision"
	kPR   = "ProviderRevision"
	kCR   = "ClusterRole"
	kCRB  = "ClusterRoleBinding"
)

var apiVersionOf = map[string]string{
	kXRD: "apiextensions.crossplane.io/v1", kComp: "apiextensions.crossplane.io/v1", kRev: "apiextensions.crossplane.io/v1",
	"Usage": "apiextensions.crossplane.io/v1beta1", kCRD: "apiextensions.k8s.io/v1", kPR: "pkg.crossplane.io/v1",
	kCR: "rbac.authorization.k8s.io/v1", kCRB: "rbac.authorization.k8s.io/v1", "Deployment": "apps/v1",
	"XThing": "ex.org/v1", "ThingClaim": "ex.org/v1", "Thing": "ex.org/v1",
}

func same(id string, evs []string, a attrs) probe { return probe{id: id, evs: evs, o: a, n: a} }

func probesFor(kind string, allow string) []probe {
	cr := []string{"create"}
	cud := []string{"create", "update", "delete"}
	switch kind {
	case kComp:
		return []probe{same("plain", allEvs, base("c1"))}
	case kRev:
		return []probe{
			same("ctrlComp", allEvs, base("r1").owned(kComp, "c1", true).comp("c9")),
			same("ownerNotCtrl", cr, base("r1").owned(kComp, "c1", false).comp("c9")),
			same("ctrlOtherKind", cr, base("r1").owned(kXRD, "c1", true).comp("c8")),
			same("noOwner", cud, base("r1").comp("c8")),
			same("noLabel", cr, base("r1")),
		}
	case kXRD:
		return []probe{
			same("offers", allEvs, base("x1").offers()),
			same("plain", allEvs, base("x1")),
			{id: "startsOffering", evs: []string{"update"}, o: base("x1"), n: base("x1").offers()},
			{id: "stopsOffering", evs: []string{"update"}, o: base("x1").offers(), n: base("x1")},
		}
	case kCRD:
		return []probe{
			same("compositeOfX1", allEvs, base("xthings.ex.org").cat("composite").owned(kXRD, "x1", true)),
			same("claimOfX1", allEvs, base("thingclaims.ex.org").cat("claim").owned(kXRD, "x1", true)),
			same("uncategorised", cr, base("others.ex.org").owned(kXRD, "x1", true)),
			same("compositeUnowned", cr, base("xthings.ex.org").cat("composite")),
			same("claimUnowned", cr, base("thingclaims.ex.org").cat("claim")),
			same("compositeNotCtrl", cr, base("xthings.ex.org").cat("composite").owned(kXRD, "x1", false)),
			same("compositeOfComposition", cr, base("xthings.ex.org").cat("composite").owned(kComp, "x1", true)),
			same("claimOfComposition", cr, base("thingclaims.ex.org").cat("claim").owned(kComp, "x1", true)),
		}
	case "Usage":
		return []probe{same("plain", allEvs, base("u1"))}
	case kCR:
		ps := []probe{
			same("ofXRD", allEvs, base("crossplane:composite:x1:aggregate-to-edit").owned(kXRD, "x1", true)),
			same("ofRevision", allEvs, base("crossplane:provider:p1:system").owned(kPR, "p1", true)),
			same("ofRevisionNotCtrl", cr, base("crossplane:provider:p1:system").owned(kPR, "p1", false)),
			same("other", allEvs, base("other-role")),
			same("allowName", allEvs, base("allow-role")),
			{id: "renamedToAllow", evs: []string{"update"}, o: base("other-role"), n: base("allow-role")},
		}
		_ = allow
		return ps
	case kCRB:
		return []probe{
			same("ofRevision", allEvs, base("crossplane:provider:p1:system").owned(kPR, "p1", true)),
			same("ofRevisionNotCtrl", cr, base("crossplane:provider:p1:system").owned(kPR, "p1", false)),
			same("unowned", cr, base("some-binding")),
		}
	case "Deployment":
		return []probe{
			same("ofRevision", allEvs, base("p1-deploy").in("crossplane-system").owned(kPR, "p1", false)),
			same("ofRevisionCtrl", cr, base("p1-deploy").in("crossplane-system").owned(kPR, "p1", true)),
			same("ofXRD", cr, base("p1-deploy").in("crossplane-system").owned(kXRD, "p1", true)),
			same("unowned", cr, base("p1-deploy").in("crossplane-system")),
		}
	case kPR:
		return []probe{
			same("inFamilyF", allEvs, base("p1").fam("f").reqs()),
			same("inFamilyG", cr, base("p3").fam("g").reqs()),
			same("noFamily", allEvs, base("p4")),
			same("newInFamilyF", cr, base("p9").fam("f")),
			{id: "movesFamily", evs: []string{"update"}, o: base("p1").fam("f").reqs(), n: base("p1").fam("g").reqs()},
		}
	case "XThing":
		return []probe{
			same("claimed", allEvs, base("xr-a").claim("ns1", "cm1")),
			same("unclaimed", allEvs, base("xr-d")),
			{id: "rebound", evs: []string{"update"}, o: base("xr-a").claim("ns1", "cm1"), n: base("xr-a").claim("ns2", "cm2")},
		}
	case "ThingClaim":
		return []probe{same("plain", allEvs, base("cm1").in("ns1"))}
	case "Thing":
		return []probe{
			same("composedByA", allEvs, base("cd-a")),
			same("composedByAB", cud, base("cd-ab")),
			same("notComposed", cud, base("cd-none")),
		}
	}
	return nil
}

// object builds the probe object of a kind from its attributes. UIDs of stored objects are taken from the store.
func (w *world) object(kind string, a attrs) client.Object {
	om := metav1.ObjectMeta{Name: a.Name, UID: types.UID("uid-probe-" + a.Name)}
	if a.Ns != "none" {
		om.Namespace = a.Ns
	}
	if a.OwnKind != "none" {
		om.OwnerReferences = []metav1.OwnerReference{{APIVersion: apiVersionOf[a.OwnKind], Kind: a.OwnKind, Name: a.OwnName, UID: "uid-owner", Controller: ptr.To(a.OwnCtrl)}}
	}
	if a.Pfam != "none" {
		om.Labels = map[string]string{pkgv1.LabelProviderFamily: a.Pfam}
	}
	if a.Comp != "none" {
		om.Labels = map[string]string{v1.LabelCompositionName: a.Comp}
	}
	switch kind {
	case kComp:
		return &v1.Composition{ObjectMeta: om}
	case kRev:
		return &v1.CompositionRevision{ObjectMeta: om}
	case kXRD:
		d := &v1.CompositeResourceDefinition{ObjectMeta: om}
		if a.Offers {
			d.Spec.ClaimNames = &extv1.CustomResourceDefinitionNames{Kind: "ThingClaim", Plural: "thingclaims"}
		}
		return d
	case kCRD:
		c := &extv1.CustomResourceDefinition{ObjectMeta: om}
		if a.Cat != "none" {
			c.Spec.Names.Categories = []string{a.Cat}
		}
		return c
	case "Usage":
		return &v1beta1.Usage{ObjectMeta: om}
	case kCR:
		return &rbacv1.ClusterRole{ObjectMeta: om}
	case kCRB:
		return &rbacv1.ClusterRoleBinding{ObjectMeta: om}
	case "Deployment":
		return &appsv1.Deployment{ObjectMeta: om}
	case kPR:
		pr := &pkgv1.ProviderRevision{ObjectMeta: om}
		if u := w.s.Peek(simapi.Key{Group: "pkg.crossplane.io", Kind: kPR, Name: a.Name}); u != nil {
			pr.SetUID(u.GetUID())
		}
		if a.Reqs {
			pr.Status.PermissionRequests = []rbacv1.PolicyRule{{APIGroups: []string{""}, Resources: []string{"configmaps"}, Verbs: []string{"get"}}}
		}
		return pr
	}
	u := &unstructured.Unstructured{Object: map[string]any{}}
	u.SetAPIVersion(apiVersionOf[kind])
	u.SetKind(kind)
	u.SetName(a.Name)
	if a.Ns != "none" {
		u.SetNamespace(a.Ns)
	}
	if a.ClaimNs != "none" {
		_ = unstructured.SetNestedMap(u.Object, map[string]any{"apiVersion": "ex.org/v1", "kind": "ThingClaim", "namespace": a.ClaimNs, "name": a.ClaimName}, "spec", "claimRef")
	}
	return u
}

// fire delivers one event to one watch (predicates first) and returns whether it passed.
func fire(wt watch, ev string, o, n client.Object, q *recQueue) bool {
	ctx := context.Background()
	switch ev {
	case "create":
		e := event.TypedCreateEvent[client.Object]{Object: n}
		for _, p := range wt.preds {
			if !p.Create(e) {
				return false
			}
		}
		wt.handler.Create(ctx, e, q)
	case "update":
		e := event.TypedUpdateEvent[client.Object]{ObjectOld: o, ObjectNew: n}
		for _, p := range wt.preds {
			if !p.Update(e) {
				return false
			}
		}
		wt.handler.Update(ctx, e, q)
	case "delete":
		e := event.TypedDeleteEvent[client.Object]{Object: n}
		for _, p := range wt.preds {
			if !p.Delete(e) {
				return false
			}
		}
		wt.handler.Delete(ctx, e, q)
	case "generic":
		e := event.TypedGenericEvent[client.Object]{Object: n}
		for _, p := range wt.preds {
			if !p.Generic(e) {
				return false
			}
		}
		wt.handler.Generic(ctx, e, q)
	}
	return true
}

// watchRecords: the watched kinds, the caches behind the watches, and the probe results for every kind of the universe.
func (w *world) watchRecords(c *ctl, universe []string) (kinds []any, caches []any, probes []any) {
	ks, cs := map[string]bool{}, map[string]bool{}
	for _, wt := range c.watches {
		k := wt.kind
		if wt.wt != "" {
			k += "/" + wt.wt
		}
		ks[k] = true
		cs[wt.cache] = true
	}
	probes = []any{}
	w.at("watch:" + c.id)
	defer w.at("env")
	for _, kind := range universe {
		for _, p := range probesFor(kind, w.in.Allow) {
			for _, ev := range p.evs {
				q := newRecQueue()
				pass := false
				for _, wt := range c.watches {
					if wt.kind != kind || wt.handler == nil {
						continue
					}
					o, n := w.object(kind, p.o), w.object(kind, p.n)
					if msg := guard(func() {
						if fire(wt, ev, o, n, q) {
							pass = true
						}
					}); msg != "" {
						q.names["panic"] = true
					}
				}
				names := make([]string, 0, len(q.names))
				for n := range q.names {
					names = append(names, n)
				}
				sort.Strings(names)
				probes = append(probes, map[string]any{"k": kind, "id": p.id, "ev": ev, "o": p.o, "n": p.n, "pass": pass, "enq": strs(names)})
			}
		}
	}
	return sortedSet(ks), sortedSet(cs), probes
}
