SPECIFICATION Spec
CONSTANTS
  Inits <- InitsFresh
  EnvKinds = {}
  FaultKinds = {}
  MaxEnv = 0
  MaxFaults = 0
  MaxRecs = 1
  Interleave = FALSE
  MidEnv = TRUE
  WaitEstablished = FALSE
  FixTypeRef = FALSE
  FixWatches = FALSE
VIEW view

CHECK_DEADLOCK FALSE
INVARIANTS Safe
PROPERTIES ForeignFrozen XrdSpecKept
