"""X10 - the Usage machinery beyond C19 (extension beyond C01..C20).
Selector resolution (first match, sticky, controller reference), the owner reference to the using resource, what the
reconciler may write to a used resource, spec.replayDeletion (the deferred Delete with the recorded policy), the wait of a
composed Usage for its using resource, every early exit (events, requeue, no status), fixed point, repair after faults,
re-created used / using resources; the DELETE webhook: fail closed, message, recorded attempt, dry-run, scope.
Model: spec/UsageLifecycle.tla; driver: harness/drivers/usagelifecycle (the real usage.Reconciler wrapped in
WithSilentRequeueOnConflict, the real webhook set up by usage.SetupWebhookWithManager, rules / objectSelector / sideEffects
read from cluster/webhookconfigurations/usage.yaml); monitor: spec/MonUsageLifecycle.tla."""
import concurrent.futures
import glob
import json
import os

import vlib

PID = "X10"
MODULE = "MCUsageLifecycle"
# (cfg suffix, scenarios replayed) per tier
QUICK = [("quick", 550), ("quick_sel", 550), ("quick_del", 600), ("quick_replay", 600), ("quick_hook", 550), ("quick_recreate", 450)]
THOROUGH = [("thorough", 12000), ("thorough_replay", 10000), ("thorough_comp", 7000), ("thorough_f2", 8000), ("thorough_hook", 6000),
            ("quick", 2653), ("quick_sel", 6760), ("quick_del", 6000), ("quick_replay", 6000), ("quick_hook", 6000), ("quick_recreate", 6000)]
# witness cfgs: the model with a guard switched off / of the code as it was before D36 (1dd9b46) and D35 (5b601cd) must violate
# the named invariant (anti-vacuity at model level); every other cfg describes the code as it is and holds every invariant
WITNESS = [("witness_finfirst", ["FinBeforeLabel"]), ("witness_dryrun", ["DryRunSafe"]), ("witness_panic", ["HookNeverPanics"])]

MON_FORMULAS = [
    "Select.Once", "Select.NoCandidate", "Select.Sticky", "Select.Matches.Of", "Select.Matches.By", "Select.First.Of", "Select.First.By",
    "Spec.UserFieldsKept", "Spec.OnlyOwn",
    "Owner.Added", "Owner.Kept", "Ready.Owned", "Ready.Needs", "Ready.OnlyAvailable", "Ready.Event",
    "Used.OnlyLabel", "Used.OnlyNamed", "Finalizer.BeforeLabel", "Finalizer.Kept",
    "Replay.Happens", "Replay.OnlyIfAsked", "Replay.OnlyIfAttempted", "Replay.Policy", "Replay.AfterUnlabel", "Replay.Target",
    "Replay.Once", "Replay.Admitted",
    "Wait.NoCall", "Wait.Exit", "Delete.Calls", "Delete.Plain", "Delete.Order",
    "Exit.NoStatusAfterFailure", "Exit.Error", "Exit.Conflict", "Exit.Event", "Exit.Silent",
    "Requeue.Gone", "Requeue.Poll", "Requeue.Deleted", "Quiescent", "Details.Value",
    "Settled.Deleted", "Settled.Unlabelled", "Settled.Ready", "Settled.Reason",
    "Webhook.NonDelete", "Webhook.Scope", "Webhook.Reached", "Webhook.Deny", "Webhook.FailClosed", "Webhook.Message",
    "Webhook.Deny.Panic", "Webhook.Recorded", "Webhook.Recorded.Panic", "Webhook.Allow", "Webhook.OnlyAnnotation", "DryRun.NoEffect",
]
# the findings of this module (both fixed in /repo; the formulas are ordinary formulas that must hold); see spec/UsageLifecycle.tla
FINDINGS = {"D36 (was F-a), fixed 1dd9b46": ["DryRun.NoEffect"], "D35 (was F-b), fixed 5b601cd": ["Webhook.Deny.Panic", "Webhook.Recorded.Panic"]}


def regression():
    out = []
    for p in sorted(glob.glob(os.path.join(vlib.VERIF, "scenarios", PID, "*.json"))):
        with open(p) as f:
            out.append(json.load(f))
    return out


def build(ctx):
    """go build of the driver; VERIF_X10_OVERLAY = a `go build -overlay` file (used by checks/x10_selftest.py for scratch
    mutants of the code under test; nothing is written to /repo)."""
    ov = os.environ.get("VERIF_X10_OVERLAY")
    if not ov:
        return ctx.go_build("./drivers/usagelifecycle")
    import shutil
    import subprocess
    bindir = os.path.join(ctx.work, "bin")
    os.makedirs(bindir, exist_ok=True)
    out = os.path.join(bindir, "usagelifecycle")
    e = dict(os.environ)
    e.update(vlib.GOENV)
    shutil.copy("/repo/go.sum", os.path.join(vlib.HARNESS, "go.sum"))
    p = subprocess.run(["go", "build", "-overlay", ov, "-o", out, "./drivers/usagelifecycle"], cwd=vlib.HARNESS, env=e,
                       stdout=subprocess.PIPE, stderr=subprocess.STDOUT, text=True)
    if p.returncode != 0:
        raise vlib.Inconclusive("harness does not build with overlay %s:\n%s" % (ov, p.stdout[-3000:]))
    return out


def expand_id(by_id, scid):
    parts = scid.split("/")
    base = dict(by_id.get(parts[0], {"id": parts[0]}))
    base["id"] = scid
    for p in parts[1:]:
        if p.startswith("sweep-"):
            _, r, k, o = p.split("-")
            base["sweep"] = {"rec": int(r[1:]), "idx": int(k[1:]), "outcome": o}
    return base


def features(h):
    """Feature set of a scenario for the covering sample: vlib's call / environment features plus the Usage configurations
    created, how delete requests were asked (policy, dry-run, webhook fault) and whether a replay fired."""
    sig = vlib.hist_features(h)
    hist = h["hist"] if isinstance(h, dict) else h
    for e in hist:
        if not isinstance(e, dict):
            continue
        if e.get("k") == "create":
            c = e.get("cfg", {})
            sig.add("cfg:%s/%s/%s/%s/%s" % (c.get("of"), c.get("by"), c.get("comp"), c.get("replay"), c.get("rsn")))
        if e.get("k") == "delreq":
            sig.add("delreq:%s/%s/%s" % (e.get("pol"), e.get("dry"), e.get("wf")))
        if e.get("k") == "fire":
            sig.add("fire")
    return sig


def hit_counts(prefix):
    """How often the things the formulas talk about occur in the recorded traces (anti-vacuity; not part of the verdict)."""
    d = os.path.dirname(prefix)
    c = {}

    def inc(k):
        c[k] = c.get(k, 0) + 1
    for fn in sorted(os.listdir(d)):
        if not fn.startswith(os.path.basename(prefix)):
            continue
        prev = None
        with open(os.path.join(d, fn)) as f:
            for line in f:
                e = json.loads(line)
                ev, seen, r = e["ev"], e["seen"], e["req"]
                if ev == "reset":
                    prev = None
                if ev == "call":
                    if e["injected"]:
                        inc("injected:" + e["injected"])
                    if e["applied"] and not e["noop"]:
                        inc("write:" + e["abs"])
                    if e["applied"] and e["noop"]:
                        inc("noop-write:" + e["abs"])
                    if e["outcome"] == "conflict" and not e["injected"]:
                        inc("stale-conflict:" + e["abs"])
                    if e["outcome"] == "notfound" and not e["injected"]:
                        inc("notfound:" + e["abs"])
                    if e["abs"] in ("update:resolve-of", "update:resolve-by") and e["applied"]:
                        lst = e["listedOf"] if e["abs"].endswith("of") else e["listedBy"]
                        inc("resolved:%s among %d listed (%d matching labels)" % (e["abs"][-2:], len(lst), sum(1 for k in lst if k["match"])))
                        inc("resolved with mode " + (seen["ofsel"] if e["abs"].endswith("of") else seen["bysel"]))
                    if e["abs"] == "update:own" and e["applied"] and not e["noop"] and prev is not None:
                        me = [u for u in e["post"]["us"] if u["id"] == e["actor"]]
                        if me and len(me[0]["owners"]) - (1 if me[0]["comp"] else 0) > 1:
                            inc("owner reference added next to one of an earlier incarnation of the using resource")
                if ev == "end":
                    inc("end:" + e["result"] + (":requeue" if e["requeue"] else "") + (":after%d" % e["after"] if e["after"] else ""))
                    if e["clean"]:
                        inc("end:clean")
                    if e["clean"] and e["prevClean"] and e["startDigest"] == e["prevDigest"]:
                        inc("end:steady (Quiescent antecedent)")
                    if "Normal:WaitingUsingDeleted" in e["evs"]:
                        inc("end:waiting for the using resource")
                    if seen["got"] and not seen["ex"]:
                        inc("end:usage not found")
                    if not e["fails"] and seen["got"] and seen["ex"] and e["result"] == "error":
                        inc("end:error without a failed call (no candidate)")
                if ev == "replaywait":
                    inc("replaywait:%s:%s" % (e["rw"]["mode"], "arrived" if e["rw"]["arrived"] else "none"))
                if ev == "replay":
                    inc("replay:%s via %s (policy %s)" % (r["o"], r["via"], r["pol"]))
                    if e["src"] != "rec":
                        inc("replay:unattributed")
                    if prev is not None:
                        tgt = [u for u in prev["post"]["used"] if u["id"] == r["u"]]
                        if tgt and tgt[0]["ex"] and e["ugot"]["uid"] and tgt[0]["uid"] != e["ugot"]["uid"]:
                            inc("O1: replayed Delete met a re-created resource (other uid): " + r["o"])
                        me = [u for u in prev["post"]["us"] if u["id"] == e["actor"] and u["ex"] and u["uid"] == seen["uid"]]
                        if me and me[0]["fin"]:
                            inc("O2: replayed Delete issued while its Usage still carried the finalizer: " + r["o"])
                if ev == "delreq":
                    inc("delreq:%s via %s cls=%s dry=%s wf=%s" % (r["o"], r["via"], r["cls"], r["dry"], r["wf"]))
                if ev == "probe":
                    inc("probe:%s:%s:%d" % (r["op"], r["o"], r["code"]))
                if ev == "env":
                    inc("env:" + e["verb"])
                    if r["via"]:
                        inc("env-delete:%s via %s" % (r["kind"], r["via"]))
                prev = e
    return dict(sorted(c.items()))


def drive_and_judge(ctx, scs, sweep=0, shards=6, counts=True, par=500):
    by_id = {s["id"]: s for s in scs}
    binp = build(ctx)
    args = ["-sweep", str(sweep), "-chunk", "40000", "-par", str(par)]
    if os.environ.get("VERIF_X10_WEBHOOKCFG"):      # (selftest: a scratch copy of usage.yaml with a seeded change)
        args += ["-webhookcfg", os.environ["VERIF_X10_WEBHOOKCFG"]]
    if os.environ.get("VERIF_X10_EXPECTWAIT"):
        args += ["-expectwait", os.environ["VERIF_X10_EXPECTWAIT"]]
    prefix, s = ctx.run_sharded(binp, scs, args, shards=shards)
    viols, nlines = ctx.monitor("MonUsageLifecycle", prefix, par=8)
    if nlines != s.get("events"):
        raise vlib.Inconclusive("the monitor consumed %d lines, the driver wrote %s events (is another ./check X10 running?)" % (nlines, s.get("events")))
    per = {}
    for formula, line, scid in viols:
        per[formula] = per.get(formula, 0) + 1
        ctx.violation(formula, scid, ctx.replay_file(expand_id(by_id, scid)), "trace line %d" % line, fingerprint=formula)
    s["violations_by_formula"] = per
    hc = hit_counts(prefix) if counts else {}
    return s, nlines, hc


def run(ctx):
    quick = ctx.quick
    plan = QUICK if quick else THOROUGH
    jobs = [(name, ()) for name, _ in plan] + WITNESS

    def one(job):
        name, exp = job
        big = name.startswith("thorough")
        return name, ctx.model_check(MODULE, "%s_%s.cfg" % (MODULE, name), sub="mc_" + name, workers=8 if big else 4,
                                     timeout=300 if quick else 3000, heap="6g", expect_violations=exp)

    with concurrent.futures.ThreadPoolExecutor(max_workers=5 if quick else 3) as ex:
        res = dict(ex.map(one, jobs))
    scs, states, trans, emitted, consts = [], 0, 0, 0, {}
    for name, n in plan:
        mc = res[name]
        picked = ctx.sample_lines_stratified(mc["emitted_file"], n, mc["emitted"], key=features)
        scs += [{"id": "%s-%s-%07d" % (PID, name, i), "hist": h} for i, h in picked]
        states += mc["states"]
        trans += mc["transitions"]
        emitted += mc["emitted"]
        consts["%s_%s.cfg" % (MODULE, name)] = dict(states=mc["states"], transitions=mc["transitions"], depth=mc["depth"], scenarios=mc["emitted"])
        if not quick and mc["emitted"] > 100000:
            os.remove(mc["emitted_file"])     # gigabytes; the sample is taken
    for name, exp in WITNESS:
        consts["%s_%s.cfg" % (MODULE, name)] = dict(states=res[name]["states"], violated=res[name]["violated"], expected=exp)
    ctx.rng.shuffle(scs)   # the real-call-index sweep takes the first scenarios of every shard
    chosen = regression() + scs
    s, nlines, hc = drive_and_judge(ctx, chosen, sweep=2 if quick else 10, shards=6 if quick else 14)
    ctx.cov.update(dict(
        states=states, transitions=trans, traces_validated_against_impl=s["runs"], samples=s["samples"][:2],
        model_runs=consts, scenarios_emitted=emitted, scenarios_replayed=s["scenarios"], reconciles=s["reconciles"],
        sweep_runs=s["sweep_runs"], events=nlines, per_action_counts={k: v for k, v in s["counts"].items()},
        replays=dict(expected_by_the_driver=s.get("replays_expected", 0), reached_the_gate=s.get("replays_arrived", 0),
                     reached_the_gate_outside_a_wait=s.get("replays_outside_a_wait", 0)),
        drift=dict(unmatched_calls=s["drift"], runs_with_drift=s["drift_runs"], by_call=s.get("drift_by_abs", {}),
                   examples=s.get("drift_examples", [])),
        formula_hit_counts=hc, monitor_formulas=MON_FORMULAS, violations_by_formula=s["violations_by_formula"],
        findings_fixed=FINDINGS, exhaustive=(emitted == len(scs)),
        checker_cmd="tlc MCUsageLifecycle (M,G) -> harness/drivers/usagelifecycle on /repo (T) -> tlc MonUsageLifecycle",
        rule="one scenario per model transition that ends a reconcile, is a delete request or a replayed deletion (shortest "
             "history reaching it); every failure kind (error value / Conflict / cache miss of the first Get / dead process "
             "before / after the effect) is its own transition; every scenario is followed by 2 rounds of fault-free "
             "reconciles of every Usage and by the replayed deletions still pending; sweep = every real call index x "
             "{error, conflict, crash before, crash after, cache miss} + the fault-free rounds",
    ))
    ctx.assumptions += [
        "simapi models the API server rules the reconciler relies on (optimistic concurrency on Update / status Update, "
        "finalizers and deletionTimestamp, no-op writes keep the resourceVersion, garbage collection of dependents whose "
        "owners are all gone, List in name order)",
        "the API server consults the webhook as cluster/webhookconfigurations/usage.yaml says (rules, objectSelector, service "
        "path, failurePolicy, sideEffects: None => dry-run requests are sent to it with dryRun: true), read at run time; "
        "simapi does not consult its DeleteAdmission hook for dry-run deletes, so the driver admits those itself",
        "the reconciler is wrapped in errors.WithSilentRequeueOnConflict as usage.Setup does; the rate limiter in front of it "
        "and the controller-runtime work queue are left out (Setup needs a real manager)",
        "reconciles run one at a time (interleaved reconciles of two Usages are C19's subject, D11)",
        "a replayed deletion is the real goroutine (2 s sleep, then Delete); the driver holds the Delete at a gate until the "
        "scenario fires it and waits up to 40 s for it to arrive when the reconcile's own reads say one was started "
        "(2.6 s otherwise); a crash of the controller process takes its pending goroutines with it",
        "verdict only from traces of the real reconciler / webhook judged by MonUsageLifecycle.tla",
    ]


def replay(ctx, path):
    with open(path) as f:
        sc = json.load(f)
    s, nlines, _ = drive_and_judge(ctx, [sc], shards=1, counts=False)
    ctx.cov.update(dict(states=1, transitions=1, traces_validated_against_impl=s["runs"], samples=[sc], events=nlines,
                        violations_by_formula=s["violations_by_formula"]))
