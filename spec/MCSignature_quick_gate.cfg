SPECIFICATION Spec
CONSTANTS
  InitRevs <- RevGate
  InitICs <- IcNone
  InitVst <- VstDefault
  InitOk <- OkNone
  Feats <- Bools
  Orders <- Fwd
  ICs <- NoICs
  Imgs <- ImgsNone
  MaxSig = 0
  MaxRev = 2
  MaxFaults = 1
  MaxEnv = 1
  MidEnv = TRUE
  EnvKinds <- EnvGate
  FaultKinds <- FaultsFew
  GateOn = TRUE
  GateSkipsInactive = TRUE
  Sticky = TRUE
  VecICs <- NoICs
  VecEvICs <- NoICs
  VecImgs <- NoICs
VIEW view
ACTION_CONSTRAINT Emit
CHECK_DEADLOCK FALSE
INVARIANTS GateSafe RepairedSig VerdictShape RepairedRev InactiveDeactivates
