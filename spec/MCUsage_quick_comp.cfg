SPECIFICATION Spec
CONSTANTS
  USeq <- S1
  Useds <- U1
  USel = {"u1"}
  UCtl = {"u1"}
  Versions = {"v1", "v1beta1"}
  Configs <- CfgComp
  Policies <- Pol1
  MaxCreates = 1
  MaxFaults = 1
  MaxDel = 0
  Interleave = FALSE
  MidEnv = TRUE
  BFin = TRUE
  FixBump = FALSE
VIEW view
ACTION_CONSTRAINT EmitAll
CHECK_DEADLOCK FALSE
INVARIANTS TypeOK Allowed Owned IndexAgree
PROPERTIES UsageAfterUser
