SPECIFICATION Spec
CONSTANTS
  DSeq <- DSeq3
  Tags = {"t1", "t2"}
  Limits = {1}
  MaxEdits = 2
  MaxFaults = 0
  MaxRecs = 3
  WithFin = TRUE
  ForeignAct = FALSE
  Foreign = {}
  FixGC = TRUE
  MidEnv = TRUE
  Legacy = FALSE
  InitReg <- Reg2
VIEW view
ACTION_CONSTRAINT Emit
CHECK_DEADLOCK FALSE
INVARIANTS OneActive GcSafe
PROPERTIES ActivateLast
