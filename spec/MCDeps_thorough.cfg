SPECIFICATION Spec
CONSTANTS
  DagPlain <- N4
  DagMixed <- N3
  PointVers <- PointAll
  PointCons <- AllCons
  ListPool <- Pool10
  ListMax = 3
  ListCons <- AllCons
  UpdCons <- UCons9
  UpdIvs <- UIvs6
  UpdPool <- UPool7
  UpdMax = 3
  ResCons <- RCons6
  ResVers <- RVers4
  ResTargets <- TgtSAB
  ResSelf <- TgtAB
ACTION_CONSTRAINT Emit
CHECK_DEADLOCK FALSE
INVARIANTS RefDag RefInstall RefUpdate
