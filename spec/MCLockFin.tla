------------------------------ MODULE MCLockFin ------------------------------
EXTENDS LockFin, Json
Emit == (pc # "idle" /\ pc' = "idle") => PrintT(<<"TRACE", ToJson(hist')>>)
AllLocks == {"entry", "entryfirst", "entryonly", "noentry", "nolock"}
=============================================================================
