SPECIFICATION Spec
CONSTANTS
  Ctrls = {"c1"}
  Wids = {"xr", "cdA"}
  Procs = {1, 2, 3}
  MaxOps = 2
  MaxInst = 2
  MaxSrc = 4
  OpKinds <- CoreOps
  SWSets <- SW_a
  FixGC = TRUE
  FixSnapshot = TRUE
  FixLost = TRUE
  MaxStopFails = 1
  FixStopped = TRUE
VIEW view
ACTION_CONSTRAINT Emit
CHECK_DEADLOCK FALSE
INVARIANTS OneWatch StopClean StepProps
