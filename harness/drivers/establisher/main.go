// Driver for spec/Establisher.tla: replays TLC behaviours against the real
// revision.APIEstablisher (Establish / ReleaseObjects), driven through the
// activate / deactivate path of the real package revision reconciler
// (internal/controller/pkg/revision), running on simapi. One trace event per
// API call with the full projected state (package objects with their owner
// references, revisions with role and recorded object references).
//
// Two modes: sequential (MaxConcurrentPackageEstablishers = 1; the call order
// is deterministic, TLC histories are aligned call by call and faults are
// injected where the model chose, plus a sweep over every real call index),
// and parallel (several establisher workers whose API calls are serialised by
// a gate; the order in which pending calls are served is drawn from a seed).
package main

import (
	"context"
	"crypto/sha256"
	"encoding/hex"
	"encoding/json"
	"flag"
	"fmt"
	"hash/fnv"
	"io"
	"math/rand"
	"os"
	"runtime"
	"runtime/pprof"
	"sort"
	"strconv"
	"strings"
	"sync"
	"time"

	extv1 "k8s.io/apiextensions-apiserver/pkg/apis/apiextensions/v1"
	kerrors "k8s.io/apimachinery/pkg/api/errors"
	metav1 "k8s.io/apimachinery/pkg/apis/meta/v1"
	"k8s.io/apimachinery/pkg/apis/meta/v1/unstructured"
	kruntime "k8s.io/apimachinery/pkg/runtime"
	"k8s.io/apimachinery/pkg/runtime/schema"
	"k8s.io/apimachinery/pkg/types"
	"k8s.io/apimachinery/pkg/util/validation/field"
	"k8s.io/utils/ptr"
	"sigs.k8s.io/controller-runtime/pkg/client"
	"sigs.k8s.io/controller-runtime/pkg/reconcile"

	corev1 "k8s.io/api/core/v1"

	xpv1 "github.com/crossplane/crossplane-runtime/apis/common/v1"
	"github.com/crossplane/crossplane-runtime/pkg/parser"

	pkgmetav1 "github.com/crossplane/crossplane/apis/pkg/meta/v1"
	pkgv1 "github.com/crossplane/crossplane/apis/pkg/v1"
	pkgv1beta1 "github.com/crossplane/crossplane/apis/pkg/v1beta1"
	"github.com/crossplane/crossplane/internal/controller/pkg/revision"
	"github.com/crossplane/crossplane/internal/xpkg"
	"github.com/crossplane/crossplane/zzverif/fakes"
	"github.com/crossplane/crossplane/zzverif/replay"
	"github.com/crossplane/crossplane/zzverif/scen"
	"github.com/crossplane/crossplane/zzverif/simapi"
	"github.com/crossplane/crossplane/zzverif/trace"
)

const (
	pkgName   = "pkg"
	namespace = "crossplane-system"
	finalizer = "revision.pkg.crossplane.io"
	crdGroup  = "example.org"
)

var (
	crdGK = schema.GroupKind{Group: "apiextensions.k8s.io", Kind: "CustomResourceDefinition"}
	revGK = schema.GroupKind{Group: "pkg.crossplane.io", Kind: "ProviderRevision"}
	// the package type of the current scenario (setFamily): Provider or Function - both may ship CRDs. Everything the
	// establisher does must hold for each package type (added after the seeded change C16-m5 - the parent-package owner
	// reference forgotten for Function packages - was missed by a driver that only installed Providers)
	pkgKind = "Provider"
)

func crdName(alias string) string { return alias + "s." + crdGroup }
func revName(alias string) string { return pkgName + "-" + strings.ToLower(alias) }
func crdKey(alias string) simapi.Key {
	return simapi.Key{Group: crdGK.Group, Kind: crdGK.Kind, Name: crdName(alias)}
}
func revKey(alias string) simapi.Key {
	return simapi.Key{Group: revGK.Group, Kind: revGK.Kind, Name: revName(alias)}
}

// ---------------------------------------------------------------- the world

type world struct {
	s      *simapi.Server
	c      *simapi.Client
	gc     *gclient
	sch    *kruntime.Scheme
	tw     *trace.Writer
	scenID string

	oseq    []string            // object aliases in package order
	pkgs    map[string][]string // revision alias -> object aliases of its package (package order)
	rej     map[string]bool     // objects the API server refuses
	crdBy   map[string]string   // CRD name -> alias
	uidBy   map[types.UID]string
	revs    []string
	yaml    map[string]string // revision name -> package stream
	workers int
	digests map[string]string // name@resourceVersion -> digest

	al    *replay.Aligner
	recNo int
	actor string // revision alias being reconciled
	// the Establish / ReleaseObjects call in flight
	phase   string // "none" | "release" | "establish"
	control bool
	estres  string // outcome of the last Establish of this reconcile: "" | "ok" | "error"
	okPath  bool   // the next status update is the one that reports success
	back    int    // events emitted since the start event of the phase
	refs0   []string
	inject  string // fault injected in this reconcile by a sweep / the parallel mode

	gate *gate
	hits map[string]int // how often the antecedents of the monitor's formulas were exercised (statistics only)
	last map[string]any // the previous projection
}

type fakeCache struct{ w *world }

func (f *fakeCache) Has(string) bool { return true }
func (f *fakeCache) Get(id string) (io.ReadCloser, error) {
	return io.NopCloser(strings.NewReader(f.w.yaml[id])), nil
}
func (f *fakeCache) Store(string, io.ReadCloser) error { return nil }
func (f *fakeCache) Delete(string) error               { return nil }

type nopDeps struct{}

func (nopDeps) Resolve(context.Context, pkgmetav1.Pkg, pkgv1.PackageRevision) (int, int, int, error) {
	return 0, 0, 0, nil
}
func (nopDeps) RemoveSelf(context.Context, pkgv1.PackageRevision) error { return nil }

// markEst delegates to the real APIEstablisher and only marks where an
// Establish / ReleaseObjects call starts and ends in the trace.
type markEst struct {
	w    *world
	real *revision.APIEstablisher
}

func names(objs []kruntime.Object, w *world) []any {
	out := []any{}
	for _, o := range objs {
		if m, ok := o.(metav1.Object); ok {
			out = append(out, w.aliasOfCRD(m.GetName()))
		}
	}
	return out
}

func (m *markEst) Establish(ctx context.Context, objs []kruntime.Object, parent pkgv1.PackageRevision, control bool) ([]xpv1.TypedReference, error) {
	w := m.w
	w.phase, w.control, w.back = "establish", control, 0
	w.emit("est-start", map[string]any{"pkg": names(objs, w)})
	refs, err := m.real.Establish(ctx, objs, parent, control)
	w.estres = "ok"
	if err != nil {
		w.estres = "error"
	}
	w.okPath = err == nil
	w.emit("est-end", map[string]any{"pkg": names(objs, w), "result": w.estres})
	w.phase, w.back = "none", 0
	return refs, err
}

func (m *markEst) ReleaseObjects(ctx context.Context, parent pkgv1.PackageRevision) error {
	w := m.w
	w.phase, w.control, w.back = "release", false, 0
	w.emit("rel-start", nil)
	err := m.real.ReleaseObjects(ctx, parent)
	res := "ok"
	if err != nil {
		res = "error"
	}
	w.okPath = err == nil
	w.emit("rel-end", map[string]any{"result": res})
	w.phase, w.back = "none", 0
	return err
}

// schemes are built once: they are read-only afterwards.
var (
	theScheme  *kruntime.Scheme
	metaScheme *kruntime.Scheme
	objScheme  *kruntime.Scheme
)

func init() {
	theScheme = kruntime.NewScheme()
	_ = pkgv1.AddToScheme(theScheme)
	_ = pkgv1beta1.AddToScheme(theScheme)
	_ = extv1.AddToScheme(theScheme)
	_ = corev1.AddToScheme(theScheme)
	metaScheme, _ = xpkg.BuildMetaScheme()
	objScheme, _ = xpkg.BuildObjectScheme()
}

func (w *world) aliasOfCRD(name string) string {
	if a, ok := w.crdBy[name]; ok {
		return a
	}
	return "unknown:" + name
}

func (w *world) aliasOfUID(u types.UID) string {
	if a, ok := w.uidBy[u]; ok {
		return a
	}
	return "X:" + string(u)
}

// digest of the content an owner cares about: typed spec, labels, annotations
// (the typed round trip through the client must not count as a change).
func (w *world) digest(u *unstructured.Unstructured) string {
	key := u.GetName() + "@" + u.GetResourceVersion()
	if d, ok := w.digests[key]; ok {
		return d
	}
	d := digestSlow(u)
	w.digests[key] = d
	return d
}

func digestSlow(u *unstructured.Unstructured) string {
	crd := &extv1.CustomResourceDefinition{}
	if err := kruntime.DefaultUnstructuredConverter.FromUnstructured(u.Object, crd); err != nil {
		return "err"
	}
	b, _ := json.Marshal([]any{crd.Spec, crd.Labels, crd.Annotations})
	h := sha256.Sum256(b)
	return hex.EncodeToString(h[:4])
}

// post is the projection of the store: the abstract state Establisher.tla talks about.
func (w *world) post() map[string]any {
	objs := []any{}
	for _, a := range w.oseq {
		o := map[string]any{"name": a, "exists": false, "rej": w.rej[a], "rv": 0, "dig": "", "owners": []any{}}
		if u := w.s.Peek(crdKey(a)); u != nil {
			o["exists"] = true
			rv, _ := strconv.Atoi(u.GetResourceVersion())
			o["rv"] = rv
			o["dig"] = w.digest(u)
			ows := []any{}
			for _, r := range u.GetOwnerReferences() {
				ows = append(ows, map[string]any{"uid": w.aliasOfUID(r.UID), "controller": r.Controller != nil && *r.Controller})
			}
			sort.Slice(ows, func(i, j int) bool {
				return ows[i].(map[string]any)["uid"].(string) < ows[j].(map[string]any)["uid"].(string)
			})
			o["owners"] = ows
		}
		objs = append(objs, o)
	}
	revs := []any{}
	for _, r := range w.revs {
		m := map[string]any{"name": r, "exists": false, "active": false, "refs": []any{}, "bad": []any{}}
		if u := w.s.Peek(revKey(r)); u != nil {
			m["exists"] = true
			st, _, _ := unstructured.NestedString(u.Object, "spec", "desiredState")
			m["active"] = st == string(pkgv1.PackageRevisionActive)
			refs, bad := w.refsOf(u)
			m["refs"], m["bad"] = refs, bad
		}
		revs = append(revs, m)
	}
	return map[string]any{"objs": objs, "revs": revs}
}

func (w *world) refsOf(u *unstructured.Unstructured) (refs, bad []any) {
	refs, bad = []any{}, []any{}
	l, _, _ := unstructured.NestedSlice(u.Object, "status", "objectRefs")
	for _, x := range l {
		m, _ := x.(map[string]any)
		n, _ := m["name"].(string)
		k, _ := m["kind"].(string)
		refs = append(refs, w.aliasOfCRD(n))
		if k == "" {
			bad = append(bad, w.aliasOfCRD(n))
		}
	}
	return refs, bad
}

func (w *world) emit(ev string, m map[string]any) {
	pkg := []any{}
	for _, a := range w.pkgs[w.actor] {
		pkg = append(pkg, a)
	}
	refs := []any{}
	for _, a := range w.refs0 {
		refs = append(refs, a)
	}
	actor := w.actor
	if actor == "" {
		actor = "none"
	}
	base := map[string]any{"ev": ev, "scenario": w.scenID, "rec": w.recNo, "actor": actor, "control": w.control, "phase": w.phase,
		"verb": "", "kind": "", "target": "none", "dry": false, "outcome": "", "injected": "", "applied": false, "noop": false,
		"abs": "", "result": "", "estres": w.estres, "faulty": false, "back": w.back, "pkg": pkg, "refs": refs, "post": w.post()}
	for k, v := range m {
		base[k] = v
	}
	w.tw.Emit(base)
	if w.phase != "none" {
		w.back++
	}
	w.count(base)
	w.last = base["post"].(map[string]any)
}

func foreignCtrl(o map[string]any, actor string) bool {
	for _, x := range o["owners"].([]any) {
		m := x.(map[string]any)
		if m["controller"].(bool) && m["uid"].(string) != actor {
			return true
		}
	}
	return false
}

// count keeps statistics for the evidence file: how often each formula's antecedent was true.
func (w *world) count(e map[string]any) {
	if w.hits == nil {
		return
	}
	ev, phase, applied := e["ev"].(string), e["phase"].(string), e["applied"].(bool)
	control, _ := e["control"].(bool)
	actor := e["actor"].(string)
	pre := map[string]map[string]any{}
	if w.last != nil {
		for _, x := range w.last["objs"].([]any) {
			pre[x.(map[string]any)["name"].(string)] = x.(map[string]any)
		}
	}
	switch {
	case ev == "call" && applied && phase == "establish":
		w.hits["establish_writes"]++
		if !control {
			w.hits["establish_writes_inactive"]++
		}
	case ev == "call" && applied && phase == "release":
		w.hits["release_writes"]++
	}
	if ev == "call" && applied {
		t, _ := e["target"].(string)
		if o, ok := pre[t]; ok {
			if !o["exists"].(bool) {
				w.hits["creates"]++
			} else if foreignCtrl(o, actor) {
				w.hits["writes_on_foreign_controlled"]++
			}
		}
	}
	if ev == "est-start" {
		blocked, foreign := false, false
		for _, x := range e["post"].(map[string]any)["objs"].([]any) {
			o := x.(map[string]any)
			in := false
			for _, n := range e["pkg"].([]any) {
				in = in || n == o["name"]
			}
			if !in {
				continue
			}
			if o["exists"].(bool) && control && foreignCtrl(o, actor) {
				blocked, foreign = true, true
			}
			if o["rej"].(bool) && (o["exists"].(bool) || control) {
				blocked = true
			}
		}
		if blocked {
			w.hits["establish_starts_blocked"]++
		}
		if foreign {
			w.hits["establish_starts_foreign_controller"]++
		}
		w.hits["establish_starts"]++
	}
	if r, _ := e["result"].(string); r != "" {
		w.hits[ev+"_"+r]++
		if ev == "end" && r == "ok" && !control && !e["faulty"].(bool) {
			w.hits["inactive_reconciles_completed"]++
		}
	}
	if ev == "gc" {
		w.hits["gc_steps"]++
	}
}

// classify maps a call to the model's action alphabet; "" = no counterpart in the model.
func (w *world) classify(c *simapi.Call) string {
	switch c.Key.Kind {
	case crdGK.Kind:
		v := c.Verb
		if c.DryRun {
			v += "-dry"
		}
		return v + ":" + w.aliasOfCRD(c.Key.Name)
	case revGK.Kind:
		if c.Key.Name != revName(w.actor) {
			return ""
		}
		if c.Verb == "get" {
			return "get:" + w.actor
		}
		if c.Verb == "update" && c.Sub == "status" && w.okPath {
			return "update-status:" + w.actor
		}
	}
	return ""
}

func (w *world) onEvent(e *simapi.Event) {
	if e.Outcome == "dropped" && e.Injected == "" {
		return
	}
	call := &simapi.Call{Verb: e.Verb, Sub: e.Sub, Key: simapi.Key{Group: e.Group, Kind: e.Kind, Name: e.Name}, DryRun: e.DryRun}
	abs := w.classify(call)
	kind, target := "other", "none"
	switch e.Kind {
	case crdGK.Kind:
		kind, target = "obj", w.aliasOfCRD(e.Name)
	case revGK.Kind:
		kind = "rev"
	}
	verb := e.Verb
	if e.Sub != "" {
		verb += "-" + e.Sub
	}
	if abs == "" {
		abs = "other:" + verb + ":" + e.Kind
	}
	if e.Kind == revGK.Kind && e.Verb == "update" && e.Sub == "" {
		w.okPath = false // the reconciler wrote the revision's metadata: what follows on failure is an error report
	}
	w.emit("call", map[string]any{"verb": verb, "kind": kind, "target": target, "dry": e.DryRun, "outcome": e.Outcome,
		"injected": e.Injected, "applied": e.Applied && !e.DryRun && !e.Noop, "noop": e.Noop, "abs": abs})
}

func (w *world) env(e replay.Entry) {
	if e.K == "grabcreate" {
		// another owner creates, as its controller, a package object that does not exist yet
		var q types.UID
		for uid, a := range w.uidBy {
			if a == "Q" {
				q = uid
			}
		}
		o := crd(e.O, "other")
		o.OwnerReferences = []metav1.OwnerReference{{APIVersion: "pkg.crossplane.io/v1", Kind: revGK.Kind, Name: "other-r1", UID: q, Controller: ptr.To(true), BlockOwnerDeletion: ptr.To(true)}}
		w.s.Put(o)
		w.emit("env", map[string]any{"verb": e.K, "target": e.O, "abs": e.K + ":" + e.O})
		return
	}
	if e.K == "grab" {
		// another owner makes itself the controller of a package object (in the middle of an Establish)
		w.grab(e.O)
		w.emit("env", map[string]any{"verb": e.K, "target": e.O, "abs": e.K + ":" + e.O})
		return
	}
	st := pkgv1.PackageRevisionInactive
	switch e.K {
	case "activate":
		st = pkgv1.PackageRevisionActive
	case "deactivate":
	default:
		panic("unknown env step " + e.K)
	}
	w.s.Mutate(revKey(e.O), func(u *unstructured.Unstructured) {
		_ = unstructured.SetNestedField(u.Object, string(st), "spec", "desiredState")
	})
	w.actor, w.refs0, w.control, w.estres = "", nil, false, ""
	w.emit("env", map[string]any{"verb": e.K, "target": "none", "abs": e.K + ":" + e.O})
}

// grab: the foreign revision (Q) becomes the controller of an existing, uncontrolled package object.
func (w *world) grab(alias string) {
	var q types.UID
	for uid, a := range w.uidBy {
		if a == "Q" {
			q = uid
		}
	}
	w.s.Mutate(crdKey(alias), func(u *unstructured.Unstructured) {
		u.SetOwnerReferences(append(u.GetOwnerReferences(), metav1.OwnerReference{APIVersion: "pkg.crossplane.io/v1", Kind: revGK.Kind,
			Name: "other-r1", UID: q, Controller: ptr.To(true), BlockOwnerDeletion: ptr.To(true)}))
	})
}

func crd(alias, from string) *extv1.CustomResourceDefinition {
	kind := strings.ToUpper(alias[:1]) + alias[1:]
	return &extv1.CustomResourceDefinition{
		TypeMeta:   metav1.TypeMeta{APIVersion: "apiextensions.k8s.io/v1", Kind: "CustomResourceDefinition"},
		ObjectMeta: metav1.ObjectMeta{Name: crdName(alias)},
		Spec: extv1.CustomResourceDefinitionSpec{
			Group: crdGroup,
			Names: extv1.CustomResourceDefinitionNames{Kind: kind, ListKind: kind + "List", Plural: alias + "s", Singular: alias},
			Scope: extv1.ClusterScoped,
			Versions: []extv1.CustomResourceDefinitionVersion{{Name: "v1", Served: true, Storage: true,
				Schema: &extv1.CustomResourceValidation{OpenAPIV3Schema: &extv1.JSONSchemaProps{Type: "object", Description: "from " + from}}}},
		},
	}
}

// setFamily chooses the package type by a hash of the scenario id.
func setFamily(id string) {
	h := fnv.New32a()
	_, _ = h.Write([]byte(strings.SplitN(id, "/", 2)[0]))
	pkgKind = "Provider"
	if h.Sum32()%2 == 1 {
		pkgKind = "Function"
	}
	revGK.Kind = pkgKind + "Revision"
	ghostRef = (h.Sum32()/2)%2 == 1
}

// ghostRef: objects that R1 controls before the scenario also carry a dangling reference of an earlier incarnation of R1.
var ghostRef bool

// newPkg / newRev: empty objects of the scenario's package type.
func newPkg() pkgv1.Package {
	if pkgKind == "Function" {
		return &pkgv1.Function{}
	}
	return &pkgv1.Provider{}
}

func newRev() pkgv1.PackageRevision {
	if pkgKind == "Function" {
		return &pkgv1.FunctionRevision{}
	}
	return &pkgv1.ProviderRevision{}
}

func linterFor() parser.Linter {
	if pkgKind == "Function" {
		return xpkg.NewFunctionLinter()
	}
	return xpkg.NewProviderLinter()
}

func packageStream(rev string, objs []string) string {
	var b strings.Builder
	if pkgKind == "Function" {
		b.WriteString("apiVersion: meta.pkg.crossplane.io/v1\nkind: Function\nmetadata:\n  name: " + pkgName + "\nspec:\n  image: xpkg.example.org/org/pkg-function:" + strings.ToLower(rev) + "\n")
	} else {
		b.WriteString("apiVersion: meta.pkg.crossplane.io/v1\nkind: Provider\nmetadata:\n  name: " + pkgName + "\nspec:\n  controller:\n    image: xpkg.example.org/org/pkg-controller:" + strings.ToLower(rev) + "\n")
	}
	for _, a := range objs {
		j, _ := json.Marshal(crd(a, rev))
		b.WriteString("---\n")
		b.Write(j) // JSON is YAML
		b.WriteString("\n")
	}
	return b.String()
}

func strs(v any) []string {
	out := []string{}
	l, _ := v.([]any)
	for _, x := range l {
		out = append(out, x.(string))
	}
	sort.Strings(out)
	return out
}

func newWorld(tw *trace.Writer, id string, init map[string]any, workers int) *world {
	setFamily(id)
	sch := theScheme
	s := simapi.NewServer(sch)
	c := simapi.NewClient(s, "revision")
	w := &world{s: s, c: c, sch: sch, tw: tw, scenID: id, pkgs: map[string][]string{}, rej: map[string]bool{}, crdBy: map[string]string{},
		digests: map[string]string{}, uidBy: map[types.UID]string{}, revs: []string{"R1", "R2"}, yaml: map[string]string{}, phase: "none", workers: workers}
	w.gate = &gate{}
	w.hits = hits
	w.gc = &gclient{Client: c, w: w}
	for _, a := range init["oseq"].([]any) {
		w.oseq = append(w.oseq, a.(string))
		w.crdBy[crdName(a.(string))] = a.(string)
	}
	inPkg := func(set []string) []string {
		out := []string{}
		for _, a := range w.oseq {
			for _, b := range set {
				if a == b {
					out = append(out, a)
				}
			}
		}
		return out
	}
	w.pkgs["R1"], w.pkgs["R2"] = inPkg(strs(init["pkg1"])), inPkg(strs(init["pkg2"]))
	for _, a := range strs(init["rej"]) {
		w.rej[a] = true
	}
	// the package, its two revisions, a foreign package and its revision
	mkPkg := func(name, src string) *unstructured.Unstructured {
		o := newPkg()
		o.SetName(name)
		o.SetSource(src)
		return s.Put(o)
	}
	mkRev := func(name, pkg, src string, owner types.UID, st pkgv1.PackageRevisionDesiredState, n int64, fins []string) *unstructured.Unstructured {
		o := newRev()
		o.SetName(name)
		o.SetLabels(map[string]string{pkgv1.LabelParentPackage: pkg})
		o.SetFinalizers(fins)
		o.SetOwnerReferences([]metav1.OwnerReference{{APIVersion: "pkg.crossplane.io/v1", Kind: pkgKind, Name: pkg, UID: owner, Controller: ptr.To(true), BlockOwnerDeletion: ptr.To(true)}})
		o.SetDesiredState(st)
		o.SetSource(src)
		o.SetRevision(n)
		o.SetIgnoreCrossplaneConstraints(ptr.To(true))
		o.SetSkipDependencyResolution(ptr.To(true))
		return s.Put(o)
	}
	p := mkPkg(pkgName, "xpkg.example.org/org/pkg:v2")
	w.uidBy[p.GetUID()] = "P"
	q := mkPkg("other", "xpkg.example.org/org/other:v1")
	qr := mkRev("other-r1", "other", "xpkg.example.org/org/other:v1", q.GetUID(), pkgv1.PackageRevisionActive, 1, nil)
	w.uidBy[qr.GetUID()] = "Q"
	act := map[string]bool{"R1": init["act1"].(bool), "R2": init["act2"].(bool)}
	revUID := map[string]types.UID{}
	for i, r := range w.revs {
		st := pkgv1.PackageRevisionInactive
		if act[r] {
			st = pkgv1.PackageRevisionActive
		}
		u := mkRev(revName(r), pkgName, "xpkg.example.org/org/pkg:"+strings.ToLower(r), p.GetUID(), st, int64(i+1), []string{finalizer})
		revUID[r] = u.GetUID()
		w.uidBy[u.GetUID()] = r
		w.yaml[revName(r)] = packageStream(r, w.pkgs[r])
	}
	// pre-existing cluster objects
	pre, _ := init["pre"].(map[string]any)
	for _, a := range w.oseq {
		st, _ := pre[a].(string)
		if st == "absent" || st == "" {
			continue
		}
		o := crd(a, "pre")
		switch st {
		case "free":
		case "R1":
			o.OwnerReferences = nil
			if ghostRef {
				// a dangling reference of an EARLIER incarnation of R1 (revision names are a function of package and digest: a
				// roll-back re-creates a revision under its old name with a new uid) - same kind and name, another uid, a plain
				// owner, listed first. It is not R1: whoever looks its own reference up by kind and name instead of by uid finds
				// this one (added after the seeded change C16-m7 was missed)
				o.OwnerReferences = append(o.OwnerReferences, metav1.OwnerReference{APIVersion: "pkg.crossplane.io/v1", Kind: revGK.Kind,
					Name: revName("R1"), UID: "ghost-of-r1", Controller: ptr.To(false), BlockOwnerDeletion: ptr.To(true)})
			}
			o.OwnerReferences = append(o.OwnerReferences,
				metav1.OwnerReference{APIVersion: "pkg.crossplane.io/v1", Kind: revGK.Kind, Name: revName("R1"), UID: revUID["R1"], Controller: ptr.To(true), BlockOwnerDeletion: ptr.To(true)},
				metav1.OwnerReference{APIVersion: "pkg.crossplane.io/v1", Kind: pkgKind, Name: pkgName, UID: p.GetUID(), Controller: ptr.To(false), BlockOwnerDeletion: ptr.To(true)})
		case "Q":
			o.OwnerReferences = []metav1.OwnerReference{
				{APIVersion: "pkg.crossplane.io/v1", Kind: revGK.Kind, Name: "other-r1", UID: qr.GetUID(), Controller: ptr.To(true), BlockOwnerDeletion: ptr.To(true)}}
		default:
			panic("unknown pre-state " + st)
		}
		s.Put(o)
	}
	// R1's recorded references: descending by name, as the reconciler sorts them
	if refs := inPkg(strs(init["refs1"])); len(refs) > 0 {
		l := []any{}
		for i := len(refs) - 1; i >= 0; i-- {
			m := map[string]any{"apiVersion": "apiextensions.k8s.io/v1", "kind": "CustomResourceDefinition", "name": crdName(refs[i])}
			if u := s.Peek(crdKey(refs[i])); u != nil {
				m["uid"] = string(u.GetUID())
			}
			l = append(l, m)
		}
		s.Mutate(revKey("R1"), func(u *unstructured.Unstructured) {
			_ = unstructured.SetNestedSlice(u.Object, l, "status", "objectRefs")
		})
	}
	s.Reject = func(_ string, u *unstructured.Unstructured) error {
		if u.GetKind() == crdGK.Kind && w.rej[w.aliasOfCRD(u.GetName())] {
			return kerrors.NewInvalid(crdGK, u.GetName(), field.ErrorList{field.Invalid(field.NewPath("spec"), u.GetName(), "rejected by the API server (scripted)")})
		}
		return nil
	}
	c.Intercept = func(cl *simapi.Call) simapi.Decision {
		if w.al == nil {
			return simapi.Proceed
		}
		abs := w.classify(cl)
		if abs == "" {
			return simapi.Proceed
		}
		return w.al.OnCall(abs, cl.Write)
	}
	s.OnEvent = w.onEvent
	return w
}

// ------------------------------------------------- client semantics + gate

// gclient puts on top of simapi what the establisher gets from a
// controller-runtime client and simapi does not do: a cancelled context fails
// the call before it reaches the server; cached typed reads carry their
// TypeMeta; Update / Status().Update restore the caller's TypeMeta (Create
// does not - controller-runtime v0.19 client.go). In the parallel mode every
// call waits at the gate until the scheduler serves it.
type gclient struct {
	*simapi.Client
	w *world
}

func (g *gclient) enter(ctx context.Context, key string) error {
	if err := ctx.Err(); err != nil {
		return err
	}
	if !g.w.gate.on {
		return nil
	}
	g.w.gate.wait(key)
	if err := ctx.Err(); err != nil {
		g.w.gate.done()
		return err
	}
	return nil
}

func (g *gclient) leave() {
	if g.w.gate.on {
		g.w.gate.done()
	}
}

func keyOf(verb string, obj kruntime.Object, name string) string {
	return verb + ":" + obj.GetObjectKind().GroupVersionKind().Kind + ":" + name
}

func (g *gclient) restore(obj client.Object, gvk schema.GroupVersionKind) {
	if gvk.Kind != "" {
		obj.GetObjectKind().SetGroupVersionKind(gvk)
	}
}

func (g *gclient) Get(ctx context.Context, key client.ObjectKey, obj client.Object, opts ...client.GetOption) error {
	if err := g.enter(ctx, keyOf("get", obj, key.Name)); err != nil {
		return err
	}
	defer g.leave()
	err := g.Client.Get(ctx, key, obj, opts...)
	if _, isU := obj.(kruntime.Unstructured); err == nil && !isU {
		if gvks, _, e := g.w.sch.ObjectKinds(obj); e == nil && len(gvks) > 0 {
			obj.GetObjectKind().SetGroupVersionKind(gvks[0])
		}
	}
	return err
}

func (g *gclient) List(ctx context.Context, list client.ObjectList, opts ...client.ListOption) error {
	if err := g.enter(ctx, "list"); err != nil {
		return err
	}
	defer g.leave()
	return g.Client.List(ctx, list, opts...)
}

func (g *gclient) Create(ctx context.Context, obj client.Object, opts ...client.CreateOption) error {
	if err := g.enter(ctx, keyOf("create", obj, obj.GetName())); err != nil {
		return err
	}
	defer g.leave()
	return g.Client.Create(ctx, obj, opts...)
}

func (g *gclient) Update(ctx context.Context, obj client.Object, opts ...client.UpdateOption) error {
	if err := g.enter(ctx, keyOf("update", obj, obj.GetName())); err != nil {
		return err
	}
	defer g.leave()
	defer g.restore(obj, obj.GetObjectKind().GroupVersionKind())
	return g.Client.Update(ctx, obj, opts...)
}

func (g *gclient) Patch(ctx context.Context, obj client.Object, p client.Patch, opts ...client.PatchOption) error {
	if err := g.enter(ctx, keyOf("patch", obj, obj.GetName())); err != nil {
		return err
	}
	defer g.leave()
	defer g.restore(obj, obj.GetObjectKind().GroupVersionKind())
	return g.Client.Patch(ctx, obj, p, opts...)
}

func (g *gclient) Delete(ctx context.Context, obj client.Object, opts ...client.DeleteOption) error {
	if err := g.enter(ctx, keyOf("delete", obj, obj.GetName())); err != nil {
		return err
	}
	defer g.leave()
	return g.Client.Delete(ctx, obj, opts...)
}

type gstatus struct {
	g     *gclient
	inner client.SubResourceWriter
}

func (g *gclient) Status() client.SubResourceWriter {
	return &gstatus{g: g, inner: g.Client.Status()}
}

func (s *gstatus) Create(ctx context.Context, obj client.Object, sub client.Object, opts ...client.SubResourceCreateOption) error {
	return s.inner.Create(ctx, obj, sub, opts...)
}

func (s *gstatus) Update(ctx context.Context, obj client.Object, opts ...client.SubResourceUpdateOption) error {
	if err := s.g.enter(ctx, keyOf("update-status", obj, obj.GetName())); err != nil {
		return err
	}
	defer s.g.leave()
	defer s.g.restore(obj, obj.GetObjectKind().GroupVersionKind())
	return s.inner.Update(ctx, obj, opts...)
}

func (s *gstatus) Patch(ctx context.Context, obj client.Object, p client.Patch, opts ...client.SubResourcePatchOption) error {
	if err := s.g.enter(ctx, keyOf("patch-status", obj, obj.GetName())); err != nil {
		return err
	}
	defer s.g.leave()
	defer s.g.restore(obj, obj.GetObjectKind().GroupVersionKind())
	return s.inner.Patch(ctx, obj, p, opts...)
}

// gate serialises the API calls of the establisher's worker goroutines. A
// scheduler goroutine serves one pending call at a time, chosen by a seeded
// RNG among all pending calls once every live worker is waiting at the gate
// (live workers = goroutines beyond the baseline; a worker that finished has
// exited). Calls made outside Establish / ReleaseObjects come from the single
// reconciler goroutine and are served at once.
type gate struct {
	mu       sync.Mutex
	on       bool
	pending  []*waiter
	running  bool
	rng      *rand.Rand
	base     int
	stop     chan struct{}
	stopped  chan struct{}
	Timeouts int
	Choices  int // decisions with more than one pending call
	w        *world
}

type waiter struct {
	key string
	ch  chan struct{}
}

func (g *gate) wait(key string) {
	wt := &waiter{key: key, ch: make(chan struct{})}
	g.mu.Lock()
	g.pending = append(g.pending, wt)
	g.mu.Unlock()
	<-wt.ch
}

func (g *gate) done() {
	g.mu.Lock()
	g.running = false
	g.mu.Unlock()
}

func (g *gate) start(w *world, seed int64) {
	g.w, g.on, g.rng = w, true, rand.New(rand.NewSource(seed))
	g.stop, g.stopped = make(chan struct{}), make(chan struct{})
	// workers of the previous reconcile have returned but may not have exited yet
	for runtime.NumGoroutine() > baseline {
		runtime.Gosched()
	}
	g.base = baseline + 1 // + the scheduler itself
	go g.schedule()
}

func (g *gate) halt() {
	close(g.stop)
	<-g.stopped
	g.on = false
}

func (g *gate) schedule() {
	defer close(g.stopped)
	stable, idle := 0, time.Now()
	for {
		select {
		case <-g.stop:
			return
		default:
		}
		g.mu.Lock()
		n, running := len(g.pending), g.running
		g.mu.Unlock()
		ready := false
		if !running && n > 0 {
			if g.w.phase == "none" {
				ready = true
			} else if n == runtime.NumGoroutine()-g.base {
				stable++
				ready = stable >= 4
			} else {
				stable = 0
				if time.Since(idle) > 200*time.Millisecond {
					ready = true // should not happen; never deadlock the run
					g.Timeouts++
				}
			}
		} else {
			stable = 0
			if running || n == 0 {
				idle = time.Now()
			}
		}
		if !ready {
			if stable > 0 {
				for t0 := time.Now(); time.Since(t0) < 15*time.Microsecond; {
					runtime.Gosched()
				}
			} else {
				runtime.Gosched()
			}
			continue
		}
		g.mu.Lock()
		sort.SliceStable(g.pending, func(i, j int) bool { return g.pending[i].key < g.pending[j].key })
		if len(g.pending) > 1 {
			g.Choices++
		}
		i := g.rng.Intn(len(g.pending))
		wt := g.pending[i]
		g.pending = append(g.pending[:i], g.pending[i+1:]...)
		g.running = true
		g.mu.Unlock()
		stable, idle = 0, time.Now()
		close(wt.ch)
	}
}

// ------------------------------------------------------------ reconciling

// fault at a concrete real call index of a concrete reconcile
type sweep struct {
	rec, idx int
	d        simapi.Decision
}

func (w *world) reconcile(rev string, al *replay.Aligner, sw *sweep) (calls int) {
	w.recNo++
	w.al = al
	w.actor, w.phase, w.control, w.estres, w.okPath, w.back, w.inject = rev, "none", false, "", false, 0, ""
	w.refs0 = nil
	if u := w.s.Peek(revKey(rev)); u != nil {
		refs, _ := w.refsOf(u)
		for _, r := range refs {
			w.refs0 = append(w.refs0, r.(string))
		}
		st, _, _ := unstructured.NestedString(u.Object, "spec", "desiredState")
		w.control = st == string(pkgv1.PackageRevisionActive)
	}
	w.c.BeginReconcile()
	inner := w.c.Intercept
	if sw != nil && sw.rec == w.recNo {
		w.c.Intercept = func(cl *simapi.Call) simapi.Decision {
			d := inner(cl)
			if cl.Idx == sw.idx && d == simapi.Proceed {
				w.inject = sw.d.String()
				if sw.d == simapi.FailConflict && !cl.Write {
					return simapi.FailError
				}
				return sw.d
			}
			return d
		}
	}
	defer func() { w.c.Intercept = inner }()

	mgr := &fakes.Manager{Client: w.gc, Sch: w.sch}
	rec := revision.NewReconciler(mgr,
		revision.WithCache(&fakeCache{w: w}),
		revision.WithDependencyManager(nopDeps{}),
		revision.WithEstablisher(&markEst{w: w, real: revision.NewAPIEstablisher(w.gc, namespace, w.workers)}),
		revision.WithNewPackageRevisionFn(newRev),
		revision.WithParser(parser.New(metaScheme, objScheme)),
		revision.WithConfigStore(xpkg.NewImageConfigStore(w.gc, namespace)),
		revision.WithLinter(linterFor()),
		revision.WithNamespace(namespace),
	)
	w.emit("start", nil)
	res, err := rec.Reconcile(context.Background(), reconcile.Request{NamespacedName: types.NamespacedName{Name: revName(rev)}})
	calls = w.c.Calls()
	if al != nil {
		al.Finish()
	}
	result := "ok"
	switch {
	case w.c.Dead():
		result = "crashed"
	case err != nil:
		result = "error"
	case res.Requeue:
		result = "requeue"
	}
	faulty := w.inject != "" || (al != nil && al.Injected != "")
	w.phase, w.back = "none", 0
	w.emit("end", map[string]any{"result": result, "faulty": faulty})
	w.al = nil
	// the Kubernetes garbage collector runs: nothing the package owns may disappear
	w.s.GCStep()
	w.emit("gc", nil)
	return calls
}

type summary struct {
	Scenarios  int            `json:"scenarios"`
	Runs       int            `json:"runs"`
	Reconciles int            `json:"reconciles"`
	Events     int            `json:"events"`
	Drift      int            `json:"drift"`
	DriftRuns  int            `json:"drift_runs"`
	SweepRuns  int            `json:"sweep_runs"`
	ParRuns    int            `json:"par_runs"`
	ParChoices int            `json:"par_choices"`
	ParTimeout int            `json:"par_gate_timeouts"`
	Counts     map[string]int `json:"counts"`
	Samples    []any          `json:"samples"`
	DriftByAbs map[string]int `json:"drift_by_abs"`
	Hits       map[string]int `json:"hits"`
}

var hits = map[string]int{}

// baseline is the number of goroutines of the idle driver (measured when main starts).
var baseline = 1

type parSpec struct {
	Seed    int64 `json:"seed"`
	Workers int   `json:"workers"`
}

func isStart(e replay.Entry) bool { return e.K == "get" && (e.O == "R1" || e.O == "R2") }

// run replays one history. par != nil: parallel mode (the history only says which
// revision is reconciled when and what the environment does; the call order and one
// optional fault per run are drawn from par.Seed).
func run(tw *trace.Writer, id string, hist []replay.Entry, variant simapi.Decision, sw *sweep, extra int, par *parSpec, sum *summary) []int {
	tw.Boundary()
	workers := 1
	if par != nil {
		workers = par.Workers
	}
	w := newWorld(tw, id, hist[0].Raw, workers)
	w.emit("reset", nil)
	blocks, trailing := replay.Split(hist[1:], isStart)
	var calls []int
	drift := 0
	var prng *rand.Rand
	var psw *sweep
	if par != nil {
		prng = rand.New(rand.NewSource(par.Seed))
		if len(blocks) > 0 && prng.Intn(3) > 0 {
			// one fault at a random place: reconcile, call index, outcome
			psw = &sweep{rec: 1 + prng.Intn(len(blocks)), idx: 1 + prng.Intn(14), d: simapi.Decision(1 + prng.Intn(4))}
		}
	}
	one := func(rev string, al *replay.Aligner, s *sweep) {
		if par != nil {
			w.gate.start(w, prng.Int63())
			calls = append(calls, w.reconcile(rev, nil, psw))
			w.gate.halt()
			sum.ParChoices += w.gate.Choices
			sum.ParTimeout += w.gate.Timeouts
			w.gate.Choices, w.gate.Timeouts = 0, 0
		} else {
			calls = append(calls, w.reconcile(rev, al, s))
		}
		sum.Reconciles++
	}
	for _, b := range blocks {
		for _, e := range b.Pre {
			w.env(e)
		}
		al := &replay.Aligner{Steps: b.Steps, Variant: variant, Env: w.env}
		one(b.Steps[0].O, al, sw)
		if sw == nil && par == nil {
			drift += al.Drift
			for _, k := range al.DriftAbs {
				sum.DriftByAbs[k]++
			}
		}
	}
	for _, e := range trailing {
		w.env(e)
	}
	for i := 0; i < extra; i++ {
		for _, r := range w.revs {
			one(r, &replay.Aligner{Variant: variant, Env: w.env}, sw)
		}
	}
	sum.Runs++
	sum.Drift += drift
	if drift > 0 {
		sum.DriftRuns++
	}
	return calls
}

func main() {
	scenarios := flag.String("scenarios", "", "NDJSON file of TLC histories")
	tracePath := flag.String("trace", "", "output trace")
	sumPath := flag.String("summary", "", "output summary JSON")
	variants := flag.String("variants", "rotate", "rotate|all: how a model 'fail' is realised (error, conflict, crashBefore)")
	chunk := flag.Int("chunk", 0, "split the trace into files of about this many events")
	sweepN := flag.Int("sweep", 0, "number of scenarios to sweep over every real call index x outcome")
	parN := flag.Int("par", 0, "number of scenarios also run in the parallel mode")
	parK := flag.Int("parvariants", 3, "parallel runs (seeds) per such scenario")
	workers := flag.Int("workers", 4, "establisher workers in the parallel mode")
	seed := flag.Int64("seed", 1, "seed of the parallel mode")
	cpuprof := flag.String("cpuprofile", "", "write a CPU profile")
	flag.Parse()
	if *cpuprof != "" {
		f, _ := os.Create(*cpuprof)
		_ = pprof.StartCPUProfile(f)
		defer pprof.StopCPUProfile()
	}
	baseline = runtime.NumGoroutine()

	raws, err := scen.Load(*scenarios)
	if err != nil {
		fmt.Fprintln(os.Stderr, err)
		os.Exit(2)
	}
	tw, err := trace.New(*tracePath, *chunk)
	if err != nil {
		fmt.Fprintln(os.Stderr, err)
		os.Exit(2)
	}
	sum := &summary{DriftByAbs: map[string]int{}}
	fails := []simapi.Decision{simapi.FailError, simapi.FailConflict, simapi.CrashBefore}
	dec := map[string]simapi.Decision{"error": simapi.FailError, "conflict": simapi.FailConflict, "crashBefore": simapi.CrashBefore, "crashAfter": simapi.CrashAfter}
	for i, raw := range raws {
		var sc struct {
			ID      string          `json:"id"`
			Hist    json.RawMessage `json:"hist"`
			Variant string          `json:"variant"`
			Extra   int             `json:"extra"`
			Sweep   *struct {
				Rec     int    `json:"rec"`
				Idx     int    `json:"idx"`
				Outcome string `json:"outcome"`
			} `json:"sweep"`
			Par *parSpec `json:"par"`
		}
		if err := json.Unmarshal(raw, &sc); err != nil {
			fmt.Fprintln(os.Stderr, "bad scenario:", err)
			os.Exit(2)
		}
		hist, err := replay.Parse(sc.Hist)
		if err != nil || len(hist) == 0 || hist[0].T != "init" {
			fmt.Fprintln(os.Stderr, "bad scenario history:", err)
			os.Exit(2)
		}
		sum.Scenarios++
		if sc.Variant != "" || sc.Sweep != nil || sc.Par != nil {
			// a replay file: run exactly what it says
			v := simapi.FailError
			if sc.Variant != "" {
				v = dec[sc.Variant]
			}
			var sw *sweep
			if sc.Sweep != nil {
				sw = &sweep{rec: sc.Sweep.Rec, idx: sc.Sweep.Idx, d: dec[sc.Sweep.Outcome]}
			}
			run(tw, sc.ID, hist, v, sw, sc.Extra, sc.Par, sum)
			if sc.Par != nil {
				sum.ParRuns++
			}
			continue
		}
		hasFail := false
		for _, e := range hist {
			if e.F == "fail" {
				hasFail = true
			}
		}
		vs := []simapi.Decision{fails[i%3]}
		if hasFail && *variants == "all" {
			vs = fails
		}
		for _, v := range vs {
			id := sc.ID
			if hasFail {
				id += "/" + v.String()
			}
			calls := run(tw, id, hist, v, nil, 0, nil, sum)
			if i < *sweepN && v == vs[0] {
				// every real call index of every reconcile x every outcome, followed by fault-free reconciles of both revisions
				for r, n := range calls {
					for k := 1; k <= n; k++ {
						for _, d := range []simapi.Decision{simapi.FailError, simapi.FailConflict, simapi.CrashBefore, simapi.CrashAfter} {
							run(tw, fmt.Sprintf("%s/sweep-r%d-k%d-%s", sc.ID, r+1, k, d), hist, v, &sweep{rec: r + 1, idx: k, d: d}, 1, nil, sum)
							sum.SweepRuns++
						}
					}
				}
			}
		}
		if i < *parN {
			for j := 0; j < *parK; j++ {
				ps := &parSpec{Seed: *seed*1000003 + int64(i)*101 + int64(j), Workers: *workers}
				run(tw, fmt.Sprintf("%s/par-s%d-w%d", sc.ID, ps.Seed, ps.Workers), hist, simapi.FailError, nil, 1, ps, sum)
				sum.ParRuns++
			}
		}
		if len(sum.Samples) < 2 {
			sum.Samples = append(sum.Samples, json.RawMessage(raw))
		}
	}
	sum.Events = tw.Lines
	sum.Counts = tw.Counts
	sum.Hits = hits
	if err := tw.Close(); err != nil {
		fmt.Fprintln(os.Stderr, err)
		os.Exit(2)
	}
	if err := scen.WriteJSON(*sumPath, sum); err != nil {
		fmt.Fprintln(os.Stderr, err)
		os.Exit(2)
	}
}
