"""C20 - initialisation is idempotent and never duplicates or clobbers existing state.
Model: spec/Init.tla (+ MCInit); driver: harness/drivers/init (the real initializer steps in
cmd/crossplane/core/init.go order, run by the real initializer.New(...).Init on simapi);
monitor: spec/MonInit.tla."""
import glob
import json
import os
import re
import subprocess
import time

import vlib

PID = "C20"
MON_FORMULAS = ["Idempotent.Rerun", "Idempotent.AbortRerun", "KeepCA", "KeepCerts", "Chain.Complete", "Chain.Verifies",
                "Chain.DNSNames", "Chain.CaCrt", "NoDupPkg.SameRepoTwice", "NoDupPkg.Installed", "NoDupPkg.LandsOnExisting",
                "NoDupPkg.HostCustomName.Lands", "NoDupPkg.HostCustomName.Dup", "NoDupPkg.HostCustomName.Rerun",
                "NoDupPkg.HostCustomName.AbortRerun", "Untouched", "Bundle.CRD", "Bundle.Webhook"]
# every package-object clause in the situation of DESIGN.md section 4 D7 (reference with registry host, repository
# installed under a custom object name) is one finding: fingerprint NoDupPkg.HostCustomName
D7 = "NoDupPkg.HostCustomName"
DRIFT_FORMULAS = ["Conf.Init", "Conf.Final"]
HOWS = ("error", "conflict", "crashBefore")


def regression():
    out = []
    for p in sorted(glob.glob(os.path.join(vlib.VERIF, "scenarios", PID, "*.json"))):
        with open(p) as f:
            out.append(json.load(f))
    return out


def build(ctx):
    """The driver binary, built against /repo's working tree. VERIF_C20_OVERLAY=<overlay.json> builds it
    with go build -overlay (sanity mutants on scratch copies of /repo files; /repo itself is never touched)."""
    ov = os.environ.get("VERIF_C20_OVERLAY")
    if not ov:
        return ctx.go_build("./drivers/init", name="initdrv")
    out = os.path.join(ctx.work, "bin", "initdrv")
    os.makedirs(os.path.dirname(out), exist_ok=True)
    e = dict(os.environ)
    e.update(vlib.GOENV)
    t = time.time()
    p = subprocess.run(["go", "build", "-overlay", ov, "-o", out, "./drivers/init"], cwd=vlib.HARNESS, env=e,
                       stdout=subprocess.PIPE, stderr=subprocess.STDOUT, text=True)
    vlib.log("  go build -overlay %s: rc=%d %.1fs" % (ov, p.returncode, time.time() - t))
    if p.returncode != 0:
        raise vlib.Inconclusive("harness does not build with the overlay:\n" + p.stdout[-4000:])
    return out


def replay_scenario(by_id, scid):
    """The scenario that reproduces exactly the run the trace line belongs to."""
    parts = scid.split("/")
    base = dict(by_id.get(parts[0], {"id": parts[0]}))
    base["id"] = scid
    for p in parts[1:]:
        m = re.match(r"sweep-k(\d+)-(fail|crashAfter)-(\w+)$", p)
        if m:
            base["sweep"] = {"idx": int(m.group(1)), "f": m.group(2)}
            base["how"] = m.group(3)
        elif p in HOWS:
            base["how"] = p
    return base


def drive_and_judge(ctx, scs, sweep=0, realgen=0):
    by_id = {s["id"].split("/")[0]: s for s in scs}
    sp = ctx.write_scenarios(scs)
    binp = build(ctx)
    trace = os.path.join(ctx.work, "trace.ndjson")
    summ = os.path.join(ctx.work, "summary.json")
    ctx.run([binp, "-scenarios", sp, "-trace", trace, "-summary", summ, "-chunk", "40000", "-seed", str(ctx.seed),
             "-sweep", str(sweep), "-realgen", str(realgen)])
    with open(summ) as f:
        s = json.load(f)
    viols, nlines = ctx.monitor("MonInit", trace)
    drift = {}
    for formula, line, scid in viols:
        if formula.startswith("Conf."):
            drift.setdefault(formula, []).append(scid)
            continue
        ctx.violation(formula, scid, ctx.replay_file(replay_scenario(by_id, scid)), "trace line %d" % line,
                      fingerprint=D7 if formula.startswith(D7 + ".") else formula)
    for k, v in drift.items():
        vlib.log("DRIFT: %s: the real code no longer follows spec/Init.tla in %d traces (e.g. %s); "
                 "the property formulas were still evaluated on every real trace" % (k, len(v), v[0]))
    if s["unmodelled_calls"] or s["faults_not_fired"]:
        vlib.log("DRIFT: calls unknown to the model: %s; model faults that never fired: %s" %
                 (s["unmodelled_calls"], s["faults_not_fired_at"]))
    s["conf_drift"] = {k: len(v) for k, v in drift.items()}
    return s, nlines


def run(ctx):
    quick = ctx.quick
    cfgs = ["MCInit_quick.cfg"] if quick else ["MCInit_thorough.cfg"]
    budget = 3000 if quick else 10 ** 9
    scs, states, trans, emitted, consts = [], 0, 0, 0, {}
    for i, cfg in enumerate(cfgs):
        mc = ctx.model_check("MCInit", cfg, workers=8 if quick else 16, timeout=300 if quick else 3000)
        got = ctx.sample_lines(mc["emitted_file"], budget // len(cfgs), mc["emitted"])
        scs += [{"id": "%s-m%d-%07d" % (PID, i, n), "hist": h} for n, h in got]
        states += mc["states"]
        trans += mc["transitions"]
        emitted += mc["emitted"]
        consts[cfg] = dict(states=mc["states"], transitions=mc["transitions"], depth=mc["depth"], scenarios=mc["emitted"])
    # the model with the installer as it is coded today (lookup without the registry host) must show D7
    d7 = ctx.model_check("MCInit", "MCInit_d7.cfg", workers=4, timeout=300, expect_violations=("NoDupPkg",), sub="mcd7")
    consts["MCInit_d7.cfg"] = dict(states=d7["states"], violated=d7["violated"])
    chosen = regression() + scs
    s, nlines = drive_and_judge(ctx, chosen, sweep=6 if quick else 60, realgen=4 if quick else 40)
    ctx.cov.update(dict(
        states=states, transitions=trans, traces_validated_against_impl=s["traces"], samples=s["samples"][:2],
        model_runs=consts, scenarios_emitted=emitted, scenarios_replayed=s["scenarios"], initializer_runs=s["runs"],
        sweep_traces=s["sweep_runs"], realgen_scenarios=s["realgen_scenarios"], fast_generator_injected=s["fast_generator_injected"],
        events=nlines, per_action_counts=s["calls"], run_results=s["run_results"],
        formula_antecedent_hits=s["formula_antecedents"],
        drift=dict(unmodelled_calls=s["unmodelled_calls"], faults_not_fired=s["faults_not_fired_at"], conf=s["conf_drift"]),
        monitor_formulas=MON_FORMULAS, drift_formulas=DRIFT_FORMULAS, exhaustive=(emitted == len(scs)),
        checker_cmd="tlc MCInit (M,G) -> harness/drivers/init on /repo (T) -> tlc MonInit",
        rule="one scenario per model behaviour (initial contents x package reference form x fault position x outcome); "
             "a model 'fail' is realised as error / conflict / crash-before (rotating); sweep = every real call index of "
             "run 1 x {fail, crashAfter} + 2 fault-free reruns; a few scenarios run with the untouched RSA generator",
    ))
    ctx.assumptions += [
        "simapi models the API server rules listed in spec/KubeAPI.tla (merge patch, status subresource, AlreadyExists)",
        "RSA keys of generated certificates come from a pre-generated pool through the CertificateGenerator seam of "
        "TLSCertificateGenerator (a sample of scenarios uses the real generator); everything else is the unmodified code",
        "image repository = registry host + repository path as written; nothing is asserted across different hosts",
        "current CA bundle = tls.crt of the webhook TLS server secret (what crds.go / webhook_configurations.go inject)",
        "verdict only from traces of the real initializer judged by MonInit.tla",
    ]


def replay(ctx, path):
    with open(path) as f:
        sc = json.load(f)
    s, nlines = drive_and_judge(ctx, [sc])
    ctx.cov.update(dict(states=1, transitions=1, traces_validated_against_impl=s["traces"], samples=[sc], events=nlines,
                        run_results=s["run_results"]))
