--------------------------- MODULE MCConnSecrets ---------------------------
(***************************************************************************)
(* Vector model for C09: enumerates the bounded input domain (one initial  *)
(* state per input vector, one Compute step), emits every input as a       *)
(* <<"VEC", json>> line for replay on the real code, and checks at design  *)
(* level (M) that the code as read (ConnSecrets.tla, the Code operators) meets the      *)
(* reference formulas on every vector.                                     *)
(*                                                                         *)
(* Families (field fam)                                                    *)
(*  publish    details x XRD filter x writeConnectionSecretToRef present?  *)
(*             x pre-state of the XR's secret (absent; uncontrolled / with *)
(*             a plain owner reference only / controlled by the XR / by    *)
(*             another UID; connection type / Opaque; every data map, i.e. *)
(*             equal, subset, superset, different values)                  *)
(*  propagate  pre-state of the source (XR) secret (absent; controlled by  *)
(*             the bound XR / another UID / nobody / only a plain owner    *)
(*             reference of the XR; every data map) x pre-state of the     *)
(*             claim's secret (as above, owner = claim) x both references  *)
(*  extract    sequences of up to MaxCfgs extraction configs of the three  *)
(*             types (+ an unknown type), names incl. the empty name,      *)
(*             sources incl. missing key / missing path / malformed path / *)
(*             unset field, x connection data of the composed resource     *)
(*  e2e        script for the real XR reconciler (function pipeline that   *)
(*             returns details, then details2 twice) and the real claim    *)
(*             reconciler on one store                                     *)
(*  e2ept      script for the real XR reconciler with the real P&T         *)
(*             composer: extraction configs as the template's              *)
(*             connectionDetails x the composed resource's connection      *)
(*             secret x XRD filter                                         *)
(*  e2eobs     the real XR reconciler with a function that passes observed *)
(*             connection details on, an own and a foreign-controlled      *)
(*             composed resource, informer cache hit / miss                *)
(* All inputs have the same record shape (unused fields hold defaults).    *)
(***************************************************************************)
EXTENDS ConnSecrets, Json

CONSTANTS
  Fams,        \* families to enumerate
  Keys, Vals,  \* key universe / value atoms of the data maps
  MaxCfgs,     \* extract: longest config sequence
  PathArgs,    \* extract: field path atoms
  ExtAllData,  \* extract: every data map of the composed resource (TRUE) or only every key subset (FALSE)
  E2EMaps      \* e2e: how many of the data maps are used (the first n of E2EOrder)

VARIABLES input, done
vars == <<input, done>>

Maps == [Keys -> Vals \cup {None}]
Empty == [k \in Keys |-> None]
Gone == AbsentSec(Empty)

\* ------------------------------------------------------------ secret states
XSecsFull == {Gone} \cup {Sec(c, t, d) : c \in {"none", "plain", "xr", "other"}, t \in {"conn", "opaque"}, d \in Maps}
CSecsFull == {Gone} \cup {Sec(c, t, d) : c \in {"none", "plain", "claim", "other"}, t \in {"conn", "opaque"}, d \in Maps}
\* sources: the type of the source is irrelevant to everybody, so only the bound XR's own secret comes in both types
SrcSecs == {Gone} \cup {Sec(c, "conn", d) : c \in {"none", "plain", "xr", "other"}, d \in Maps}
                  \cup {Sec("xr", "opaque", d) : d \in Maps}
AMap == CHOOSE m \in Maps : \A k \in Keys : m[k] # None
SrcFew == {Gone, Sec("xr", "conn", AMap), Sec("other", "conn", AMap)}

NoCfgs == <<>>
Base(f) == [fam |-> f, details |-> Empty, details2 |-> Empty, filter |-> {}, xwants |-> TRUE, cwants |-> TRUE,
            xsec |-> Gone, csec |-> Gone, cfgs |-> NoCfgs, cdata |-> Empty, foreign |-> "none"]

Publish == {[Base("publish") EXCEPT !.details = d, !.filter = f, !.xwants = w, !.xsec = s] :
              d \in Maps, f \in SUBSET Keys, w \in BOOLEAN, s \in XSecsFull}

Propagate ==
  {[Base("propagate") EXCEPT !.xsec = s, !.csec = c] : s \in SrcSecs, c \in CSecsFull}
  \cup {[Base("propagate") EXCEPT !.xsec = s, !.csec = c, !.xwants = w[1], !.cwants = w[2]] :
          s \in SrcFew, c \in CSecsFull, w \in {<<TRUE, FALSE>>, <<FALSE, TRUE>>, <<FALSE, FALSE>>}}

\* ------------------------------------------------------------------ extract
Names == Keys \cup {""}
Cfg(tp, n, a) == [tp |-> tp, name |-> n, arg |-> a]
Cfgs == {Cfg("key", n, a) : n \in Names, a \in Keys \cup {"nil"}}
        \cup {Cfg("path", n, a) : n \in Names, a \in PathArgs}
        \cup {Cfg("value", n, a) : n \in Names, a \in Vals \cup {"nil"}}
        \cup {Cfg("other", n, "x") : n \in Keys}
CfgSeqs == UNION {[1..n -> Cfgs] : n \in 1..MaxCfgs}
\* connection data of the composed resource: what matters is which keys it has (the value differs from every FromValue atom's use)
ExtData == IF ExtAllData THEN Maps ELSE {m \in Maps : \A k \in Keys : m[k] \in {None, CHOOSE v \in Vals : TRUE}}
Extract == {[Base("extract") EXCEPT !.cfgs = cs, !.cdata = d] : cs \in CfgSeqs, d \in ExtData}

\* ---------------------------------------------------------------------- e2e
\* a few diverse data maps: all keys, all keys with one other value, one key, none
AKey == CHOOSE k \in Keys : TRUE
OtherVal(v) == CHOOSE x \in Vals : x # v
E2EOrder == <<AMap, [AMap EXCEPT ![AKey] = OtherVal(AMap[AKey])], [Empty EXCEPT ![AKey] = AMap[AKey]], Empty>>
FewMaps == {E2EOrder[i] : i \in 1..E2EMaps}
E2EXSecs == {Gone, Sec("none", "conn", AMap), Sec("none", "opaque", AMap), Sec("other", "conn", AMap), Sec("xr", "conn", AMap)}
E2ECSecs == {Gone, Sec("none", "conn", AMap), Sec("none", "opaque", AMap), Sec("other", "conn", AMap), Sec("claim", "conn", AMap)}
E2E == {[Base("e2e") EXCEPT !.details = d, !.details2 = d2, !.filter = f, !.xwants = w[1], !.cwants = w[2], !.xsec = s, !.csec = c] :
          d \in FewMaps, d2 \in FewMaps, f \in SUBSET Keys, w \in {<<TRUE, TRUE>>, <<TRUE, FALSE>>, <<FALSE, TRUE>>},
          s \in E2EXSecs, c \in E2ECSecs}

\* the same through the real P&T composer: the configs become the template's connectionDetails, cdata the composed resource's secret
E2EPT == {[Base("e2ept") EXCEPT !.cfgs = cs, !.cdata = d, !.filter = f] : cs \in CfgSeqs, d \in ExtData, f \in {{}, {AKey}}}

\* observed pass-through: the XR references a composed resource of its own (connection data cdata) and one that another XR
\* controls; the function keeps what it is shown desired and passes observed connection details on to the XR (as
\* function-patch-and-transform does); the informer cache knows the composed resources ("cached") or not yet ("miss")
E2EObs == {[Base("e2eobs") EXCEPT !.details = d, !.details2 = d2, !.cdata = cd, !.filter = f, !.foreign = fg] :
             d \in FewMaps, d2 \in FewMaps, cd \in FewMaps, f \in SUBSET Keys, fg \in {"cached", "miss"}}

Domain(f) == CASE f = "publish" -> Publish [] f = "propagate" -> Propagate [] f = "extract" -> Extract [] f = "e2e" -> E2E
               [] f = "e2ept" -> E2EPT [] f = "e2eobs" -> E2EObs

\* --------------------------------------------------------------------- spec
Init == /\ \E f \in Fams : input \in Domain(f)
        /\ done = FALSE
Compute == /\ ~done
           /\ done' = TRUE
           /\ UNCHANGED input
Spec == Init /\ [][Compute]_vars
Emit == PrintT(<<"VEC", ToJson(input')>>)

\* --------------------------------------------- design-level properties (M)
Modelled == input.fam \in {"publish", "propagate", "extract"}
O == Code(input)
DesignFiltered == Modelled => (FilteredBody(O) /\ FilteredStore(O))
DesignOnlyIfAsked == Modelled => OnlyIfAsked(O)
DesignExactCopy == Modelled => (ExactCopy(O) /\ NoRead(O))
DesignNoRewrite == Modelled => (NoRewriteWrite(O) /\ NoRewritePublished(O))
DesignForeign == Modelled => (ForeignUntouched(O) /\ ForeignOpaque(O) /\ OwnerOnly(O))
DesignExtract == Modelled => (ExtractKeys(O) /\ ExtractValues(O) /\ ExtractErrorEmpty(O))
=============================================================================
