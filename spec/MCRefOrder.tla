----------------------------- MODULE MCRefOrder -----------------------------
(***************************************************************************)
(* C01, "references are sorted so the persisted array is stable": input    *)
(* vectors for composite.UpdateResourceRefs - sets of two or three desired *)
(* composed resources over 2 API groups x 2 kinds x 2 names, so that every *)
(* pair of components ties in some vector (same kind and name in two       *)
(* groups, same group and kind under two names ...).  The function ranges  *)
(* over a Go map: whatever its order of iteration, the persisted reference *)
(* array must be the same (formulas Refs.Stable / Refs.Complete of         *)
(* MonXRCompose.tla).  Added after the seeded change C01-m8 (a sort key    *)
(* that no longer tells API groups apart) was missed.                      *)
(***************************************************************************)
EXTENDS Integers, Sequences, FiniteSets, TLC, Json
VARIABLES v, done
Groups == {"g1.example.org/v1", "g2.example.org/v1"}
Kinds == {"Bucket", "Queue"}
Nms == {"n1", "n2"}
Univ == {[apiVersion |-> g, kind |-> k, name |-> n] : g \in Groups, k \in Kinds, n \in Nms}
Vecs == {S \in SUBSET Univ : Cardinality(S) \in {2, 3}}
SetToSeq(S) == LET RECURSIVE F(_)
                   F(T) == IF T = {} THEN <<>> ELSE LET x == CHOOSE y \in T : TRUE IN <<x>> \o F(T \ {x})
               IN F(S)
Init == v \in Vecs /\ done = FALSE
Next == ~done /\ done' = TRUE /\ UNCHANGED v
Spec == Init /\ [][Next]_<<v, done>>
Emit == PrintT(<<"VEC", ToJson([fam |-> "refs", resources |-> SetToSeq(v)])>>)
\* design sanity: the full key is injective on the universe (no two resources of a vector share apiVersion, kind and name)
KeyInjective == \A a, b \in v : (a.apiVersion = b.apiVersion /\ a.kind = b.kind /\ a.name = b.name) => a = b
=============================================================================
