SPECIFICATION Spec
CONSTANTS
  Mode = "PT"
  Names = {"a", "b"}
  MaxObjs = 4
  MaxRecs = 2
  MaxFaults = 1
  MaxEnv = 1
  ForeignAt = "ref"
  RenderFails = FALSE
  CacheMisses = FALSE
  VerBumps = FALSE
  Forges = FALSE
  Legacies = FALSE
  FailKinds = {}
VIEW view
ACTION_CONSTRAINT Emit
CHECK_DEADLOCK FALSE
INVARIANTS NoLeak AtMostOne StepProps GcExact
PROPERTIES NameStable
