package main

// Family "core": the real apiextensions.Setup on the fake manager, the four controllers it registers, and - through the
// captured definition / offered reconcilers - the XR and claim controllers they start on the engine.

import (
	"fmt"
	"os"
	"reflect"
	"strings"
	"time"

	corev1 "k8s.io/api/core/v1"
	extv1 "k8s.io/apiextensions-apiserver/pkg/apis/apiextensions/v1"
	metav1 "k8s.io/apimachinery/pkg/apis/meta/v1"
	"k8s.io/apimachinery/pkg/apis/meta/v1/unstructured"
	kruntime "k8s.io/apimachinery/pkg/runtime"
	"k8s.io/apimachinery/pkg/runtime/schema"
	"k8s.io/utils/ptr"

	v1 "github.com/crossplane/crossplane/apis/apiextensions/v1"
	"github.com/crossplane/crossplane/apis/apiextensions/v1beta1"
	pkgv1 "github.com/crossplane/crossplane/apis/pkg/v1"
	"github.com/crossplane/crossplane/internal/controller/apiextensions"
	"github.com/crossplane/crossplane/internal/controller/apiextensions/composite"
	"github.com/crossplane/crossplane/zzverif/simapi"
)

const (
	xrdName  = "xthings.ex.org"
	claimCRD = "thingclaims.ex.org"
)

var debug = os.Getenv("VERIF_DEBUG") != ""

var (
	xrGK    = schema.GroupKind{Group: "ex.org", Kind: "XThing"}
	thingGK = schema.GroupKind{Group: "ex.org", Kind: "Thing"}
	coreUniverse = []string{kComp, kRev, kXRD, kCRD, "Usage"}
)

func uobj(kind, ns, name string) *unstructured.Unstructured {
	u := &unstructured.Unstructured{Object: map[string]any{}}
	u.SetAPIVersion("ex.org/v1")
	u.SetKind(kind)
	u.SetName(name)
	if ns != "" {
		u.SetNamespace(ns)
	}
	return u
}

func readyCond() []any {
	return []any{map[string]any{"type": "Ready", "status": "True", "reason": "Available", "lastTransitionTime": "2024-01-01T00:00:00Z"}}
}

func (w *world) putXR(name, comp string, manual bool, refs ...string) *unstructured.Unstructured {
	xr := uobj("XThing", "", name)
	xr.SetLabels(map[string]string{"crossplane.io/composite": name})
	if comp != "" {
		_ = unstructured.SetNestedField(xr.Object, comp, "spec", "compositionRef", "name")
	}
	pol := "Automatic"
	if manual {
		pol = "Manual"
	}
	_ = unstructured.SetNestedField(xr.Object, pol, "spec", "compositionUpdatePolicy")
	rs := []any{}
	for _, r := range refs {
		rs = append(rs, map[string]any{"apiVersion": "ex.org/v1", "kind": "Thing", "name": r})
	}
	if len(rs) > 0 {
		_ = unstructured.SetNestedSlice(xr.Object, rs, "spec", "resourceRefs")
	}
	return w.s.Put(xr)
}

func (w *world) putThing(name, rname string, owner *unstructured.Unstructured) {
	t := uobj("Thing", "", name)
	if rname != "" {
		t.SetAnnotations(map[string]string{"crossplane.io/composition-resource-name": rname})
	}
	if owner != nil {
		t.SetLabels(map[string]string{"crossplane.io/composite": owner.GetName()})
		t.SetOwnerReferences([]metav1.OwnerReference{{APIVersion: "ex.org/v1", Kind: "XThing", Name: owner.GetName(), UID: owner.GetUID(), Controller: ptr.To(true), BlockOwnerDeletion: ptr.To(true)}})
	}
	_ = unstructured.SetNestedField(t.Object, "a", "spec", "param")
	_ = unstructured.SetNestedSlice(t.Object, readyCond(), "status", "conditions")
	w.s.Put(t)
}

func thingBase() kruntime.RawExtension {
	return kruntime.RawExtension{Raw: []byte(`{"apiVersion":"ex.org/v1","kind":"Thing","spec":{"param":"a"}}`)}
}

// seedCore stores what the probes need (see the header of spec/CoreWiring.tla for the same world in TLA+).
func (w *world) seedCore() {
	d := &v1.CompositeResourceDefinition{ObjectMeta: metav1.ObjectMeta{Name: xrdName}}
	d.Spec.Group = "ex.org"
	d.Spec.Names = extv1.CustomResourceDefinitionNames{Kind: "XThing", Plural: "xthings"}
	if w.in.Claim {
		d.Spec.ClaimNames = &extv1.CustomResourceDefinitionNames{Kind: "ThingClaim", Plural: "thingclaims"}
	}
	if w.in.Keys {
		d.Spec.ConnectionSecretKeys = []string{"a"}
	}
	d.Spec.DefaultCompositionRef = &v1.CompositionReference{Name: "c1"}
	d.Spec.Versions = []v1.CompositeResourceDefinitionVersion{{Name: "v1", Served: true, Referenceable: true,
		Schema: &v1.CompositeResourceValidation{OpenAPIV3Schema: kruntime.RawExtension{Raw: []byte(`{"type":"object","properties":{"spec":{"type":"object","properties":{"size":{"type":"string"}}}}}`)}}}}
	w.s.Put(d)

	res := v1.CompositionModeResources
	c1 := &v1.Composition{ObjectMeta: metav1.ObjectMeta{Name: "c1", Labels: map[string]string{"tier": "x"}}}
	c1.Spec.CompositeTypeRef = v1.TypeReference{APIVersion: "ex.org/v1", Kind: "XThing"}
	c1.Spec.Mode = &res
	// the composed resource's connection secret has keys a and b: both are offered to the XR's secret
	c1.Spec.Resources = []v1.ComposedTemplate{{Name: ptr.To("a"), Base: thingBase(), ConnectionDetails: []v1.ConnectionDetail{
		{Name: ptr.To("a"), FromConnectionSecretKey: ptr.To("a")}, {Name: ptr.To("b"), FromConnectionSecretKey: ptr.To("b")}}}}
	w.s.Put(c1)
	pipe := v1.CompositionModePipeline
	c2 := &v1.Composition{ObjectMeta: metav1.ObjectMeta{Name: "c2"}}
	c2.Spec.CompositeTypeRef = v1.TypeReference{APIVersion: "ex.org/v1", Kind: "XThing"}
	c2.Spec.Mode = &pipe
	c2.Spec.Pipeline = []v1.PipelineStep{{Step: "s1", FunctionRef: v1.FunctionReference{Name: "fn1"}}}
	w.s.Put(c2)

	xr1 := w.putXR("xr1", "c1", false, "cd1")
	w.putThing("cd1", "a", xr1)
	w.s.Mutate(simapi.Key{Group: "ex.org", Kind: "XThing", Name: "xr1"}, func(u *unstructured.Unstructured) {
		_ = unstructured.SetNestedMap(u.Object, map[string]any{"name": "xr1-conn", "namespace": "ns1"}, "spec", "writeConnectionSecretToRef")
	})
	w.s.Mutate(thingKey("cd1"), func(u *unstructured.Unstructured) {
		_ = unstructured.SetNestedMap(u.Object, map[string]any{"name": "cd1-conn", "namespace": "ns1"}, "spec", "writeConnectionSecretToRef")
	})
	w.s.Put(&corev1.Secret{ObjectMeta: metav1.ObjectMeta{Name: "cd1-conn", Namespace: "ns1"}, Data: map[string][]byte{"a": []byte("1"), "b": []byte("2")}})
	// two XRs that have to find their composition: by label selector, and through the XRD's default
	sel := uobj("XThing", "", "xr3")
	_ = unstructured.SetNestedMap(sel.Object, map[string]any{"matchLabels": map[string]any{"tier": "x"}}, "spec", "compositionSelector")
	_ = unstructured.SetNestedField(sel.Object, "Automatic", "spec", "compositionUpdatePolicy")
	w.s.Put(sel)
	def := uobj("XThing", "", "xr4")
	_ = unstructured.SetNestedField(def.Object, "Automatic", "spec", "compositionUpdatePolicy")
	w.s.Put(def)
	xr2 := w.putXR("xr2", "c2", false, "cd2")
	w.putThing("cd2", "a", xr2)
	// the XRs the watch handlers of the XR controller choose among
	w.putXR("xr-a", "c9", false, "cd-a", "cd-ab")
	w.putXR("xr-b", "c9", true, "cd-ab")
	w.putXR("xr-c", "c8", false)
	w.putXR("xr-d", "", false)

	w.putThing("cd-used", "", nil)
	u := &v1beta1.Usage{ObjectMeta: metav1.ObjectMeta{Name: "u1"}}
	u.Spec.Of = v1beta1.Resource{APIVersion: "ex.org/v1", Kind: "Thing", ResourceRef: &v1beta1.ResourceRef{Name: "cd-used"}}
	u.Spec.Reason = ptr.To("probe")
	w.s.Put(u)

	if w.in.Claim {
		cm := uobj("ThingClaim", "ns1", "cm1")
		_ = unstructured.SetNestedField(cm.Object, "c1", "spec", "compositionRef", "name")
		w.s.Put(cm)
	}

	w.s.Put(&pkgv1.Function{ObjectMeta: metav1.ObjectMeta{Name: "fn1"}})
	fr := &pkgv1.FunctionRevision{ObjectMeta: metav1.ObjectMeta{Name: "fn1-r1", Labels: map[string]string{pkgv1.LabelParentPackage: "fn1"}}}
	fr.Spec.DesiredState = pkgv1.PackageRevisionActive
	fr.Status.Endpoint = fnTarget
	w.s.Put(fr)
}

func (w *world) worldRecord() map[string]any {
	xrs := []any{}
	for _, u := range w.s.All(xrGK) {
		comp, _, _ := unstructured.NestedString(u.Object, "spec", "compositionRef", "name")
		pol, _, _ := unstructured.NestedString(u.Object, "spec", "compositionUpdatePolicy")
		refs, _, _ := unstructured.NestedSlice(u.Object, "spec", "resourceRefs")
		rn := []any{}
		for _, r := range refs {
			if m, ok := r.(map[string]any); ok {
				rn = append(rn, m["name"])
			}
		}
		if comp == "" {
			comp = "none"
		}
		xrs = append(xrs, map[string]any{"n": u.GetName(), "comp": comp, "manual": pol == "Manual", "refs": rn})
	}
	prs := []any{}
	for _, u := range w.s.All(schema.GroupKind{Group: "pkg.crossplane.io", Kind: kPR}) {
		fam := u.GetLabels()[pkgv1.LabelProviderFamily]
		if fam == "" {
			fam = "none"
		}
		reqs, _, _ := unstructured.NestedSlice(u.Object, "status", "permissionRequests")
		prs = append(prs, map[string]any{"n": u.GetName(), "fam": fam, "reqs": len(reqs) > 0})
	}
	return map[string]any{"xrs": xrs, "prs": prs}
}

// ---------------------------------------------------------------- observations common to every controller

// observe collects what is common to every controller. happy ran before (its phases start with "happy:<id>" or
// "run:<id>"), so recorder / logger / client observations cover it together with the error probes.
func (w *world) observe(c *ctl, universe []string, ns string) map[string]any {
	o := map[string]any{"name": c.name, "conc": c.conc, "recoverPanic": c.recoverP, "chain": strs(c.chain), "core": c.coreType}
	o["lim"] = w.limiterProbe(c)
	o["conflict"] = w.errorProbe(c, "conflict", ns)
	o["plain"] = w.errorProbe(c, "plain", ns)
	o["rl"] = backoff(c)
	kinds, caches, probes := w.watchRecords(c, universe)
	o["kinds"], o["caches"], o["probes"] = kinds, caches, probes
	pre := []string{"happy:" + c.id, "run:" + c.id, "conflict:" + c.id, "plain:" + c.id, "limit:" + c.id}
	o["logctl"] = w.seenLogs(pre...)
	o["evsrc"], o["evann"] = w.seenEvents(pre...)
	o["clients"] = w.clientsOf(pre...)
	o["wclients"] = w.clientsOf("watch:" + c.id)
	hs := []reflect.Value{}
	for _, wt := range c.watches {
		if wt.handler != nil {
			hs = append(hs, reflect.ValueOf(wt.handler))
		}
	}
	o["wheld"], _ = w.held(hs...)
	o["hasPoll"], o["hasRec"], o["hasLog"] = c.hasField("pollInterval"), c.hasField("record"), c.hasField("log")
	o["world"] = w.worldRecord()
	return o
}

// optionsOf projects the Options a definition / offered reconciler keeps for the controllers it starts.
func (w *world) optionsOf(c *ctl) map[string]any {
	o := map[string]any{"has": false, "poll": -1, "conc": -1, "limiter": false, "features": false, "engine": "absent", "fnrunner": false, "ess": false}
	if !c.core.IsValid() {
		return o
	}
	if f, ok := fieldOf(c.core, "engine"); ok {
		switch {
		case f.IsNil():
			o["engine"] = "nil"
		case f.Elem().Kind() == reflect.Ptr && f.Elem().Pointer() == reflect.ValueOf(w.eng).Pointer():
			o["engine"] = "options"
		default:
			o["engine"] = typeOfValue(f)
		}
	}
	opt, ok := fieldOf(c.core, "options")
	if !ok {
		return o
	}
	o["has"] = true
	if f, ok := path(opt, "Options", "PollInterval"); ok {
		o["poll"] = int(time.Duration(f.Int()) / time.Millisecond)
	}
	if f, ok := path(opt, "Options", "MaxConcurrentReconciles"); ok {
		o["conc"] = int(f.Int())
	}
	if f, ok := path(opt, "Options", "GlobalRateLimiter"); ok && !f.IsNil() {
		o["limiter"] = f.Elem().Kind() == reflect.Ptr && f.Elem().Pointer() == reflect.ValueOf(w.lim).Pointer()
	}
	if f, ok := path(opt, "Options", "Features"); ok && !f.IsNil() {
		o["features"] = f.Pointer() == reflect.ValueOf(w.feat).Pointer()
	}
	if f, ok := path(opt, "Options", "ESSOptions"); ok && !f.IsNil() {
		o["ess"] = true
	}
	if f, ok := fieldOf(opt, "FunctionRunner"); ok && !f.IsNil() {
		o["fnrunner"] = f.Pointer() == reflect.ValueOf(w.runner).Pointer()
	}
	return o
}

func (w *world) establish(name string) {
	w.s.Mutate(simapi.Key{Group: "apiextensions.k8s.io", Kind: kCRD, Name: name}, func(u *unstructured.Unstructured) {
		_ = unstructured.SetNestedSlice(u.Object, []any{
			map[string]any{"type": "NamesAccepted", "status": "True", "reason": "NoConflicts", "lastTransitionTime": "2024-01-01T00:00:00Z", "message": ""},
			map[string]any{"type": "Established", "status": "True", "reason": "InitialNamesAccepted", "lastTransitionTime": "2024-01-01T00:00:00Z", "message": ""},
		}, "status", "conditions")
	})
}

// swapEngine puts the capturing engine below a captured definition / offered reconciler.
func (w *world) swapEngine(c *ctl) {
	if !c.core.IsValid() {
		return
	}
	if f, ok := fieldOf(c.core, "engine"); ok && f.Kind() == reflect.Interface && reflect.TypeOf(w.cap).Implements(f.Type()) {
		f.Set(reflect.ValueOf(w.cap))
	}
}

// startDynamic runs the captured XRD controller until it has started its controller on the engine (the API server
// establishes the CRD in between), and returns the started controller.
func (w *world) startDynamic(c *ctl, prefix, crd string) (*ctl, map[string]any) {
	st := map[string]any{"started": false, "name": "none", "rounds": 0, "last": recResult{}.record(), "gc": "absent", "wnames": []any{}}
	w.swapEngine(c)
	w.cap.forgetWatches()
	var last recResult
	for i := 1; i <= 4; i++ {
		last = c.reconcile(w, fmt.Sprintf("happy:%s:%d", c.id, i), "", xrdName)
		st["rounds"] = i
		w.establish(crd)
		if _, ok := w.cap.startOf(prefix); ok {
			break
		}
	}
	st["last"] = last.record()
	s, ok := w.cap.startOf(prefix)
	if !ok {
		return nil, st
	}
	st["started"], st["name"], st["gc"] = true, s.name, gcOf(s)
	wn := map[string]bool{}
	for _, call := range w.cap.watchCalls() {
		wn[call.name] = true
	}
	st["wnames"] = sortedSet(wn)
	d := w.fromEngine(s)
	w.cap.forgetWatches()
	return d, st
}

// ---------------------------------------------------------------- the XR controller

func typesOfChain(root reflect.Value, names ...string) []any {
	f, ok := path(root, names...)
	if !ok {
		return []any{"absent"}
	}
	return chainTypes(f)
}

// xrParts reads the make-up of the composite.Reconciler the definition reconciler built.
func (w *world) xrParts(c *ctl) map[string]any {
	p := map[string]any{"publishers": []any{"absent"}, "pubFilter": []any{}, "configurators": []any{"absent"}, "selectors": []any{"absent"},
		"finalizer": "absent", "fetcher": "absent", "starter": "absent", "starterIsEngine": false, "starterName": "none", "handler": "absent",
		"composers": []any{}, "poll": map[string]any{"min": -1, "max": -1}, "held": []any{}, "tls": []any{}, "kind": "none"}
	if !c.core.IsValid() {
		return p
	}
	p["publishers"] = typesOfChain(c.core, "composite", "ConnectionPublisher")
	p["configurators"] = typesOfChain(c.core, "composite", "Configurator")
	p["selectors"] = typesOfChain(c.core, "composite", "CompositionSelector")
	if f, ok := path(c.core, "composite", "Finalizer"); ok {
		p["finalizer"] = typeOfValue(f)
	}
	if f, ok := path(c.core, "revision", "CompositionRevisionFetcher"); ok {
		p["fetcher"] = typeOfValue(f)
	}
	if f, ok := fieldOf(c.core, "gvk"); ok {
		p["kind"] = f.Interface().(schema.GroupVersionKind).Kind
	}
	// the keys the first publisher lets through
	if f, ok := path(c.core, "composite", "ConnectionPublisher"); ok && !f.IsNil() && f.Elem().Kind() == reflect.Slice && f.Elem().Len() > 0 {
		if fl, ok := path(launder(f.Elem().Index(0)), "filter"); ok && fl.Kind() == reflect.Slice {
			ks := []any{}
			for i := 0; i < fl.Len(); i++ {
				ks = append(ks, fl.Index(i).String())
			}
			p["pubFilter"] = ks
		}
	}
	if f, ok := fieldOf(c.core, "engine"); ok {
		p["starter"] = typeOfValue(f)
		p["starterIsEngine"] = !f.IsNil() && f.Elem().Kind() == reflect.Ptr && f.Elem().Pointer() == reflect.ValueOf(w.cap).Pointer()
	}
	if f, ok := fieldOf(c.core, "controllerName"); ok && f.String() != "" {
		p["starterName"] = f.String()
	}
	if f, ok := fieldOf(c.core, "watchHandler"); ok {
		p["handler"] = typeOfValue(f)
	}
	// the poll interval hook, asked 200 times (it jitters)
	if f, ok := fieldOf(c.core, "pollInterval"); ok && !f.IsNil() {
		if h, ok := f.Interface().(composite.PollIntervalHook); ok {
			lo, hi := time.Duration(1<<62), time.Duration(0)
			for i := 0; i < 200; i++ {
				d := h(nil, nil) //nolint:staticcheck // the production hook ignores both arguments
				if d < lo {
					lo = d
				}
				if d > hi {
					hi = d
				}
			}
			p["poll"] = map[string]any{"min": int(lo / time.Millisecond), "max": int(hi / time.Millisecond)}
		}
	}
	// the composer chosen per composition mode (the selector is a function: it is asked)
	comps := []any{}
	roots := []reflect.Value{c.core.Addr()}
	if f, ok := fieldOf(c.core, "resource"); ok && !f.IsNil() {
		if sel, ok := f.Interface().(composite.ComposerSelectorFn); ok {
			for _, m := range []string{"default", "Resources", "Pipeline", "Unknown"} {
				var mode *v1.CompositionMode
				if m != "default" {
					mode = ptr.To(v1.CompositionMode(m))
				}
				cmp := sel(mode)
				row := map[string]any{"mode": m, "type": typeName(cmp), "fetcher": []any{"absent"}, "observer": "absent", "obsFetcher": []any{"absent"}, "runner": "absent", "extra": "absent", "held": []any{}}
				cv := reflect.ValueOf(cmp)
				row["held"], _ = w.held(cv)
				switch cmp.(type) {
				case *composite.PTComposer:
					row["fetcher"] = typesOfChain(cv, "composed", "ConnectionDetailsFetcher")
				case *composite.FunctionComposer:
					row["fetcher"] = typesOfChain(cv, "composite", "ConnectionDetailsFetcher")
					if of, ok := path(cv, "composite", "ComposedResourceObserver"); ok {
						row["observer"] = typeOfValue(of)
						row["obsFetcher"] = typesOfChain(of, "details")
					}
					if rf, ok := path(cv, "pipeline"); ok {
						row["runner"] = typeOfValue(rf)
						if ef, ok := path(rf, "resources"); ok {
							row["extra"] = typeOfValue(ef)
						}
					}
				}
				comps = append(comps, row)
				roots = append(roots, cv)
			}
		} else {
			comps = append(comps, map[string]any{"mode": "any", "type": typeOfValue(f), "fetcher": []any{"absent"}, "observer": "absent", "obsFetcher": []any{"absent"}, "runner": "absent", "extra": "absent", "held": []any{}})
		}
	}
	p["composers"] = comps
	p["held"], p["tls"] = w.held(roots...)
	return p
}

type runSpec struct{ id, xr, kind string }

// xrRuns reconciles xr1 (Resources mode) and xr2 (Pipeline mode) with the production stack, each once with the
// composed resource in the informer cache and once without (only a read through the live client finds it then).
func (w *world) xrRuns(c *ctl) []any {
	out := []any{}
	for _, r := range []struct {
		id, xr string
		miss   bool
	}{{"pt", "xr1", false}, {"pt-miss", "xr1", true}, {"fn", "xr2", false}, {"fn-miss", "xr2", true}, {"pt-select", "xr3", false}, {"pt-default", "xr4", false}} {
		phase := "run:xr:" + r.id
		w.setMiss("Thing", r.miss)
		w.mu.Lock()
		w.fnCalls = 0
		w.mu.Unlock()
		w.cap.forgetWatches()
		res := c.reconcile(w, phase, "", r.xr)
		w.setMiss("Thing", false)
		dyn, dynNames := map[string]bool{}, map[string]bool{}
		for _, call := range w.cap.watchCalls() {
			dynNames[call.name] = true
			for i := range call.ws {
				wt := engineWatch(&call.ws[i])
				dyn[wt.kind+"/"+wt.wt+"/"+typeName(wt.handler)] = true
				// the composed-resource watches a reconcile started (realtime compositions) take part in the watch probes
				dup := false
				for _, have := range c.watches {
					dup = dup || (have.kind == wt.kind && have.wt == wt.wt)
				}
				if !dup {
					c.watches = append(c.watches, wt)
				}
			}
		}
		w.mu.Lock()
		fn := w.fnCalls
		w.mu.Unlock()
		synced, ready, ref := "absent", "absent", "none"
		if u := w.s.Peek(simapi.Key{Group: "ex.org", Kind: "XThing", Name: r.xr}); u != nil {
			synced, ready = condOf(u, "Synced"), condOf(u, "Ready")
			if n, ok, _ := unstructured.NestedString(u.Object, "spec", "compositionRef", "name"); ok && n != "" {
				ref = n
			}
			if debug {
				fmt.Fprintf(os.Stderr, "run %s: %v\n", r.id, u.Object["status"])
			}
		}
		out = append(out, map[string]any{"id": r.id, "miss": r.miss, "result": res.record(), "calls": w.callRows(phase), "reads": w.readsOf(phase, "Thing"),
			"dyn": sortedSet(dyn), "dynNames": sortedSet(dynNames), "fn": fn, "synced": synced, "ready": ready, "ref": ref, "secretKeys": w.secretKeys("ns1", r.xr+"-conn")})
	}
	return out
}

// secretKeys lists the keys of a stored Secret ("absent" if there is none).
func (w *world) secretKeys(ns, name string) []any {
	u := w.s.Peek(simapi.Key{Kind: "Secret", Namespace: ns, Name: name})
	if u == nil {
		return []any{"absent"}
	}
	data, _, _ := unstructured.NestedMap(u.Object, "data")
	ks := map[string]bool{}
	for k := range data {
		ks[k] = true
	}
	return sortedSet(ks)
}

func condOf(u *unstructured.Unstructured, typ string) string {
	conds, _, _ := unstructured.NestedSlice(u.Object, "status", "conditions")
	for _, c := range conds {
		if m, _ := c.(map[string]any); m["type"] == typ {
			return fmt.Sprintf("%v:%v", m["status"], m["reason"])
		}
	}
	return "unset"
}

// xrRecord: everything about the XR controller the definition reconciler started.
func (w *world) xrRecord(def *ctl) map[string]any {
	xr, st := w.startDynamic(def, "composite/", xrdName)
	o := map[string]any{"start": st, "defcalls": w.callRows("happy:definition:1"), "defcalls2": w.callRows("happy:definition:2"), "ran": xr != nil, "parent": def.name}
	if u := w.s.Peek(simapi.Key{Group: "apiextensions.crossplane.io", Kind: kXRD, Name: xrdName}); u != nil {
		o["xrdCond"] = condOf(u, "Established")
	} else {
		o["xrdCond"] = "absent"
	}
	if xr == nil {
		return o
	}
	o["id"] = xr.id
	o["parts"] = w.xrParts(xr)
	o["runs"] = w.xrRuns(xr)
	for k, v := range w.observe(xr, []string{"XThing", kRev, "Thing"}, "") {
		o[k] = v
	}
	idx := []any{}
	w.mu.Lock()
	for _, i := range w.indexes {
		if strings.HasPrefix(i, "engine:") || strings.Contains(i, "compositeResourcesRefs") {
			idx = append(idx, i)
		}
	}
	w.mu.Unlock()
	o["index"] = idx
	return o
}

// ---------------------------------------------------------------- the claim controller

func (w *world) claimParts(c *ctl) map[string]any {
	p := map[string]any{"syncer": "absent", "upgrader": "absent", "propagator": []any{"absent"}, "unpublisher": "absent", "finalizer": "absent",
		"poll": -1, "claimKind": "none", "xrKind": "none", "held": []any{}, "tls": []any{}}
	if !c.core.IsValid() {
		return p
	}
	if f, ok := path(c.core, "composite", "CompositeSyncer"); ok {
		p["syncer"] = typeOfValue(f)
	}
	if f, ok := fieldOf(c.core, "managedFields"); ok {
		p["upgrader"] = typeOfValue(f)
	}
	p["propagator"] = typesOfChain(c.core, "composite", "ConnectionPropagator")
	if f, ok := path(c.core, "claim", "ConnectionUnpublisher"); ok {
		p["unpublisher"] = typeOfValue(f)
	}
	if f, ok := path(c.core, "claim", "Finalizer"); ok {
		p["finalizer"] = typeOfValue(f)
	}
	p["poll"] = c.durationField("pollInterval")
	if f, ok := fieldOf(c.core, "gvkClaim"); ok {
		p["claimKind"] = f.Interface().(schema.GroupVersionKind).Kind
	}
	if f, ok := fieldOf(c.core, "gvkXR"); ok {
		p["xrKind"] = f.Interface().(schema.GroupVersionKind).Kind
	}
	p["held"], p["tls"] = w.held(c.core.Addr())
	return p
}

func (w *world) claimRecord(off *ctl) map[string]any {
	if !w.in.Claim {
		// the XRD offers no claim: the offered controller's watch predicate keeps it away. Asked all the same (once), it
		// must not start anything
		w.swapEngine(off)
		r := off.reconcile(w, "happy:offered:1", "", xrdName)
		_, started := w.cap.startOf("claim/")
		return map[string]any{"ran": false, "parent": off.name, "start": map[string]any{"started": started, "name": "none", "rounds": 1, "last": r.record(), "gc": "absent", "wnames": []any{}}}
	}
	cl, st := w.startDynamic(off, "claim/", claimCRD)
	o := map[string]any{"start": st, "offcalls": w.callRows("happy:offered:1"), "offcalls2": w.callRows("happy:offered:2"), "ran": cl != nil, "parent": off.name}
	if cl == nil {
		return o
	}
	o["id"] = cl.id
	o["parts"] = w.claimParts(cl)
	runs := []any{}
	for i := 1; i <= 2; i++ {
		phase := fmt.Sprintf("run:claim:%d", i)
		res := cl.reconcile(w, phase, "ns1", "cm1")
		ref := "none"
		if u := w.s.Peek(simapi.Key{Group: "ex.org", Kind: "ThingClaim", Namespace: "ns1", Name: "cm1"}); u != nil {
			if n, ok, _ := unstructured.NestedString(u.Object, "spec", "resourceRef", "name"); ok && n != "" {
				ref = "set"
			}
		}
		runs = append(runs, map[string]any{"id": i, "result": res.record(), "calls": w.callRows(phase), "ref": ref})
	}
	o["runs"] = runs
	for k, v := range w.observe(cl, []string{"ThingClaim", "XThing"}, "ns1") {
		o[k] = v
	}
	return o
}

// ---------------------------------------------------------------- the family

func (w *world) happyStatic(c *ctl) map[string]any {
	var r recResult
	switch c.id {
	case "composition":
		r = c.reconcile(w, "happy:composition:c1", "", "c1")
		_ = c.reconcile(w, "happy:composition:c2", "", "c2")
	case "usage":
		r = c.reconcile(w, "happy:usage", "", "u1")
	default:
		return map[string]any{"res": "skipped", "requeue": false, "after": 0, "msg": ""}
	}
	return r.record()
}

func runCore(in vec) []map[string]any {
	w := newWorld(in)
	w.runner = theRunner
	setCurrent(w)
	w.cap = newCapEngine(w, w.eng)
	w.seedCore()
	w.at("setup")
	if msg := guard(func() {
		if err := apiextensions.Setup(w.mgr, w.apiextOptions()); err != nil {
			w.setupErr = "error: " + err.Error()
		}
	}); msg != "" {
		w.setupErr = "panic: " + msg
	}
	w.at("env")
	names, ids := []any{}, []any{}
	byID := map[string]*ctl{}
	for _, r := range w.mgr.runnables() {
		c := w.capture(r)
		w.ctls = append(w.ctls, c)
		names, ids = append(names, c.name), append(ids, c.id)
		if _, dup := byID[c.id]; !dup {
			byID[c.id] = c
		}
	}
	recs := []map[string]any{{"t": "setup", "ctl": "none", "o": map[string]any{"err": w.setupErr, "names": names, "ids": ids, "indexes": strs(w.indexesNow())}}}

	// the composition controller first: its revisions are what the XRs compose from
	order := []string{"composition", "usage", "definition", "offered"}
	rows := []any{}
	for _, id := range order {
		c, ok := byID[id]
		if !ok {
			continue
		}
		o := map[string]any{}
		switch id {
		case "definition":
			o["opts"] = w.optionsOf(c)
			o["happy"] = map[string]any{"res": "dynamic", "requeue": false, "after": 0, "msg": ""}
			xo := w.xrRecord(c)
			recs = append(recs, map[string]any{"t": "dyn", "ctl": "xr", "o": xo})
			if xo["ran"] == true {
				rows = append(rows, uniformRow("xr", xo))
			}
		case "offered":
			o["opts"] = w.optionsOf(c)
			o["happy"] = map[string]any{"res": "dynamic", "requeue": false, "after": 0, "msg": ""}
			co := w.claimRecord(c)
			recs = append(recs, map[string]any{"t": "dyn", "ctl": "claim", "o": co})
			if co["ran"] == true {
				rows = append(rows, uniformRow("claim", co))
			}
		default:
			o["opts"] = map[string]any{"has": false, "poll": -1, "conc": -1, "limiter": false, "features": false, "engine": "absent", "fnrunner": false, "ess": false}
			o["happy"] = w.happyStatic(c)
		}
		for k, v := range w.observe(c, coreUniverse, "") {
			o[k] = v
		}
		o["held"] = []any{}
		if c.core.IsValid() {
			own := []reflect.Value{}
			for i := 0; i < c.core.NumField(); i++ {
				// (the engine and the options kept for the controllers an XRD controller starts are not its own clients)
				if n := c.core.Type().Field(i).Name; n != "engine" && n != "options" {
					own = append(own, launder(c.core.Field(i)))
				}
			}
			o["held"], _ = w.held(own...)
		}
		o["extra"] = map[string]any{}
		o["pollField"] = c.durationField("pollInterval")
		recs = append(recs, map[string]any{"t": "ctl", "ctl": id, "o": o})
		rows = append(rows, uniformRow(id, o))
	}
	for _, c := range w.ctls {
		if c.id == "unknown" || byID[c.id] != c {
			recs = append(recs, map[string]any{"t": "stray", "ctl": c.id, "o": map[string]any{"name": c.name, "chain": strs(c.chain)}})
		}
	}
	recs = append(recs, w.hookRecords()...)
	recs = append(recs, map[string]any{"t": "uniform", "ctl": "none", "o": map[string]any{"rows": rows}})
	return recs
}

func (w *world) indexesNow() []string {
	w.mu.Lock()
	defer w.mu.Unlock()
	return append([]string(nil), w.indexes...)
}

// uniformRow is the projection of one controller's observations that the uniformity formulas compare side by side.
func uniformRow(id string, o map[string]any) map[string]any {
	row := map[string]any{"ctl": id}
	for _, k := range []string{"name", "lim", "conflict", "plain", "hasPoll", "hasRec", "hasLog", "evsrc", "logctl", "conc", "rl"} {
		row[k] = o[k]
	}
	poll := -1
	if v, ok := o["pollField"].(int); ok {
		poll = v
	}
	if p, ok := o["parts"].(map[string]any); ok {
		switch pv := p["poll"].(type) {
		case int:
			poll = pv
		case map[string]any:
			poll = (pv["min"].(int) + pv["max"].(int)) / 2
		}
	}
	row["poll"] = poll
	return row
}
