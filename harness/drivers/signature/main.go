// Driver for spec/Signature.tla (X09): replays TLC behaviours against the REAL image signature
// verification controller (internal/controller/pkg/signature) and the REAL package revision
// reconciler (internal/controller/pkg/revision, feature EnableAlphaSignatureVerification)
// running in one world on simapi, with the real ImageConfig store (internal/xpkg/config.go).
// The revision reconciler is wired as in harness/drivers/pkglifecycle: real ImageBackend,
// parser, Provider linter, PackageDependencyManager (the Lock), APIFinalizer; recording fakes for
// registry, package cache, Establisher, runtime hooks.  The seam of the verification controller
// is its Validator: a recording fake that accepts an image iff the world says the selected
// config's authorities accept it.  ImageConfig events are handed to the real watch handler
// (enqueuePackageRevisionsForImageConfig, reached through a build-time overlay: see enqueue.go).
// A second mode (-vectors) evaluates the real selection (both list orders) and the real watch
// handler on enumerated inputs.
// One trace event per API call / seam call / environment step / watch event / reconcile end,
// each with the projected abstract state.  No property logic here: the verdict comes from
// spec/MonSignature.tla.
package main

import (
	"archive/tar"
	"bytes"
	"context"
	"crypto/sha256"
	"encoding/json"
	"errors"
	"flag"
	"fmt"
	"io"
	"os"
	"regexp"
	"sort"
	"strings"
	"sync"
	"time"

	"github.com/google/go-containerregistry/pkg/name"
	ggcr "github.com/google/go-containerregistry/pkg/v1"
	"github.com/google/go-containerregistry/pkg/v1/empty"
	"github.com/google/go-containerregistry/pkg/v1/mutate"
	"github.com/google/go-containerregistry/pkg/v1/tarball"
	corev1 "k8s.io/api/core/v1"
	extv1 "k8s.io/apiextensions-apiserver/pkg/apis/apiextensions/v1"
	kerrors "k8s.io/apimachinery/pkg/api/errors"
	metav1 "k8s.io/apimachinery/pkg/apis/meta/v1"
	"k8s.io/apimachinery/pkg/apis/meta/v1/unstructured"
	kruntime "k8s.io/apimachinery/pkg/runtime"
	"k8s.io/apimachinery/pkg/runtime/schema"
	"k8s.io/apimachinery/pkg/types"
	"k8s.io/utils/ptr"
	"sigs.k8s.io/controller-runtime/pkg/client"
	"sigs.k8s.io/controller-runtime/pkg/reconcile"

	xpv1 "github.com/crossplane/crossplane-runtime/apis/common/v1"
	xperrors "github.com/crossplane/crossplane-runtime/pkg/errors"
	"github.com/crossplane/crossplane-runtime/pkg/event"
	"github.com/crossplane/crossplane-runtime/pkg/feature"
	"github.com/crossplane/crossplane-runtime/pkg/parser"

	pkgmetav1 "github.com/crossplane/crossplane/apis/pkg/meta/v1"
	pkgv1 "github.com/crossplane/crossplane/apis/pkg/v1"
	pkgv1alpha1 "github.com/crossplane/crossplane/apis/pkg/v1alpha1"
	pkgv1beta1 "github.com/crossplane/crossplane/apis/pkg/v1beta1"
	"github.com/crossplane/crossplane/internal/controller/pkg/revision"
	"github.com/crossplane/crossplane/internal/controller/pkg/signature"
	"github.com/crossplane/crossplane/internal/dag"
	"github.com/crossplane/crossplane/internal/features"
	"github.com/crossplane/crossplane/internal/version"
	"github.com/crossplane/crossplane/internal/xpkg"
	"github.com/crossplane/crossplane/zzverif/fakes"
	"github.com/crossplane/crossplane/zzverif/replay"
	"github.com/crossplane/crossplane/zzverif/scen"
	"github.com/crossplane/crossplane/zzverif/simapi"
	"github.com/crossplane/crossplane/zzverif/trace"
)

const (
	pkgName     = "pkg"
	namespace   = "crossplane-system"
	xpSA        = "crossplane"
	registry    = "xpkg.upbound.io"
	ourFin      = "revision.pkg.crossplane.io"
	pausedAnn   = "crossplane.io/paused"
	touchAnn    = "example.org/touched"
	metaName    = "provider-x"
	digestHex   = "1000000000000000000000000000000000000000000000000000000000000000"
	validateErr = "no matching signatures"
)

var (
	lockKey = simapi.Key{Group: "pkg.crossplane.io", Kind: "Lock", Name: "lock"}
	icGK    = schema.GroupKind{Group: "pkg.crossplane.io", Kind: "ImageConfig"}
	revGK   = schema.GroupKind{Group: "pkg.crossplane.io", Kind: "ProviderRevision"}

	metaScheme, objScheme *kruntime.Scheme
)

// the images: i1 the package, i2 the same digest in another registry, i3 a reference that does not parse (upper case
// repository), i4 a look-alike repository (vector part)
var images = map[string]string{"i1": "r.io/o/p:v1", "i2": "q.io/o/p:v1", "i3": "r.io/o/P:v1", "i4": "r.io/o/p2:v1"}

func imgTok(s string) string {
	for k, v := range images {
		if v == s {
			return k
		}
	}
	if s == "" {
		return "none"
	}
	return "other:" + s
}

// the ImageConfigs: prefixes, pull secret ("" = none); whether a config has a verification section (and whether that
// has a cosign block) is part of the world's state (vst)
type icAttr struct {
	prefixes []string
	secret   string
}

var icTable = map[string]icAttr{
	"pb": {[]string{"r.io/o/p:v1"}, "sp"},     // the longest prefix of all, registry authentication only
	"va": {[]string{"r.io/"}, ""},             // short
	"vb": {[]string{"r.io/o/p"}, "sb"},        // longer, verification and registry authentication in one config
	"vc": {[]string{"r.io/o/p"}, ""},          // a tie with vb
	"vn": {[]string{"r.io/o/p:v"}, ""},        // longer still (its verification section has no cosign block)
	"vq": {[]string{"zzz", "q.io/"}, ""},      // several prefixes, the second one matches i2
	"ve": {[]string{""}, ""},                  // the empty prefix (vector part)
	"vm": {[]string{"r.io/o/p:v1", "r.io/"}, ""}, // two matching prefixes of different length (vector part)
}

func init() {
	metaScheme, _ = xpkg.BuildMetaScheme()
	objScheme, _ = xpkg.BuildObjectScheme()
}

func revName(alias string) string {
	if alias == "r1" {
		return xpkg.FriendlyID(pkgName, digestHex)
	}
	return xpkg.FriendlyID(pkgName+"-"+alias, digestHex)
}
func aliasOfName(n string) string {
	for _, a := range []string{"r1", "r2"} {
		if revName(a) == n {
			return a
		}
	}
	if n == "" {
		return "none"
	}
	return "other:" + n
}
func revKey(alias string) simapi.Key {
	return simapi.Key{Group: "pkg.crossplane.io", Kind: "ProviderRevision", Name: revName(alias)}
}
func icKey(n string) simapi.Key {
	return simapi.Key{Group: "pkg.crossplane.io", Kind: "ImageConfig", Name: n}
}

// ---------------------------------------------------------------- package content

func packageStream() []byte {
	var b strings.Builder
	b.WriteString("apiVersion: meta.pkg.crossplane.io/v1\nkind: Provider\nmetadata:\n  name: " + metaName + "\nspec:\n")
	b.WriteString("  controller:\n    image: r.io/o/p-runtime:v1\n")
	crd := &extv1.CustomResourceDefinition{TypeMeta: metav1.TypeMeta{APIVersion: "apiextensions.k8s.io/v1", Kind: "CustomResourceDefinition"},
		ObjectMeta: metav1.ObjectMeta{Name: "things.example.org"},
		Spec: extv1.CustomResourceDefinitionSpec{Group: "example.org", Scope: extv1.ClusterScoped,
			Names: extv1.CustomResourceDefinitionNames{Plural: "things", Singular: "thing", Kind: "Thing", ListKind: "ThingList"},
			Versions: []extv1.CustomResourceDefinitionVersion{{Name: "v1", Served: true, Storage: true,
				Schema: &extv1.CustomResourceValidation{OpenAPIV3Schema: &extv1.JSONSchemaProps{Type: "object"}}}}}}
	j, _ := json.Marshal(crd)
	b.WriteString("---\n")
	b.Write(j)
	b.WriteString("\n")
	return []byte(b.String())
}

var theImage ggcr.Image

func image() ggcr.Image {
	if theImage != nil {
		return theImage
	}
	data := packageStream()
	var buf bytes.Buffer
	tw := tar.NewWriter(&buf)
	_ = tw.WriteHeader(&tar.Header{Name: xpkg.StreamFile, Mode: int64(xpkg.StreamFileMode), Size: int64(len(data))})
	_, _ = tw.Write(data)
	_ = tw.Close()
	b := buf.Bytes()
	l, err := tarball.LayerFromOpener(func() (io.ReadCloser, error) { return io.NopCloser(bytes.NewReader(b)), nil })
	if err != nil {
		panic(err)
	}
	im, err := mutate.Append(empty.Image, mutate.Addendum{Layer: l, Annotations: map[string]string{"io.crossplane.xpkg": "base"}})
	if err != nil {
		panic(err)
	}
	theImage = im
	return im
}

// ---------------------------------------------------------------- the world

type world struct {
	s        *simapi.Server
	sch      *kruntime.Scheme
	scl, rcl *simapi.Client // the clients of the verification controller / of the revision controller
	ecl      *simapi.Client // the client of the watch handler
	sig, rev reconcile.Reconciler
	enq      enqueuer
	scenID   string
	buf      []map[string]any
	feat     bool
	reverse  bool            // list order of the cached client
	vst      map[string]string // config -> verification section: none | cosign | nocosign
	okby     map[string]bool   // configs whose authorities accept the image

	mu    sync.Mutex
	cache map[string][]byte
	ctl   string
	owns  map[string]bool

	al    *replay.Aligner
	recNo int
	actor string // "sig" | "rev" | "" (between reconciles)

	// per reconcile
	seen       map[string]any
	vconfigs   []any // the ImageConfigs as the first List of this reconcile returned them
	configs    []any // ... as the latest List returned them
	nlists     int
	stages     []any
	fails      []any
	pre        map[string]any // who controlled the objects / was in the Lock when this reconcile started
	val        map[string]any // what the validator was asked and answered in this reconcile
	nwrites    int            // accepted writes of this reconcile that changed something
	pendingAbs string

	lastClean map[string]string
	contents  map[string]string
	chg       map[string]int
	envSeq    int
	woken     int // watch events that enqueued r1 for the verification controller
	lastWatch map[string]string
	again     map[string]bool
	retrying  map[string]bool // the controller's last reconcile ended with an error / a requeue: the work queue retries it
	touched   int
	moved     int
	verbose   bool
	settling  bool
	mute      bool // the upgrade epilogue: only its outcome is recorded
}

func orNone(s string) string {
	if s == "" {
		return "none"
	}
	return s
}

func (w *world) client() *simapi.Client {
	if w.actor == "rev" {
		return w.rcl
	}
	return w.scl
}

// orderClient is the cached client as the ImageConfig store sees it: the order of a List is not specified.
type orderClient struct {
	*simapi.Client
	w *world
}

func (o *orderClient) List(ctx context.Context, list client.ObjectList, opts ...client.ListOption) error {
	err := o.Client.List(ctx, list, opts...)
	if l, ok := list.(*pkgv1beta1.ImageConfigList); ok && err == nil && o.w.reverse {
		for i, j := 0, len(l.Items)-1; i < j; i, j = i+1, j-1 {
			l.Items[i], l.Items[j] = l.Items[j], l.Items[i]
		}
	}
	return err
}

// ---------------------------------------------------------------- projection

func short(b []byte) string { return fmt.Sprintf("%x", sha256.Sum256(b))[:10] }

func chars(s string) []any {
	out := make([]any, 0, len(s))
	for _, c := range s {
		out = append(out, string(c))
	}
	return out
}

func anyList(ss []string) []any {
	out := []any{}
	for _, s := range ss {
		out = append(out, s)
	}
	return out
}

func secNames(u *unstructured.Unstructured) []any {
	out := []any{}
	l, _, _ := unstructured.NestedSlice(u.Object, "spec", "packagePullSecrets")
	for _, e := range l {
		if m, ok := e.(map[string]any); ok {
			n, _ := m["name"].(string)
			out = append(out, n)
		}
	}
	return out
}

var byRe = regexp.MustCompile(`ImageConfig named "([^"]*)"`)

func noVer() map[string]any {
	return map[string]any{"st": "none", "status": "none", "by": "none", "step": "none", "err": false}
}

// verdict projects the Verified condition.
func verdict(c map[string]any) map[string]any {
	v := noVer()
	msg, _ := c["message"].(string)
	v["status"] = fmt.Sprint(c["status"])
	switch c["reason"] {
	case string(pkgv1.ReasonVerificationSkipped):
		v["st"] = "Skipped"
	case string(pkgv1.ReasonVerificationSucceeded):
		v["st"] = "Succeeded"
	case string(pkgv1.ReasonVerificationFailed):
		v["st"] = "Failed"
	case string(pkgv1.ReasonVerificationIncomplete):
		v["st"] = "Incomplete"
	default:
		v["st"] = "other:" + fmt.Sprint(c["reason"])
	}
	if m := byRe.FindStringSubmatch(msg); m != nil {
		v["by"] = orNone(m[1])
	}
	switch {
	case strings.Contains(msg, "cannot get image verification config"):
		v["step"] = "config"
	case strings.Contains(msg, "cannot parse package image reference"):
		v["step"] = "parse"
	case strings.Contains(msg, "cannot get image config pull secret"):
		v["step"] = "pullsecret"
	case strings.Contains(msg, "cannot get package revision"):
		v["step"] = "get"
	}
	v["err"] = strings.Contains(msg, validateErr)
	return v
}

func noRev(alias string) map[string]any {
	return map[string]any{"name": alias, "ex": false, "del": false, "paused": false, "pcond": false, "fin": false, "des": "none", "img": "none", "imgc": []any{},
		"secs": []any{}, "ver": noVer(), "healthy": "none", "synced": "none", "nconds": 0, "refs": 0, "spec": "", "meta": "", "oconds": "", "ostatus": ""}
}

func revProj(alias string, u *unstructured.Unstructured) map[string]any {
	m := noRev(alias)
	if u == nil {
		return m
	}
	m["ex"] = true
	m["del"] = u.GetDeletionTimestamp() != nil
	m["paused"] = u.GetAnnotations()[pausedAnn] == "true"
	for _, f := range u.GetFinalizers() {
		if f == ourFin {
			m["fin"] = true
		}
	}
	if v, ok, _ := unstructured.NestedString(u.Object, "spec", "desiredState"); ok {
		m["des"] = orNone(v)
	}
	src, _, _ := unstructured.NestedString(u.Object, "spec", "image")
	m["img"] = imgTok(src)
	m["imgc"] = chars(src)
	m["secs"] = secNames(u)
	refs, _, _ := unstructured.NestedSlice(u.Object, "status", "objectRefs")
	m["refs"] = len(refs)
	cs, _, _ := unstructured.NestedSlice(u.Object, "status", "conditions")
	m["nconds"] = len(cs)
	others := []any{}
	for _, c := range cs {
		cm, _ := c.(map[string]any)
		v := fmt.Sprintf("%v:%v", cm["status"], cm["reason"])
		switch cm["type"] {
		case "Verified":
			m["ver"] = verdict(cm)
			continue
		case "Synced":
			m["synced"] = v
		case "Healthy":
			m["healthy"] = v
		}
		others = append(others, map[string]any{"type": cm["type"], "status": cm["status"], "reason": cm["reason"], "message": cm["message"]})
	}
	m["pcond"] = m["synced"] == "False:ReconcilePaused"
	spec, _, _ := unstructured.NestedMap(u.Object, "spec")
	b, _ := json.Marshal(spec)
	m["spec"] = short(b)
	b, _ = json.Marshal(map[string]any{"ann": u.GetAnnotations(), "lab": u.GetLabels(), "fin": u.GetFinalizers(), "own": u.GetOwnerReferences(),
		"del": u.GetDeletionTimestamp() != nil})
	m["meta"] = short(b)
	b, _ = json.Marshal(others)
	m["oconds"] = short(b)
	st, _, _ := unstructured.NestedMap(u.Object, "status")
	delete(st, "conditions")
	b, _ = json.Marshal(st)
	m["ostatus"] = short(b)
	return m
}

// icProj projects an ImageConfig: its prefixes (as sequences of characters), verification section, pull secret.
func icProj(u *unstructured.Unstructured) map[string]any {
	ic := &pkgv1beta1.ImageConfig{}
	_ = kruntime.DefaultUnstructuredConverter.FromUnstructured(u.Object, ic)
	return icProjOf(ic)
}

func icProjOf(ic *pkgv1beta1.ImageConfig) map[string]any {
	ps := []any{}
	for _, m := range ic.Spec.MatchImages {
		ps = append(ps, chars(m.Prefix))
	}
	sec := "none"
	if ic.Spec.Registry != nil && ic.Spec.Registry.Authentication != nil && ic.Spec.Registry.Authentication.PullSecretRef.Name != "" {
		sec = ic.Spec.Registry.Authentication.PullSecretRef.Name
	}
	ver := "none"
	if ic.Spec.Verification != nil {
		ver = "nocosign"
		if ic.Spec.Verification.Cosign != nil {
			ver = "cosign"
		}
	}
	return map[string]any{"name": ic.Name, "prefixes": ps, "ver": ver, "secret": sec}
}

func (w *world) listedICs() []any {
	out := []any{}
	for _, u := range w.s.All(icGK) {
		out = append(out, icProj(u))
	}
	if w.reverse {
		for i, j := 0, len(out)-1; i < j; i, j = i+1, j-1 {
			out[i], out[j] = out[j], out[i]
		}
	}
	return out
}

func (w *world) okList() []any {
	ks := []string{}
	for k, v := range w.okby {
		if v {
			ks = append(ks, k)
		}
	}
	sort.Strings(ks)
	return anyList(ks)
}

func (w *world) post() map[string]any {
	var rv map[string]any
	lock := []any{}
	ics := []any{}
	w.s.Read(func(keys []simapi.Key, all map[simapi.Key]*unstructured.Unstructured) {
		rv = revProj("r1", all[revKey("r1")])
		for _, k := range keys {
			if k.Kind == "ImageConfig" {
				ics = append(ics, icProj(all[k]))
			}
		}
		if l := all[lockKey]; l != nil {
			ps, _, _ := unstructured.NestedSlice(l.Object, "packages")
			for _, e := range ps {
				if m, ok := e.(map[string]any); ok {
					n, _ := m["name"].(string)
					lock = append(lock, aliasOfName(n))
				}
			}
		}
	})
	w.mu.Lock()
	cache := []any{}
	if _, ok := w.cache[revName("r1")]; ok {
		cache = append(cache, "r1")
	}
	owns := []any{}
	if w.owns["r1"] {
		owns = append(owns, "r1")
	}
	ctl := orNone(w.ctl)
	w.mu.Unlock()
	return map[string]any{"rev": rv, "ics": ics, "okby": w.okList(), "lock": lock, "ctl": ctl, "owns": owns, "cache": cache, "digest": w.rvDigest()}
}

func noSeen() map[string]any {
	m := noRev("r1")
	m["got"] = false
	delete(m, "spec")
	delete(m, "meta")
	delete(m, "oconds")
	delete(m, "ostatus")
	delete(m, "name")
	return m
}

func seenFrom(u *unstructured.Unstructured) map[string]any {
	m := noSeen()
	p := revProj("r1", u)
	for k := range m {
		if v, ok := p[k]; ok {
			m[k] = v
		}
	}
	m["got"] = true
	return m
}

func noArg() map[string]any {
	return map[string]any{"ref": "none", "cfg": "none", "provider": "none", "secrets": []any{}, "control": false, "des": "none"}
}

func noVal() map[string]any { return map[string]any{"cfg": "none", "out": "none"} }

func noEnq() map[string]any {
	return map[string]any{"ic": "none", "kind": "none", "reqs": []any{}, "nadds": 0, "revs": []any{}, "prefixes": []any{}, "oldver": "absent", "newver": "absent"}
}

func noVec() map[string]any {
	return map[string]any{"revs": []any{}, "cb": []any{}, "ca": []any{}, "before": []any{}, "after": []any{}}
}

func (w *world) preOr() map[string]any {
	if w.pre == nil {
		return map[string]any{"ctl": "none", "lock": []any{}}
	}
	return w.pre
}

func (w *world) valOr() map[string]any {
	if w.val == nil {
		return noVal()
	}
	return w.val
}

func noUp() map[string]any {
	return map[string]any{"healthy": "none", "step": "none", "inlock": false, "old": false}
}

func (w *world) emit(ev string, m map[string]any) {
	if w.mute && ev != "upgrade" {
		return
	}
	if w.settling && ev != "end" && ev != "settled" && ev != "enq" && ev != "env" {
		return
	}
	seen := w.seen
	if seen == nil {
		seen = noSeen()
	}
	ord := "fwd"
	if w.reverse {
		ord = "rev"
	}
	base := map[string]any{"ev": ev, "scenario": w.scenID, "actor": orNone(w.actor), "rec": w.recNo, "feat": w.feat, "ord": ord,
		"verb": "", "kind": "", "abs": "", "cls": "", "outcome": "", "injected": "", "applied": false, "noop": false,
		"seen": seen, "vconfigs": append([]any{}, w.vconfigs...), "configs": append([]any{}, w.configs...), "nlists": w.nlists,
		"stages": append([]any{}, w.stages...), "fails": append([]any{}, w.fails...), "val": w.valOr(), "nwrites": w.nwrites,
		"arg": noArg(), "enq": noEnq(), "vec": noVec(), "pre": w.preOr(), "up": noUp(),
		"result": "", "requeue": false, "after": 0, "faulty": false, "quiet": false, "clean": false, "steady": false, "settling": w.settling,
		"stable": false, "rounds": 0, "prevDigest": "", "post": w.post()}
	for k, v := range m {
		base[k] = v
	}
	if a, _ := base["abs"].(string); a != "" {
		base["cls"] = strings.SplitN(a, ":", 2)[0]
	}
	w.buf = append(w.buf, base)
}

// ---------------------------------------------------------------- classification of the real calls

// classify names a real call the way the model does; calls the model does not describe get the prefix "ign:".
func (w *world) classify(c *simapi.Call) string {
	verb := c.Verb
	switch c.Key.Kind {
	case "ProviderRevision":
		a := aliasOfName(c.Key.Name)
		if c.Actor == "sig" {
			switch {
			case verb == "get":
				return "sget:" + a
			case c.Sub == "status":
				return "sstatus:" + a
			}
			return "sother-" + verb + ":" + a
		}
		if c.Actor == "enq" {
			return "ign:enq-" + verb
		}
		switch {
		case verb == "get":
			return "get:" + a
		case c.Sub == "status":
			return "status:" + a
		case verb == "update":
			return w.classifyUpdate(a, c.Obj) + ":" + a
		}
		return verb + ":" + a
	case "ImageConfig":
		if c.Actor == "sig" {
			return verb + ":ic"
		}
		return "ign:" + verb + "-ic"
	}
	return "ign:" + verb + "-" + strings.ToLower(c.Key.Kind)
}

func (w *world) classifyUpdate(alias string, body *unstructured.Unstructured) string {
	if body == nil {
		return "update"
	}
	has := false
	for _, f := range body.GetFinalizers() {
		if f == ourFin {
			has = true
		}
	}
	had := false
	if cur := w.s.Peek(revKey(alias)); cur != nil {
		for _, f := range cur.GetFinalizers() {
			if f == ourFin {
				had = true
			}
		}
	} else if w.seen != nil {
		had, _ = w.seen["fin"].(bool)
	}
	switch {
	case has && !had:
		return "addfin"
	case !has && had:
		return "rmfin"
	}
	return "meta"
}

func (w *world) intercept(cl *simapi.Call) simapi.Decision {
	abs := w.classify(cl)
	w.pendingAbs = abs
	if w.al == nil {
		return simapi.Proceed
	}
	d := w.al.OnCall(abs, cl.Write)
	if m := w.al.Matched; m != nil && m.F != "ok" {
		if m.F == "miss" {
			// (a reconcile whose cache had not seen the revision yet did not do its work: it counts as disturbed)
			w.al.Injected = "cacheMiss"
		}
		if m.F == "conflict" {
			w.al.Injected = m.F
			if cl.Write {
				return simapi.FailConflict
			}
			return simapi.FailError
		}
	}
	return d
}

func (w *world) fail(abs, kind, outcome string) {
	w.fails = append(w.fails, map[string]any{"abs": abs, "cls": strings.SplitN(abs, ":", 2)[0], "kind": kind, "outcome": outcome})
}

var kindOf = map[string]string{"ProviderRevision": "rev", "ImageConfig": "ic", "ServiceAccount": "sa", "Lock": "lock"}

func (w *world) onEvent(e *simapi.Event) {
	if e.Actor == "enq" {
		return
	}
	if e.Outcome == "dropped" && e.Injected == "" {
		return
	}
	abs := w.pendingAbs
	kind := kindOf[e.Kind]
	if kind == "" {
		kind = "other"
	}
	verb := e.Verb
	if e.Sub != "" {
		verb += "-" + e.Sub
	}
	applied := e.Applied && !e.DryRun
	if applied && !e.Noop {
		w.chg[e.Kind+"/"+e.Name]++
		w.nwrites++
	}
	clean := e.Injected == "" && (e.Outcome == "ok" || e.Outcome == "notfound")
	switch {
	case e.Verb == "get" && e.Kind == "ProviderRevision" && e.Idx == 1 && clean:
		w.seen = seenFrom(w.s.Peek(revKey("r1")))
		if e.Outcome == "notfound" {
			w.seen["ex"] = false
		}
	case e.Verb == "list" && e.Kind == "ImageConfig" && e.Outcome == "ok" && e.Actor == "sig":
		w.configs = w.listedICs()
		w.nlists++
		if w.nlists == 1 {
			w.vconfigs = append([]any{}, w.configs...)
		}
	}
	if e.Outcome != "ok" && !strings.HasPrefix(abs, "ign:") {
		w.fail(abs, kind, e.Outcome)
	}
	w.emit("call", map[string]any{"verb": verb, "kind": kind, "abs": abs, "outcome": e.Outcome, "injected": e.Injected,
		"applied": applied, "noop": e.Noop})
}

// ---------------------------------------------------------------- the seams

// virtual tells the aligner that a seam of the model is reached (environment steps the scenario placed before it run now).
func (w *world) virtual(abs string) {
	if w.al != nil {
		w.al.OnCall(abs, false)
	}
}

func (w *world) seam(abs, outcome string, arg map[string]any) {
	w.stages = append(w.stages, strings.SplitN(abs, ":", 2)[0]+":"+outcome)
	if outcome != "ok" && outcome != "hit" && outcome != "absent" && outcome != "invalid" {
		w.fail(abs, "seam", outcome)
	}
	a := noArg()
	for k, v := range arg {
		a[k] = v
	}
	w.emit("seam", map[string]any{"verb": "seam", "kind": "seam", "abs": abs, "outcome": outcome, "arg": a})
}

// the Validator: accepts iff the world says the authorities of the config it was handed accept the image
type recValidator struct{ w *world }

func (v *recValidator) Validate(_ context.Context, ref name.Reference, config *pkgv1beta1.ImageVerification, pullSecrets ...string) error {
	w := v.w
	if w.client().Dead() {
		return simapi.ErrCrashed
	}
	w.virtual("validate:r1")
	cfg := "none"
	if config != nil && config.Cosign != nil && len(config.Cosign.Authorities) > 0 {
		cfg = config.Cosign.Authorities[0].Name
	}
	prov := "none"
	if config != nil {
		prov = string(config.Provider)
	}
	arg := map[string]any{"ref": imgTok(ref.String()), "cfg": cfg, "provider": prov, "secrets": anyList(pullSecrets)}
	if w.okby[cfg] {
		w.val = map[string]any{"cfg": cfg, "out": "ok"}
		w.seam("validate:r1", "ok", arg)
		return nil
	}
	w.val = map[string]any{"cfg": cfg, "out": "invalid"}
	w.seam("validate:r1", "invalid", arg)
	return errors.New(validateErr)
}

// registry
type fetcher struct{ w *world }

func (f *fetcher) Head(context.Context, name.Reference, ...string) (*ggcr.Descriptor, error) {
	return &ggcr.Descriptor{Digest: ggcr.Hash{Algorithm: "sha256", Hex: digestHex}}, nil
}

func (f *fetcher) Fetch(_ context.Context, _ name.Reference, secrets ...string) (ggcr.Image, error) {
	w := f.w
	if w.client().Dead() {
		return nil, simapi.ErrCrashed
	}
	w.seam("fetch:r1", "ok", map[string]any{"secrets": anyList(secrets)})
	return image(), nil
}

func (f *fetcher) Tags(context.Context, name.Reference, ...string) ([]string, error) {
	return nil, errors.New("not used")
}

// package cache
type memCache struct{ w *world }

func (c *memCache) Has(id string) bool {
	w := c.w
	if w.client().Dead() {
		return false
	}
	w.mu.Lock()
	_, has := w.cache[id]
	w.mu.Unlock()
	if has {
		w.seam("cache:r1", "hit", nil)
	} else {
		w.seam("cache:r1", "absent", nil)
	}
	return has
}

func (c *memCache) Get(id string) (io.ReadCloser, error) {
	w := c.w
	if w.client().Dead() {
		return nil, simapi.ErrCrashed
	}
	w.mu.Lock()
	defer w.mu.Unlock()
	b, ok := w.cache[id]
	if !ok {
		return nil, os.ErrNotExist
	}
	return io.NopCloser(bytes.NewReader(b)), nil
}

func (c *memCache) Store(id string, content io.ReadCloser) error {
	w := c.w
	b, err := io.ReadAll(content)
	if err != nil {
		return err
	}
	if w.client().Dead() {
		return simapi.ErrCrashed
	}
	w.mu.Lock()
	w.cache[id] = b
	w.mu.Unlock()
	return nil
}

func (c *memCache) Delete(id string) error {
	w := c.w
	if w.client().Dead() {
		return simapi.ErrCrashed
	}
	w.mu.Lock()
	delete(w.cache, id)
	w.mu.Unlock()
	del := false
	if w.seen != nil {
		del, _ = w.seen["del"].(bool)
	}
	if del {
		w.seam("cachedel:r1", "ok", nil)
	}
	return nil
}

// parser and linter: the real ones, recorded
type wrapParser struct {
	w *world
	p parser.Parser
}

func (p *wrapParser) Parse(ctx context.Context, rc io.ReadCloser) (*parser.Package, error) {
	w := p.w
	pkg, err := p.p.Parse(ctx, rc)
	if w.client().Dead() {
		return nil, simapi.ErrCrashed
	}
	if err != nil {
		w.seam("parse:r1", "error", nil)
		return nil, err
	}
	w.seam("parse:r1", "ok", nil)
	return pkg, nil
}

// establisher: records who controls / owns the package's objects
type recEstablisher struct{ w *world }

func (e *recEstablisher) Establish(_ context.Context, objs []kruntime.Object, pr pkgv1.PackageRevision, control bool) ([]xpv1.TypedReference, error) {
	w := e.w
	if w.client().Dead() {
		return nil, simapi.ErrCrashed
	}
	w.virtual("establish:r1")
	refs := []xpv1.TypedReference{}
	for _, o := range objs {
		gvk := o.GetObjectKind().GroupVersionKind()
		n := ""
		if m, ok := o.(metav1.Object); ok {
			n = m.GetName()
		}
		refs = append(refs, xpv1.TypedReference{APIVersion: gvk.GroupVersion().String(), Kind: gvk.Kind, Name: n, UID: types.UID("uid-" + n)})
	}
	w.mu.Lock()
	w.owns["r1"] = true
	if control {
		w.ctl = "r1"
	}
	w.mu.Unlock()
	w.seam("establish:r1", "ok", map[string]any{"control": control, "des": orNone(string(pr.GetDesiredState()))})
	return refs, nil
}

func (e *recEstablisher) ReleaseObjects(_ context.Context, pr pkgv1.PackageRevision) error {
	w := e.w
	if w.client().Dead() {
		return simapi.ErrCrashed
	}
	w.virtual("release:r1")
	w.mu.Lock()
	if w.ctl == "r1" {
		w.ctl = ""
	}
	w.mu.Unlock()
	w.seam("release:r1", "ok", map[string]any{"des": orNone(string(pr.GetDesiredState()))})
	return nil
}

// runtime hooks
type recHooks struct{ w *world }

func (h *recHooks) hook(what string, pr pkgv1.PackageRevisionWithRuntime) error {
	w := h.w
	if w.client().Dead() {
		return simapi.ErrCrashed
	}
	w.seam(what+":r1", "ok", map[string]any{"des": orNone(string(pr.GetDesiredState()))})
	return nil
}

func (h *recHooks) Pre(_ context.Context, _ kruntime.Object, pr pkgv1.PackageRevisionWithRuntime, _ revision.ManifestBuilder) error {
	return h.hook("pre", pr)
}
func (h *recHooks) Post(_ context.Context, _ kruntime.Object, pr pkgv1.PackageRevisionWithRuntime, _ revision.ManifestBuilder) error {
	return h.hook("post", pr)
}
func (h *recHooks) Deactivate(_ context.Context, pr pkgv1.PackageRevisionWithRuntime, _ revision.ManifestBuilder) error {
	return h.hook("deactivate", pr)
}

// dependency manager: the real one; entry and exit are recorded
type recDeps struct {
	w *world
	d revision.DependencyManager
}

func res(err error) string {
	switch {
	case err == nil:
		return "ok"
	case kerrors.IsConflict(err):
		return "conflict"
	}
	return "error"
}

func (d *recDeps) Resolve(ctx context.Context, m pkgmetav1.Pkg, pr pkgv1.PackageRevision) (int, int, int, error) {
	if d.w.client().Dead() {
		return 0, 0, 0, simapi.ErrCrashed
	}
	a, b, c, err := d.d.Resolve(ctx, m, pr)
	if !d.w.client().Dead() {
		d.w.seam("resolve:r1", res(err), nil)
	}
	return a, b, c, err
}

func (d *recDeps) RemoveSelf(ctx context.Context, pr pkgv1.PackageRevision) error {
	if d.w.client().Dead() {
		return simapi.ErrCrashed
	}
	err := d.d.RemoveSelf(ctx, pr)
	if !d.w.client().Dead() {
		d.w.seam("removeself:r1", res(err), nil)
	}
	return err
}

type fakeVer struct{ *version.Versioner }

func (fakeVer) GetVersionString() string          { return "v1.18.0" }
func (fakeVer) InConstraints(string) (bool, error) { return true, nil }

type recorder struct{ w *world }

func (r *recorder) Event(_ kruntime.Object, e event.Event) {
	r.w.stages = append(r.w.stages, "event:"+string(e.Type)+":"+string(e.Reason))
}
func (r *recorder) WithAnnotations(...string) event.Recorder { return r }

// build (re)creates both controllers (a new process).
func (w *world) build() {
	flags := &feature.Flags{}
	if w.feat {
		flags.Enable(features.EnableAlphaSignatureVerification)
	}
	np := func() pkgv1.PackageRevision { return &pkgv1.ProviderRevision{} }
	w.sig = xperrors.WithSilentRequeueOnConflict(signature.NewReconciler(w.scl,
		signature.WithNewPackageRevisionFn(np),
		signature.WithNamespace(namespace),
		signature.WithServiceAccount(xpSA),
		signature.WithDefaultRegistry(registry),
		signature.WithConfigStore(xpkg.NewImageConfigStore(&orderClient{Client: w.scl, w: w}, namespace)),
		signature.WithValidator(&recValidator{w: w}),
	))
	f := &fetcher{w: w}
	rm := &fakes.Manager{Client: w.rcl, Sch: w.sch}
	w.rev = xperrors.WithSilentRequeueOnConflict(revision.NewReconciler(rm,
		revision.WithCache(&memCache{w: w}),
		revision.WithDependencyManager(&recDeps{w: w, d: revision.NewPackageDependencyManager(w.rcl, dag.NewMapDag, pkgv1.ProviderGroupVersionKind)}),
		revision.WithEstablisher(&recEstablisher{w: w}),
		revision.WithNewPackageRevisionFn(np),
		revision.WithParser(&wrapParser{w: w, p: parser.New(metaScheme, objScheme)}),
		revision.WithParserBackend(revision.NewImageBackend(f)),
		revision.WithConfigStore(xpkg.NewImageConfigStore(&orderClient{Client: w.rcl, w: w}, namespace)),
		revision.WithLinter(xpkg.NewProviderLinter()),
		revision.WithVersioner(fakeVer{version.New()}),
		revision.WithRecorder(&recorder{w: w}),
		revision.WithNamespace(namespace),
		revision.WithServiceAccount(xpSA),
		revision.WithFeatureFlags(flags),
		revision.WithRuntimeHooks(&recHooks{w: w}),
	))
	w.enq = newEnqueuer(w.ecl)
}

// ---------------------------------------------------------------- the environment

func str(m map[string]any, k string) string { s, _ := m[k].(string); return s }
func boo(m map[string]any, k string) bool   { b, _ := m[k].(bool); return b }

// makeIC builds ImageConfig n with the given verification section.
func makeIC(n, ver string) *pkgv1beta1.ImageConfig {
	a, ok := icTable[n]
	if !ok {
		panic("unknown ImageConfig " + n)
	}
	ic := &pkgv1beta1.ImageConfig{TypeMeta: metav1.TypeMeta{APIVersion: "pkg.crossplane.io/v1beta1", Kind: "ImageConfig"}, ObjectMeta: metav1.ObjectMeta{Name: n}}
	for _, p := range a.prefixes {
		ic.Spec.MatchImages = append(ic.Spec.MatchImages, pkgv1beta1.ImageMatch{Type: pkgv1beta1.Prefix, Prefix: p})
	}
	if a.secret != "" {
		ic.Spec.Registry = &pkgv1beta1.RegistryConfig{Authentication: &pkgv1beta1.RegistryAuthentication{PullSecretRef: corev1.LocalObjectReference{Name: a.secret}}}
	}
	switch ver {
	case "cosign":
		// (the authority carries the config's name: that is how the recording validator knows whose section it was handed)
		ic.Spec.Verification = &pkgv1beta1.ImageVerification{Provider: pkgv1beta1.ImageVerificationProviderCosign,
			Cosign: &pkgv1beta1.CosignVerificationConfig{Authorities: []pkgv1beta1.CosignAuthority{{Name: n,
				Keyless: &pkgv1beta1.KeylessRef{Identities: []pkgv1beta1.Identity{{Issuer: "https://issuer.example.org", Subject: n}}}}}}}
	case "nocosign":
		ic.Spec.Verification = &pkgv1beta1.ImageVerification{Provider: pkgv1beta1.ImageVerificationProviderCosign}
	}
	return ic
}

// watchEvent hands an ImageConfig event to the real watch handler of the verification controller and records what it enqueued.
func (w *world) watchEvent(kind string, old, cur *pkgv1beta1.ImageConfig) {
	reqs, nadds, ok := w.enq.event(kind, old, cur)
	if !ok {
		return
	}
	ref := cur
	if ref == nil {
		ref = old
	}
	out := []any{}
	for _, r := range reqs {
		out = append(out, aliasOfName(r))
		if r == revName("r1") {
			w.woken++
		}
	}
	revs := []any{}
	for _, u := range w.s.All(revGK) {
		src, _, _ := unstructured.NestedString(u.Object, "spec", "image")
		revs = append(revs, map[string]any{"name": aliasOfName(u.GetName()), "img": chars(src)})
	}
	verOf := func(ic *pkgv1beta1.ImageConfig) string {
		if ic == nil {
			return "absent"
		}
		return icProjOf(ic)["ver"].(string)
	}
	sa := w.actor
	w.actor = ""
	w.emit("enq", map[string]any{"verb": kind, "abs": "enq:" + kind, "enq": map[string]any{"ic": ref.Name, "kind": kind, "reqs": out, "nadds": nadds,
		"revs": revs, "prefixes": icProjOf(ref)["prefixes"], "oldver": verOf(old), "newver": verOf(cur)}})
	w.actor = sa
}

func (w *world) getIC(n string) *pkgv1beta1.ImageConfig {
	u := w.s.Peek(icKey(n))
	if u == nil {
		return nil
	}
	ic := &pkgv1beta1.ImageConfig{}
	_ = kruntime.DefaultUnstructuredConverter.FromUnstructured(u.Object, ic)
	return ic
}

func (w *world) env(e replay.Entry) {
	w.envSeq++
	// (a controller that is being retried with back-off will meet the world as this step leaves it - also where the
	//  step itself wakes nobody, like a signature that appears in the registry)
	for a, r := range w.retrying {
		if r {
			w.again[a] = true
		}
	}
	rk := revKey("r1")
	var evKind string
	var evOld, evNew *pkgv1beta1.ImageConfig
	switch e.K {
	case "addic":
		w.s.Put(makeIC(e.O, w.vst[e.O]))
		evKind, evNew = "create", w.getIC(e.O)
	case "delic":
		evKind, evOld = "delete", w.getIC(e.O)
		w.s.Remove(icKey(e.O))
	case "editic":
		// O = config, F = its new verification section
		evOld = w.getIC(e.O)
		w.vst[e.O] = e.F
		w.s.Put(makeIC(e.O, e.F))
		evKind, evNew = "update", w.getIC(e.O)
	case "sign":
		w.okby[e.O] = true
	case "unsign":
		delete(w.okby, e.O)
	case "setimg":
		// what the package manager does when spec.package changes to another reference of the same digest
		w.s.Mutate(rk, func(u *unstructured.Unstructured) { _ = unstructured.SetNestedField(u.Object, images[e.F], "spec", "image") })
	case "pauserev":
		w.s.Mutate(rk, func(u *unstructured.Unstructured) { addAnn(u, pausedAnn, "true") })
	case "unpauserev":
		w.s.Mutate(rk, func(u *unstructured.Unstructured) { rmAnn(u, pausedAnn) })
	case "deact":
		w.s.Mutate(rk, func(u *unstructured.Unstructured) { _ = unstructured.SetNestedField(u.Object, "Inactive", "spec", "desiredState") })
	case "act":
		w.s.Mutate(rk, func(u *unstructured.Unstructured) { _ = unstructured.SetNestedField(u.Object, "Active", "spec", "desiredState") })
	case "touch":
		w.touched++
		w.s.Mutate(rk, func(u *unstructured.Unstructured) {
			if _, ok := u.GetAnnotations()[pausedAnn]; !ok {
				addAnn(u, pausedAnn, "false")
			} else {
				addAnn(u, touchAnn, fmt.Sprint(w.touched))
			}
		})
	case "delrev":
		w.s.MarkDeleted(rk)
	default:
		panic("unknown env step " + e.K)
	}
	if e.K != "addic" && e.K != "delic" && e.K != "editic" && e.K != "sign" && e.K != "unsign" {
		w.chg["ProviderRevision/"+revName("r1")]++
	}
	sa := w.actor
	w.actor = ""
	w.emit("env", map[string]any{"verb": e.K, "abs": "env:" + e.K, "outcome": orNone(e.F), "kind": orNone(e.O)})
	w.actor = sa
	if evKind != "" {
		w.watchEvent(evKind, evOld, evNew)
	}
}

func addAnn(u *unstructured.Unstructured, k, v string) {
	a := u.GetAnnotations()
	if a == nil {
		a = map[string]string{}
	}
	a[k] = v
	u.SetAnnotations(a)
}

func rmAnn(u *unstructured.Unstructured, k string) {
	a := u.GetAnnotations()
	delete(a, k)
	if len(a) == 0 {
		a = nil
	}
	u.SetAnnotations(a)
}

func verCondition(v map[string]any) *xpv1.Condition {
	var c xpv1.Condition
	switch str(v, "st") {
	case "Skipped":
		c = pkgv1.VerificationSkipped()
	case "Succeeded":
		c = pkgv1.VerificationSucceeded(str(v, "by"))
	case "Failed":
		c = pkgv1.VerificationFailed(str(v, "by"), errors.New(validateErr))
	case "Incomplete":
		c = pkgv1.VerificationIncomplete(errors.New("cannot get image verification config: the environment says so"))
	default:
		return nil
	}
	return &c
}

func newServer() (*simapi.Server, *kruntime.Scheme) {
	sch := kruntime.NewScheme()
	_ = pkgv1.AddToScheme(sch)
	_ = pkgv1beta1.AddToScheme(sch)
	_ = pkgv1alpha1.AddToScheme(sch)
	_ = corev1.AddToScheme(sch)
	s := simapi.NewServer(sch)
	s.Namespaced(schema.GroupKind{Kind: "ServiceAccount"})
	s.NoStatus(schema.GroupKind{Group: "pkg.crossplane.io", Kind: "Lock"}, icGK, schema.GroupKind{Kind: "ServiceAccount"})
	return s, sch
}

func newRevision(alias, img, des string, own bool) *pkgv1.ProviderRevision {
	r := &pkgv1.ProviderRevision{ObjectMeta: metav1.ObjectMeta{Name: revName(alias), Labels: map[string]string{pkgv1.LabelParentPackage: pkgName}}}
	r.OwnerReferences = []metav1.OwnerReference{{APIVersion: "pkg.crossplane.io/v1", Kind: "Provider", Name: pkgName, UID: "uid-pkg",
		Controller: ptr.To(true), BlockOwnerDeletion: ptr.To(true)}}
	r.Spec.Package = img
	r.Spec.Revision = 1
	r.Spec.DesiredState = pkgv1.PackageRevisionDesiredState(des)
	r.Spec.SkipDependencyResolution = ptr.To(false)
	r.Spec.IgnoreCrossplaneConstraints = ptr.To(false)
	pp := corev1.PullIfNotPresent
	r.Spec.PackagePullPolicy = &pp
	if own {
		r.Spec.PackagePullSecrets = []corev1.LocalObjectReference{{Name: "own1"}, {Name: "own2"}}
	}
	return r
}

func newWorld(id string, init map[string]any) *world {
	s, sch := newServer()
	w := &world{s: s, sch: sch, scenID: id, cache: map[string][]byte{}, owns: map[string]bool{}, lastClean: map[string]string{},
		lastWatch: map[string]string{}, again: map[string]bool{}, retrying: map[string]bool{}, contents: map[string]string{}, chg: map[string]int{},
		vst: map[string]string{}, okby: map[string]bool{}}
	w.feat = boo(init, "feat")
	w.reverse = str(init, "ord") == "rev"
	w.scl = simapi.NewClient(s, "sig")
	w.rcl = simapi.NewClient(s, "rev")
	w.ecl = simapi.NewClient(s, "enq")
	w.scl.Intercept, w.rcl.Intercept = w.intercept, w.intercept

	s.Put(&corev1.ServiceAccount{ObjectMeta: metav1.ObjectMeta{Name: xpSA, Namespace: namespace}})
	for n := range icTable {
		w.vst[n] = "cosign"
	}
	if m, ok := init["vst"].(map[string]any); ok {
		for n, v := range m {
			w.vst[n], _ = v.(string)
		}
	}
	if l, ok := init["okby"].([]any); ok {
		for _, n := range l {
			w.okby[n.(string)] = true
		}
	}
	if l, ok := init["ics"].([]any); ok {
		for _, n := range l {
			s.Put(makeIC(n.(string), w.vst[n.(string)]))
		}
	}

	rm, _ := init["rev"].(map[string]any)
	if rm != nil && boo(rm, "ex") {
		r := newRevision("r1", images[str(rm, "img")], str(rm, "des"), boo(rm, "sec"))
		if boo(rm, "fin") {
			r.Finalizers = append(r.Finalizers, ourFin)
		}
		s.Put(r)
		s.Mutate(revKey("r1"), func(u *unstructured.Unstructured) {
			if boo(rm, "paused") {
				addAnn(u, pausedAnn, "true")
			}
			cs := []any{}
			add := func(c xpv1.Condition) {
				m, _ := kruntime.DefaultUnstructuredConverter.ToUnstructured(&c)
				cs = append(cs, m)
			}
			if vm, _ := rm["ver"].(map[string]any); vm != nil {
				if c := verCondition(vm); c != nil {
					add(*c)
				}
			}
			switch str(rm, "healthy") {
			case "True":
				add(pkgv1.Healthy())
			case "Await":
				add(pkgv1.AwaitingVerification())
			}
			if boo(rm, "pcond") {
				add(xpv1.ReconcilePaused().WithMessage("Reconciliation (including deletion) is paused via the pause annotation"))
			}
			if len(cs) > 0 {
				_ = unstructured.SetNestedSlice(u.Object, cs, "status", "conditions")
			}
			if boo(rm, "refs") {
				_ = unstructured.SetNestedSlice(u.Object, []any{map[string]any{"apiVersion": "apiextensions.k8s.io/v1", "kind": "CustomResourceDefinition",
					"name": "things.example.org", "uid": "uid-things.example.org"}}, "status", "objectRefs")
				w.cache[revName("r1")] = packageStream()
				w.owns["r1"] = true
			}
		})
		if boo(rm, "del") {
			s.MarkDeleted(revKey("r1"))
		}
		if boo(rm, "inst") {
			w.ctl = "r1"
			w.owns["r1"] = true
			w.lockAdd("r1")
		}
	}
	w.build()
	s.OnEvent = w.onEvent
	return w
}

func (w *world) lockAdd(a string) {
	if w.s.Peek(lockKey) == nil {
		w.s.Put(&pkgv1beta1.Lock{ObjectMeta: metav1.ObjectMeta{Name: "lock"}})
	}
	w.s.Mutate(lockKey, func(u *unstructured.Unstructured) {
		ps, _, _ := unstructured.NestedSlice(u.Object, "packages")
		ps = append(ps, map[string]any{"name": revName(a), "apiVersion": "pkg.crossplane.io/v1", "kind": "Provider", "type": nil,
			"source": "r.io/o/p", "version": "v1", "dependencies": []any{}})
		_ = unstructured.SetNestedSlice(u.Object, ps, "packages")
	})
}

// ---------------------------------------------------------------- running reconciles

type sweep struct {
	rec, idx int
	d        simapi.Decision
}

func (w *world) rvDigest() string {
	h := sha256.New()
	w.s.Read(func(keys []simapi.Key, all map[simapi.Key]*unstructured.Unstructured) {
		for _, k := range keys {
			fmt.Fprintf(h, "%s=%s;", k, all[k].GetResourceVersion())
		}
	})
	w.mu.Lock()
	fmt.Fprintf(h, "cache=%d;ctl=%s;owns=%v", len(w.cache), w.ctl, w.owns["r1"])
	w.mu.Unlock()
	return fmt.Sprintf("%x", h.Sum(nil)[:8])
}

const agedTime = "2000-01-01T00:00:00Z"

func (w *world) contentOf(k simapi.Key, u *unstructured.Unstructured) string {
	ck := k.String() + "@" + u.GetResourceVersion()
	if h, ok := w.contents[ck]; ok {
		return h
	}
	c := u.DeepCopy()
	c.SetResourceVersion("")
	c.SetManagedFields(nil)
	if cs, ok, _ := unstructured.NestedSlice(c.Object, "status", "conditions"); ok {
		for _, x := range cs {
			if m, ok := x.(map[string]any); ok {
				delete(m, "lastTransitionTime")
			}
		}
		_ = unstructured.SetNestedSlice(c.Object, cs, "status", "conditions")
	}
	b, _ := json.Marshal(c.Object)
	h := short(b)
	w.contents[ck] = h
	return h
}

// digest identifies the state of the world by content (the clock and write counters left out).
func (w *world) digest() string {
	h := sha256.New()
	w.s.Read(func(keys []simapi.Key, all map[simapi.Key]*unstructured.Unstructured) {
		for _, k := range keys {
			fmt.Fprintf(h, "%s=%s;", k, w.contentOf(k, all[k]))
		}
	})
	w.mu.Lock()
	fmt.Fprintf(h, "cache=%d;ctl=%s;owns=%v;okby=%v", len(w.cache), w.ctl, w.owns["r1"], w.okList())
	w.mu.Unlock()
	return fmt.Sprintf("%x", h.Sum(nil)[:8])
}

// age lets time pass: every lastTransitionTime is moved into the past, so that a condition that is set again without
// having changed shows (the code stamps conditions with the wall clock).
func (w *world) age() {
	w.s.Mutate(revKey("r1"), func(u *unstructured.Unstructured) {
		cs, ok, _ := unstructured.NestedSlice(u.Object, "status", "conditions")
		if !ok {
			return
		}
		for _, x := range cs {
			if m, ok := x.(map[string]any); ok {
				m["lastTransitionTime"] = agedTime
			}
		}
		_ = unstructured.SetNestedSlice(u.Object, cs, "status", "conditions")
	})
}

func (w *world) reconcile(actor string, al *replay.Aligner, sw *sweep) int {
	w.recNo++
	w.actor, w.al = actor, al
	w.seen, w.vconfigs, w.configs, w.nlists, w.stages, w.fails, w.val, w.nwrites = nil, nil, nil, 0, nil, nil, nil, 0
	al.Ignore = func(abs string) bool { return strings.HasPrefix(abs, "ign:") }
	c := w.client()
	c.BeginReconcile()
	inner := w.intercept
	icpt := inner
	if sw != nil && sw.rec == w.recNo {
		icpt = func(cl *simapi.Call) simapi.Decision {
			d := inner(cl)
			if cl.Idx == sw.idx && d == simapi.Proceed {
				sd := sw.d
				if (sd == simapi.FailConflict || sd == simapi.CrashAfter) && !cl.Write {
					sd = simapi.FailError
				}
				if sd == simapi.CacheMiss && (cl.Write || cl.Verb != "get") {
					sd = simapi.FailError
				}
				al.Injected = sd.String()
				return sd
			}
			return d
		}
	}
	c.Intercept = icpt
	w.age()
	p0 := w.post()
	w.pre = map[string]any{"ctl": p0["ctl"], "lock": p0["lock"]}
	before := w.digest()
	rvBefore := w.rvDigest()
	watchBefore := w.watched(actor)
	w.emit("start", map[string]any{"prevDigest": rvBefore})
	var res reconcile.Result
	var err error
	req := reconcile.Request{NamespacedName: types.NamespacedName{Name: revName("r1")}}
	if actor == "sig" {
		res, err = w.sig.Reconcile(context.Background(), req)
	} else {
		res, err = w.rev.Reconcile(context.Background(), req)
	}
	calls := c.Calls()
	envBefore := al.EnvSteps
	result := "ok"
	crashed := c.Dead()
	if crashed {
		result = "crashed"
	} else if err != nil {
		result = "error"
	}
	faulty := al.Injected != ""
	quiet := envBefore == 0
	thisOK := !faulty && quiet && !crashed
	steady := thisOK && w.lastClean[actor] == before
	w.emit("end", map[string]any{"result": result, "requeue": res.Requeue, "after": int(res.RequeueAfter / time.Millisecond),
		"faulty": faulty, "quiet": quiet, "clean": thisOK, "steady": steady, "prevDigest": rvBefore})
	if w.rvDigest() != rvBefore {
		w.moved++
	}
	cleaning := false
	if w.seen != nil && actor == "rev" {
		pc, _ := w.seen["pcond"].(bool)
		pa, _ := w.seen["paused"].(bool)
		cleaning = pc && !pa
	}
	// (the pass that only removes the conditions of a revision that is no longer paused is not the fixed point: the
	//  reconcile after it is meant to do the work)
	if thisOK && !cleaning {
		w.lastClean[actor] = w.digest()
	} else {
		delete(w.lastClean, actor)
	}
	// it runs again when it was disturbed, or when it failed / asked for a requeue and moved something (a fault-free
	// reconcile that fails and changes nothing would fail again the same way)
	w.again[actor] = crashed || faulty || !quiet || ((err != nil || res.Requeue) && w.digest() != before)
	w.retrying[actor] = err != nil || res.Requeue
	w.lastWatch[actor] = watchBefore
	al.Finish()
	w.al = nil
	c.Intercept = inner
	w.actor = ""
	if crashed {
		w.build()
	}
	return calls
}

// watched says how often what triggers the actor has changed so far: both controllers watch the revision (their own
// writes included); the verification controller is also woken by the ImageConfig events for which the real watch
// handler enqueued the revision.
func (w *world) watched(actor string) string {
	n := w.chg["ProviderRevision/"+revName("r1")]
	if actor == "sig" {
		n += w.woken
	}
	return fmt.Sprint(n)
}

func (w *world) actors() []string {
	if w.feat {
		return []string{"sig", "rev"}
	}
	return []string{"rev"}
}

// settle plays the fault-free aftermath the way the controllers would be triggered, then everybody once more (that round
// must change nothing); the state reached is recorded.
func (w *world) settle(maxRounds int) {
	rounds := 0
	w.settling = !w.verbose
	for rounds < maxRounds {
		rounds++
		ran := false
		for _, a := range w.actors() {
			if w.s.Peek(revKey("r1")) == nil {
				continue
			}
			if w.again[a] || w.lastWatch[a] != w.watched(a) {
				w.reconcile(a, &replay.Aligner{Env: w.env}, nil)
				ran = true
			}
		}
		if !ran {
			break
		}
	}
	w.moved = 0
	for _, a := range w.actors() {
		w.reconcile(a, &replay.Aligner{Env: w.env}, nil)
	}
	stable := w.moved == 0
	w.seen, w.vconfigs, w.configs, w.nlists, w.stages, w.fails, w.val, w.nwrites, w.pre = nil, nil, nil, 0, nil, nil, nil, 0, nil
	w.emit("settled", map[string]any{"stable": stable, "rounds": rounds})
	w.settling = false
}

// upgrade is the epilogue of scenarios that ask for it ("r2": true in the init record): the package manager has created
// the next revision r2 of the same package (Active; verified: nothing applies to it or its signature is fine) after it
// made r1 Inactive.  r2 is reconciled by the real revision reconciler (real dependency manager, the Lock as the scenario
// left it); recorded is only how r2 ends up.
func (w *world) upgrade() {
	w.mute = true
	r := newRevision("r2", images["i1"], "Active", false)
	r.Spec.Revision = 2
	w.s.Put(r)
	w.s.Mutate(revKey("r2"), func(u *unstructured.Unstructured) {
		c := pkgv1.VerificationSkipped()
		m, _ := kruntime.DefaultUnstructuredConverter.ToUnstructured(&c)
		_ = unstructured.SetNestedSlice(u.Object, []any{m}, "status", "conditions")
	})
	w.actor, w.al = "rev", nil
	for i := 0; i < 4; i++ {
		w.rcl.BeginReconcile()
		_, _ = w.rev.Reconcile(context.Background(), reconcile.Request{NamespacedName: types.NamespacedName{Name: revName("r2")}})
	}
	w.actor = ""
	up := noUp()
	if u := w.s.Peek(revKey("r2")); u != nil {
		cs, _, _ := unstructured.NestedSlice(u.Object, "status", "conditions")
		for _, c := range cs {
			if cm, _ := c.(map[string]any); cm["type"] == "Healthy" {
				up["healthy"] = fmt.Sprintf("%v:%v", cm["status"], cm["reason"])
				msg, _ := cm["message"].(string)
				switch {
				case strings.Contains(msg, "cannot resolve package dependencies"):
					up["step"] = "resolve"
				case msg != "":
					up["step"] = "other"
				}
			}
		}
	}
	if l := w.s.Peek(lockKey); l != nil {
		ps, _, _ := unstructured.NestedSlice(l.Object, "packages")
		for _, e := range ps {
			if m, ok := e.(map[string]any); ok {
				switch m["name"] {
				case revName("r2"):
					up["inlock"] = true
				case revName("r1"):
					up["old"] = true
				}
			}
		}
	}
	w.seen, w.vconfigs, w.configs, w.nlists, w.stages, w.fails, w.val, w.nwrites, w.pre = nil, nil, nil, 0, nil, nil, nil, 0, nil
	w.emit("upgrade", map[string]any{"up": up})
	w.mute = false
}

type summary struct {
	Scenarios  int            `json:"scenarios"`
	Runs       int            `json:"runs"`
	Reconciles int            `json:"reconciles"`
	Events     int            `json:"events"`
	Drift      int            `json:"drift"`
	DriftRuns  int            `json:"drift_runs"`
	SweepRuns  int            `json:"sweep_runs"`
	Vectors    int            `json:"vectors"`
	Enqueue    bool           `json:"enqueue_handler"`
	DriftByAbs map[string]int `json:"drift_by_abs"`
	DriftIDs   []string       `json:"drift_ids"`
	Counts     map[string]int `json:"counts"`
	Samples    []any          `json:"samples"`
}

func isStart(e replay.Entry) bool { return e.K == "sget" || e.K == "get" }

var verbose bool

func run(tw *trace.Writer, id string, hist []replay.Entry, sw *sweep, settleRounds int, sum *summary) []int {
	w := newWorld(id, hist[0].Raw)
	w.verbose = verbose
	w.emit("reset", nil)
	blocks, trailing := replay.Split(hist[1:], isStart)
	var calls []int
	drift := 0
	var driftAbs []string
	for _, b := range blocks {
		for _, e := range b.Pre {
			w.env(e)
		}
		al := &replay.Aligner{Steps: append([]replay.Entry(nil), b.Steps...), Env: w.env}
		actor := "rev"
		if b.Steps[0].K == "sget" {
			actor = "sig"
		}
		calls = append(calls, w.reconcile(actor, al, sw))
		drift += al.Drift
		driftAbs = append(driftAbs, al.DriftAbs...)
		sum.Reconciles++
	}
	for _, e := range trailing {
		w.env(e)
	}
	if settleRounds > 0 {
		n := w.recNo
		w.settle(settleRounds)
		sum.Reconciles += w.recNo - n
	}
	if boo(hist[0].Raw, "r2") {
		w.upgrade()
	}
	tw.Boundary()
	for _, e := range w.buf {
		tw.Emit(e)
	}
	sum.Runs++
	if sw == nil {
		sum.Drift += drift
		if drift > 0 {
			sum.DriftRuns++
			if len(sum.DriftIDs) < 8 {
				sum.DriftIDs = append(sum.DriftIDs, id)
			}
		}
		for _, k := range driftAbs {
			sum.DriftByAbs[k]++
		}
	}
	return calls
}

// ---------------------------------------------------------------- the vector part

// selection asks the real ImageConfig store which verification / pull secret applies to an image.
func selection(store xpkg.ConfigStore, img string) map[string]any {
	n, vc, err := store.ImageVerificationConfigFor(context.Background(), img)
	cfg := "none"
	if vc != nil && vc.Cosign != nil && len(vc.Cosign.Authorities) > 0 {
		cfg = vc.Cosign.Authorities[0].Name
	}
	sn, sec, serr := store.PullSecretFor(context.Background(), img)
	return map[string]any{"img": chars(img), "v": orNone(n), "verr": err != nil, "hasvc": vc != nil, "vcfg": cfg,
		"sby": orNone(sn), "s": orNone(sec), "serr": serr != nil}
}

func runVector(tw *trace.Writer, id string, raw map[string]any, sum *summary) {
	s, sch := newServer()
	w := &world{s: s, sch: sch, scenID: id, cache: map[string][]byte{}, owns: map[string]bool{}, contents: map[string]string{}, chg: map[string]int{},
		vst: map[string]string{}, okby: map[string]bool{}, feat: true}
	w.ecl = simapi.NewClient(s, "enq")
	w.scl = simapi.NewClient(s, "sel")
	w.enq = newEnqueuer(w.ecl)
	vst, _ := raw["vst"].(map[string]any)
	imgs, _ := raw["imgs"].([]any)
	revs := []any{}
	var srcs []string
	for i, a := range []string{"r1", "r2"} {
		tok, _ := imgs[i].(string)
		if tok == "none" {
			continue
		}
		s.Put(newRevision(a, images[tok], "Active", false))
		revs = append(revs, map[string]any{"name": a, "img": chars(images[tok])})
		srcs = append(srcs, images[tok])
	}
	if l, ok := raw["ics"].([]any); ok {
		for _, n := range l {
			v, _ := vst[n.(string)].(string)
			s.Put(makeIC(n.(string), v))
		}
	}
	allICs := func() []any {
		out := []any{}
		for _, u := range s.All(icGK) {
			out = append(out, icProj(u))
		}
		return out
	}
	ev, _ := raw["ev"].(map[string]any)
	c, o, n := str(ev, "c"), str(ev, "old"), str(ev, "new")
	if o != "absent" {
		s.Put(makeIC(c, o))
	}
	fwd := xpkg.NewImageConfigStore(&orderClient{Client: w.scl, w: &world{reverse: false}}, namespace)
	rev := xpkg.NewImageConfigStore(&orderClient{Client: w.scl, w: &world{reverse: true}}, namespace)
	sel := func() []any {
		out := []any{}
		for _, src := range srcs {
			out = append(out, map[string]any{"fwd": selection(fwd, src), "rev": selection(rev, src)})
		}
		return out
	}
	w.emit("reset", nil)
	before, cb := sel(), allICs()
	old := w.getIC(c)
	kind := "update"
	switch {
	case o == "absent":
		kind = "create"
		s.Put(makeIC(c, n))
	case n == "absent":
		kind = "delete"
		s.Remove(icKey(c))
	default:
		s.Put(makeIC(c, n))
	}
	cur := w.getIC(c)
	after := sel()
	w.emit("vec", map[string]any{"verb": kind, "abs": "vec:" + kind, "vec": map[string]any{"revs": revs, "cb": cb, "ca": allICs(), "before": before, "after": after}})
	w.watchEvent(kind, old, cur)
	tw.Boundary()
	for _, e := range w.buf {
		tw.Emit(e)
	}
	sum.Vectors++
}

func main() {
	scenarios := flag.String("scenarios", "", "NDJSON file of TLC histories")
	vectors := flag.String("vectors", "", "NDJSON file of input vectors (selection / watch handler)")
	tracePath := flag.String("trace", "", "output trace")
	sumPath := flag.String("summary", "", "output summary JSON")
	chunk := flag.Int("chunk", 0, "split the trace into files of about this many events")
	sweepN := flag.Int("sweep", 0, "number of scenarios to sweep over every real call index x outcome")
	flag.BoolVar(&verbose, "verbose", false, "record every call of the settle rounds (default: only the reconcile ends)")
	settleN := flag.Int("settle", 6, "maximal number of fault-free rounds appended to every scenario")
	flag.Int("seed", 1, "unused (the driver makes no random choices)")
	flag.Parse()

	tw, err := trace.New(*tracePath, *chunk)
	if err != nil {
		fmt.Fprintln(os.Stderr, err)
		os.Exit(2)
	}
	sum := &summary{DriftByAbs: map[string]int{}, Enqueue: enqueueAvailable}
	if *vectors != "" {
		raws, err := scen.Load(*vectors)
		if err != nil {
			fmt.Fprintln(os.Stderr, err)
			os.Exit(2)
		}
		for _, raw := range raws {
			var v struct {
				ID  string         `json:"id"`
				Vec map[string]any `json:"vec"`
			}
			if err := json.Unmarshal(raw, &v); err != nil || v.Vec == nil {
				fmt.Fprintln(os.Stderr, "bad vector:", err)
				os.Exit(2)
			}
			if len(sum.Samples) < 2 {
				sum.Samples = append(sum.Samples, json.RawMessage(raw))
			}
			runVector(tw, v.ID, v.Vec, sum)
		}
	}
	dec := map[string]simapi.Decision{"error": simapi.FailError, "conflict": simapi.FailConflict, "crashBefore": simapi.CrashBefore,
		"crashAfter": simapi.CrashAfter, "cacheMiss": simapi.CacheMiss}
	var raws []json.RawMessage
	if *scenarios != "" {
		raws, err = scen.Load(*scenarios)
		if err != nil {
			fmt.Fprintln(os.Stderr, err)
			os.Exit(2)
		}
	}
	for i, raw := range raws {
		var sc struct {
			ID       string          `json:"id"`
			Hist     json.RawMessage `json:"hist"`
			Settle   *int            `json:"settle"`
			SweepAll bool            `json:"sweepall"`
			Free     bool            `json:"free"`
			Sweep    *struct {
				Rec     int    `json:"rec"`
				Idx     int    `json:"idx"`
				Outcome string `json:"outcome"`
			} `json:"sweep"`
		}
		if err := json.Unmarshal(raw, &sc); err != nil {
			fmt.Fprintln(os.Stderr, "bad scenario:", err)
			os.Exit(2)
		}
		hist, err := replay.Parse(sc.Hist)
		if err != nil || len(hist) == 0 || hist[0].T != "init" {
			fmt.Fprintln(os.Stderr, "bad scenario history:", err)
			os.Exit(2)
		}
		sum.Scenarios++
		if len(sum.Samples) < 2 {
			sum.Samples = append(sum.Samples, json.RawMessage(raw))
		}
		st := *settleN
		if sc.Settle != nil {
			st = *sc.Settle
		}
		if sc.Sweep != nil {
			run(tw, sc.ID, hist, &sweep{rec: sc.Sweep.Rec, idx: sc.Sweep.Idx, d: dec[sc.Sweep.Outcome]}, st, sum)
			continue
		}
		d0, dr0 := sum.Drift, sum.DriftRuns
		var by map[string]int
		if sc.Free {
			by = sum.DriftByAbs
			sum.DriftByAbs = map[string]int{}
		}
		calls := run(tw, sc.ID, hist, nil, st, sum)
		if sc.Free {
			sum.Drift, sum.DriftRuns, sum.DriftByAbs = d0, dr0, by
			if n := len(sum.DriftIDs); n > 0 && sum.DriftIDs[n-1] == sc.ID {
				sum.DriftIDs = sum.DriftIDs[:n-1]
			}
		}
		if i < *sweepN || sc.SweepAll {
			for r, n := range calls {
				for k := 1; k <= n; k++ {
					for _, d := range []simapi.Decision{simapi.FailError, simapi.FailConflict, simapi.CrashBefore, simapi.CrashAfter, simapi.CacheMiss} {
						run(tw, fmt.Sprintf("%s/sweep-r%d-k%d-%s", sc.ID, r+1, k, d), hist, &sweep{rec: r + 1, idx: k, d: d}, st, sum)
						sum.SweepRuns++
					}
				}
			}
		}
	}
	sum.Events = tw.Lines
	sum.Counts = tw.Counts
	if err := tw.Close(); err != nil {
		fmt.Fprintln(os.Stderr, err)
		os.Exit(2)
	}
	if err := scen.WriteJSON(*sumPath, sum); err != nil {
		fmt.Fprintln(os.Stderr, err)
		os.Exit(2)
	}
}
