-------------------------- MODULE MCFieldPartition --------------------------
(***************************************************************************)
(* C07 vector model.  Enumerates claim / XR contents over the path         *)
(* universe of DESIGN C07 and emits every input as a "VEC" line (scenario  *)
(* = environment choice only).  The Compute step runs the abstract model   *)
(* of the chosen syncer (FieldPartition!SyncSSA / SyncCSA) and the         *)
(* invariants evaluate the property formulas on the model's result, so the *)
(* oracle that MonFieldPartition applies to the REAL code is itself model  *)
(* checked against the documented design.                                  *)
(*                                                                         *)
(* Input = [syncer, mode, id, cm, xr, fill]                                *)
(*   mode "first"   the XR does not exist (claim with or without a         *)
(*                  dangling resourceRef)                                  *)
(*        "resync"  the XR pre-exists with XR-side machinery filled in     *)
(*        "upgrade" (ssa only) the XR was written by client-side apply; the*)
(*                  real PatchingManagedFieldsUpgrader runs before Sync    *)
(*   cm   entries of the claim as the USER wrote it (before CRD pruning;   *)
(*        bit "junk" adds unknown top-level / nested spec fields)          *)
(*   xr   entries of the XR with m = who wrote them ("claim" | "xr")       *)
(*   fill what the XR controller adds between round 1 and the extra        *)
(*        re-sync round the driver performs for every vector               *)
(*                                                                         *)
(* Presence/absence: 20 claim "bits" and 22 XR "bits" (a bit = a group of  *)
(* leaves that come and go together).  Instead of 2^42 subsets the family  *)
(* Fam(B, t) = subsets of size <= t and their complements: every           *)
(* combination of values of any t bits occurs (t = 2: pairwise interaction *)
(* classes), in an otherwise empty and in an otherwise full object.        *)
(***************************************************************************)
EXTENDS FieldPartition, TLC, Json, IOUtils, SequencesExt

CONSTANTS Strength,     \* t of the family
          PairMod,      \* 0, or the modulus of the seeded slice of pairs
          Lookalike,    \* TRUE: the claim may carry the unreserved look-alike keys (FieldPartition!LookalikeKeys)
          SyncModes,    \* set of <<syncer, mode>>
          ClaimPols, XRPols

VARIABLES input, exp, done
vars == <<input, exp, done>>

Id == [apiVersion |-> "ex.org/v1", kind |-> "Thing", namespace |-> "ns", name |-> "cm",
       xrApiVersion |-> "ex.org/v1", xrKind |-> "XThing", xrName |-> "cm-xr"]

SM_All    == {<<"ssa", "first">>, <<"csa", "first">>, <<"ssa", "resync">>, <<"csa", "resync">>, <<"ssa", "upgrade">>}
SM_First  == {<<"ssa", "first">>, <<"csa", "first">>}
SM_Resync == {<<"ssa", "resync">>, <<"csa", "resync">>, <<"ssa", "upgrade">>}
Pol3 == {"none", "Automatic", "Manual"}
PolEq == {"eq"}          \* XRPols = PolEq: the XR has the claim's policy
PolNone == {"none"}

-----------------------------------------------------------------------------
(* the path universe *)
L(k, v)        == E(<<"metadata", "labels", k>>, v)
A(k, v)        == E(<<"metadata", "annotations", k>>, v)
S1(a, v)       == E(<<"spec", a>>, v)
S2(a, b, v)    == E(<<"spec", a, b>>, v)
S3(a, b, c, v) == E(<<"spec", a, b, c>>, v)
T1(a, v)       == E(<<"status", a>>, v)
T2(a, b, v)    == E(<<"status", a, b>>, v)
T3(a, b, c, v) == E(<<"status", a, b, c>>, v)

ClaimBits == {"labU", "labR", "annU", "annR", "ext", "compRef", "compSel", "revRef", "revSel", "delPol",
              "resRef", "pubTo", "wcsr", "u1", "u2", "junk", "cond", "cd", "us", "u1c"}
             \cup (IF Lookalike THEN {"labL"} ELSE {})

ClaimGroup(b) ==
  CASE b = "labU"    -> {L("app", "c-app"), L("example.org/team", "c-team"), L("example.org/k8s.io", "c-tricky")}
    [] b = "labR"    -> {L("kubernetes.io/arch", "c-arch"), L("app.kubernetes.io/name", "c-appname"),
                         L("k8s.io/x", "c-k8s"), L("sigs.k8s.io/y", "c-sigs"), L("node.alpha.kubernetes.io/ttl", "c-deep")}
    [] b = "labL"    -> {L("notkubernetes.io/x", "c-look1"), L("k8s.io", "c-look2"), A("notkubernetes.io/x", "c-look3")}
    [] b = "annU"    -> {A("note", "c-note"), A("example.org/a", "c-a")}
    [] b = "annR"    -> {A("kubectl.kubernetes.io/last-applied-configuration", "c-lac"), A("internal.k8s.io/z", "c-z"),
                         A("service.beta.kubernetes.io/lb", "c-deep1"), A("internal.config.k8s.io/w", "c-deep2")}
    [] b = "ext"     -> {A(ExtNameKey, "c-ext")}
    [] b = "compRef" -> {S2("compositionRef", "name", "c-comp")}
    [] b = "compSel" -> {S3("compositionSelector", "matchLabels", "sel", "c-sel")}
    [] b = "revRef"  -> {S2("compositionRevisionRef", "name", "c-rev")}
    [] b = "revSel"  -> {S3("compositionRevisionSelector", "matchLabels", "sel", "c-revsel")}
    [] b = "delPol"  -> {S1("compositeDeletePolicy", "Foreground")}
    [] b = "resRef"  -> {S2("resourceRef", "apiVersion", Id.xrApiVersion), S2("resourceRef", "kind", Id.xrKind),
                         S2("resourceRef", "name", Id.xrName)}
    [] b = "pubTo"   -> {S2("publishConnectionDetailsTo", "name", "c-pub")}
    [] b = "wcsr"    -> {S2("writeConnectionSecretToRef", "name", "c-secret")}
    [] b = "u1"      -> {S2("u1", "a", "c-u1a"), S2("u1", "resourceRef", "c-u1rr"), S2("u1", "claimRef", "c-u1cr")}
    [] b = "u2"      -> {S1("u2", "c-u2")}
    \* not in the claim CRD: the API server prunes them (the quantifier's restriction)
    [] b = "junk"    -> {S2("claimRef", "name", "evil"), S3("resourceRefs", "0", "name", "evil"), S1("zz", "junk"),
                         S2("u1", "zz", "junk-nested")}
    [] b = "cond"    -> {T3("conditions", "0", "type", "Ready"), T3("conditions", "0", "status", "False"),
                         T3("conditions", "0", "reason", "c-waiting"),
                         T3("conditions", "0", "lastTransitionTime", "2024-01-01T00:00:00Z")}
    [] b = "cd"      -> {T2("connectionDetails", "lastPublishedTime", "2024-01-02T00:00:00Z")}
    [] b = "us"      -> {T1("us", "c-us-old")}
    [] b = "u1c"     -> {T2("u1", "conditions", "c-u1c-old")}

PolEntry(pol) == IF pol = "none" THEN {} ELSE {S1("compositionUpdatePolicy", pol)}

\* the claim as the API server stores it: unknown fields pruned
Declared(p) == IsSpec(p) => (/\ Top(p) \in ClaimMachinery \cup {"u1", "u2"}
                             /\ (Top(p) = "u1" => p[3] \in {"a", "resourceRef", "claimRef"}))
Prune(cm) == {e \in cm : Declared(e.p)}

XRBits == {"xlabPrev", "xlabOwn", "xlabR", "xannPrev", "xannR", "xext", "xcompRef", "xcompSel", "xrevRef", "xrevSel",
           "xclaimRef", "xresRefs", "xpubTo", "xwcsr", "xu1", "xu2", "xcond", "xcd", "xcct", "xus", "xu1c", "same"}

M(e, m) == [p |-> e.p, v |-> e.v, m |-> m]
\* sm: the XR's claim-derived values equal the claim's current ones (steady state) or are stale
XRGroup(b, sm) ==
  LET V(cv, xv) == IF sm THEN cv ELSE xv IN
  CASE b = "xlabPrev"  -> {M(L("app", V("c-app", "x-app")), "claim"), M(L("example.org/team", V("c-team", "x-team")), "claim"),
                           M(L("example.org/k8s.io", V("c-tricky", "x-tricky")), "claim")}
    [] b = "xlabOwn"   -> {M(L("xr-own", "x-own"), "xr")}
    \* the XR's own reserved entries; one key collides with a reserved key of the claim
    [] b = "xlabR"     -> {M(L("kubernetes.io/arch", "x-arch"), "xr"), M(L("topology.kubernetes.io/zone", "x-zone"), "xr")}
    [] b = "xannPrev"  -> {M(A("note", V("c-note", "x-note")), "claim"), M(A("example.org/a", V("c-a", "x-a")), "claim")}
    [] b = "xannR"     -> {M(A("kubectl.kubernetes.io/last-applied-configuration", "x-lac"), "xr")}
    [] b = "xext"      -> {M(A(ExtNameKey, "x-ext"), "xr")}
    [] b = "xcompRef"  -> {M(S2("compositionRef", "name", V("c-comp", "x-comp")), "xr")}
    [] b = "xcompSel"  -> {M(S3("compositionSelector", "matchLabels", "sel", V("c-sel", "x-sel")), "claim")}
    [] b = "xrevRef"   -> {M(S2("compositionRevisionRef", "name", V("c-rev", "x-rev")), "xr")}
    [] b = "xrevSel"   -> {M(S3("compositionRevisionSelector", "matchLabels", "sel", V("c-revsel", "x-revsel")), "claim")}
    [] b = "xclaimRef" -> {M(e, "claim") : e \in ClaimRefOf(Id) \cup ClaimLabelsOf(Id)}
    [] b = "xresRefs"  -> {M(S3("resourceRefs", "0", "apiVersion", "nop.example.org/v1"), "xr"),
                           M(S3("resourceRefs", "0", "kind", "NopResource"), "xr"),
                           M(S3("resourceRefs", "0", "name", "x-composed-0"), "xr"),
                           M(S3("resourceRefs", "1", "apiVersion", "nop.example.org/v1"), "xr"),
                           M(S3("resourceRefs", "1", "kind", "NopResource"), "xr"),
                           M(S3("resourceRefs", "1", "name", "x-composed-1"), "xr")}
    [] b = "xpubTo"    -> {M(S2("publishConnectionDetailsTo", "name", "x-pub"), "xr")}
    [] b = "xwcsr"     -> {M(S2("writeConnectionSecretToRef", "name", "x-secret"), "xr"),
                           M(S2("writeConnectionSecretToRef", "namespace", "crossplane-system"), "xr")}
    [] b = "xu1"       -> {M(S2("u1", "a", V("c-u1a", "x-u1a")), "claim"), M(S2("u1", "resourceRef", V("c-u1rr", "x-u1rr")), "claim"),
                           M(S2("u1", "claimRef", V("c-u1cr", "x-u1cr")), "claim")}
    [] b = "xu2"       -> {M(S1("u2", V("c-u2", "x-u2")), "claim")}
    [] b = "xcond"     -> {M(T3("conditions", "0", "type", "Ready"), "xr"), M(T3("conditions", "0", "status", "True"), "xr"),
                           M(T3("conditions", "0", "reason", "x-available"), "xr"),
                           M(T3("conditions", "0", "lastTransitionTime", "2024-02-01T00:00:00Z"), "xr"),
                           M(T3("conditions", "1", "type", "Custom"), "xr"), M(T3("conditions", "1", "status", "True"), "xr"),
                           M(T3("conditions", "1", "reason", "x-custom"), "xr"),
                           M(T3("conditions", "1", "lastTransitionTime", "2024-02-01T00:00:00Z"), "xr")}
    [] b = "xcd"       -> {M(T2("connectionDetails", "lastPublishedTime", "2024-02-02T00:00:00Z"), "xr")}
    [] b = "xcct"      -> {M(T2("claimConditionTypes", "0", "Custom"), "xr")}
    [] b = "xus"       -> {M(T1("us", "x-us"), "xr")}
    [] b = "xu1c"      -> {M(T2("u1", "conditions", "x-u1c"), "xr")}
    [] b = "same"      -> {}

\* what the XR controller adds (where absent) before the extra re-sync round
FillBits == {"xcompRef", "xrevRef", "xresRefs", "xwcsr", "xcond", "xcd", "xcct", "xus", "xu1c"}
Fill     == UNION {XRGroup(b, FALSE) : b \in FillBits}

-----------------------------------------------------------------------------
(* the family of presence sets *)
\* Each side (claim, XR) starts from a base - nothing present / everything present - and the
\* bits of a small set S are toggled: every combination of values of any Strength bits occurs in
\* each of the four base contexts (t = 2: pairwise interaction classes).
Small(B, t) ==
  {{}} \cup (IF t >= 1 THEN {{a} : a \in B} ELSE {})
       \cup (IF t >= 2 THEN {{a, b} : a \in B, b \in B} ELSE {})
       \cup (IF t >= 3 THEN {{a, b, c} : a \in B, b \in B, c \in B} ELSE {})
Pres(full, B, S) == IF full THEN B \ S ELSE B \cap S

\* a re-synced claim always references its XR
ClaimVar(mode) == IF mode = "first" THEN ClaimBits ELSE ClaimBits \ {"resRef"}
VarBits(mode)  == IF mode = "first" THEN ClaimBits ELSE ClaimVar(mode) \cup XRBits

\* beyond Strength: PairMod > 0 adds the pairs {BitSeq[i], BitSeq[j]} with (31 i + 17 j + seed) % PairMod = 0,
\* a different slice of the pairwise classes for every VERIF_SEED (quick tier)
BitSeq == SetToSeq(ClaimBits \cup XRBits)
Seed   == IF "VERIF_SEED" \in DOMAIN IOEnv THEN atoi(IOEnv.VERIF_SEED) ELSE 1
SeededPairs(B) ==
  IF PairMod = 0 THEN {}
  ELSE LET idx == {i \in DOMAIN BitSeq : BitSeq[i] \in B} IN
       {{BitSeq[q[1]], BitSeq[q[2]]} :
          q \in {r \in idx \X idx : r[1] < r[2] /\ (31 * r[1] + 17 * r[2] + Seed) % PairMod = 0}}
Toggles(B) == Small(B, Strength) \cup SeededPairs(B)

Build(sm, cp, xp, cb0, xb, same) ==
  LET mode  == sm[2]
      cb    == cb0 \cup (IF mode = "first" THEN {} ELSE {"resRef"})
      xpol  == IF xp = "eq" THEN cp ELSE xp
  IN [syncer |-> sm[1], mode |-> mode, id |-> Id,
      cm   |-> UNION {ClaimGroup(b) : b \in cb} \cup PolEntry(cp),
      xr   |-> IF mode = "first" THEN {}
               ELSE UNION {XRGroup(b, same) : b \in xb} \cup {M(e, "claim") : e \in PolEntry(xpol)},
      fill |-> Fill]

IsInput(x) ==
  \E sm \in SyncModes : \E cp \in ClaimPols : \E xp \in XRPols : \E fc \in BOOLEAN : \E fx \in BOOLEAN :
  \E S \in Toggles(VarBits(sm[2])) :
    LET xb == Pres(fx, XRBits, S) IN
    x = Build(sm, cp, xp, Pres(fc, ClaimVar(sm[2]), S), xb, "same" \in xb)

-----------------------------------------------------------------------------
NoExp == [c1 |-> {}, x1 |-> {}, own |-> {}]
Model(in) ==
  IF in.syncer = "ssa" THEN SyncSSA(Prune(in.cm), in.xr, in.id, in.mode = "resync")
  ELSE SyncCSA(Prune(in.cm), in.xr, in.id)

Init    == IsInput(input) /\ exp = NoExp /\ done = FALSE
Compute == ~done /\ done' = TRUE /\ exp' = Model(input) /\ UNCHANGED input
Spec    == Init /\ [][Compute]_vars

\* scenario emission: the input only
Emit == PrintT(<<"VEC", ToJson(input)>>)

-----------------------------------------------------------------------------
(* the oracle on the design model *)
C0 == Prune(input.cm)
X0 == Strip(input.xr)
C1 == exp.c1
X1 == exp.x1
InvNoLeakToXR   == done => /\ NoLeakToXR_ClaimOnly(X1) /\ NoLeakToXR_ConnSecret(X0, X1) /\ NoLeakToXR_Other(C0, X0, X1)
InvPropagated   == done => /\ UserSpecPropagated(C0, X1, TRUE) /\ SelectionPropagated(C0, X1, TRUE)
                           /\ MetaPropagated(C0, X1, TRUE) /\ ExternalNameToXR(C0, X0, X1, TRUE)
InvRevision     == done => /\ RevisionToXR_OnlyIfManual(C0, X0, X1) /\ RevisionToClaim_OnlyIfAutomatic(C0, X0, X1, C1)
InvReserved     == done => ReservedNotPropagated(X0, X1) /\ MetaPropagated_Lookalike(C0, X1, TRUE)
InvXRSide       == done => /\ XRSide_ResourceRefs(X0, X1) /\ XRSide_ConnSecret(X0, X1) /\ XRSide_ExternalName(X0, X1)
                           /\ XRSide_Ownership(exp.own)
InvClaimRef     == done => ClaimRefSet(X1, input.id, TRUE)
InvUserStatus   == done => UserStatusToClaim(C0, X1, C1, input.syncer, TRUE)
InvNoLeakToClaim == done => /\ NoLeakToClaim_Status(C0, C1) /\ NoLeakToClaim_OtherStatus(C0, X1, C1)
                            /\ NoLeakToClaim_Spec(C0, C1) /\ NoLeakToClaim_SpecSSA(C0, C1, input.syncer)
                            /\ NoLeakToClaim_Meta(C0, X0, X1, C1)
InvCompRef      == done => CompositionRefToClaim_OnlyIfNone(C0, X0, X1, C1)
InvExtToClaim   == done => ExternalNameToClaim(X1, C1, TRUE)

\* witnesses for anti-vacuity (expected to be VIOLATED when listed in a cfg): each antecedent is reachable
WitnessRevToXR    == ~(done /\ \E x \in Under(X1, {RevRef}) : x \notin X0)
WitnessRevToClaim == ~(done /\ \E c \in Under(C1, {RevRef}) : c \notin C0)
WitnessCompToClaim == ~(done /\ \E c \in Under(C1, {"compositionRef"}) : c \notin C0)
WitnessUserStatus == ~(done /\ \E x \in StatusOf(X1) : UserStatusTop(Top(x.p)) /\ x \notin C0 /\ x \in C1)
WitnessExtKept    == ~(done /\ Ext(X0) # "none" /\ Ext(C0) # "none" /\ Ext(C0) # Ext(X0))
=============================================================================
