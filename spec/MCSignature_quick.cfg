SPECIFICATION Spec
CONSTANTS
  InitRevs <- RevFresh
  InitICs <- IcSome
  InitVst <- VstDefault
  InitOk <- OkBoth
  Feats <- OnlyTrue
  Orders <- Fwd
  ICs <- IcsVb
  Imgs <- ImgsNone
  MaxSig = 2
  MaxRev = 2
  MaxFaults = 1
  MaxEnv = 1
  MidEnv = TRUE
  EnvKinds <- EnvAll
  FaultKinds <- FaultsAll
  GateOn = TRUE
  GateSkipsInactive = TRUE
  Sticky = TRUE
  VecICs <- NoICs
  VecEvICs <- NoICs
  VecImgs <- NoICs
VIEW view
ACTION_CONSTRAINT Emit
CHECK_DEADLOCK FALSE
INVARIANTS GateSafe RepairedSig VerdictShape RepairedRev InactiveDeactivates
