SPECIFICATION Spec
CONSTANTS
  InitRevs <- RevOdd
  InitICs <- IcOdd
  InitVst <- VstDefault
  InitOk <- OkMany
  Feats <- OnlyTrue
  Orders <- BothOrders
  ICs <- NoICs
  Imgs <- ImgsNone
  MaxSig = 2
  MaxRev = 1
  MaxFaults = 1
  MaxEnv = 0
  MidEnv = TRUE
  EnvKinds <- NoEnv
  FaultKinds <- FaultsFew
  GateOn = TRUE
  GateSkipsInactive = TRUE
  Sticky = TRUE
  VecICs <- NoICs
  VecEvICs <- NoICs
  VecImgs <- NoICs
VIEW view
ACTION_CONSTRAINT Emit
CHECK_DEADLOCK FALSE
INVARIANTS GateSafe RepairedSig VerdictShape RepairedRev InactiveDeactivates
