SPECIFICATION Spec
CONSTANTS
  CSeq <- CSeq3
  Shape <- Shape3
  InitC = {"c1", "c2", "c3"}
  Sels = {"none", "x"}
  MaxEdits = 3
  MaxStrips = 1
  MaxFaults = 1
  MaxRecs = 4
  MidEnv = TRUE
  MidFetch = TRUE
  FixLatest <- FixLatestSel
VIEW view
ACTION_CONSTRAINT Emit
CHECK_DEADLOCK FALSE
INVARIANTS OnePerContent CreateFree CurrentHighestIfFixed
PROPERTIES Faithful MonotoneIfFixed Manual Automatic
