// Driver for spec/Teardown.tla: the real definition, offered, claim and
// composite reconcilers run on one simapi store, each in its own goroutine,
// paused before every API call (or engine call) whose timing matters; a TLC
// schedule says which actor moves next, so interleavings like "the claim
// reconciler runs between the XRD reconciler's List and its Stop" are replayed
// deterministically, with no hook in the repository.
package main

import (
	"context"
	"encoding/json"
	"flag"
	"fmt"
	"os"
	"sort"
	"strings"
	"time"

	"google.golang.org/protobuf/types/known/structpb"
	corev1 "k8s.io/api/core/v1"
	extv1 "k8s.io/apiextensions-apiserver/pkg/apis/apiextensions/v1"
	metav1 "k8s.io/apimachinery/pkg/apis/meta/v1"
	"k8s.io/apimachinery/pkg/apis/meta/v1/unstructured"
	"k8s.io/apimachinery/pkg/runtime"
	"k8s.io/apimachinery/pkg/runtime/schema"
	"k8s.io/apimachinery/pkg/types"
	"k8s.io/utils/ptr"
	"sigs.k8s.io/controller-runtime/pkg/client"
	"sigs.k8s.io/controller-runtime/pkg/reconcile"

	"github.com/crossplane/crossplane-runtime/pkg/resource"

	fnv1 "github.com/crossplane/crossplane/apis/apiextensions/fn/proto/v1"
	v1 "github.com/crossplane/crossplane/apis/apiextensions/v1"
	"github.com/crossplane/crossplane/internal/controller/apiextensions/claim"
	"github.com/crossplane/crossplane/internal/controller/apiextensions/composite"
	"github.com/crossplane/crossplane/internal/controller/apiextensions/definition"
	"github.com/crossplane/crossplane/internal/controller/apiextensions/offered"
	"github.com/crossplane/crossplane/internal/engine"
	"github.com/crossplane/crossplane/internal/xcrd"
	"github.com/crossplane/crossplane/zzverif/scen"
	"github.com/crossplane/crossplane/zzverif/simapi"
	"github.com/crossplane/crossplane/zzverif/trace"
)

const (
	xrdName  = "xthings.ex.org"
	crdCName = "things.ex.org"
	cmNS     = "ns"
	cmName   = "cm"
	finDef   = "defined.apiextensions.crossplane.io"
	finOff   = "offered.apiextensions.crossplane.io"
	finClaim = "finalizer.apiextensions.crossplane.io"
	finXR    = "composite.apiextensions.crossplane.io"
	finCRD   = "customresourcecleanup.apiextensions.k8s.io"
)

var (
	xrGVK  = schema.GroupVersionKind{Group: "ex.org", Version: "v1", Kind: "XThing"}
	cmGVK  = schema.GroupVersionKind{Group: "ex.org", Version: "v1", Kind: "Thing"}
	xrdKey = simapi.Key{Group: "apiextensions.crossplane.io", Kind: "CompositeResourceDefinition", Name: xrdName}
	crdX   = simapi.Key{Group: "apiextensions.k8s.io", Kind: "CustomResourceDefinition", Name: xrdName}
	crdC   = simapi.Key{Group: "apiextensions.k8s.io", Kind: "CustomResourceDefinition", Name: crdCName}
	cmKey  = simapi.Key{Group: "ex.org", Kind: "Thing", Namespace: cmNS, Name: cmName}
)

type actor struct {
	name    string
	c       *simapi.Client
	rec     func() error
	running bool        // a reconcile goroutine exists
	at      chan string // the goroutine reports "gate:<abs>" (paused before that call) or "done"
	release chan string // the scheduler answers "ok" or "error"
	pending string      // abs of the call it is paused at
	listed  int         // instances seen by this reconcile's last List (-1: none yet)
	recNo   int
	xrGets  int    // Gets of the XR in this reconcile (claim actor)
	lastAbs string // classification of the call in flight
}

type world struct {
	s      *simapi.Server
	tw     *trace.Writer
	scen   string
	actors map[string]*actor
	cur    *actor
	runX   bool
	runC   bool
	fg     bool
	drift  int
	hung   bool
}

// ---- the engine the XRD reconcilers talk to: it only records Start / Stop
type recEngine struct {
	w  *world
	a  string
	c  client.Client
	ix client.FieldIndexer
}

func (e *recEngine) which(name string) string {
	if strings.HasPrefix(name, "claim/") {
		return "c"
	}
	return "x"
}
func (e *recEngine) Start(name string, _ ...engine.ControllerOption) error {
	if e.which(name) == "c" {
		e.w.runC = true
	} else {
		e.w.runX = true
	}
	return nil
}
func (e *recEngine) Stop(_ context.Context, name string) error {
	abs := "stop:" + e.which(name)
	a := e.w.actors[e.a]
	if d := e.w.gate(a, abs); d == "error" {
		e.w.emitCall(a, abs, "stop", "engine", "error", false)
		return fmt.Errorf("injected engine error")
	}
	if e.which(name) == "c" {
		e.w.runC = false
	} else {
		e.w.runX = false
	}
	e.w.emitCall(a, abs, "stop", "engine", "ok", true)
	return nil
}
func (e *recEngine) IsRunning(name string) bool {
	if e.which(name) == "c" {
		return e.w.runC
	}
	return e.w.runX
}
func (e *recEngine) GetWatches(string) ([]engine.WatchID, error) { return nil, nil }
func (e *recEngine) StartWatches(string, ...engine.Watch) error  { return nil }
func (e *recEngine) StopWatches(context.Context, string, ...engine.WatchID) (int, error) {
	return 0, nil
}
func (e *recEngine) GetCached() client.Client             { return e.c }
func (e *recEngine) GetUncached() client.Client           { return e.c }
func (e *recEngine) GetFieldIndexer() client.FieldIndexer { return e.ix }

// gate pauses the actor's goroutine before a call whose timing matters.
func (w *world) gate(a *actor, abs string) string {
	a.at <- "gate:" + abs
	return <-a.release
}

// classify says whether a call is one of the model's calls ("" = not modelled: it passes freely).
func (w *world) classify(a *actor, c *simapi.Call) string {
	verb := c.Verb
	if strings.HasPrefix(verb, "patch-") {
		verb = "patch"
	}
	if c.Sub != "" {
		return ""
	}
	switch c.Key.Kind {
	case "CompositeResourceDefinition":
		if verb == "get" && (a.name == "def" || a.name == "off") {
			return "get:xrd"
		}
		if verb == "update" && (a.name == "def" || a.name == "off") {
			return "update:xrd"
		}
	case "CustomResourceDefinition":
		which := "crdx"
		if c.Key.Name == crdCName {
			which = "crdc"
		}
		if (verb == "get" || verb == "delete") && (a.name == "def" || a.name == "off") {
			return verb + ":" + which
		}
	case "XThing":
		switch a.name {
		case "def":
			if verb == "deleteallof" || verb == "list" {
				return verb + ":xr"
			}
		case "claim":
			if verb == "get" {
				a.xrGets++
				if a.xrGets == 1 {
					return "get:xr"
				}
				if a.xrGets == 2 {
					return "get2:xr" // the Get of client.Apply
				}
				return ""
			}
			if verb == "delete" {
				return "delete:xr"
			}
			if verb == "create" || verb == "patch" || verb == "update" {
				return "apply:xr"
			}
		case "xr":
			if verb == "get" && c.Idx == 1 {
				return "get:xr"
			}
			if verb == "update" {
				// only the finalizer write is modelled: the XR lacks our finalizer, or is being deleted
				if cur := w.s.Peek(c.Key); cur != nil && (cur.GetDeletionTimestamp() != nil || !has(cur.GetFinalizers(), finXR)) {
					return "update:xr"
				}
			}
		}
	case "Thing":
		switch a.name {
		case "off":
			if verb == "list" || verb == "delete" {
				return verb + ":claim"
			}
		case "claim":
			if verb == "get" && c.Idx == 1 {
				return "get:claim"
			}
			if verb == "update" && c.Obj != nil {
				// only writes that change the finalizer or the resource reference are modelled
				cur := w.s.Peek(c.Key)
				if cur == nil {
					return "update:claim"
				}
				r1, _, _ := unstructured.NestedString(cur.Object, "spec", "resourceRef", "name")
				r2, _, _ := unstructured.NestedString(c.Obj.Object, "spec", "resourceRef", "name")
				if has(cur.GetFinalizers(), finClaim) != has(c.Obj.GetFinalizers(), finClaim) || r1 != r2 {
					return "update:claim"
				}
			}
		}
	}
	return ""
}

func has(ss []string, s string) bool {
	for _, x := range ss {
		if x == s {
			return true
		}
	}
	return false
}

// ---- projection
func (w *world) post() map[string]any {
	out := map[string]any{}
	x := w.s.Peek(xrdKey)
	xr := map[string]any{"ex": false, "del": false, "fd": false, "fo": false}
	var xuid types.UID
	if x != nil {
		xuid = x.GetUID()
		xr = map[string]any{"ex": true, "del": x.GetDeletionTimestamp() != nil, "fd": has(x.GetFinalizers(), finDef), "fo": has(x.GetFinalizers(), finOff)}
	}
	out["xrd"] = xr
	crd := func(k simapi.Key) map[string]any {
		o := w.s.Peek(k)
		if o == nil {
			return map[string]any{"st": "none", "ours": false}
		}
		st := "live"
		if o.GetDeletionTimestamp() != nil {
			st = "deleting"
		}
		ours := false
		if c := metav1.GetControllerOf(o); c != nil && c.UID == xuid && xuid != "" {
			ours = true
		}
		return map[string]any{"st": st, "ours": ours}
	}
	out["crdx"], out["crdc"] = crd(crdX), crd(crdC)
	cms := []any{}
	for _, o := range w.s.All(cmGVK.GroupKind()) {
		ref, _, _ := unstructured.NestedString(o.Object, "spec", "resourceRef", "name")
		if ref == "" {
			ref = "none"
		}
		cms = append(cms, map[string]any{"name": o.GetName(), "del": o.GetDeletionTimestamp() != nil, "fin": has(o.GetFinalizers(), finClaim), "ref": ref})
	}
	out["claims"] = cms
	xrs := []any{}
	for _, o := range w.s.All(xrGVK.GroupKind()) {
		bound, _, _ := unstructured.NestedString(o.Object, "spec", "claimRef", "name")
		xrs = append(xrs, map[string]any{"name": o.GetName(), "del": o.GetDeletionTimestamp() != nil, "fin": has(o.GetFinalizers(), finXR),
			"fg": has(o.GetFinalizers(), metav1.FinalizerDeleteDependents), "bound": bound != ""})
	}
	out["xrs"] = xrs
	out["runx"], out["runc"] = w.runX, w.runC
	return out
}

func (w *world) emit(ev string, m map[string]any) {
	base := map[string]any{"ev": ev, "scenario": w.scen, "actor": "", "abs": "", "verb": "", "kind": "", "outcome": "", "applied": false,
		"listed": -1, "fg": w.fg, "post": w.post()}
	for k, v := range m {
		base[k] = v
	}
	w.tw.Emit(base)
}

func (w *world) emitCall(a *actor, abs, verb, kind, outcome string, applied bool) {
	w.emit("call", map[string]any{"actor": a.name, "abs": abs, "verb": verb, "kind": kind, "outcome": outcome, "applied": applied, "listed": a.listed})
}

// ---- world construction
func newWorld(tw *trace.Writer, id string, withClaim, foreground bool) *world {
	sch := runtime.NewScheme()
	_ = v1.AddToScheme(sch)
	_ = extv1.AddToScheme(sch)
	_ = corev1.AddToScheme(sch)
	s := simapi.NewServer(sch)
	s.Namespaced(cmGVK.GroupKind())
	w := &world{s: s, tw: tw, scen: id, actors: map[string]*actor{}, runX: true, runC: true, fg: foreground}

	xrd := &v1.CompositeResourceDefinition{ObjectMeta: metav1.ObjectMeta{Name: xrdName, Finalizers: []string{finDef, finOff}}}
	xrd.Spec.Group = "ex.org"
	xrd.Spec.Names = extv1.CustomResourceDefinitionNames{Kind: "XThing", Plural: "xthings", Singular: "xthing", ListKind: "XThingList"}
	xrd.Spec.ClaimNames = &extv1.CustomResourceDefinitionNames{Kind: "Thing", Plural: "things", Singular: "thing", ListKind: "ThingList"}
	xrd.Spec.Versions = []v1.CompositeResourceDefinitionVersion{{Name: "v1", Served: true, Referenceable: true,
		Schema: &v1.CompositeResourceValidation{OpenAPIV3Schema: runtime.RawExtension{Raw: []byte(`{"type":"object","properties":{"spec":{"type":"object","properties":{"size":{"type":"string"}}}}}`)}}}}
	xu := s.Put(xrd)
	xrd.SetUID(xu.GetUID())
	// the CRDs as the two reconcilers rendered and applied them, plus Kubernetes' instance-cleanup finalizer
	cx, err := xcrd.ForCompositeResource(xrd)
	if err != nil {
		panic(err)
	}
	cc, err := xcrd.ForCompositeResourceClaim(xrd)
	if err != nil {
		panic(err)
	}
	for _, c := range []*extv1.CustomResourceDefinition{cx, cc} {
		c.Finalizers = []string{finCRD}
		c.Status.Conditions = []extv1.CustomResourceDefinitionCondition{{Type: extv1.Established, Status: extv1.ConditionTrue}}
		s.Put(c)
	}
	rev := &v1.CompositionRevision{ObjectMeta: metav1.ObjectMeta{Name: "rev1", Labels: map[string]string{v1.LabelCompositionName: "comp1"}}}
	rev.Spec.CompositeTypeRef = v1.TypeReference{APIVersion: "ex.org/v1", Kind: "XThing"}
	rev.Spec.Revision = 1
	m := v1.CompositionModePipeline
	rev.Spec.Mode = &m
	rev.Spec.Pipeline = []v1.PipelineStep{{Step: "s1", FunctionRef: v1.FunctionReference{Name: "fn1"}}}
	s.Put(rev)
	if withClaim {
		xr := &unstructured.Unstructured{Object: map[string]any{}}
		xr.SetGroupVersionKind(xrGVK)
		xr.SetName("cm-abcde")
		xr.SetFinalizers([]string{finXR})
		xr.SetLabels(map[string]string{"crossplane.io/composite": "cm-abcde", "crossplane.io/claim-name": cmName, "crossplane.io/claim-namespace": cmNS})
		_ = unstructured.SetNestedField(xr.Object, "comp1", "spec", "compositionRef", "name")
		_ = unstructured.SetNestedField(xr.Object, "rev1", "spec", "compositionRevisionRef", "name")
		_ = unstructured.SetNestedField(xr.Object, "Manual", "spec", "compositionUpdatePolicy")
		_ = unstructured.SetNestedMap(xr.Object, map[string]any{"apiVersion": "ex.org/v1", "kind": "Thing", "namespace": cmNS, "name": cmName}, "spec", "claimRef")
		s.Put(xr)
		cm := &unstructured.Unstructured{Object: map[string]any{}}
		cm.SetGroupVersionKind(cmGVK)
		cm.SetNamespace(cmNS)
		cm.SetName(cmName)
		cm.SetFinalizers([]string{finClaim})
		_ = unstructured.SetNestedField(cm.Object, "comp1", "spec", "compositionRef", "name")
		_ = unstructured.SetNestedField(cm.Object, "rev1", "spec", "compositionRevisionRef", "name")
		_ = unstructured.SetNestedField(cm.Object, "Manual", "spec", "compositionUpdatePolicy")
		_ = unstructured.SetNestedMap(cm.Object, map[string]any{"apiVersion": "ex.org/v1", "kind": "XThing", "name": "cm-abcde"}, "spec", "resourceRef")
		if foreground {
			_ = unstructured.SetNestedField(cm.Object, "Foreground", "spec", "compositeDeletePolicy")
		}
		s.Put(cm)
	}

	mk := func(name string) *actor {
		a := &actor{name: name, c: simapi.NewClient(s, name), listed: -1}
		a.c.Intercept = func(c *simapi.Call) simapi.Decision {
			abs := w.classify(a, c)
			a.lastAbs = abs
			if abs == "" {
				return simapi.Proceed
			}
			if w.gate(a, abs) == "error" {
				return simapi.FailError
			}
			return simapi.Proceed
		}
		w.actors[name] = a
		return a
	}
	def, off, cl, xa := mk("def"), mk("off"), mk("claim"), mk("xr")
	xrdReq := reconcile.Request{NamespacedName: types.NamespacedName{Name: xrdName}}
	dr := definition.NewReconciler(resource.ClientApplicator{Client: def.c, Applicator: resource.NewAPIPatchingApplicator(def.c)},
		definition.WithControllerEngine(&recEngine{w: w, a: "def", c: xa.c, ix: xa.c}))
	def.rec = func() error { _, err := dr.Reconcile(context.Background(), xrdReq); return err }
	or := offered.NewReconciler(resource.ClientApplicator{Client: off.c, Applicator: resource.NewAPIPatchingApplicator(off.c)},
		offered.WithControllerEngine(&recEngine{w: w, a: "off", c: cl.c, ix: cl.c}))
	off.rec = func() error { _, err := or.Reconcile(context.Background(), xrdReq); return err }
	cr := claim.NewReconciler(cl.c, resource.CompositeClaimKind(cmGVK), resource.CompositeKind(xrGVK))
	cl.rec = func() error {
		_, err := cr.Reconcile(context.Background(), reconcile.Request{NamespacedName: types.NamespacedName{Namespace: cmNS, Name: cmName}})
		return err
	}
	fn := composite.FunctionRunnerFn(func(_ context.Context, _ string, req *fnv1.RunFunctionRequest) (*fnv1.RunFunctionResponse, error) {
		xs, _ := structpb.NewStruct(map[string]any{"apiVersion": "ex.org/v1", "kind": "XThing"})
		return &fnv1.RunFunctionResponse{Desired: &fnv1.State{Composite: &fnv1.Resource{Resource: xs}}, Context: req.GetContext()}, nil
	})
	fc := composite.NewFunctionComposer(xa.c, xa.c, composite.NewFetchingFunctionRunner(fn, composite.NewExistingExtraResourcesFetcher(xa.c)))
	xrr := composite.NewReconciler(xa.c, xa.c, resource.CompositeKind(xrGVK), composite.WithComposer(fc))
	xa.rec = func() error {
		// the XR controller reconciles whichever XR exists (there is at most one per claim in this world)
		for _, o := range w.s.All(xrGVK.GroupKind()) {
			_, err := xrr.Reconcile(context.Background(), reconcile.Request{NamespacedName: types.NamespacedName{Name: o.GetName()}})
			return err
		}
		return nil
	}
	s.OnEvent = func(e *simapi.Event) {
		a := w.actors[e.Actor]
		if a == nil {
			return
		}
		abs := a.lastAbs
		if abs == "" {
			return
		}
		if e.Verb == "list" && e.Outcome == "ok" {
			a.listed = len(w.s.All(schema.GroupKind{Group: e.Group, Kind: e.Kind}))
		}
		kind := map[string]string{"CompositeResourceDefinition": "xrd", "CustomResourceDefinition": "crd", "XThing": "xr", "Thing": "claim"}[e.Kind]
		w.emitCall(a, abs, e.Verb, kind, e.Outcome, e.Applied && !e.DryRun)
	}
	_ = ptr.To(true)
	return w
}

// ---- scheduler
type entry struct {
	T string `json:"t"`
	A string `json:"a"`
	K string `json:"k"`
	F string `json:"f"`
}

func (w *world) waitFor(a *actor) (string, bool) {
	select {
	case m := <-a.at:
		return m, true
	case <-time.After(120 * time.Second): // (15 s was not enough on a machine loaded several times over: 7 schedules "hung" in a thorough run next to four other jobs)
		return "", false
	}
}

// advance lets actor a perform the call named by the model entry e (starting a reconcile if it has none).
func (w *world) advance(e entry) {
	a := w.actors[e.A]
	if !a.running {
		a.running, a.listed, a.xrGets = true, -1, 0
		a.recNo++
		a.at, a.release = make(chan string, 1), make(chan string, 1)
		a.c.BeginReconcile()
		go func() {
			_ = a.rec()
			a.at <- "done"
		}()
		m, ok := w.waitFor(a)
		if !ok {
			w.hung = true
			return
		}
		if m == "done" { // the reconcile made no modelled call at all
			a.running = false
			w.drift++
			return
		}
		a.pending = strings.TrimPrefix(m, "gate:")
	}
	if a.pending != e.K {
		w.drift++
	}
	f := "ok"
	if e.F == "error" {
		f = "error"
	}
	a.release <- f
	m, ok := w.waitFor(a)
	if !ok {
		w.hung = true
		return
	}
	if m == "done" {
		a.running, a.pending = false, ""
		w.emit("end", map[string]any{"actor": a.name})
		return
	}
	a.pending = strings.TrimPrefix(m, "gate:")
}

// finish lets every paused reconcile run to its end.
func (w *world) finish() {
	names := []string{"def", "off", "claim", "xr"}
	for _, n := range names {
		a := w.actors[n]
		for a.running && !w.hung {
			a.release <- "ok"
			m, ok := w.waitFor(a)
			if !ok {
				w.hung = true
				return
			}
			if m == "done" {
				a.running = false
				w.emit("end", map[string]any{"actor": a.name})
			}
		}
	}
}

func (w *world) env(k string) {
	strip := func(key simapi.Key, fin string) {
		w.s.Mutate(key, func(u *unstructured.Unstructured) {
			out := []string{}
			for _, f := range u.GetFinalizers() {
				if f != fin {
					out = append(out, f)
				}
			}
			u.SetFinalizers(out)
		})
	}
	firstXR := func() (simapi.Key, bool) {
		for _, o := range w.s.All(xrGVK.GroupKind()) {
			return simapi.KeyOf(o), true
		}
		return simapi.Key{}, false
	}
	switch k {
	case "delete-xrd":
		w.s.MarkDeleted(xrdKey)
	case "delete-claim", "crd-cleanup-claim":
		w.s.MarkDeleted(cmKey)
	case "delete-xr", "crd-cleanup-xr":
		if key, ok := firstXR(); ok {
			w.s.MarkDeleted(key)
		}
	case "crd-gone-x":
		strip(crdX, finCRD)
	case "crd-gone-c":
		strip(crdC, finCRD)
	case "gc-foreground-xr":
		if key, ok := firstXR(); ok {
			strip(key, metav1.FinalizerDeleteDependents)
		}
	case "strip-claim":
		strip(cmKey, finClaim)
	case "strip-xr":
		if key, ok := firstXR(); ok {
			strip(key, finXR)
		}
	default:
		panic("unknown env step " + k)
	}
	w.emit("env", map[string]any{"actor": "env", "abs": k})
}

type summary struct {
	Scenarios int            `json:"scenarios"`
	Runs      int            `json:"runs"`
	Steps     int            `json:"steps"`
	Events    int            `json:"events"`
	Drift     int            `json:"drift"`
	DriftRuns int            `json:"drift_runs"`
	Hung      int            `json:"hung"`
	Counts    map[string]int `json:"counts"`
	Samples   []any          `json:"samples"`
}

func run(tw *trace.Writer, id string, hist []entry, sum *summary) {
	tw.Boundary()
	w := newWorld(tw, id, hist[0].K == "claim", hist[0].F == "Foreground")
	w.emit("reset", nil)
	for _, e := range hist[1:] {
		sum.Steps++
		switch e.T {
		case "env":
			w.env(e.K)
		case "call":
			// the claim / XR controllers only run while the engine has them running
			if (e.A == "claim" && !w.runC) || (e.A == "xr" && !w.runX) {
				if !w.actors[e.A].running {
					w.drift++
					continue
				}
			}
			w.advance(e)
		}
		if w.hung {
			sum.Hung++
			w.emit("hung", nil)
			fmt.Fprintf(os.Stderr, "scenario %s hung at %+v\n", id, e)
			return
		}
	}
	w.finish()
	sum.Runs++
	sum.Drift += w.drift
	if w.drift > 0 {
		sum.DriftRuns++
	}
}

func main() {
	scenarios := flag.String("scenarios", "", "NDJSON file of TLC schedules")
	tracePath := flag.String("trace", "", "output trace")
	sumPath := flag.String("summary", "", "output summary JSON")
	chunk := flag.Int("chunk", 0, "split the trace into files of about this many events")
	lockfin := flag.Bool("lockfin", false, "the scenarios are LockFin histories (package clause of C08)")
	flag.Parse()
	if *lockfin {
		lockfinMain(*scenarios, *tracePath, *sumPath)
		return
	}
	raws, err := scen.Load(*scenarios)
	if err != nil {
		fmt.Fprintln(os.Stderr, err)
		os.Exit(2)
	}
	tw, err := trace.New(*tracePath, *chunk)
	if err != nil {
		fmt.Fprintln(os.Stderr, err)
		os.Exit(2)
	}
	sum := &summary{}
	for _, raw := range raws {
		var sc struct {
			ID   string  `json:"id"`
			Hist []entry `json:"hist"`
		}
		if err := json.Unmarshal(raw, &sc); err != nil || len(sc.Hist) == 0 {
			fmt.Fprintln(os.Stderr, "bad scenario:", err)
			os.Exit(2)
		}
		sum.Scenarios++
		if len(sum.Samples) < 2 {
			sum.Samples = append(sum.Samples, json.RawMessage(raw))
		}
		run(tw, sc.ID, sc.Hist, sum)
		if sum.Hung >= 3 {
			break
		}
	}
	sum.Events = tw.Lines
	sum.Counts = tw.Counts
	keys := []string{}
	for k := range sum.Counts {
		keys = append(keys, k)
	}
	sort.Strings(keys)
	_ = tw.Close()
	_ = scen.WriteJSON(*sumPath, sum)
}
