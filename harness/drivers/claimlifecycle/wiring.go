package main

import (
	"context"
	"fmt"
	"reflect"
	"strings"
	"time"
	"unsafe"

	kerrors "k8s.io/apimachinery/pkg/api/errors"
	"k8s.io/apimachinery/pkg/apis/meta/v1/unstructured"
	"k8s.io/apimachinery/pkg/runtime"
	"k8s.io/apimachinery/pkg/types"
	kcontroller "sigs.k8s.io/controller-runtime/pkg/controller"
	"sigs.k8s.io/controller-runtime/pkg/client"
	"sigs.k8s.io/controller-runtime/pkg/reconcile"

	"github.com/crossplane/crossplane-runtime/pkg/controller"
	"github.com/crossplane/crossplane-runtime/pkg/event"
	"github.com/crossplane/crossplane-runtime/pkg/feature"
	"github.com/crossplane/crossplane-runtime/pkg/ratelimiter"
	"github.com/crossplane/crossplane-runtime/pkg/reconciler/managed"
	"github.com/crossplane/crossplane-runtime/pkg/resource"
	uclaim "github.com/crossplane/crossplane-runtime/pkg/resource/unstructured/claim"
	ucomposite "github.com/crossplane/crossplane-runtime/pkg/resource/unstructured/composite"

	"github.com/crossplane/crossplane/internal/controller/apiextensions/claim"
	apiextcontroller "github.com/crossplane/crossplane/internal/controller/apiextensions/controller"
	"github.com/crossplane/crossplane/internal/controller/apiextensions/offered"
	"github.com/crossplane/crossplane/internal/engine"
	"github.com/crossplane/crossplane/internal/features"
	"github.com/crossplane/crossplane/zzverif/simapi"
)

// ---------------------------------------------------------------- recording decorators (observation only)

func outcomeOfErr(err error) string {
	switch {
	case err == nil:
		return "ok"
	case err == simapi.ErrCrashed || strings.Contains(err.Error(), simapi.ErrCrashed.Error()):
		return "crashed"
	case kerrors.IsConflict(err):
		return "conflict"
	}
	return "error"
}

type recSyncer struct {
	w    *world
	real claim.CompositeSyncer
}

func (r *recSyncer) Sync(ctx context.Context, cm *uclaim.Unstructured, xr *ucomposite.Unstructured) error {
	r.w.phase = "sync"
	err := r.real.Sync(ctx, cm, xr)
	r.w.phase = "main"
	r.w.syncres = outcomeOfErr(err)
	if err == nil {
		// the XR as the reconciler holds it from here on
		p := r.w.xrProj(&xr.Unstructured)
		a := noAtSync()
		a["ok"] = true
		for _, k := range []string{"id", "ready", "db", "cct", "conds", "synced"} {
			a[k] = p[k]
		}
		if xr.GetCreationTimestamp().Time.IsZero() && xr.GetName() != "" {
			a["id"] = r.w.idOf(xr.GetName())
		}
		r.w.atsync = a
	}
	return err
}

type recUpgrader struct {
	w    *world
	real claim.ManagedFieldsUpgrader
}

func (r *recUpgrader) Upgrade(ctx context.Context, obj client.Object, mgr string) error {
	r.w.phase = "upgrade"
	err := r.real.Upgrade(ctx, obj, mgr)
	r.w.phase = "main"
	r.w.upg = outcomeOfErr(err)
	return err
}

type recPropagator struct {
	w    *world
	real claim.ConnectionPropagator
}

func (r *recPropagator) PropagateConnection(ctx context.Context, to resource.LocalConnectionSecretOwner, from resource.ConnectionSecretOwner) (bool, error) {
	r.w.phase = "propagate"
	ok, err := r.real.PropagateConnection(ctx, to, from)
	r.w.phase = "main"
	switch {
	case err != nil:
		r.w.prop = outcomeOfErr(err)
	case ok:
		r.w.prop = "true"
	default:
		r.w.prop = "false"
	}
	return ok, err
}

type recUnpublisher struct {
	w    *world
	real claim.ConnectionUnpublisher
}

func (r *recUnpublisher) UnpublishConnection(ctx context.Context, so resource.LocalConnectionSecretOwner, c managed.ConnectionDetails) error {
	r.w.phase = "unpublish"
	err := r.real.UnpublishConnection(ctx, so, c)
	r.w.phase = "main"
	r.w.unpub = outcomeOfErr(err)
	return err
}

type recorder struct{ w *world }

func (r *recorder) Event(obj runtime.Object, e event.Event) {
	if _, ok := obj.(*uclaim.Unstructured); !ok {
		return // the offered reconciler's events about the XRD
	}
	r.w.evs = append(r.w.evs, string(e.Type)+":"+string(e.Reason))
	tag := "error"
	for _, p := range [][2]string{
		{"Successfully bound composite resource", "bound"},
		{"Composite resource is not yet ready", "notready"},
		{"Successfully deleted composite resource", "deleted"},
		{"Successfully propagated connection details", "propagated"},
		{"Reconciliation (including deletion) is paused", "paused"},
	} {
		if strings.HasPrefix(e.Message, p[0]) {
			tag = p[1]
		}
	}
	if tag == "error" {
		for _, p := range stepPrefix {
			if strings.HasPrefix(e.Message, p[0]) {
				tag = "error-" + p[1]
			}
		}
	}
	r.w.tags = append(r.w.tags, tag)
}
func (r *recorder) WithAnnotations(...string) event.Recorder { return r }

// ---------------------------------------------------------------- the engine the offered reconciler talks to

type capEngine struct {
	w       *world
	running bool
	opts    []engine.ControllerOption
	watches int
}

func (e *capEngine) Start(_ string, o ...engine.ControllerOption) error {
	e.running, e.opts = true, o
	return nil
}
func (e *capEngine) Stop(context.Context, string) error { e.running = false; return nil }
func (e *capEngine) IsRunning(string) bool              { return e.running }
func (e *capEngine) StartWatches(_ string, ws ...engine.Watch) error {
	e.watches = len(ws)
	return nil
}
func (e *capEngine) GetCached() client.Client { return e.w.c }

// unexported returns an addressable view of a struct field whatever its visibility (observation / decoration only).
func unexported(v reflect.Value, name string) reflect.Value {
	f := v.FieldByName(name)
	if !f.IsValid() {
		panic("no field " + name + " in " + v.Type().String())
	}
	return reflect.NewAt(f.Type(), unsafe.Pointer(f.UnsafeAddr())).Elem()
}

// build runs the real offered.Reconciler on the XRD as stored until it starts the claim controller, and takes the
// reconciler it passes to engine.Start. This is what a (re)started Crossplane pod does.
func (w *world) build() {
	feats := &feature.Flags{}
	if w.syncer == "SSA" {
		feats.Enable(features.EnableBetaClaimSSA)
	}
	eng := &capEngine{w: w}
	or := offered.NewReconciler(offered.NewClientApplicator(w.oc),
		offered.WithControllerEngine(eng),
		offered.WithRecorder(&recorder{w: w}),
		offered.WithOptions(apiextcontroller.Options{Options: controller.Options{
			PollInterval: pollMillis * time.Millisecond, Features: feats, GlobalRateLimiter: ratelimiter.NewGlobal(1000000)}}))
	for i := 0; i < 4 && !eng.running; i++ {
		w.oc.BeginReconcile()
		if _, err := or.Reconcile(context.Background(), reconcile.Request{NamespacedName: types.NamespacedName{Name: xrdName}}); err != nil {
			panic(fmt.Sprintf("offered reconciler: %v", err))
		}
		// the API server establishes the claim CRD
		w.s.Mutate(crdKey, func(u *unstructured.Unstructured) {
			_ = unstructured.SetNestedSlice(u.Object, []any{
				map[string]any{"type": "NamesAccepted", "status": "True", "reason": "NoConflicts", "lastTransitionTime": "2024-01-01T00:00:00Z", "message": ""},
				map[string]any{"type": "Established", "status": "True", "reason": "InitialNamesAccepted", "lastTransitionTime": "2024-01-01T00:00:00Z", "message": ""},
			}, "status", "conditions")
		})
	}
	if !eng.running {
		panic("the offered reconciler did not start the claim controller")
	}
	co := &engine.ControllerOptions{}
	for _, o := range eng.opts {
		o(co)
	}
	ko := unexported(reflect.ValueOf(co).Elem(), "runtime").Interface().(kcontroller.Options)
	w.rec = ko.Reconciler

	// rate limiter -> silent requeue on conflict -> claim.Reconciler: walk down the wrappers, whatever they are
	var chain []string
	cur := reflect.ValueOf(ko.Reconciler)
	for depth := 0; ; depth++ {
		chain = append(chain, cur.Type().String())
		if _, ok := cur.Interface().(*claim.Reconciler); ok || depth > 4 {
			break
		}
		st := cur.Elem()
		var next reflect.Value
		for _, name := range []string{"inner", "Reconciler"} {
			if f := st.FieldByName(name); f.IsValid() {
				next = unexported(st, name).Elem()
			}
		}
		if !next.IsValid() {
			break
		}
		cur = next
	}
	if _, ok := cur.Interface().(*claim.Reconciler); !ok {
		panic("no claim.Reconciler inside " + strings.Join(chain, " -> "))
	}
	for len(chain) < 3 {
		chain = append([]string{"none"}, chain...)
	}
	cr := cur.Elem()
	comp, cl := unexported(cr, "composite"), unexported(cr, "claim")
	syn, prop, unp, upg, fin := unexported(comp, "CompositeSyncer"), unexported(comp, "ConnectionPropagator"), unexported(cl, "ConnectionUnpublisher"), unexported(cr, "managedFields"), unexported(cl, "Finalizer")
	w.wiring = map[string]any{
		"outer": chain[len(chain)-3], "inner": chain[len(chain)-2], "core": chain[len(chain)-1],
		"syncer": fmt.Sprintf("%T", syn.Interface()), "upgrader": fmt.Sprintf("%T", upg.Interface()), "propagator": fmt.Sprintf("%T", prop.Interface()),
		"unpublisher": fmt.Sprintf("%T", unp.Interface()), "finalizer": fmt.Sprintf("%T", fin.Interface()),
		"poll": int(unexported(cr, "pollInterval").Interface().(time.Duration) / time.Millisecond), "watches": eng.watches,
		"claimKind": unexported(cr, "gvkClaim").Interface().(interface{ String() string }).String(), "xrKind": unexported(cr, "gvkXR").Interface().(interface{ String() string }).String(),
	}
	syn.Set(reflect.ValueOf(&recSyncer{w: w, real: syn.Interface().(claim.CompositeSyncer)}))
	prop.Set(reflect.ValueOf(&recPropagator{w: w, real: prop.Interface().(claim.ConnectionPropagator)}))
	unp.Set(reflect.ValueOf(&recUnpublisher{w: w, real: unp.Interface().(claim.ConnectionUnpublisher)}))
	upg.Set(reflect.ValueOf(&recUpgrader{w: w, real: upg.Interface().(claim.ManagedFieldsUpgrader)}))
}
