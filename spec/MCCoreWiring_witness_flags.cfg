SPECIFICATION Spec
CONSTANTS
  FlagSets <- AllFlags
  PollChoices <- Polls1
  ConcChoices <- Concs1
  ClaimChoices <- OnlyT
  KeyChoices <- OnlyF
  AllowChoices <- Allows2
  RegChoices <- Regs1
CHECK_DEADLOCK FALSE
INVARIANTS FlagsIrrelevant
