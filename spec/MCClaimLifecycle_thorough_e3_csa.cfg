SPECIFICATION Spec
CONSTANTS
  Syncer = "CSA"
  Pres <- PresFM
  Cdps <- PolBoth
  Xdefs <- PolNone
  Ofins <- OnlyTrue
  Rdys <- RdyT
  Conn = TRUE
  MaxRecs = 3
  MaxFaults = 1
  MaxEnv = 3
  MidEnv = TRUE
  EnvKinds <- EnvAll
  FaultKinds <- NoFaults
  FinFirst = TRUE
  RvCheck = TRUE
  FixDeleting = TRUE
  FixMiss = FALSE
  FixStale = FALSE
VIEW view
ACTION_CONSTRAINT Emit
CHECK_DEADLOCK FALSE
INVARIANTS StepProps Repaired FinBeforeSync DeletingTruth
