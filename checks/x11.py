"""X11 - what the Setup functions of the package controllers wire (extension beyond C01..C20).

The drivers of C14 .. C17 (and X01, X07, X09) construct the package manager / revision / signature / resolver
reconcilers themselves with hand-picked options. Which list type, linter, dependency manager, DAG, runtime hooks,
registry, namespace, cache, wrappers and watches PRODUCTION gives each of them is decided in the Setup functions of
internal/controller/pkg (three hand-written near-copies per controller) and in pkg.Setup (which of them are started
under which feature flags). This check calls the real pkg.Setup on a fake manager for every option vector TLC
enumerates, takes the controllers it registers, observes their make-up behaviourally and installs a package of every
type through them; spec/MonPkgWiring.tla compares every observation with the reference spec/PkgWiring.tla.

Model: spec/PkgWiring.tla (reference) + spec/MCPkgWiring.tla (vectors, design-level laws of the reference);
driver: harness/drivers/pkgwiring; monitor: spec/MonPkgWiring.tla."""
import glob
import json
import os

import vlib

PID = "X11"
MODULE = "MCPkgWiring"
DRIVER = "./drivers/pkgwiring"
# witness cfgs: the reference with one cell of the type table wrong must violate the consistency laws
WITNESS = [("witness_fnrevisproviderrev", ["RefConsistent"]), ("witness_confhasworkload", ["RefConsistent"]),
           ("witness_confcarriescrd", ["RefConsistent"]), ("witness_fnmetaisprovider", ["RefConsistent"]),
           ("witness_fnlistofotherkind", ["RefConsistent"])]
# formulas violated by the code as it is (findings of this module, see the report / DESIGN): the self test accepts them in its base line
FINDINGS = {"Wiring.Signature.RegistryOptions": "F-a"}
MODEL_INVARIANTS = ["RefConsistent", "RefRegistered", "RefHooks", "RefWatches", "RefEnqueue", "RefSymmetric", "RefDeps", "RefInstall"]

_FAMS = ["Manager", "Revision", "Signature", "Resolver"]
_COMMON = ["Name", "For", "Options", "RateLimiter", "SilentRequeue", "Watches.Missing", "Watches.Unexpected", "Enqueue.Self", "Enqueue.Owner",
           "Enqueue.ImageConfig", "Enqueue.ControllerConfig", "Enqueue.RuntimeConfig", "Enqueue.Lock", "ConfigStore"]
MON_FORMULAS = (
    ["Setup.NoError", "Setup.Registered.Missing", "Setup.Registered.Unexpected", "Setup.Registered.Duplicate", "Setup.UniqueNames", "Setup.For"]
    + ["Wiring.%s.%s" % (f, a) for f in _FAMS for a in _COMMON]
    + ["Wiring.Manager.Kinds", "Wiring.Manager.Api", "Wiring.Manager.Fetcher", "Wiring.Manager.RegistryOptions"]
    + ["Wiring.Revision." + a for a in ["Kind", "Parser", "Linter.Meta", "Linter.Objects", "Cache", "Features", "DependencyManager.Type",
                                        "DependencyManager.Dag", "Establisher", "Identity", "Api", "Api.RuntimeConfig", "Fetcher", "RegistryOptions"]]
    + ["Wiring.Signature." + a for a in ["Kind", "Validator", "Identity", "Api", "RegistryOptions"]]
    + ["Wiring.Resolver." + a for a in ["Install", "Upgrade", "Downgrade", "Fetcher", "Registry", "Features", "RegistryOptions"]]
    + ["Install." + a for a in ["Healthy", "Gate", "Revision", "Verified", "Signature", "Lock", "Runtime", "Image", "Endpoint", "Established",
                                "WebhookNamespace", "Cache", "Fetch.Registry", "Fetch.Identity", "Fetch.PullSecret", "Fetch.UserAgent"]]
    + ["Sym.%s.%s" % (f, a) for f in _FAMS[:3] for a in ["Stack", "Watches", "Enqueue", "Unit", "Install"]]
)


def regression():
    out = []
    for p in sorted(glob.glob(os.path.join(vlib.VERIF, "scenarios", PID, "*.json"))):
        with open(p) as f:
            out.append(json.load(f))
    return out


def build(ctx):
    """go build of the driver; VERIF_X11_OVERLAY = a `go build -overlay` file (used by checks/x11_selftest.py for scratch
    mutants of the Setup functions; nothing is written to /repo)."""
    ov = os.environ.get("VERIF_X11_OVERLAY")
    if not ov:
        return ctx.go_build(DRIVER)
    import shutil
    import subprocess
    bindir = os.path.join(ctx.work, "bin")
    os.makedirs(bindir, exist_ok=True)
    out = os.path.join(bindir, "pkgwiring")
    e = dict(os.environ)
    e.update(vlib.GOENV)
    shutil.copy("/repo/go.sum", os.path.join(vlib.HARNESS, "go.sum"))
    p = subprocess.run(["go", "build", "-overlay", ov, "-o", out, DRIVER], cwd=vlib.HARNESS, env=e,
                       stdout=subprocess.PIPE, stderr=subprocess.STDOUT, text=True)
    if p.returncode != 0:
        raise vlib.Inconclusive("harness does not build with overlay %s:\n%s" % (ov, p.stdout[-3000:]))
    return out


def vectors(ctx, cfg, prefix=PID, sub="mc"):
    """(M)+(G): TLC checks the reference's own laws and emits the option vectors."""
    mc = ctx.model_check(MODULE, cfg, sub=sub, workers=1, timeout=300)
    scs = []
    with open(mc["emitted_file"]) as f:
        for i, line in enumerate(f, 1):
            scs.append({"id": "%s-%04d" % (prefix, i), "input": json.loads(line)})
    return mc, scs


def drive_and_judge(ctx, scs, binp=None):
    """(T): the real Setup functions on every vector, judged by MonPkgWiring. Returns (driver summary, trace lines,
    {formula: count})."""
    binp = binp or build(ctx)
    sp = ctx.write_scenarios(scs)
    trace = os.path.join(ctx.work, "trace.ndjson")
    summ = os.path.join(ctx.work, "summary.json")
    ctx.run([binp, "-scenarios", sp, "-trace", trace, "-summary", summ, "-seed", str(ctx.seed)], timeout=1500)
    with open(summ) as f:
        s = json.load(f)
    viols, nlines = ctx.monitor("MonPkgWiring", trace, timeout=1500)
    by_id = {sc["id"]: sc for sc in scs}
    counts = {}
    for formula, line, scid in viols:
        counts[formula] = counts.get(formula, 0) + 1
        ctx.violation(formula, scid, ctx.replay_file(by_id.get(scid, {"id": scid})), "trace line %d" % line, fingerprint=formula)
    return s, nlines, counts


def run(ctx):
    st = tr = 0
    wit = {}
    for name, expect in (WITNESS[:2] if ctx.quick else WITNESS):
        w = ctx.model_check(MODULE, "%s_%s.cfg" % (MODULE, name), expect_violations=expect, sub="wit_" + name, workers=1, timeout=120)
        wit[name] = w["violated"]
    cfg = "%s_quick.cfg" % MODULE if ctx.quick else "%s_thorough.cfg" % MODULE
    mc, scs = vectors(ctx, cfg)
    st, tr = mc["states"], mc["transitions"]
    ctx.rng.shuffle(scs)   # the order of the vectors must not matter
    scs = regression() + scs
    s, nlines, counts = drive_and_judge(ctx, scs)
    ctx.cov.update(dict(
        states=st, transitions=tr, traces_validated_against_impl=s["vectors"], samples=(s.get("samples") or [])[:2],
        model_cfg=cfg, vectors_emitted=mc["emitted"], vectors_replayed=s["vectors"], events=nlines, drift=0,
        controllers_observed=s["controllers"], outcome_counts=s["outcomes"], exhaustive=True,
        monitor_formulas=MON_FORMULAS, model_invariants=MODEL_INVARIANTS, witness_cfgs=wit, violations_by_formula=counts,
        constants=dict(flags=["sig", "upg", "drc", "down"], runtimes=["Deployment", "External"],
                       profiles="Profiles2 (2)" if ctx.quick else "Profiles8 (8)"),
        checker_cmd="tlc MCPkgWiring (M,G: option vectors; laws of the reference) -> harness/drivers/pkgwiring: the real pkg.Setup on a "
                    "fake manager, every registered controller observed (T) -> tlc MonPkgWiring",
        rule="every enumerated option vector is handed to the real internal/controller/pkg.Setup; every controller it registers is "
             "observed (watches + handlers, wrappers, wired parts, API calls) and a package of each type is installed through them",
    ))
    ctx.assumptions += [
        "fakes only below the wiring: simapi (API server; reads carry TypeMeta as a manager's cache-backed client returns them), an "
        "in-process OCI registry behind the real K8sFetcher's transport, a clientset stub for the keychain's ServiceAccount / Secret reads, "
        "a recording signature Validator in place of cosign (needs real signatures), the sigstore Fulcio roots preset (no network)",
        "families are told apart by the Go package of the core reconciler, the package type of a controller by the kind whose events "
        "enqueue the object itself (its For kind); everything else is observed through behaviour or read from fields the Setup function set",
        "interpretations I1-I6 in spec/PkgWiring.tla (signature controllers iff the flag; nothing asserted about non-CRD objects in Function "
        "packages; revision controllers use the plain DAG under every flag vector; Must / May watches; which ImageConfigs concern a controller)",
        "verdict only from observations of the real code judged by MonPkgWiring.tla",
    ]


def replay(ctx, path):
    with open(path) as f:
        sc = json.load(f)
    s, nlines, counts = drive_and_judge(ctx, [sc])
    ctx.cov.update(dict(states=1, transitions=1, traces_validated_against_impl=s["vectors"], samples=(s.get("samples") or [sc])[:1],
                        events=nlines, violations_by_formula=counts))
