SPECIFICATION Spec
CONSTANTS
  OSeq <- OSeq2
  Pkg1 = {"a", "b"}
  Pkg2 = {"a", "b"}
  PreStates = {"absent", "free", "R1", "Q"}
  MaxRej = 1
  FreeRefs = TRUE
  Grabs = TRUE
  MaxEdits = 4
  MaxFaults = 2
  MaxRecs = 5
VIEW view
ACTION_CONSTRAINT Emit
CHECK_DEADLOCK FALSE
INVARIANTS OneController InactiveSettled
PROPERTIES AllOrNothing OnlyActiveCreates InactivePlainStep ReleaseKeeps PkgOwner ForeignUntouched
