// Driver for spec/PkgWiring.tla (check X11): what the PRODUCTION Setup functions of the package controllers wire.
//
// For every option vector TLC enumerates (feature flags, package runtime, registry / namespace / service account,
// limits) the driver calls the real internal/controller/pkg.Setup with a fake manager (harness/fakes) that keeps the
// controllers handed to Add, and then observes every captured controller:
//
//   - what it watches (startWatches, by reflection) and, for every watch, which requests its handler enqueues for a
//     set of probe events (a recording work queue; the handlers list through the manager's client = simapi);
//   - the wrappers around the reconciler, behaviourally: a holding global rate limiter must stop the request before it
//     reaches the API; a Conflict on a status write must come back as "requeue, no error";
//   - unit probes of the parts a Setup function chose (reached through reflect + unsafe, never rebuilt): the object
//     kinds of the new*Fn functions, the wired parser + linter on small package streams, the wired dependency manager
//     on a Lock with a violated constraint, the establisher's limit, the ImageConfig store's namespace;
//   - system scenarios run purely through the captured top-level reconcilers (Controller.Do): "install a package of
//     type T" (manager -> signature -> revision controllers of that type in rounds, the environment making the
//     Deployment available) and three Lock scenarios for the resolver (install / upgrade / downgrade a dependency).
//
// Fakes exist only below the wiring: simapi (API server), an in-process OCI registry behind the real K8sFetcher's
// http transport, a clientset stub for the registry keychain's ServiceAccount / Secret reads, the sigstore trust
// root (files named by SIGSTORE_* variables), a recording signature Validator (cosign needs a real registry
// signature), the shared package cache handed in through Options.Cache, the global rate limiter handed in through
// Options.GlobalRateLimiter.
//
// Output: one NDJSON record per vector ("setup"), per captured controller ("ctl") and per controller family
// ("sym": the observations of the three copies side by side). No judgement happens here: MonPkgWiring.tla compares
// the records with the reference PkgWiring.tla.
package main

import (
	"crypto/ecdsa"
	"crypto/elliptic"
	"crypto/rand"
	"crypto/rsa"
	"crypto/x509"
	"crypto/x509/pkix"
	"encoding/json"
	"encoding/pem"
	"flag"
	"fmt"
	"math/big"
	"os"
	"path/filepath"
	"time"

	admv1 "k8s.io/api/admissionregistration/v1"
	appsv1 "k8s.io/api/apps/v1"
	corev1 "k8s.io/api/core/v1"
	extv1 "k8s.io/apiextensions-apiserver/pkg/apis/apiextensions/v1"
	kruntime "k8s.io/apimachinery/pkg/runtime"

	apixv1 "github.com/crossplane/crossplane/apis/apiextensions/v1"
	pkgv1 "github.com/crossplane/crossplane/apis/pkg/v1"
	pkgv1alpha1 "github.com/crossplane/crossplane/apis/pkg/v1alpha1"
	pkgv1beta1 "github.com/crossplane/crossplane/apis/pkg/v1beta1"
	"github.com/crossplane/crossplane/zzverif/scen"
	"github.com/crossplane/crossplane/zzverif/trace"
)

var (
	theScheme *kruntime.Scheme
	caKeyPEM  []byte
	caCertPEM []byte
	caPool    *x509.CertPool // the operator's CA bundle (Options.FetcherOptions)
	theReg    *regRT
	debug     = os.Getenv("VERIF_DEBUG") != ""
)

var types3 = []string{"Provider", "Configuration", "Function"}

const (
	userAgent = "verif-agent/1"
	depRepo   = "acme/dep-b"
)

func must(err error) {
	if err != nil {
		fmt.Fprintln(os.Stderr, "driver:", err)
		os.Exit(2)
	}
}

func initScheme() {
	theScheme = kruntime.NewScheme()
	for _, add := range []func(*kruntime.Scheme) error{pkgv1.AddToScheme, pkgv1beta1.AddToScheme, pkgv1alpha1.AddToScheme, extv1.AddToScheme,
		corev1.AddToScheme, appsv1.AddToScheme, admv1.AddToScheme, apixv1.AddToScheme} {
		must(add(theScheme))
	}
}

// makeCA generates the root CA the TLS generator of the runtime hooks loads, and points the sigstore libraries at
// local trust material (the cosign validator's constructor would otherwise fetch it over the network).
func makeCA(dir string) {
	key, err := rsa.GenerateKey(rand.Reader, 2048)
	must(err)
	tmpl := &x509.Certificate{SerialNumber: big.NewInt(1), Subject: pkix.Name{CommonName: "verif-ca"}, NotBefore: time.Now().Add(-time.Hour),
		NotAfter: time.Now().AddDate(10, 0, 0), IsCA: true, KeyUsage: x509.KeyUsageCertSign | x509.KeyUsageCRLSign, BasicConstraintsValid: true}
	der, err := x509.CreateCertificate(rand.Reader, tmpl, tmpl, &key.PublicKey, key)
	must(err)
	caKeyPEM = pem.EncodeToMemory(&pem.Block{Type: "RSA PRIVATE KEY", Bytes: x509.MarshalPKCS1PrivateKey(key)})
	caCertPEM = pem.EncodeToMemory(&pem.Block{Type: "CERTIFICATE", Bytes: der})
	ca, err := x509.ParseCertificate(der)
	must(err)
	presetFulcioRoots(ca)
	caPool = x509.NewCertPool()
	caPool.AddCert(ca)

	ek, err := ecdsa.GenerateKey(elliptic.P256(), rand.Reader)
	must(err)
	pub, err := x509.MarshalPKIXPublicKey(&ek.PublicKey)
	must(err)
	pubPEM := pem.EncodeToMemory(&pem.Block{Type: "PUBLIC KEY", Bytes: pub})
	ct, rekor := filepath.Join(dir, "x11-ctlog.pub"), filepath.Join(dir, "x11-rekor.pub")
	must(os.WriteFile(ct, pubPEM, 0o600))
	must(os.WriteFile(rekor, pubPEM, 0o600))
	must(os.Setenv("SIGSTORE_CT_LOG_PUBLIC_KEY_FILE", ct))
	must(os.Setenv("SIGSTORE_REKOR_PUBLIC_KEY", rekor))
}

func initRegistry() {
	theReg = newRegRT()
	for _, t := range types3 {
		lt := lower(t)
		pushImage(theReg, "acme/pkg-"+lt, "v1.0.0", stream(lt, packageToks(t)...))
	}
	for _, v := range []string{"v0.9.0", "v1.0.0", "v1.1.0", "v2.0.0"} {
		pushImage(theReg, depRepo, v, stream("dep", "mP", "CRD"))
	}
	theReg.reset()
}

type summary struct {
	Vectors     int            `json:"vectors"`
	Events      int            `json:"events"`
	Controllers map[string]int `json:"controllers"`
	Outcomes    map[string]int `json:"outcomes"`
	Samples     []any          `json:"samples"`
}

func main() {
	scenarios := flag.String("scenarios", "", "NDJSON file of option vectors")
	tracePath := flag.String("trace", "", "output trace")
	sumPath := flag.String("summary", "", "output summary JSON")
	chunk := flag.Int("chunk", 0, "split the trace into files of about this many events")
	_ = flag.Int64("seed", 1, "unused: the vectors are run exhaustively and deterministically")
	flag.Parse()

	raws, err := scen.Load(*scenarios)
	must(err)
	tw, err := trace.New(*tracePath, *chunk)
	must(err)
	initScheme()
	makeCA(filepath.Dir(*tracePath))
	initRegistry()
	sum := &summary{Controllers: map[string]int{}, Outcomes: map[string]int{}, Samples: []any{}}
	for _, raw := range raws {
		var sc struct {
			ID    string          `json:"id"`
			Input json.RawMessage `json:"input"`
		}
		must(json.Unmarshal(raw, &sc))
		var in vec
		must(json.Unmarshal(sc.Input, &in))
		tw.Boundary()
		recs := runVector(in, sum)
		for _, r := range recs {
			r["scenario"] = sc.ID
			r["input"] = sc.Input
			tw.Emit(r)
		}
		sum.Vectors++
		if len(sum.Samples) < 2 && len(recs) > 1 {
			sum.Samples = append(sum.Samples, recs[0], recs[1])
		}
	}
	sum.Events = tw.Lines
	must(tw.Close())
	must(scen.WriteJSON(*sumPath, sum))
}
