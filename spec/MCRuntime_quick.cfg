SPECIFICATION Spec
CONSTANTS
  Kind = "provider"
  Starts <- StartsAll
  Certs <- BoolBoth
  Tmpls <- TmplPlain
  Drc0 <- DrcNamed
  EnvKinds <- EnvSeq
  Interf <- InterfDeps
  MaxEdits = 2
  MaxFaults = 1
  MaxRecs = 2
  MaxNest = 0
  MidEnv = FALSE
  GuardInactive = TRUE
  GuardHealth = TRUE
  OwnDelete = FALSE
  CacheMiss = FALSE
VIEW view
ACTION_CONSTRAINT Emit
CHECK_DEADLOCK FALSE
PROPERTIES InactiveNeverCreates Owned Order HealthTruth
