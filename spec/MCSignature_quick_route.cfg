SPECIFICATION Spec
CONSTANTS
  InitRevs <- RevInactiveRoute
  InitICs <- IcVb
  InitVst <- VstDefault
  InitOk <- OkBoth
  Feats <- OnlyTrue
  Orders <- Fwd
  ICs <- NoICs
  Imgs <- ImgsNone
  MaxSig = 1
  MaxRev = 3
  MaxFaults = 0
  MaxEnv = 3
  MidEnv = FALSE
  EnvKinds <- EnvRoute
  FaultKinds <- NoFaults
  GateOn = TRUE
  GateSkipsInactive = TRUE
  Sticky = TRUE
  VecICs <- NoICs
  VecEvICs <- NoICs
  VecImgs <- NoICs
VIEW view
ACTION_CONSTRAINT Emit
CHECK_DEADLOCK FALSE
INVARIANTS GateSafe RepairedSig VerdictShape RepairedRev InactiveDeactivates
