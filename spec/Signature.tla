---------------------------- MODULE Signature ----------------------------
(***************************************************************************)
(* X09 - package image signature verification: the verification controller *)
(* (internal/controller/pkg/signature/reconciler.go), the gate in the      *)
(* package revision reconciler that consumes its verdict                   *)
(* (internal/controller/pkg/revision/reconciler.go, feature                *)
(* EnableAlphaSignatureVerification) and the selection of the ImageConfig  *)
(* whose `verification` applies to an image (internal/xpkg/config.go).     *)
(* Both REAL reconcilers run in one world on simapi (the revision          *)
(* reconciler wired as in X07: real ImageConfig store, ImageBackend,       *)
(* parser, linter, dependency manager (the Lock), finalizer; recording     *)
(* fakes for registry, cache, establisher, runtime hooks).  The seam of    *)
(* the verification controller is its Validator: a recording fake that     *)
(* answers as the world says (`okby`: the configs whose authorities accept *)
(* the image).  The cosign validator itself (validate.go, attestation.go)  *)
(* needs a registry, Fulcio / Rekor keys: out of reach offline, NOT        *)
(* covered.  The unexported watch handler                                  *)
(* enqueuePackageRevisionsForImageConfig is reached through a build-time   *)
(* overlay (harness/overlay/signature/zz_verif_export.go.txt; nothing is   *)
(* written to /repo) and driven with every ImageConfig event.              *)
(*                                                                         *)
(* One action per API call / seam call in code order.  The reconciler's    *)
(* copy of the revision (rc.lr), whether it is out of date (rc.stale), the *)
(* verdict it is about to write (rc.mode / rc.sel) are explicit.  Every    *)
(* API call may fail as an error value, as a Conflict (writes), as a cache *)
(* miss (Gets), as a dead process before or after the effect.  The         *)
(* environment acts between and in the middle of reconciles: ImageConfigs  *)
(* are created / deleted / their verification section edited, a signature  *)
(* is published / withdrawn, the revision's image is rewritten in place    *)
(* (what the package manager does when spec.package changes to another     *)
(* reference of the same digest), the revision is paused / unpaused /      *)
(* activated / deactivated / deleted / touched.                            *)
(*                                                                         *)
(* What the code's authors evidently intend (each clause checked against   *)
(* code and comments; MonSignature.tla judges the real code with these):   *)
(*                                                                         *)
(* VERIFICATION CONTROLLER                                                 *)
(*  V1 Scope.  A revision that does not exist: nothing is written, no      *)
(*     error.  "Only verify signatures for active revisions": a revision   *)
(*     whose desiredState is not Active is left alone (one Get).           *)
(*     "If signature verification is already complete, nothing to do":     *)
(*     Verified=True (reason Succeeded or Skipped) is FINAL - "it doesn't  *)
(*     make sense to verify the signature again since the package is       *)
(*     already deployed".  So a verdict does NOT follow later changes of   *)
(*     the ImageConfigs or of spec.image (observation O1 below); only a    *)
(*     verdict that is not True is evaluated again, at every reconcile.    *)
(*     NOT promised (the code has no such check): that a paused or a       *)
(*     deleting revision is left alone - it is verified like any other.    *)
(*  V2 Selection (config.go bestMatch).  The verification that applies to  *)
(*     an image is that of the ImageConfig which HAS a verification        *)
(*     section and whose matchImages prefix is a prefix of spec.image (as  *)
(*     written, no normalisation) and is the LONGEST such prefix; configs  *)
(*     without verification (pull secret only) do not take part however    *)
(*     long their prefix; an empty prefix never matches.  Ties: strict >,  *)
(*     the first in list order wins; the list order of the cached client   *)
(*     is not specified (a Go map), and the design                         *)
(*     (design/one-pager-package-image-config.md) rejected "random         *)
(*     selection" and wanted an error "if there is more than one best      *)
(*     match": asserted is "one of the longest", and - as a separately     *)
(*     named formula, F-b - that the choice does not depend on list order. *)
(*  V3 Verdicts.  No config with verification matches -> Skipped (True).   *)
(*     A config matches: never Skipped.  Its section lacks `cosign`, the   *)
(*     ImageConfigs cannot be listed, the image reference does not parse,  *)
(*     the pull secret config cannot be listed -> Incomplete (False) with  *)
(*     the error, reconcile error (retried).  Validator error -> Failed    *)
(*     (False) naming the config and the validator's error, reconcile      *)
(*     error (retried with back-off; there is no event recorder in this    *)
(*     controller: no events are promised).  Validator ok -> Succeeded     *)
(*     (True) naming the config.  Succeeded is written only by a reconcile *)
(*     in which the validator accepted this image under the named config:  *)
(*     Failed never becomes Succeeded without a successful validation.     *)
(*  V4 Validator input: the parsed spec.image, the selected verification   *)
(*     section, and as pull secrets the revision's own packagePullSecrets  *)
(*     followed by the secret of the ImageConfig selected for registry     *)
(*     authentication (longest prefix among configs WITH a pull secret:    *)
(*     may be another config than the one that supplies the verification). *)
(*  V5 Writes.  The controller writes nothing but the revision's status,   *)
(*     at most once per reconcile, and changes nothing but the Verified    *)
(*     condition (resourceVersion-guarded full status Update: a revision   *)
(*     that moved since the Get is refused with a Conflict -> silent       *)
(*     requeue).  It never polls.  A second reconcile in an unchanged      *)
(*     world writes nothing.                                               *)
(*  V6 Watch.  An ImageConfig event enqueues exactly the revisions whose   *)
(*     spec.image has one of the config's prefixes as a prefix - if the    *)
(*     config (for an update: old or new) has a verification section;      *)
(*     otherwise none.  In particular every revision for which the config  *)
(*     is (or was) the selected one is enqueued.                           *)
(* REVISION RECONCILER (feature on)                                        *)
(*  G1 Gate.  A reconcile that read a revision which is neither paused nor *)
(*     being deleted nor waiting to have its conditions cleaned after a    *)
(*     pause nor Inactive (since a5e0931; before: Inactive ones too, F-a), *)
(*     and whose Verified condition is not True, does NOTHING but          *)
(*     (iff Healthy is Unknown) one status update Healthy=False /          *)
(*     AwaitingSignatureVerification: no finalizer, no pull secret lookup, *)
(*     no cache / registry access, no Lock entry, no runtime hook, no      *)
(*     establish, no release.  It returns without error and is woken by    *)
(*     the status write of the verification controller.  NOT guarded:      *)
(*     pause handling, the deletion path (cache entry, Lock entry,         *)
(*     finalizer), the removal of all conditions after a pause.  Nothing   *)
(*     is ever uninstalled because a verdict is missing or False.          *)
(*     Verified=True (either reason): the reconcile proceeds as without    *)
(*     the feature.  Feature off: the condition is ignored.                *)
(*  G2 The revision reconciler does not write the Verified condition -     *)
(*     except that the first reconcile after a pause removes ALL           *)
(*     conditions (CleanConditions), the verdict among them: the revision  *)
(*     is then verified again (the one way a True verdict is re-evaluated).*)
(*  G3 Repair.  Whatever faults happened, fault-free reconciles of both    *)
(*     controllers reach a fixed point in which an Active revision has a   *)
(*     verdict; a verdict that is not True is the one the world as it is   *)
(*     now calls for; an Active, verified revision is installed; and an    *)
(*     Inactive revision is deactivated ("We still want to call            *)
(*     r.deactivateRevision() ... to make sure that the revision is        *)
(*     removed from the lock which could otherwise block a successful      *)
(*     reconciliation").                                                   *)
(*                                                                         *)
(* Found on the tree as it was (2026-10-04).  F-a has been repaired in      *)
(* /repo since (a5e0931, defect D33): model and monitor describe the       *)
(* repaired code, the formulas stay (they hold now), the model constant    *)
(* GateSkipsInactive = FALSE is the code as it was (witness cfg).  F-b is  *)
(* the known finding D34 (open).                                           *)
(*  F-a (D33, fixed).  G3's last clause did not hold with the feature on:  *)
(*     the gate sat BEFORE the deactivation branch and applied to          *)
(*     Inactive revisions too, while the verification controller never     *)
(*     verifies an Inactive revision.  An Inactive revision whose verdict  *)
(*     is not True (its verification failed or was incomplete when it was  *)
(*     superseded; the feature / a verification ImageConfig was introduced *)
(*     on a running installation and the installed image does not pass;    *)
(*     it was paused and unpaused, which wipes the verdict) was never      *)
(*     deactivated: it kept its Lock entry and the control of its CRDs     *)
(*     for ever, so the revision that superseded it could neither resolve  *)
(*     (duplicate node in the Lock) nor establish control (the objects     *)
(*     already have a controller) - the upgrade the user made to get away  *)
(*     from the unverifiable image was blocked by it.  The repair: the     *)
(*     gate only guards revisions that are not Inactive.  Monitor formulas *)
(*     Gate.Inactive.Deactivates, Settled.Inactive.Deactivated,            *)
(*     Settled.Upgrade.NotBlocked; model: GateSkipsInactive = FALSE        *)
(*     violates InactiveDeactivates (witness cfg).                         *)
(*  F-b (D34, open; genuine, low).  Ties in V2 are decided by list order,  *)
(*     which for the cached client is the iteration order of a Go map:     *)
(*     with two verification configs of the same prefix every reconcile    *)
(*     may verify against another one (the design wanted an error).        *)
(*     Formula Select.OrderIndependent (vector part: both list orders are  *)
(*     run; Select.PullSecret.OrderIndependent is its twin for the pull    *)
(*     secret selection, which has the same code path).                    *)
(*  O1 (as designed, stated so that it is not mistaken for a guarantee).   *)
(*     Verified=True is sticky: a verification config created / tightened  *)
(*     after the verdict, or spec.image rewritten in place to a reference  *)
(*     under another policy, is not applied to an installed revision.      *)
(*     Model invariant VerdictCurrent is violated as written (witness cfg).*)
(*  O2 The Get-error path sets a condition on the empty object and calls   *)
(*     Status().Update for a revision without a name: an API call that can *)
(*     never succeed (harmless).                                           *)
(*  O3 A revision that was installed before a verdict existed (the feature *)
(*     or a verification config arrives later) and then fails verification *)
(*     stays installed and keeps Healthy=True: the gate only writes        *)
(*     AwaitingSignatureVerification when Healthy is Unknown.              *)
(* Not part of this module (and why): the cosign validator and the         *)
(* attestation check (registry, Sigstore roots), the package manager (which*)
(* rewrites spec.image: here an environment step; X07), what the revision  *)
(* reconciler does behind the gate (X07, C15, C16), ConfigurationRevision /*)
(* FunctionRevision (the same code with another newRevision function).     *)
(* Measured (2026-10-04): quick cfgs 16k / 3k / 16k / 3k / 13k / 0.6k      *)
(* states (+ 5k vectors), thorough 335k / 75k / 559k / 6k / 35k / 237k     *)
(* (+ 84k); drift 0.  Model corrections made while binding: a failed       *)
(* metadata Update writes a best-effort Healthy=False (found by replay:    *)
(* the model ended the reconcile); a reference that does not parse fails   *)
(* at the registry once the gate is open; the pass that removes the        *)
(* conditions after a pause is not a fixed point.                          *)
(***************************************************************************)
EXTENDS Integers, Sequences, FiniteSets, TLC

CONSTANTS
  InitRevs,   \* choices for the revision that exists initially (records, see NoRev)
  InitICs,    \* choices for the ImageConfigs that exist initially (sets of names)
  InitVst,    \* choices for the verification section of every config (functions AllICs -> VStates)
  InitOk,     \* choices for the configs whose authorities accept the image (sets)
  Feats,      \* choices for the feature flag
  Orders,     \* choices for the list order of the cached client: "fwd" (by name) | "rev"
  ICs,        \* ImageConfigs the environment may add / delete / edit / (un)sign
  Imgs,       \* images the environment may write into spec.image
  MaxSig, MaxRev,   \* bounds on the reconciles of the verification controller / the revision reconciler
  MaxFaults, MaxEnv,
  MidEnv,     \* TRUE: the environment also acts in the middle of a reconcile
  EnvKinds,   \* enabled environment steps
  FaultKinds, \* enabled fault kinds at API calls: subset of {"error", "conflict", "miss", "crashBefore", "crashAfter"}
  GateOn,       \* TRUE = the code as written; FALSE = witness: the revision reconciler does not wait
  GateSkipsInactive, \* TRUE = the code as repaired by a5e0931 (D33): the gate does not hold back Inactive revisions;
                \* FALSE = the code as it was (witness for F-a): an Inactive revision waits for a verdict nobody gives
  Sticky        \* TRUE = the code as written: Verified=True is final; FALSE = every reconcile evaluates again

None == "none"
R == "r1"
AllICs == {"pb", "va", "vb", "vc", "vn", "vq"}
AllSeq == <<"pb", "va", "vb", "vc", "vn", "vq">>          \* list order of the store: by name
VStates == {"none", "cosign", "nocosign"}
\* images: i1 r.io/o/p:v1, i2 q.io/o/p:v1 (the same digest elsewhere), i3 r.io/o/P:v1 (does not parse)
BadRefs == {"i3"}
\* length of the longest prefix of config c that is a prefix of image i (0: none):
\*   pb "r.io/o/p:v1" (pull secret sp only)  va "r.io/"  vb "r.io/o/p" (+ pull secret sb)  vc "r.io/o/p"
\*   vn "r.io/o/p:v" (verification without cosign)  vq "zzz", "q.io/"
PLen(c, i) ==
  CASE i = "i1" -> (CASE c = "pb" -> 11 [] c = "va" -> 5 [] c = "vb" -> 8 [] c = "vc" -> 8 [] c = "vn" -> 10 [] OTHER -> 0)
    [] i = "i2" -> (IF c = "vq" THEN 5 ELSE 0)
    [] i = "i3" -> (IF c = "va" THEN 5 ELSE 0)
    [] OTHER -> 0
Sec(c) == CASE c = "pb" -> "sp" [] c = "vb" -> "sb" [] OTHER -> None

VARIABLES
  rev,     \* the revision in the store
  ics,     \* ImageConfigs that exist
  vst,     \* config -> its verification section
  okby,    \* configs whose authorities accept the image
  feat,    \* the feature flag (fixed per behaviour)
  ord,     \* list order (fixed per behaviour)
  rc,      \* the reconcile in flight
  ns, nr, faults, envs,
  bad,     \* ghost: names of violated step properties
  quiet,   \* ghost: neither fault nor environment step since this reconcile started
  last,    \* ghost: how the last reconcile ended: [a, ok, kind]
  hist

vars == <<rev, ics, vst, okby, feat, ord, rc, ns, nr, faults, envs, bad, quiet, last, hist>>
view == <<rev, ics, vst, okby, feat, ord, rc, ns, nr, faults, envs, bad, quiet, last>>

NoVer == [st |-> None, by |-> None]
NoRev == [ex |-> FALSE, del |-> FALSE, paused |-> FALSE, pcond |-> FALSE, fin |-> FALSE, des |-> None, img |-> None, sec |-> FALSE,
          ver |-> NoVer, healthy |-> None, refs |-> FALSE, inst |-> FALSE]
Idle == [a |-> "idle", pc |-> "idle", lr |-> NoRev, stale |-> FALSE, mode |-> "", sel |-> None, psec |-> None]
NoLast == [a |-> None, ok |-> FALSE, kind |-> ""]
IsTrue(v) == v.st \in {"Skipped", "Succeeded"}

H(t, k, o, f) == [t |-> t, k |-> k, o |-> o, f |-> f]
Log(e) == hist' = Append(hist, e)

Init ==
  /\ rev \in InitRevs /\ ics \in InitICs /\ vst \in InitVst /\ okby \in InitOk /\ feat \in Feats /\ ord \in Orders
  /\ rc = Idle /\ ns = 0 /\ nr = 0 /\ faults = 0 /\ envs = 0 /\ bad = {} /\ quiet = FALSE /\ last = NoLast
  /\ hist = << [t |-> "init", rev |-> rev, ics |-> ics, vst |-> vst, okby |-> okby, feat |-> feat, ord |-> ord] >>

----------------------------------------------------------------------------
(* Selection (V2)                                                          *)
Idx(c) == CHOOSE i \in DOMAIN AllSeq : AllSeq[i] = c
Before(c, d) == IF ord = "fwd" THEN Idx(c) <= Idx(d) ELSE Idx(c) >= Idx(d)
Pick(S, i) == IF S = {} THEN None
              ELSE CHOOSE c \in S : \A d \in S : PLen(c, i) > PLen(d, i) \/ (PLen(c, i) = PLen(d, i) /\ Before(c, d))
VCands(i) == {c \in ics : vst[c] # "none" /\ PLen(c, i) > 0}
VBest(i) == Pick(VCands(i), i)
SBest(i) == LET b == Pick({c \in ics : Sec(c) # None /\ PLen(c, i) > 0}, i) IN IF b = None THEN None ELSE Sec(b)
\* the verdict the world as it is calls for
Eval(i) == LET b == VBest(i) IN
           IF b = None THEN [st |-> "Skipped", by |-> None]
           ELSE IF vst[b] = "nocosign" \/ i \in BadRefs THEN [st |-> "Incomplete", by |-> None]
           ELSE IF b \in okby THEN [st |-> "Succeeded", by |-> b] ELSE [st |-> "Failed", by |-> b]

----------------------------------------------------------------------------
(* Environment                                                             *)
InRec == rc.a # "idle"
EnvOK(k) == k \in EnvKinds /\ envs < MaxEnv /\ (MidEnv \/ ~InRec)
EnvDone == /\ envs' = envs + 1 /\ quiet' = FALSE /\ last' = NoLast
           /\ UNCHANGED <<ns, nr, faults, bad, feat, ord>>
\* in the middle of a reconcile the revision is changed right before a write of that reconcile (that is where the copy
\* the reconciler holds matters); the ImageConfigs / signatures before a step of the verification controller that
\* depends on them
WritePcs == {"sstatus", "rstatus", "raddfin", "rmeta", "rrmfin", "rrelease", "restablish"}
RevEnv(k, f, nv) == /\ EnvOK(k) /\ rev.ex /\ (InRec => rc.pc \in WritePcs)
                    /\ rev' = nv /\ Log(H("env", k, R, f))
                    /\ rc' = (IF InRec THEN [rc EXCEPT !.stale = TRUE] ELSE rc)
                    /\ UNCHANGED <<ics, vst, okby>> /\ EnvDone
PauseRev == ~rev.paused /\ RevEnv("pauserev", "", [rev EXCEPT !.paused = TRUE])
UnpauseRev == rev.paused /\ RevEnv("unpauserev", "", [rev EXCEPT !.paused = FALSE])
Deact == rev.des = "Active" /\ RevEnv("deact", "", [rev EXCEPT !.des = "Inactive"])
Act == rev.des = "Inactive" /\ RevEnv("act", "", [rev EXCEPT !.des = "Active"])
SetImg == \E i \in Imgs : rev.img # i /\ RevEnv("setimg", i, [rev EXCEPT !.img = i])
Touch == InRec /\ ~rc.stale /\ RevEnv("touch", "", rev)
DelRev == ~rev.del /\ RevEnv("delrev", "", IF rev.fin THEN [rev EXCEPT !.del = TRUE] ELSE NoRev)
SigPcs == {"slist1", "slist2", "svalidate", "sstatus"}
IcEnv(k, c, f) == /\ EnvOK(k) /\ (InRec => rc.a = "sig" /\ rc.pc \in SigPcs) /\ Log(H("env", k, c, f))
                  /\ UNCHANGED <<rev, rc>> /\ EnvDone
AddIc == \E c \in ICs : c \notin ics /\ IcEnv("addic", c, vst[c]) /\ ics' = ics \cup {c} /\ UNCHANGED <<vst, okby>>
DelIc == \E c \in ICs : c \in ics /\ IcEnv("delic", c, "") /\ ics' = ics \ {c} /\ UNCHANGED <<vst, okby>>
EditIc == \E c \in ICs, v \in VStates : c \in ics /\ vst[c] # v /\ IcEnv("editic", c, v) /\ vst' = [vst EXCEPT ![c] = v] /\ UNCHANGED <<ics, okby>>
Sign == \E c \in ICs : c \in ics /\ vst[c] = "cosign" /\ c \notin okby /\ IcEnv("sign", c, "") /\ okby' = okby \cup {c} /\ UNCHANGED <<ics, vst>>
Unsign == \E c \in ICs : c \in okby /\ IcEnv("unsign", c, "") /\ okby' = okby \ {c} /\ UNCHANGED <<ics, vst>>
Env == PauseRev \/ UnpauseRev \/ Deact \/ Act \/ SetImg \/ Touch \/ DelRev \/ AddIc \/ DelIc \/ EditIc \/ Sign \/ Unsign

----------------------------------------------------------------------------
(* Reconcile plumbing                                                      *)
CanFault(f) == f \in FaultKinds /\ faults < MaxFaults
Ok(k, o) == Log(H("call", k, o, "ok")) /\ UNCHANGED faults
Flt(k, o, f) == CanFault(f) /\ faults' = faults + 1 /\ Log(H("call", k, o, f)) /\ quiet' = FALSE
Keep == UNCHANGED <<ns, nr, quiet, last>>
KeepF == UNCHANGED <<ns, nr, last>>
\* the reconcile ends; kind: "done" ran to its natural end, "exit" an early exit that is meant to be one, "failed" ended
\* with the error the world calls for (a verdict that is not True), "" aborted
Ended(kind) == /\ rc' = Idle
               /\ (IF rc.a = "sig" THEN ns' = ns + 1 /\ UNCHANGED nr ELSE nr' = nr + 1 /\ UNCHANGED ns)
               /\ last' = [a |-> rc.a, ok |-> quiet' /\ kind # "", kind |-> kind]
World == UNCHANGED <<ics, vst, okby, feat, ord, envs>>
Go(p) == rc' = [rc EXCEPT !.pc = p]

----------------------------------------------------------------------------
(* The verification controller                                             *)
Sig == rc.a = "sig"
\* a first step that is also the last one
SigOnly(kind) == rc' = Idle /\ ns' = ns + 1 /\ UNCHANGED nr /\ last' = [a |-> "sig", ok |-> TRUE, kind |-> kind]
SGet ==
  /\ rc.a = "idle" /\ feat /\ ns < MaxSig
  /\ \/ /\ Ok("sget", R) /\ quiet' = TRUE
        /\ (IF ~rev.ex THEN SigOnly("gone")
            ELSE IF rev.des # "Active" THEN SigOnly("inactive")
            ELSE IF Sticky /\ IsTrue(rev.ver) THEN SigOnly("verified")
            ELSE rc' = [Idle EXCEPT !.a = "sig", !.lr = rev, !.pc = "slist1"] /\ UNCHANGED <<ns, nr, last>>)
     \/ /\ Flt("sget", R, "error") /\ rc' = [Idle EXCEPT !.a = "sig", !.pc = "sempty"] /\ KeepF
     \/ /\ \E f \in {"miss", "crashBefore"} : rev.ex /\ Flt("sget", R, f)
        /\ rc' = Idle /\ ns' = ns + 1 /\ UNCHANGED nr /\ last' = NoLast
  /\ UNCHANGED <<rev, bad>> /\ World
\* O2: the status update of the empty object (no name: never found)
SEmpty == /\ Sig /\ rc.pc = "sempty" /\ Ok("sstatus", None) /\ quiet' = quiet /\ Ended("")
          /\ UNCHANGED <<rev, bad>> /\ World
ToS(m, by) == [rc EXCEPT !.pc = "sstatus", !.mode = m, !.sel = by]
SList1 ==
  /\ Sig /\ rc.pc = "slist1"
  /\ LET b == VBest(rc.lr.img) IN
     \/ /\ Ok("list", "ic") /\ Keep
        /\ rc' = (IF b = None THEN ToS("Skipped", None)
                  ELSE IF vst[b] = "nocosign" THEN ToS("Incomplete", None)
                  ELSE IF rc.lr.img \in BadRefs THEN ToS("Incomplete", None)
                  ELSE [rc EXCEPT !.pc = "slist2", !.sel = b])
     \/ Flt("list", "ic", "error") /\ KeepF /\ rc' = ToS("Incomplete", None)
     \/ Flt("list", "ic", "crashBefore") /\ Ended("")
  /\ UNCHANGED <<rev, bad>> /\ World
SList2 ==
  /\ Sig /\ rc.pc = "slist2"
  /\ \/ Ok("list", "ic") /\ Keep /\ rc' = [rc EXCEPT !.pc = "svalidate", !.psec = SBest(rc.lr.img)]
     \/ Flt("list", "ic", "error") /\ KeepF /\ rc' = ToS("Incomplete", None)
     \/ Flt("list", "ic", "crashBefore") /\ Ended("")
  /\ UNCHANGED <<rev, bad>> /\ World
\* the seam: the validator answers as the world says (not a fault)
SValidate ==
  /\ Sig /\ rc.pc = "svalidate"
  /\ (IF rc.sel \in okby THEN Log(H("call", "validate", R, "ok")) /\ rc' = ToS("Succeeded", rc.sel)
      ELSE Log(H("call", "validate", R, "invalid")) /\ rc' = ToS("Failed", rc.sel))
  /\ UNCHANGED <<faults, rev, bad>> /\ Keep /\ World
SWOut == IF ~rev.ex THEN "notfound" ELSE IF rc.stale THEN "conflict" ELSE "ok"
SVer == [st |-> rc.mode, by |-> rc.sel]
SKind == IF rc.mode \in {"Skipped", "Succeeded"} THEN "done" ELSE "failed"
SStatus ==
  /\ Sig /\ rc.pc = "sstatus"
  /\ \/ /\ Ok("sstatus", R) /\ quiet' = quiet
        /\ (IF SWOut = "ok" THEN rev' = [rev EXCEPT !.ver = SVer] /\ Ended(SKind) ELSE UNCHANGED rev /\ Ended(""))
     \/ /\ \E f \in {"error", "conflict", "crashBefore"} : Flt("sstatus", R, f)
        /\ UNCHANGED rev /\ Ended("")
     \/ /\ Flt("sstatus", R, "crashAfter") /\ Ended("")
        /\ (IF SWOut = "ok" THEN rev' = [rev EXCEPT !.ver = SVer] ELSE UNCHANGED rev)
  /\ UNCHANGED bad /\ World
SigRec == SGet \/ SEmpty \/ SList1 \/ SList2 \/ SValidate \/ SStatus

----------------------------------------------------------------------------
(* The revision reconciler: everything up to the gate call by call; what   *)
(* lies behind the gate (X07's subject) reduced to the calls that write    *)
(* the revision and the two seams that install / uninstall: AddFinalizer,  *)
(* ReleaseObjects (Inactive), the metadata Update, Establish, the final    *)
(* status.  The other calls of the tail (ImageConfigs, ServiceAccount,     *)
(* Lock, cache, registry, parser, linter, hooks) are made by the real code *)
(* and recorded, but are no steps of this model.                           *)
Rev == rc.a = "rev"
RevOnly(kind) == rc' = Idle /\ nr' = nr + 1 /\ UNCHANGED ns /\ last' = [a |-> "rev", ok |-> TRUE, kind |-> kind]
Closed(l) == feat /\ GateOn /\ ~IsTrue(l.ver) /\ (~GateSkipsInactive \/ l.des # "Inactive")
\* where the tail goes on: [pc, mode].  A reference that does not parse fails at the registry (Healthy=False) unless the
\* content is already in the cache
PM(p, m) == [pc |-> p, mode |-> m]
ContentPM(l) == IF l.img \in BadRefs /\ ~l.refs THEN PM("rstatus", "unhealthy") ELSE PM("rmeta", "")
AfterFinPM(l) == IF l.des = "Inactive" THEN PM("rrelease", "") ELSE ContentPM(l)
TailPM(l) == IF ~l.fin THEN PM("raddfin", "") ELSE AfterFinPM(l)
RGet ==
  /\ rc.a = "idle" /\ nr < MaxRev
  /\ \/ /\ Ok("get", R) /\ quiet' = TRUE
        /\ LET l == rev
               b == [Idle EXCEPT !.a = "rev", !.lr = l] IN
           IF ~l.ex THEN RevOnly("gone")
           ELSE IF l.paused THEN rc' = [b EXCEPT !.pc = "rstatus", !.mode = "paused"] /\ UNCHANGED <<ns, nr, last>>
           ELSE IF l.del THEN rc' = [b EXCEPT !.pc = "rrmfin"] /\ UNCHANGED <<ns, nr, last>>
           ELSE IF l.pcond THEN rc' = [b EXCEPT !.pc = "rstatus", !.mode = "clean"] /\ UNCHANGED <<ns, nr, last>>
           ELSE IF Closed(l) THEN (IF l.healthy = None THEN rc' = [b EXCEPT !.pc = "rstatus", !.mode = "await"] /\ UNCHANGED <<ns, nr, last>>
                                   ELSE RevOnly("waiting"))
           ELSE rc' = [b EXCEPT !.pc = TailPM(l).pc, !.mode = TailPM(l).mode] /\ UNCHANGED <<ns, nr, last>>
     \/ /\ \E f \in {"error", "miss", "crashBefore"} : rev.ex /\ Flt("get", R, f)
        /\ rc' = Idle /\ nr' = nr + 1 /\ UNCHANGED ns /\ last' = NoLast
  /\ UNCHANGED <<rev, bad>> /\ World
RWOut == IF ~rev.ex THEN "notfound" ELSE IF rc.stale THEN "conflict" ELSE "ok"
RStatusOf(m) ==
  CASE m = "paused" -> [rev EXCEPT !.pcond = TRUE]
    [] m = "clean" -> [rev EXCEPT !.pcond = FALSE, !.ver = NoVer, !.healthy = None]
    [] m = "await" -> [rev EXCEPT !.healthy = "Await"]
    [] m = "final" -> [rev EXCEPT !.healthy = "True", !.refs = TRUE]
    [] m = "unhealthy" -> [rev EXCEPT !.healthy = "False"]
REndKind == IF rc.mode = "final" THEN "done" ELSE rc.mode          \* "paused" | "clean" | "await" | "unhealthy"
\* behind the gate: with the feature on, only for a revision that was read verified
NoteTail == bad' = bad \cup (IF feat /\ ~IsTrue(rc.lr.ver) /\ rc.lr.des # "Inactive" THEN {"Gate"} ELSE {})
RStatus ==
  /\ Rev /\ rc.pc = "rstatus"
  /\ \/ /\ Ok("status", R) /\ quiet' = quiet
        /\ (IF RWOut = "ok" THEN rev' = RStatusOf(rc.mode) /\ Ended(REndKind) ELSE UNCHANGED rev /\ Ended(""))
     \/ /\ \E f \in {"error", "conflict", "crashBefore"} : Flt("status", R, f)
        /\ UNCHANGED rev /\ Ended("")
     \/ /\ Flt("status", R, "crashAfter") /\ Ended("")
        /\ (IF RWOut = "ok" THEN rev' = RStatusOf(rc.mode) ELSE UNCHANGED rev)
  /\ (IF rc.mode = "final" THEN NoteTail ELSE UNCHANGED bad) /\ World
\* an Update of the revision's metadata: AddFinalizer, RemoveFinalizer, the labels of the package meta
RevWrite(p, k, nv, next, errmode) ==
  /\ Rev /\ rc.pc = p
  /\ \/ /\ Ok(k, R) /\ quiet' = quiet
        /\ (IF RWOut = "ok" THEN rev' = nv /\ (IF next.pc = "END" THEN Ended("done")
                                                ELSE rc' = [rc EXCEPT !.pc = next.pc, !.mode = next.mode] /\ UNCHANGED <<ns, nr, last>>)
            ELSE UNCHANGED rev /\ Ended(""))
     \/ /\ Flt(k, R, "error") /\ UNCHANGED rev
        /\ (IF errmode = "" THEN Ended("") ELSE rc' = [rc EXCEPT !.pc = "rstatus", !.mode = errmode] /\ KeepF)
     \/ /\ \E f \in {"conflict", "crashBefore"} : Flt(k, R, f)
        /\ UNCHANGED rev /\ Ended("")
     \/ /\ Flt(k, R, "crashAfter") /\ Ended("")
        /\ (IF RWOut = "ok" THEN rev' = nv ELSE UNCHANGED rev)
  /\ World
\* (a failed AddFinalizer / RemoveFinalizer leaves an event only; a failed metadata Update a best-effort Healthy=False)
RAddFin == RevWrite("raddfin", "addfin", [rev EXCEPT !.fin = TRUE], AfterFinPM(rc.lr), "") /\ NoteTail
RRmFin == RevWrite("rrmfin", "rmfin", NoRev, PM("END", ""), "") /\ UNCHANGED bad
RMeta == RevWrite("rmeta", "meta", rev, PM("restablish", ""), "unhealthy") /\ NoteTail
\* the seams
RRelease == /\ Rev /\ rc.pc = "rrelease" /\ Ok("release", R) /\ Keep
            /\ rev' = [rev EXCEPT !.inst = FALSE]
            /\ LET n == IF rc.lr.refs THEN PM("rstatus", "final") ELSE ContentPM(rc.lr) IN rc' = [rc EXCEPT !.pc = n.pc, !.mode = n.mode]
            /\ NoteTail /\ World
REstablish == /\ Rev /\ rc.pc = "restablish" /\ Ok("establish", R) /\ Keep
              /\ rev' = [rev EXCEPT !.inst = (rc.lr.des = "Active") \/ @]
              /\ rc' = [rc EXCEPT !.pc = "rstatus", !.mode = "final"]
              /\ NoteTail /\ World
RevRec == RGet \/ RStatus \/ RAddFin \/ RRmFin \/ RMeta \/ RRelease \/ REstablish

Next == Env \/ SigRec \/ RevRec
Spec == Init /\ [][Next]_vars

----------------------------------------------------------------------------
(* Design-level properties                                                 *)
\* G1: nothing behind the gate happens for a revision that was read unverified (witness: GateOn = FALSE)
GateSafe == "Gate" \notin bad
\* G3 / V3: a verification reconcile that ran undisturbed leaves an Active revision with the verdict the world calls for -
\* unless it found a final one (then it did nothing)
RepairedSig ==
  (rc.a = "idle" /\ last.a = "sig" /\ last.ok /\ last.kind \in {"done", "failed"} /\ rev.ex) => rev.ver = Eval(rev.img)
\* V3: Succeeded / Failed name a config with a cosign section; Skipped / Incomplete none
VerdictShape == (rev.ver.st \in {"Succeeded", "Failed"} <=> rev.ver.by # None)
\* G3 for the revision reconciler: an undisturbed reconcile that ran to its natural end installed an Active revision
RepairedRev ==
  (rc.a = "idle" /\ last.a = "rev" /\ last.ok /\ last.kind = "done" /\ rev.ex /\ ~rev.paused /\ ~rev.pcond /\ ~rev.del) =>
     /\ rev.fin /\ rev.healthy = "True"
     /\ (rev.des = "Active" => rev.inst /\ (feat /\ GateOn => IsTrue(rev.ver)))
     /\ (rev.des = "Inactive" => ~rev.inst)
\* F-a (D33): an undisturbed reconcile of an Inactive revision (not paused, not being deleted, no conditions to clean) leaves
\* it deactivated.  Violated by the code as it was before a5e0931 (GateSkipsInactive = FALSE): the reconcile ended at the gate.
InactiveDeactivates ==
  (rc.a = "idle" /\ last.a = "rev" /\ last.ok /\ last.kind \in {"done", "await", "waiting"} /\ rev.ex /\ rev.des = "Inactive"
     /\ ~rev.paused /\ ~rev.pcond /\ ~rev.del) => ~rev.inst
\* O1: a final verdict is the one the world as it is calls for.  Violated by the code as written (Sticky = TRUE).
VerdictCurrent ==
  (rc.a = "idle" /\ last.a = "sig" /\ last.ok /\ rev.ex /\ rev.des = "Active" /\ IsTrue(rev.ver)) => rev.ver = Eval(rev.img)
=============================================================================
