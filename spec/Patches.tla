------------------------------ MODULE Patches ------------------------------
(***************************************************************************)
(* C10 - patch & transform rendering is total, deterministic, agrees with  *)
(* its documented meaning and never applies a half-rendered resource.      *)
(*                                                                         *)
(* This is a *vector* module: the functions under test are pure            *)
(*   composite.Resolve / ResolveTransforms      (composition_transforms.go)*)
(*   composite.Apply, RenderFromCompositePatches, RenderToCompositePatches,*)
(*   RenderComposedResourceMetadata, ComposedTemplates                     *)
(*                          (composition_patches.go, composition_render.go)*)
(*   PTComposer.Compose                                (composition_pt.go) *)
(* and the module holds (1) the finite JSON value lattice, (2) the patch / *)
(* transform / render input domains, (3) the REFERENCE SEMANTICS: what the *)
(* documentation of apis/apiextensions/v1/composition_transforms.go and    *)
(* composition_patches.go says the result must be.  MCPatches enumerates   *)
(* the domain (one real run per vector), MonPatches judges the recorded    *)
(* real outcome with the operators below.                                  *)
(*                                                                         *)
(* An expectation is one of                                                *)
(*   Val(v)  the call must succeed with value v         (documented)       *)
(*   ErrX     the call must return an error (invalid configuration per the  *)
(*           Validate() functions, an input that has no value of the       *)
(*           requested type, e.g. convert "a" to int64)                    *)
(*   AnyX    the documentation is silent: only totality (no panic) and     *)
(*           determinism are required.                                     *)
(* Interpretation rule: wherever the API documentation does not say what   *)
(* an input means (type mismatches such as math on a string, Go-specific   *)
(* renderings such as %v of a map, hashes, an unmatched regexp, ...) the   *)
(* expectation is AnyX.                                                     *)
(*                                                                         *)
(* Strings are sequences of one-character strings so that case mapping,    *)
(* trimming, joining, formatting and parsing are ordinary TLA+ operators.  *)
(* Integers beyond TLC's range (2^53) are carried by their decimal text.   *)
(* Floats are counted in halves (i = 2 * value): 0.5, 1.0, 1.5, -0.5 ...   *)
(***************************************************************************)
EXTENDS Integers, Sequences, FiniteSets, TLC

\* ------------------------------------------------------------ characters
RECURSIVE Str(_)
Str(cs) == IF cs = <<>> THEN "" ELSE cs[1] \o Str(Tail(cs))

DigitSeq == <<"0", "1", "2", "3", "4", "5", "6", "7", "8", "9">>
DigitSet == {DigitSeq[k] : k \in 1..10}
DigitVal(c) == (CHOOSE k \in 1..10 : DigitSeq[k] = c) - 1
LowerSeq == <<"a","b","c","d","e","f","g","h","i","j","k","l","m","n","o","p","q","r","s","t","u","v","w","x","y","z">>
UpperSeq == <<"A","B","C","D","E","F","G","H","I","J","K","L","M","N","O","P","Q","R","S","T","U","V","W","X","Y","Z">>
LowerSet == {LowerSeq[k] : k \in 1..26}
UpperSet == {UpperSeq[k] : k \in 1..26}
UpChar(c) == IF c \in LowerSet THEN UpperSeq[CHOOSE k \in 1..26 : LowerSeq[k] = c] ELSE c
LoChar(c) == IF c \in UpperSet THEN LowerSeq[CHOOSE k \in 1..26 : UpperSeq[k] = c] ELSE c
\* characters json.Marshal copies verbatim between the quotes (ASCII letters, digits, a few marks)
SafeSet == LowerSet \cup UpperSet \cup DigitSet \cup {"-", ".", "{", "}", "[", "]", ",", ":", " ", "_", "=", "+", "/"}
AllIn(cs, S) == \A k \in DOMAIN cs : cs[k] \in S
IsAscii(cs) == AllIn(cs, SafeSet \cup {"\"", "%", "!", "(", ")", "<", ">"})

RECURSIVE NatChars(_)
NatChars(n) == IF n < 10 THEN <<DigitSeq[n + 1]>> ELSE NatChars(n \div 10) \o <<DigitSeq[(n % 10) + 1]>>
IntChars(i) == IF i < 0 THEN <<"-">> \o NatChars(-i) ELSE NatChars(i)
Abs(i) == IF i < 0 THEN -i ELSE i
\* shortest decimal of h/2
HalvesChars(h) == (IF h < 0 THEN <<"-">> ELSE <<>>) \o NatChars(Abs(h) \div 2) \o (IF Abs(h) % 2 = 1 THEN <<".", "5">> ELSE <<>>)
RECURSIVE NatVal(_)
NatVal(cs) == IF cs = <<>> THEN 0 ELSE NatVal(SubSeq(cs, 1, Len(cs) - 1)) * 10 + DigitVal(cs[Len(cs)])
IsPrefix(p, s) == Len(p) <= Len(s) /\ SubSeq(s, 1, Len(p)) = p
IsSuffix(p, s) == Len(p) <= Len(s) /\ SubSeq(s, Len(s) - Len(p) + 1, Len(s)) = p
BigText == "9007199254740992"   \* 2^53
BigChars == <<"9","0","0","7","1","9","9","2","5","4","7","4","0","9","9","2">>

\* ---------------------------------------------------------------- values
\* t: JSON / Go type; i: integer value (int), 0/1 (bool), halves (float); s: characters (string);
\* j: canonical JSON text (numbers, objects, arrays); ex: i is exact (FALSE: the number is carried by j only)
Null == [t |-> "null", i |-> 0, s |-> <<>>, j |-> "null", ex |-> TRUE]
BoolV(b) == [t |-> "bool", i |-> IF b THEN 1 ELSE 0, s |-> <<>>, j |-> IF b THEN "true" ELSE "false", ex |-> TRUE]
IntV(n) == [t |-> "int", i |-> n, s |-> <<>>, j |-> Str(IntChars(n)), ex |-> TRUE]
BigInt == [t |-> "int", i |-> 0, s |-> <<>>, j |-> BigText, ex |-> FALSE]
FloatV(h) == [t |-> "float", i |-> h, s |-> <<>>, j |-> Str(HalvesChars(h)), ex |-> TRUE]
BigFloat == [t |-> "float", i |-> 0, s |-> <<>>, j |-> BigText, ex |-> FALSE]
StrV(cs) == [t |-> "string", i |-> 0, s |-> cs, j |-> "", ex |-> TRUE]
Obj(j) == [t |-> "object", i |-> 0, s |-> <<>>, j |-> j, ex |-> TRUE]
Arr(j) == [t |-> "array", i |-> 0, s |-> <<>>, j |-> j, ex |-> TRUE]

\* equality of a real (projected) value and a reference value
SameVal(a, b) ==
  /\ a.t = b.t
  /\ CASE a.t = "string" -> a.s = b.s
       [] a.t \in {"int", "float"} -> a.ex = b.ex /\ (IF a.ex THEN a.i = b.i ELSE a.j = b.j)
       [] a.t = "bool" -> a.i = b.i
       [] a.t = "null" -> TRUE
       [] OTHER -> a.j = b.j

\* the representatives (DESIGN 3/C10)
O2J == "{\"a\":1,\"b\":\"x\"}"
ONJ == "{\"l\":[\"a\",1],\"n\":{\"k\":\"v\"}}"
L0J == "[]"
L1J == "[\"a\"]"
L2J == "[\"a\",1]"
S(x) == StrV(x)
StrReps == {<<>>, <<"a">>, <<"1">>, <<"t","r","u","e">>, <<"1",".","5">>, <<"x","-","y">>, <<"{","}">>, <<"[","1","]">>}
ScalarValues == {Null, BoolV(TRUE), BoolV(FALSE), IntV(-1), IntV(0), IntV(1), IntV(2), BigInt, FloatV(1), FloatV(2)} \cup {S(x) : x \in StrReps}
Values == ScalarValues \cup {Obj(O2J), Obj(ONJ), Arr(L0J), Arr(L1J), Arr(L2J)}
\* elements of the array representatives (for join)
ArrElems(j) == CASE j = L0J -> <<>> [] j = L1J -> <<S(<<"a">>)>> [] j = L2J -> <<S(<<"a">>), IntV(1)>> [] OTHER -> <<Null>>
ArrKnown(j) == j \in {L0J, L1J, L2J}

\* canonical JSON text of a value after it went through an object's JSON round trip (1.0 is written "1")
JsonQuote(cs) == "\"" \o Str(cs) \o "\""
CanonJson(v) == IF v.t = "string" THEN JsonQuote(v.s) ELSE v.j
CanonKnown(v) == v.t # "string" \/ AllIn(v.s, SafeSet)

\* ----------------------------------------------------------- expectations
Val(v) == [k |-> "val", v |-> v]
ErrX == [k |-> "err", v |-> Null]
AnyX == [k |-> "any", v |-> Null]

\* ------------------------------------------------------------- transforms
\* One record shape for every transform:
\*  ty   "math" | "map" | "match" | "string" | "convert" | "bogus"        v1.Transform.Type
\*  cfg  the configuration struct of that type is set
\*  op   math: "" (default Multiply) | Multiply | ClampMin | ClampMax | Bogus
\*       string: "" (default Format) | Format | Convert | TrimPrefix | TrimSuffix | Regexp | Join | Bogus
\*       convert: toType; map: "pairs" | "empty"; match: name of the pattern list
\*  sub  the parameter the op needs is set (string: fmt/convert/trim/regexp/join; convert: format)
\*  hasn, n   integer parameter is set / its value (math operand, regexp group)
\*  a    text parameter as characters (fmt, conversion name, trim, regexp, separator, convert format)
\*  fb   match fallback: "none" | "value" | "input" | "both"
T(ty, cfg, op, sub, hasn, n, a, fb) == [ty |-> ty, cfg |-> cfg, op |-> op, sub |-> sub, hasn |-> hasn, n |-> n, a |-> a, fb |-> fb]
Math(op, hasn, n) == T("math", TRUE, op, TRUE, hasn, n, <<>>, "none")
MapT(op) == T("map", TRUE, op, TRUE, FALSE, 0, <<>>, "none")
Match(ps, fb) == T("match", TRUE, ps, TRUE, FALSE, 0, <<>>, fb)
StringT(op, sub, a) == T("string", TRUE, op, sub, FALSE, 0, a, "none")
Regexp(a, hasn, n) == T("string", TRUE, "Regexp", TRUE, hasn, n, a, "none")
Convert(to, sub, fmt) == T("convert", TRUE, to, sub, FALSE, 0, fmt, "none")
NoCfg(ty) == T(ty, FALSE, "", FALSE, FALSE, 0, <<>>, "none")

\* ---- math: "Multiply the value", "ClampMin makes sure that the value is not smaller than the given value",
\* "ClampMax makes sure that the value is not bigger than the given value"; Multiply keeps float / int (a float stays
\* a float, anything else is an int64); a clamp returns "either the input or the clamp value, preserving their types".
MathOp(t) == IF t.op = "" THEN "Multiply" ELSE t.op
MathExpect(t, v) ==
  IF ~t.cfg \/ MathOp(t) \notin {"Multiply", "ClampMin", "ClampMax"} \/ ~t.hasn THEN ErrX
  ELSE IF v.t \notin {"int", "float"} THEN AnyX
  ELSE IF ~v.ex THEN
    (IF MathOp(t) = "Multiply" THEN (IF t.n = 1 THEN Val(v) ELSE IF t.n = 0 THEN Val(IF v.t = "int" THEN IntV(0) ELSE FloatV(0)) ELSE AnyX)
     ELSE IF MathOp(t) = "ClampMin" THEN Val(v) ELSE Val(IntV(t.n)))        \* 2^53 is above every clamp value of the domain
  ELSE IF MathOp(t) = "Multiply" THEN
    (IF v.t = "int" THEN Val(IntV(v.i * t.n))
     ELSE IF v.i * t.n = 0 /\ (v.i < 0 \/ t.n < 0) THEN AnyX      \* IEEE negative zero: not a documented value
     ELSE Val(FloatV(v.i * t.n)))
  ELSE LET twice == IF v.t = "int" THEN 2 * v.i ELSE v.i      \* 2 * value
       IN IF MathOp(t) = "ClampMin" THEN (IF twice < 2 * t.n THEN Val(IntV(t.n)) ELSE Val(v))
          ELSE (IF twice > 2 * t.n THEN Val(IntV(t.n)) ELSE Val(v))
\* a clamp of a float with a fractional part: resolveMathClamp converts the float to int64 (truncation) before it
\* compares, so 0.5 with clampMax 0 stays 0.5 and 1.5 with clampMax 1 stays 1.5 although "ClampMax makes sure that the
\* value is not bigger than the given value".  The cell gets its own formula name (MathLaw.ClampFractional) so that this
\* finding can be fingerprinted without hiding any other disagreement of the math transform.
MathFractionalClamp(t, v) == t.ty = "math" /\ t.cfg /\ MathOp(t) \in {"ClampMin", "ClampMax"} /\ v.t = "float" /\ v.ex /\ v.i % 2 = 1

\* ---- map: "uses the input as a key in the given map and returns the value"
\* the pairs of the domain: a -> "A", 1 -> true, true -> {"k":"v"}, x-y -> (invalid JSON)
MapExpect(t, v) ==
  IF ~t.cfg THEN ErrX
  ELSE IF t.op # "pairs" \/ v.t # "string" THEN AnyX
  ELSE CASE v.s = <<"a">> -> Val(S(<<"A">>))
         [] v.s = <<"1">> -> Val(BoolV(TRUE))
         [] v.s = <<"t","r","u","e">> -> Val(Obj("{\"k\":\"v\"}"))
         [] OTHER -> AnyX

\* ---- match: "Patterns are tested in order. The value of the first match is used as result", literal = "has to exactly
\* match (case sensitive)", regexp = "regular expression against which the input string is tested. Crossplane will
\* throw an error if the key is not a valid regexp", fallbackValue / fallbackTo Value | Input "if no pattern matches".
\* pattern lists: p = [kind, result]; kinds: lit-a (literal "a"), re-digits (^[0-9]+$), re-lower (^[a-z]+$),
\* bad-re ("("), no-lit (type literal without literal), bogus (unknown type)
AllDigits(cs) == cs # <<>> /\ AllIn(cs, DigitSet)
AllLower(cs) == cs # <<>> /\ AllIn(cs, LowerSet)
Pat(k, r) == [kind |-> k, res |-> r]
PatternList(name) ==
  CASE name = "lit" -> <<Pat("lit-a", <<"L">>)>>
    [] name = "re" -> <<Pat("re-digits", <<"R">>)>>
    [] name = "litre" -> <<Pat("lit-a", <<"L">>), Pat("re-lower", <<"R">>)>>
    [] name = "relit" -> <<Pat("re-lower", <<"R">>), Pat("lit-a", <<"L">>)>>
    [] name = "badre" -> <<Pat("bad-re", <<"R">>)>>
    [] name = "nolit" -> <<Pat("no-lit", <<"L">>)>>
    [] name = "bogus" -> <<Pat("bogus", <<"L">>)>>
    [] OTHER -> <<>>
PatMatches(p, cs) == CASE p.kind = "lit-a" -> cs = <<"a">> [] p.kind = "re-digits" -> AllDigits(cs) [] p.kind = "re-lower" -> AllLower(cs) [] OTHER -> FALSE
MatchExpect(t, v) ==
  IF ~t.cfg THEN ErrX
  ELSE IF t.op \in {"badre", "nolit", "bogus"} THEN ErrX
  ELSE IF t.op = "none" \/ v.t # "string" THEN AnyX
  ELSE LET ps == PatternList(t.op)
           hits == {k \in DOMAIN ps : PatMatches(ps[k], v.s)}
       IN IF hits # {} THEN Val(S(ps[CHOOSE k \in hits : \A m \in hits : k <= m].res))
          ELSE CASE t.fb = "value" -> Val(S(<<"F">>)) [] t.fb = "input" -> Val(v) [] OTHER -> AnyX

\* ---- string
RECURSIVE Upper(_), Lower(_)
Upper(cs) == IF cs = <<>> THEN <<>> ELSE <<UpChar(cs[1])>> \o Upper(Tail(cs))
Lower(cs) == IF cs = <<>> THEN <<>> ELSE <<LoChar(cs[1])>> \o Lower(Tail(cs))
TrimPrefix(cs, p) == IF p # <<>> /\ IsPrefix(p, cs) THEN SubSeq(cs, Len(p) + 1, Len(cs)) ELSE cs
TrimSuffix(cs, p) == IF p # <<>> /\ IsSuffix(p, cs) THEN SubSeq(cs, 1, Len(cs) - Len(p)) ELSE cs
\* %v of a scalar (Go fmt): the characters, or <<"?">> flagged unknown
ScalarText(v) ==
  CASE v.t = "string" -> [ok |-> TRUE, cs |-> v.s]
    [] v.t = "int" -> [ok |-> TRUE, cs |-> IF v.ex THEN IntChars(v.i) ELSE BigChars]
    [] v.t = "bool" -> [ok |-> TRUE, cs |-> IF v.i = 1 THEN <<"t","r","u","e">> ELSE <<"f","a","l","s","e">>]
    [] v.t = "float" /\ v.ex -> [ok |-> TRUE, cs |-> HalvesChars(v.i)]
    [] OTHER -> [ok |-> FALSE, cs |-> <<>>]
RECURSIVE JoinTexts(_, _)
JoinTexts(vs, sep) == IF vs = <<>> THEN <<>> ELSE IF Len(vs) = 1 THEN ScalarText(vs[1]).cs ELSE ScalarText(vs[1]).cs \o sep \o JoinTexts(Tail(vs), sep)
\* [0-9]+ : leftmost maximal run of digits
FirstDigitRun(cs) ==
  LET first == CHOOSE k \in DOMAIN cs : cs[k] \in DigitSet /\ \A m \in 1..(k - 1) : cs[m] \notin DigitSet
      last == CHOOSE k \in first..Len(cs) : (\A m \in first..k : cs[m] \in DigitSet) /\ (k = Len(cs) \/ cs[k + 1] \notin DigitSet)
  IN SubSeq(cs, first, last)
HasDigit(cs) == \E k \in DOMAIN cs : cs[k] \in DigitSet
\* ^([a-z]+)-([a-z]+)$
DashAt(cs) == {k \in DOMAIN cs : cs[k] = "-" /\ AllLower(SubSeq(cs, 1, k - 1)) /\ AllLower(SubSeq(cs, k + 1, Len(cs)))}
RxDigits == <<"[","0","-","9","]","+">>
RxPair == <<"^","(","[","a","-","z","]","+",")","-","(","[","a","-","z","]","+",")","$">>
RxBad == <<"(">>
StringExpect(t, v) ==
  LET op == IF t.op = "" THEN "Format" ELSE t.op IN
  IF ~t.cfg \/ op \notin {"Format", "Convert", "TrimPrefix", "TrimSuffix", "Regexp", "Join"} \/ ~t.sub THEN ErrX
  ELSE IF t.op = "" THEN AnyX      \* the default type Format is filled in by the API server (+kubebuilder:default), not by ResolveString
  ELSE CASE op = "Format" ->
         (CASE t.a = <<"%","s">> /\ v.t = "string" -> Val(v)
            [] t.a = <<"p","-","%","s">> /\ v.t = "string" -> Val(S(<<"p","-">> \o v.s))
            [] t.a = <<"%","d">> /\ v.t = "int" -> Val(S(ScalarText(v).cs))
            [] t.a = <<"%","v">> /\ ScalarText(v).ok -> Val(S(ScalarText(v).cs))
            [] OTHER -> AnyX)
       [] op = "Convert" ->
         (CASE t.a = <<"T","o","U","p","p","e","r">> /\ v.t = "string" -> Val(S(Upper(v.s)))
            [] t.a = <<"T","o","L","o","w","e","r">> /\ v.t = "string" -> Val(S(Lower(v.s)))
            [] t.a = <<"T","o","J","s","o","n">> /\ v.t = "null" -> Val(S(<<"n","u","l","l">>))
            [] t.a = <<"T","o","J","s","o","n">> /\ v.t \in {"int", "bool"} -> Val(S(ScalarText(v).cs))
            [] t.a = <<"T","o","J","s","o","n">> /\ v.t = "float" /\ v.ex -> Val(S(HalvesChars(v.i)))
            [] t.a = <<"T","o","J","s","o","n">> /\ v.t = "string" /\ AllIn(v.s, SafeSet) -> Val(S(<<"\"">> \o v.s \o <<"\"">>))
            [] OTHER -> AnyX)      \* base64 and the hashes: totality and determinism only
       [] op = "TrimPrefix" -> IF v.t = "string" THEN Val(S(TrimPrefix(v.s, t.a))) ELSE AnyX
       [] op = "TrimSuffix" -> IF v.t = "string" THEN Val(S(TrimSuffix(v.s, t.a))) ELSE AnyX
       [] op = "Join" -> IF v.t = "array" /\ ArrKnown(v.j) THEN Val(S(JoinTexts(ArrElems(v.j), t.a))) ELSE AnyX
       [] op = "Regexp" ->
         LET g == IF t.hasn THEN t.n ELSE 0 IN     \* "Group number to match. 0 (the default) matches the entire expression."
         (CASE t.a = RxBad -> ErrX                  \* Validate: invalid regexp
            [] t.a = RxDigits /\ v.t = "string" /\ HasDigit(v.s) /\ g = 0 -> Val(S(FirstDigitRun(v.s)))
            [] t.a = RxPair /\ v.t = "string" /\ DashAt(v.s) # {} /\ g \in 0..2 ->
                 LET k == CHOOSE x \in DashAt(v.s) : TRUE IN
                 Val(S(CASE g = 0 -> v.s [] g = 1 -> SubSeq(v.s, 1, k - 1) [] OTHER -> SubSeq(v.s, k + 1, Len(v.s))))
            [] OTHER -> AnyX)
\* the cell of suspected defect D1 (DESIGN 4): a string transform of type Regexp with a negative group
NegativeGroup(t) == t.ty = "string" /\ t.cfg /\ t.op = "Regexp" /\ t.sub /\ t.hasn /\ t.n < 0

\* ---- convert: "Convert is used to cast the input into the given output type"; formats: none (default),
\* quantity ("parses the input as a K8s resource.Quantity. Only used during string -> float64 conversions"),
\* json ("parses the input as a JSON string. Only used during string -> object or string -> list conversions")
IOTypes == {"string", "bool", "int", "int64", "float64", "object", "array"}
Formats == {<<"n","o","n","e">>, <<"q","u","a","n","t","i","t","y">>, <<"j","s","o","n">>}
FromType(v) == CASE v.t = "string" -> "string" [] v.t = "bool" -> "bool" [] v.t = "int" -> "int64" [] v.t = "float" -> "float64" [] OTHER -> "other"
NormType(x) == IF x = "int" THEN "int64" ELSE x
\* [+-]?[0-9]+
SignSplit(cs) == IF cs # <<>> /\ cs[1] \in {"+", "-"} THEN [neg |-> cs[1] = "-", rest |-> Tail(cs)] ELSE [neg |-> FALSE, rest |-> cs]
IsIntText(cs) == AllDigits(SignSplit(cs).rest)
IntOfText(cs) == LET p == SignSplit(cs) IN IF p.neg THEN -NatVal(p.rest) ELSE NatVal(p.rest)
\* [+-]?[0-9]+(\.[0-9]+)? with a value in halves
DotAt(cs) == {k \in DOMAIN cs : cs[k] = "."}
IsDecText(cs) ==
  LET r == SignSplit(cs).rest IN
  IF DotAt(r) = {} THEN AllDigits(r)
  ELSE Cardinality(DotAt(r)) = 1 /\ LET k == CHOOSE x \in DotAt(r) : TRUE IN AllDigits(SubSeq(r, 1, k - 1)) /\ AllDigits(SubSeq(r, k + 1, Len(r)))
RECURSIVE StripZeros(_)
StripZeros(cs) == IF cs # <<>> /\ cs[Len(cs)] = "0" THEN StripZeros(SubSeq(cs, 1, Len(cs) - 1)) ELSE cs
DecParts(cs) ==
  LET p == SignSplit(cs)
      r == p.rest
      k == IF DotAt(r) = {} THEN Len(r) + 1 ELSE CHOOSE x \in DotAt(r) : TRUE
  IN [neg |-> p.neg, int |-> SubSeq(r, 1, k - 1), frac |-> StripZeros(SubSeq(r, k + 1, Len(r)))]
DecInHalves(cs) == IsDecText(cs) /\ DecParts(cs).frac \in {<<>>, <<"5">>} /\ Len(DecParts(cs).int) <= 6
HalvesOfText(cs) == LET p == DecParts(cs)
                        h == 2 * NatVal(p.int) + (IF p.frac = <<"5">> THEN 1 ELSE 0)
                    IN IF p.neg THEN -h ELSE h
BoolTrueTexts == {<<"1">>, <<"t">>, <<"T">>, <<"T","R","U","E">>, <<"t","r","u","e">>, <<"T","r","u","e">>}
BoolFalseTexts == {<<"0">>, <<"f">>, <<"F">>, <<"F","A","L","S","E">>, <<"f","a","l","s","e">>, <<"F","a","l","s","e">>}
ConvertExpect(t, v) ==
  LET fmt == IF t.sub THEN t.a ELSE <<"n","o","n","e">>
      from == FromType(v)
      to == NormType(t.op) IN
  IF ~t.cfg \/ t.op \notin IOTypes \/ fmt \notin Formats THEN ErrX        \* Validate: invalid type / invalid format
  ELSE IF from = "other" THEN AnyX                                        \* null, object, array input: undocumented
  ELSE IF from = to THEN (IF fmt = <<"n","o","n","e">> THEN Val(v) ELSE AnyX)
  ELSE IF fmt = <<"n","o","n","e">> THEN
    (CASE from = "string" /\ to = "int64" ->
            (IF ~IsIntText(v.s) THEN ErrX ELSE IF Len(v.s) > 7 THEN AnyX ELSE Val(IntV(IntOfText(v.s))))
       [] from = "string" /\ to = "bool" ->
            (IF v.s \in BoolTrueTexts THEN Val(BoolV(TRUE)) ELSE IF v.s \in BoolFalseTexts THEN Val(BoolV(FALSE)) ELSE ErrX)
       [] from = "string" /\ to = "float64" ->
            (IF DecInHalves(v.s) THEN (IF HalvesOfText(v.s) = 0 /\ DecParts(v.s).neg THEN AnyX ELSE Val(FloatV(HalvesOfText(v.s))))
             ELSE IF ~HasDigit(v.s) /\ Lower(SignSplit(v.s).rest) \notin {<<"i","n","f">>, <<"i","n","f","i","n","i","t","y">>, <<"n","a","n">>} THEN ErrX
             ELSE AnyX)
       [] from = "int64" /\ to = "string" -> Val(S(ScalarText(v).cs))
       [] from = "int64" /\ to = "float64" -> Val(IF v.ex THEN FloatV(2 * v.i) ELSE BigFloat)
       [] from = "int64" /\ to = "bool" /\ v.ex /\ v.i \in {0, 1} -> Val(BoolV(v.i = 1))
       [] from = "bool" /\ to = "string" -> Val(S(ScalarText(v).cs))
       [] from = "bool" /\ to = "int64" -> Val(IntV(v.i))
       [] from = "bool" /\ to = "float64" -> Val(FloatV(2 * v.i))
       [] from = "float64" /\ to = "string" /\ v.ex -> Val(S(HalvesChars(v.i)))
       [] from = "float64" /\ to = "string" /\ ~v.ex /\ v.j = BigText -> Val(S(BigChars))
       [] from = "float64" /\ to = "int64" /\ v.ex /\ v.i % 2 = 0 -> Val(IntV(v.i \div 2))
       [] from = "float64" /\ to = "int64" /\ ~v.ex /\ v.j = BigText -> Val(BigInt)
       [] from = "float64" /\ to = "bool" /\ v.ex /\ v.i \in {0, 2} -> Val(BoolV(v.i = 2))
       [] OTHER -> AnyX)
  ELSE IF fmt = <<"q","u","a","n","t","i","t","y">> THEN
    (IF from = "string" /\ to = "float64" THEN
       (IF DecInHalves(v.s) THEN (IF HalvesOfText(v.s) = 0 /\ DecParts(v.s).neg THEN AnyX ELSE Val(FloatV(HalvesOfText(v.s))))
        ELSE IF ~HasDigit(v.s) THEN ErrX ELSE AnyX)
     ELSE AnyX)
  ELSE \* json
    (CASE from = "string" /\ to = "object" ->
            (IF v.s = <<"{","}">> THEN Val(Obj("{}")) ELSE IF "{" \notin {v.s[k] : k \in DOMAIN v.s} /\ v.s # <<"n","u","l","l">> THEN ErrX ELSE AnyX)
       [] from = "string" /\ to = "array" ->
            (IF v.s = <<"[","1","]">> THEN Val(Arr("[1]")) ELSE IF v.s = <<"[","]">> THEN Val(Arr("[]"))
             ELSE IF "[" \notin {v.s[k] : k \in DOMAIN v.s} /\ v.s # <<"n","u","l","l">> THEN ErrX ELSE AnyX)
       [] OTHER -> AnyX)

Expect(t, v) ==
  CASE t.ty = "math" -> MathExpect(t, v)
    [] t.ty = "map" -> MapExpect(t, v)
    [] t.ty = "match" -> MatchExpect(t, v)
    [] t.ty = "string" -> StringExpect(t, v)
    [] t.ty = "convert" -> ConvertExpect(t, v)
    [] OTHER -> ErrX                       \* "transform type %s is not supported"

\* "Transforms are the list of functions that are used as a FIFO pipe for the input to be transformed"
IsB64(t, name) == t.ty = "string" /\ t.cfg /\ t.op = "Convert" /\ t.sub /\ t.a = name
RECURSIVE ChainExpect(_, _)
ChainExpect(ch, v) ==
  IF ch = <<>> THEN Val(v)
  ELSE IF Len(ch) = 2 /\ v.t = "string" /\ IsAscii(v.s) /\ IsB64(ch[1], <<"T","o","B","a","s","e","6","4">>) /\ IsB64(ch[2], <<"F","r","o","m","B","a","s","e","6","4">>)
       THEN Val(v)                         \* "ToBase64 and FromBase64 perform a base64 conversion based on the input string"
  ELSE LET x == Expect(ch[1], v) IN
       IF x.k = "val" THEN ChainExpect(Tail(ch), x.v) ELSE IF x.k = "err" THEN ErrX ELSE AnyX
\* the transform reached with a known value: position k of the chain is evaluated on a documented input
RECURSIVE ReachedNegGroup(_, _)
ReachedNegGroup(ch, v) ==
  /\ ch # <<>>
  /\ \/ NegativeGroup(ch[1])
     \/ LET x == Expect(ch[1], v) IN
        (x.k = "val" /\ ReachedNegGroup(Tail(ch), x.v)) \/ (x.k = "any" /\ \E k \in DOMAIN Tail(ch) : NegativeGroup(Tail(ch)[k]))
RECURSIVE ReachedFractionalClamp(_, _)
ReachedFractionalClamp(ch, v) ==
  /\ ch # <<>>
  /\ \/ MathFractionalClamp(ch[1], v)
     \/ LET x == Expect(ch[1], v) IN x.k = "val" /\ ReachedFractionalClamp(Tail(ch), x.v)

\* name of the documented-meaning law a vector exercises (so that a known finding can be fingerprinted)
TypeTag(x) == CASE x = "string" -> "String" [] x = "bool" -> "Bool" [] x \in {"int", "int64"} -> "Int" [] x = "float64" -> "Float"
                [] x = "object" -> "Object" [] x = "array" -> "Array" [] OTHER -> "Other"
LawName(ch, v) ==
  IF ch = <<>> THEN "Meaning.Identity"
  ELSE IF ReachedFractionalClamp(ch, v) THEN "MathLaw.ClampFractional"
  ELSE IF \A k \in DOMAIN ch : ch[k].ty = "convert" THEN
    (IF Len(ch) = 1 THEN "ConvertLaw." \o TypeTag(FromType(v)) \o TypeTag(ch[1].op) ELSE "ConvertLaw.RoundTrip")
  ELSE IF Len(ch) > 1 THEN "Meaning.Chain"
  ELSE CASE ch[1].ty = "math" -> "Meaning.Math" [] ch[1].ty = "map" -> "Meaning.Map" [] ch[1].ty = "match" -> "Meaning.Match"
         [] ch[1].ty = "string" -> "Meaning.String" [] OTHER -> "Meaning.Type"

\* ---------------------------------------------------------------- patches
\* Source skeleton (the driver builds it; From* patches read the XR, To* patches read the composed resource):
\*   spec.val = VAL, spec.wrap = [VAL], spec.str = "s", spec.nul = null, spec.obj = {"k":"v"}
\* Target skeleton: spec.str = "s", spec.obj = {"a":"old","z":true}, spec.lst = ["a"], spec.items = [{"v":"p"},{"v":"q"}]
\* A from path is classified as
\*   present   the path exists in the source (its value may be null)
\*   missing   "the specified fromFieldPath does not exist": a field that is absent, an index beyond the array,
\*             a path below null
\*   odd       everything else (through a scalar, wildcard as a source, unparsable, empty): the documentation is
\*             silent, only totality / purity / determinism are required
FP(k, p, set) == [k |-> k, p |-> p, set |-> set]
FromPresent == {FP("plain", "spec.val", TRUE), FP("bracket", "spec[val]", TRUE), FP("quoted", "spec['val']", TRUE), FP("index", "spec.wrap[0]", TRUE)}
FromMissing == {FP("absent", "spec.nope", TRUE), FP("deep", "spec.nope.deeper", TRUE), FP("oob", "spec.wrap[5]", TRUE), FP("thrunull", "spec.nul.x", TRUE)}
FromOdd == {FP("wild", "spec.wrap[*]", TRUE), FP("thrustr", "spec.str.x", TRUE), FP("idxstr", "spec.str[0]", TRUE), FP("idxobj", "spec.obj[0]", TRUE),
            FP("fldarr", "spec.wrap.x", TRUE), FP("bad", "spec[", TRUE), FP("empty", "", TRUE)}
FromUnset == FP("unset", "", FALSE)
FromStr == FP("str", "spec.str", TRUE)          \* a second present source (combine)
IsMissing(f) == f.k \in {x.k : x \in FromMissing}
IsPresent(f) == f.k \in {x.k : x \in FromPresent} \cup {"str"}

ToUnset == FP("unset", "", FALSE)
ToPlain == FP("plain", "spec.out", TRUE)
ToSimple == {ToPlain, FP("deep", "spec.n1.n2.n3", TRUE), FP("bracket", "metadata.annotations[x.y/z]", TRUE), FP("obj", "spec.obj", TRUE),
             FP("lst", "spec.lst", TRUE), FP("idx0", "spec.lst[0]", TRUE), FP("idxpad", "spec.lst[2]", TRUE)}
ToWild == {FP("wild", "spec.items[*].v", TRUE), FP("wildobj", "spec.obj[*]", TRUE)}
ToOdd == {FP("wildnone", "spec.none[*].v", TRUE), FP("wildstr", "spec.str[*]", TRUE), FP("thrustr", "spec.str.x", TRUE), FP("kind", "kind", TRUE),
          FP("bad", "spec[", TRUE), FP("huge", "spec.lst[5000]", TRUE), FP("empty", "", TRUE)}

\* patch record: ptype = v1.PatchType ("" = unset, "Bogus"); pol: nil | empty | Optional | Required; mo: nil | empty | keep | append | both;
\* vars = from paths of a Combine (cstrat: string | bogus | nocfg | nocombine; cfmt its format); psn: PatchSetName ("" = unset)
P(ptype, from, to, pol, mo, chain, vars, cfmt, cstrat) ==
  [ptype |-> ptype, from |-> from, to |-> to, pol |-> pol, mo |-> mo, chain |-> chain, vars |-> vars, cfmt |-> cfmt, cstrat |-> cstrat]
Simple(ptype, from, to, pol) == P(ptype, from, to, pol, "nil", <<>>, <<>>, <<>>, "nocombine")
FieldTypes == {"FromCompositeFieldPath", "ToCompositeFieldPath"}
CombineTypes == {"CombineFromComposite", "CombineToComposite"}
FromXRTypes == {"FromCompositeFieldPath", "CombineFromComposite"}
ToXRTypes == {"ToCompositeFieldPath", "CombineToComposite"}
Optional(p) == p.pol \in {"nil", "empty", "Optional"}       \* "The default is 'Optional'"
\* the sources a patch reads
Sources(p) == IF p.ptype \in FieldTypes THEN {p.from} ELSE IF p.ptype \in CombineTypes THEN {p.vars[k] : k \in DOMAIN p.vars} ELSE {}
WellFormed(p) == \/ p.ptype \in FieldTypes /\ p.from.set
                 \/ p.ptype \in CombineTypes /\ p.to.set /\ p.cstrat = "string" /\ p.vars # <<>>
\* "the patch will be a no-op if the specified fromFieldPath does not exist" / "Use 'Required' if the patch should fail"
\* (for a Combine: "If any source field is not found, we will not apply the patch")
\* evaluated left to right: the first source that is not present decides
FirstNotPresent(p) ==
  IF p.ptype \in FieldTypes THEN (IF IsPresent(p.from) THEN "none" ELSE IF IsMissing(p.from) THEN "missing" ELSE "odd")
  ELSE LET bad == {k \in DOMAIN p.vars : ~IsPresent(p.vars[k])} IN
       IF bad = {} THEN "none" ELSE IF IsMissing(p.vars[CHOOSE k \in bad : \A m \in bad : k <= m]) THEN "missing" ELSE "odd"
MissingSource(p) == WellFormed(p) /\ FirstNotPresent(p) = "missing"

\* where a successful FieldPath patch without transforms must have put the value c (canonical JSON) - probe name and text;
\* "Leave empty if you'd like to propagate to the same path as fromFieldPath"
Landing(p, c) ==
  LET to == IF p.to.set THEN p.to.k ELSE "same:" \o p.from.k IN
  CASE to = "plain" -> [at |-> "out", txt |-> c]
    [] to = "deep" -> [at |-> "n3", txt |-> c]
    [] to = "bracket" -> [at |-> "ann", txt |-> c]
    [] to = "obj" -> [at |-> "obj", txt |-> c]
    [] to = "lst" -> [at |-> "lst", txt |-> c]
    [] to = "idx0" -> [at |-> "lst", txt |-> "[" \o c \o "]"]
    [] to = "idxpad" -> [at |-> "lst", txt |-> "[\"a\",null," \o c \o "]"]
    [] to = "wild" -> [at |-> "items", txt |-> "[{\"v\":" \o c \o "},{\"v\":" \o c \o "}]"]
    [] to = "wildobj" -> [at |-> "obj", txt |-> "{\"a\":" \o c \o ",\"z\":" \o c \o "}"]
    [] to \in {"same:plain", "same:bracket", "same:quoted"} -> [at |-> "val", txt |-> c]
    [] to = "same:index" -> [at |-> "wrap", txt |-> "[" \o c \o "]"]
    [] OTHER -> [at |-> "none", txt |-> ""]
\* merge options (crossplane-runtime xpv1.MergeOptions): keepMapValues "already existing values in a merged map
\* should be preserved", appendSlice "already existing elements in a merged slice should be preserved"; without
\* options the value replaces the field.  Only these documented cells are asserted:
MergeCell(p, v) ==
  CASE p.to.k = "obj" /\ v.j = O2J /\ p.mo = "nil" -> O2J
    [] p.to.k = "obj" /\ v.j = O2J /\ p.mo \in {"empty", "append"} -> "{\"a\":1,\"b\":\"x\",\"z\":true}"
    [] p.to.k = "obj" /\ v.j = O2J /\ p.mo \in {"keep", "both"} -> "{\"a\":\"old\",\"b\":\"x\",\"z\":true}"
    [] p.to.k = "lst" /\ v.j = L2J /\ p.mo \in {"nil", "empty"} -> L2J
    [] p.to.k = "lst" /\ v.j = L2J /\ p.mo = "append" -> L2J
    [] OTHER -> ""

\* Combine with strategy string: "Format the input using a Go format string" over the variables in order
CombineText(p, v) ==
  LET txt(f) == IF f.k = "str" THEN [ok |-> TRUE, cs |-> <<"s">>] ELSE ScalarText(v)
      all == \A k \in DOMAIN p.vars : txt(p.vars[k]).ok /\ (v.t = "string" \/ p.vars[k].k = "str") IN
  IF ~all THEN [ok |-> FALSE, cs |-> <<>>]
  ELSE CASE p.cfmt = <<"%","s">> /\ Len(p.vars) = 1 -> [ok |-> TRUE, cs |-> txt(p.vars[1]).cs]
         [] p.cfmt = <<"%","s","-","%","s">> /\ Len(p.vars) = 2 -> [ok |-> TRUE, cs |-> txt(p.vars[1]).cs \o <<"-">> \o txt(p.vars[2]).cs]
         [] OTHER -> [ok |-> FALSE, cs |-> <<>>]

\* ----------------------------------------------------------------- render
\* HalfRendered scenarios for PTComposer.Compose: n named templates t1..tn, each with the patch
\* FromCompositeFieldPath spec.size -> spec.size; template number `fail` additionally gets, in the judged Compose:
\*   required   a Required FromCompositeFieldPath patch whose source is missing
\*   transform  a patch whose transform returns an error (convert "abc" to int64)
\*   topath     a patch whose toFieldPath runs through a scalar
\*   namegen    nothing, but the API read that checks its generated name for availability fails
\*   namegen-nomatch  ... fails with "no matches for kind" (the kind is not served yet): a failure like any other, not
\*              "the name is free" (added after the seeded change C10-m5 was missed)
\*   optional   an Optional patch whose source is missing (control: nothing fails)
\*   label      nothing, but the XR lacks the name-prefix label crossplane.io/composite (every template fails to render metadata)
\* phase create: the judged Compose is the first one; phase update: a healthy Compose ran before, then spec.size changed
Templates(n) == {"t" \o ToString(k) : k \in 1..n}
FailingTemplates(r) ==
  IF r.kind = "label" THEN Templates(r.n)
  ELSE IF r.kind \in {"required", "transform", "topath", "namegen", "namegen-nomatch"} /\ r.fail > 0 THEN {"t" \o ToString(r.fail)}
  ELSE {}
=============================================================================
