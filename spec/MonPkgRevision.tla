---------------------------- MODULE MonPkgRevision ----------------------------
(***************************************************************************)
(* Trace monitor for PkgRevision (property C15): evaluates the formulas on *)
(* every recorded event of executions of the real package revision        *)
(* reconciler (real ImageBackend, real FsPackageCache, real parser and     *)
(* linters, real signature reconciler).  Every event carries the whole     *)
(* projection, so the search is linear.  A violated formula prints a VIOL  *)
(* line and the monitor keeps going.                                       *)
(*                                                                         *)
(* Event fields used (harness/drivers/pkgrevision):                        *)
(*   ev        "reset" | "build" | "sig" | "env" | "start" | "step" | "end"*)
(*   seq       distance to the scenario's reset event                      *)
(*   rtype     Provider | Configuration | Function                         *)
(*   declMeta / declKinds / declObjs   what the image declares: kind tokens*)
(*             of its meta documents, kind tokens and (kind/name/digest)   *)
(*             ids of its object documents                                 *)
(*   cons, ignore, verifOn, verifiedPre                                    *)
(*   src       where this reconcile read the package from                  *)
(*   srcErr    the image stream failed while this reconcile read it        *)
(*   storeErr  cache.Store returned an error in this reconcile             *)
(*   cacheUsed / cache   the revision's cache entry when cache.Get handed  *)
(*             it to this reconcile / now: exists, gz (gunzips completely),*)
(*             prefix (its content is a prefix of the image's stream),     *)
(*             docs, half, dig                                             *)
(*   estCalled, est   Establish was called in this reconcile, with which   *)
(*             objects                                                     *)
(*   rt        for "build": objects of the package directory and objects   *)
(*             parsed back from the image `xpkg build` produced            *)
(***************************************************************************)
EXTENDS Integers, Sequences, FiniteSets, TLC, Json, IOUtils

Trace == ndJsonDeserialize(IOEnv.VERIF_TRACE)
VARIABLE l
Range(s) == {s[i] : i \in DOMAIN s}
SameBag(a, b) == Range(a) = Range(b) /\ Len(a) = Len(b)

MetaFor(T) == CASE T = "Provider" -> "mP" [] T = "Configuration" -> "mC" [] OTHER -> "mF"
ObjKinds == {"CRD", "XRD", "CMP", "MWC", "VWC"}
Allowed(T) == CASE T = "Provider" -> {"CRD", "MWC", "VWC"} [] T = "Configuration" -> {"XRD", "CMP"} [] OTHER -> ObjKinds

NDocs(e) == Len(e.declMeta) + Len(e.declObjs)
\* a complete entry holds every document of the image's stream
Complete(c, n) == c.exists /\ c.gz = "ok" /\ c.prefix /\ c.docs = n /\ ~c.half
Installs(e) == e.ev = "end" /\ e.estCalled

\* ---- Exact: what is established is exactly what the image declares - cold, warm, after any failure
Exact(e) == Installs(e) => SameBag(e.est, e.declObjs)

\* ---- CacheSound: a cache entry a reconcile installs from is complete
CacheSound(e) == (Installs(e) /\ e.src = "cache") => Complete(e.cacheUsed, NDocs(e))

\* A failed cache write leaves no entry behind (reconciler.go: "if we failed to cache we want to cleanup"): nobody
\* vouches for the content of an entry whose Store returned an error.  Not asserted when the environment made the
\* Remove fail, when the process died, or while a second reconciler of the revision is writing the cache.
FailedStoreCleanup(e) == (e.ev = "end" /\ e.storeErr /\ e.fault.del = "ok" /\ e.result # "crashed" /\ ~e.conc) => ~e.cache.exists

\* ---- Gate: a package that must not be installed is not installed
GateMetaCount(e) == Installs(e) => Len(e.declMeta) = 1
GateMetaType(e) == Installs(e) => \A m \in Range(e.declMeta) : m = MetaFor(e.rtype)
GateKind(e) == Installs(e) => \A k \in Range(e.declKinds) : k \in Allowed(e.rtype)
GateConstraints(e) == (Installs(e) /\ e.cons \in {"unmet", "bad"}) => e.ignore
GateVerification(e) == (Installs(e) /\ e.verifOn) => e.verifiedPre = "True"

\* ---- RoundTrip: what `xpkg build` produces parses back to the objects of the package directory
RoundTrip(e) == (e.ev = "build" /\ e.rt.built) =>
                  /\ SameBag(e.rt.parsed, e.rt.dir)
                  /\ SameBag(e.rt.parsedMeta, e.rt.dirMeta)

\* ---- the D4 situation, classified from the recorded history: this reconcile read a well-formed but incomplete
\* cache entry that an earlier reconcile of the same scenario left behind when its image stream failed mid-way
\* (the cache writer reported success although the tee had been closed before EOF).
\* (With two concurrent reconcilers the writer's "end" event may be recorded after the reader's: look a little ahead too.)
FromTruncated(e) == e.src = "cache" /\ e.cacheUsed.exists /\ e.cacheUsed.gz = "ok" /\ ~Complete(e.cacheUsed, NDocs(e))
MinI(a, b) == IF a < b THEN a ELSE b
WrittenAfterSourceError(i) ==
  LET e == Trace[i] IN
  \E j \in (i - e.seq)..MinI(i + 40, Len(Trace)) :
    /\ j >= 1 /\ j # i
    /\ LET p == Trace[j] IN
       /\ p.ev = "end" /\ p.scenario = e.scenario
       /\ p.src = "registry" /\ p.srcErr /\ p.fault.store = "none"
       /\ p.cache.exists /\ p.cache.dig = e.cacheUsed.dig
D4(i) == FromTruncated(Trace[i]) /\ WrittenAfterSourceError(i)

Viol(name, i) == PrintT("VIOL|" \o name \o "|" \o ToString(i) \o "|" \o Trace[i].scenario)
Check(i) ==
  LET e == Trace[i] IN
  /\ (Exact(e) \/ (D4(i) /\ Viol("Exact.TruncatedCache", i)) \/ Viol("Exact", i))
  /\ (CacheSound(e) \/ (D4(i) /\ Viol("CacheSound.TruncatedAfterSourceError", i)) \/ Viol("CacheSound", i))
  /\ (FailedStoreCleanup(e) \/ Viol("CacheSound.FailedStoreCleanup", i))
  /\ (GateMetaCount(e) \/ (D4(i) /\ Viol("Gate.TruncatedCache", i)) \/ Viol("Gate.MetaCount", i))
  /\ (GateMetaType(e) \/ (D4(i) /\ Viol("Gate.TruncatedCache", i)) \/ Viol("Gate.MetaType", i))
  /\ (GateKind(e) \/ (D4(i) /\ Viol("Gate.TruncatedCache", i)) \/ Viol("Gate.Kind", i))
  /\ (GateConstraints(e) \/ (D4(i) /\ Viol("Gate.TruncatedCache", i)) \/ Viol("Gate.Constraints", i))
  /\ (GateVerification(e) \/ Viol("Gate.Verification", i))
  /\ (RoundTrip(e) \/ Viol("RoundTrip", i))

Init == l = 0
Next == /\ l < Len(Trace) /\ l' = l + 1 /\ Check(l')
        /\ (l' < Len(Trace) \/ PrintT("DONE|" \o ToString(l')))
Spec == Init /\ [][Next]_l
=============================================================================
