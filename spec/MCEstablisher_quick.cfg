SPECIFICATION Spec
CONSTANTS
  OSeq <- OSeq2
  Pkg1 = {"a", "b"}
  Pkg2 = {"a", "b"}
  PreStates = {"absent", "free", "R1", "Q"}
  MaxRej = 1
  FreeRefs = FALSE
  Grabs = TRUE
  MaxEdits = 2
  MaxFaults = 1
  MaxRecs = 3
VIEW view
ACTION_CONSTRAINT Emit
CHECK_DEADLOCK FALSE
INVARIANTS OneController InactiveSettled
PROPERTIES AllOrNothing OnlyActiveCreates InactivePlainStep ReleaseKeeps PkgOwner ForeignUntouched
