SPECIFICATION Spec
CONSTANTS
  USeq <- S2
  Useds <- U1
  Configs <- CfgHook
  InitSel <- NoSet
  InitCtl <- NoSet
  Policies <- PolAll
  DryRuns <- Bools
  HookFaults <- HookAll
  EnvKinds <- EnvHook
  FaultKinds <- FaultsFew
  MaxCreates = 2
  MaxRecs = 4
  MaxFaults = 1
  MaxEnv = 3
  MaxDel = 2
  MidEnv = FALSE
  BFin = FALSE
  FinFirst = TRUE
  DryRunAware = TRUE
  PanicFree = TRUE
VIEW view
ACTION_CONSTRAINT Emit
CHECK_DEADLOCK FALSE
INVARIANTS TypeOK StepProps FinBeforeLabel FinResolved OwnOnlyBy PendSane Repaired
