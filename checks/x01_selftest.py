#!/usr/bin/env python3
"""Anti-vacuity self test of the X01 check (run by hand: python3 checks/x01_selftest.py).

1. sanity mutants of the real runtime code, applied ONLY through `go build -overlay` on scratch copies (nothing is
   written to /repo): each must make MonRuntime report the expected formulas (more often than on the unchanged tree:
   HandOver.KillsActive and Settled.Leftover.Renamed are findings present on the unchanged tree);
2. the candidate repair of the HandOver.KillsActive finding (Deactivate deletes only a Deployment the revision
   controls), also through an overlay: the finding must disappear and nothing else may appear;
3. seeded corruption of recorded fields of a real trace: MonRuntime must reject the corrupted line.
Scratch: /verif/.work/X01-selftest."""
import json
import os
import subprocess
import sys

sys.path.insert(0, os.path.dirname(os.path.dirname(os.path.abspath(__file__))))
import vlib  # noqa: E402
from checks import x01  # noqa: E402

D = "internal/controller/pkg/revision/"
RP, RF, RO = D + "runtime_provider.go", D + "runtime_function.go", D + "runtime_override_options.go"

POST_ORDER_OLD = ("\tif sa.Name == d.Spec.Template.Spec.ServiceAccountName {\n\t\tif err := applySA(ctx, h.client, sa); err != nil {\n"
                  "\t\t\treturn errors.Wrap(err, errApplyProviderSA)\n\t\t}\n\t}\n"
                  "\tif err := h.client.Apply(ctx, d); err != nil {\n\t\treturn errors.Wrap(err, errApplyProviderDeployment)\n\t}\n")
POST_ORDER_NEW = ("\tif err := h.client.Apply(ctx, d); err != nil {\n\t\treturn errors.Wrap(err, errApplyProviderDeployment)\n\t}\n"
                  "\tif sa.Name == d.Spec.Template.Spec.ServiceAccountName {\n\t\tif err := applySA(ctx, h.client, sa); err != nil {\n"
                  "\t\t\treturn errors.Wrap(err, errApplyProviderSA)\n\t\t}\n\t}\n")
DEL_P = "\tif err := h.client.Delete(ctx, build.Deployment(sa.Name)); resource.IgnoreNotFound(err) != nil {\n\t\treturn errors.Wrap(err, errDeleteProviderDeployment)\n\t}\n"
DEL_F = "\tif err := h.client.Delete(ctx, build.Deployment(sa.Name)); resource.IgnoreNotFound(err) != nil {\n\t\treturn errors.Wrap(err, errDeleteFunctionDeployment)\n\t}\n"


def own_delete(errname):
    """candidate repair: look the Deployment up and delete it only if this revision controls it (uid precondition)"""
    return ("\tif d := build.Deployment(sa.Name); true {\n"
            "\t\tcur := &appsv1.Deployment{}\n"
            "\t\terr := h.client.Get(ctx, client.ObjectKey{Namespace: d.Namespace, Name: d.Name}, cur)\n"
            "\t\tif resource.IgnoreNotFound(err) != nil {\n\t\t\treturn errors.Wrap(err, %s)\n\t\t}\n"
            "\t\tif err == nil && metav1X.IsControlledBy(cur, pr) {\n"
            "\t\t\tif err := h.client.Delete(ctx, cur, client.Preconditions{UID: &cur.UID}); resource.IgnoreNotFound(err) != nil {\n"
            "\t\t\t\treturn errors.Wrap(err, %s)\n\t\t\t}\n\t\t}\n\t}\n" % (errname, errname))


MUTANTS = [
    # (name, [(file in /repo, old text, new text)...], formulas that must fire more often than on the unchanged tree)
    ("a-post-without-inactive-guard", [(RP, "\t\treturn errors.New(\"not a provider package\")\n\t}\n\tif pr.GetDesiredState() != v1.PackageRevisionActive {\n\t\treturn nil\n\t}\n",
                                        "\t\treturn errors.New(\"not a provider package\")\n\t}\n")],
     ["InactiveNeverCreates"]),
    ("b-healthy-without-available-condition", [(RP, "\treturn errors.New(errNoAvailableConditionProviderDeployment)\n", "\treturn nil\n")], ["HealthTruth"]),
    ("b2-healthy-although-unavailable", [(RF, "\t\t\treturn errors.Errorf(errFmtUnavailableFunctionDeployment, c.Message)\n", "\t\t\treturn nil\n")], ["HealthTruth"]),
    ("c-deployment-before-serviceaccount", [(RP, POST_ORDER_OLD, POST_ORDER_NEW)], ["Order.Prereqs"]),
    ("d-selector-only-if-unset", [(RO, "\t\td.Spec.Selector.MatchLabels = selectors\n",
                                   "\t\tif len(d.Spec.Selector.MatchLabels) == 0 {\n\t\t\td.Spec.Selector.MatchLabels = selectors\n\t\t}\n")],
     ["Mandatory.Selector", "ServiceMatches"]),
    ("e-deployment-owner-reference-dropped", [(RO, "\t\td.OwnerReferences = owners\n", "\t\t_ = owners\n")], ["Owned.Controller", "Settled.ActiveRuns"]),
    ("f-deactivate-keeps-deployment", [(RP, DEL_P, "\t_ = sa\n")], ["Deactivate.Removes", "Settled.Leftover"]),
    ("g-runtime-container-not-moved-first", [(RO, "\t\t\t\tif i == 0 {\n\t\t\t\t\t// Already the first container, done.\n\t\t\t\t\treturn\n\t\t\t\t}\n",
                                              "\t\t\t\tif i >= 0 {\n\t\t\t\t\treturn\n\t\t\t\t}\n")],
     ["Mandatory.RuntimeFirst"]),
    ("h-function-endpoint-from-revision-name", [(RF, "fmt.Sprintf(serviceEndpointFmt, svc.Name, svc.Namespace, grpcPort)",
                                                 "fmt.Sprintf(serviceEndpointFmt, pr.GetName(), svc.Namespace, grpcPort)")], ["Endpoint"]),
    ("i-optional-replicas-always-set", [(RO, "\t\tif d.Spec.Replicas == nil {\n\t\t\td.Spec.Replicas = &replicas\n\t\t}\n", "\t\td.Spec.Replicas = &replicas\n")],
     ["Defaults.Replicas"]),
    ("j-applysa-forgets-foreign-pull-secrets", [(RP, "\t\t\tif !existingSecrets[secret.Name] {\n", "\t\t\tif !existingSecrets[secret.Name] && false {\n")],
     ["ServiceAccount.KeepsPullSecrets"]),
    ("k-permission-requests-not-recorded", [(RP, "\tprovRev.Status.PermissionRequests = providerMeta.Spec.Controller.PermissionRequests\n", "\t_ = provRev\n")],
     ["PermissionRequests"]),
]
REPAIR = ("candidate-repair-deactivate-deletes-only-its-own",
          [(RP, DEL_P, own_delete("errDeleteProviderDeployment")),
           (RP, "\tappsv1 \"k8s.io/api/apps/v1\"\n", "\tappsv1 \"k8s.io/api/apps/v1\"\n\tmetav1X \"k8s.io/apimachinery/pkg/apis/meta/v1\"\n"),
           (RF, DEL_F, own_delete("errDeleteFunctionDeployment")),
           (RF, "func (h *FunctionHooks) Deactivate(ctx context.Context, _ v1.PackageRevisionWithRuntime, build ManifestBuilder) error {",
            "func (h *FunctionHooks) Deactivate(ctx context.Context, pr v1.PackageRevisionWithRuntime, build ManifestBuilder) error {"),
           (RF, "\tmetav1 \"k8s.io/apimachinery/pkg/apis/meta/v1\"\n", "\tmetav1 \"k8s.io/apimachinery/pkg/apis/meta/v1\"\n\tmetav1X \"k8s.io/apimachinery/pkg/apis/meta/v1\"\n")])


def build_mutant(ctx, name, edits):
    d = os.path.join(ctx.work, "mutants", name)
    os.makedirs(d, exist_ok=True)
    texts = {}
    for rel, old, new in edits:
        src = texts.get(rel) or open(os.path.join("/repo", rel)).read()
        if src.count(old) != 1:
            raise SystemExit("mutant %s: anchor text occurs %d times in %s" % (name, src.count(old), rel))
        texts[rel] = src.replace(old, new)
    repl = {}
    for rel, txt in texts.items():
        mp = os.path.join(d, os.path.basename(rel))
        with open(mp, "w") as f:
            f.write(txt)
        repl[os.path.join("/repo", rel)] = mp
    ov = os.path.join(d, "overlay.json")
    with open(ov, "w") as f:
        json.dump({"Replace": repl}, f)
    out = os.path.join(d, "runtime")
    e = dict(os.environ)
    e.update(vlib.GOENV)
    p = subprocess.run(["go", "build", "-overlay", ov, "-o", out, "./drivers/runtime"], cwd=vlib.HARNESS, env=e,
                       stdout=subprocess.PIPE, stderr=subprocess.STDOUT, text=True)
    if p.returncode != 0:
        raise SystemExit("mutant %s does not build:\n%s" % (name, p.stdout[-3000:]))
    return out


def judge(ctx, binp, scs, tag):
    prefix, _ = ctx.run_sharded(binp, scs, ["-chunk", "40000"], shards=6, name="trace_" + tag)
    viols, _ = ctx.monitor("MonRuntime", prefix, par=8)
    by = {}
    for f, _, _ in viols:
        by[f] = by.get(f, 0) + 1
    return by, prefix


def main():
    ctx = vlib.Ctx("X01-selftest", "quick", 1)
    scs = x01.regression()
    for i, (cfg, share) in enumerate(x01.QUICK):
        mc = ctx.model_check("MCRuntime", cfg, sub="mc%d" % i, workers=8, timeout=300)
        scs += x01.pick(ctx, mc, "m%d" % i, int(1100 * share), 4)
    ok = True
    binp = ctx.go_build("./drivers/runtime")
    base, prefix = judge(ctx, binp, scs, "base")
    print("unchanged tree:", base)
    known = {"HandOver.KillsActive", "Settled.Leftover.Renamed"}
    if set(base) - known:
        print("unchanged tree reports formulas outside the two findings:", sorted(set(base) - known))
        ok = False
    for name, edits, expect in MUTANTS:
        got, _ = judge(ctx, build_mutant(ctx, name, edits), scs, name)
        raised = {f: n for f, n in got.items() if n > base.get(f, 0)}
        hit = all(f in raised for f in expect)
        ok &= hit
        print("mutant %-44s %s  new/raised: %s" % (name, "DETECTED" if hit else "MISSED (expected %s)" % expect, raised), flush=True)
    name, edits = REPAIR
    got, _ = judge(ctx, build_mutant(ctx, name, edits), scs, "repair")
    good = "HandOver.KillsActive" not in got and not (set(got) - known)
    ok &= good
    print("%-51s %s  %s" % (name, "finding GONE, nothing new" if good else "UNEXPECTED", got))

    # seeded corruption of recorded fields of one real trace
    tf = sorted(os.path.join(ctx.work, f) for f in os.listdir(ctx.work) if f.startswith(os.path.basename(prefix) + "."))[0]
    lines = open(tf).read().splitlines()[:6000]

    def dep_write(e):
        return e["ev"] == "call" and e["tk"] == "dep" and e["verb"] in ("create", "patch") and e["outcome"] == "ok" and e["wrote"]["a"] != "none"

    def set_healthy(e):
        for r in e["post"]["revs"]:
            if r["r"] == e["actor"]:
                r["healthy"] = "true"

    corruptions = [
        ("controller reference dropped from a written Deployment", dep_write, lambda e: e["wrote"].update(ctrl="none"), "Owned.Controller"),
        ("selector of a written Deployment changed", dep_write, lambda e: e["wrote"].update(sel=["user=sel"]), "Mandatory.Selector"),
        ("Healthy recorded without an Available Deployment",
         lambda e: e["ev"] == "call" and e["verb"] == "update-status" and e["outcome"] == "ok" and e["seen"]["des"] == "Active" and e["seen"]["depAvail"] != "true",
         set_healthy, "HealthTruth"),
        ("a Deployment written by an Inactive reconcile", lambda e: dep_write(e) and e["seen"]["des"] == "Active",
         lambda e: e["seen"].update(des="Inactive"), "InactiveNeverCreates"),
        ("the ServiceAccount missing from what was applied before the Deployment",
         lambda e: dep_write(e) and not e["seen"]["ext"], lambda e: e["seen"].update(done=["svc", "secS", "secC"]), "Order.Prereqs"),
        ("a settled state in which the Inactive revision still controls a Deployment",
         lambda e: e["ev"] == "settled" and any(o["k"] == "dep" and o["ctrl"] in ("r1", "r2") for o in e["post"]["objs"]),
         lambda e: [r.update(des="Inactive") for r in e["post"]["revs"]], "Settled.Leftover"),
    ]
    for what, sel, mutate, formula in corruptions:
        idx = next((i for i, ln in enumerate(lines) if sel(json.loads(ln))), None)
        if idx is None:
            print("corruption %-70s NO SUCH EVENT in the first trace chunk" % what)
            ok = False
            continue
        e = json.loads(lines[idx])
        mutate(e)
        cp = os.path.join(ctx.work, "corrupt.ndjson")
        with open(cp, "w") as f:
            f.write("\n".join(lines[:idx] + [json.dumps(e)] + lines[idx + 1:]) + "\n")
        viols, _ = ctx.monitor("MonRuntime", cp)
        hit = any(f.startswith(formula) and ln == idx + 1 for f, ln, _ in viols)
        ok &= hit
        print("corruption %-70s line %d: %s" % (what, idx + 1, "REJECTED by " + formula if hit else "NOT NOTICED"))
    print("selftest", "PASSED" if ok else "FAILED")
    return 0 if ok else 1


if __name__ == "__main__":
    sys.exit(main())
