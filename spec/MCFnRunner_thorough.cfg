SPECIFICATION Spec
CONSTANTS
  Fns <- FaFb
  Callers <- C3
  MaxCalls = 1
  MaxGC = 1
  MaxEnv = 1
  MaxConn = 4
  MaxFaults = 1
  EnvOps <- EnvAll
  EnvEps <- Eps12
  InitEps <- InitE1
  Orders <- Asc
  Codes <- OkOnly
  FaultKinds <- FaultErr
  Recheck = TRUE
  VerifyTarget = TRUE
  CloseStale = TRUE
  FixPkg = FALSE
VIEW view
ACTION_CONSTRAINT Emit
CHECK_DEADLOCK FALSE
INVARIANTS NoLeak PoolOpen OneOpen StepProps
