------------------------------- MODULE MCDeps -------------------------------
(***************************************************************************)
(* C17 vector model: enumerates the bounded input domains of the four      *)
(* input families and emits every input as a "VEC" line; the scenarios are *)
(* inputs only (environment choices) - the expected results stay in TLA+   *)
(* (Deps.tla) and are applied to the real outputs by MonDeps.tla.          *)
(*                                                                         *)
(*  fam "dag"     a Lock graph: lock members (with installed version) and  *)
(*                their dependency edges (with constraint); fed to         *)
(*                MapDag / MapUpgradingDag Init, Sort, TraceNode and, end  *)
(*                to end, to the resolver Reconciler (does a cycle stop    *)
(*                installation?)                                           *)
(*  fam "install" a missing dependency: constraint x tag list x flags      *)
(*  fam "update"  an installed dependency: parents' constraints x          *)
(*                installed version x tag list x in-lock x downgrade flag  *)
(*  fam "resolve" a Lock graph + a revision with constrained direct        *)
(*                dependencies, fed to PackageDependencyManager.Resolve    *)
(*                                                                         *)
(* The Compute step evaluates the reference semantics on the input (exp),  *)
(* so that TLC checks the oracle itself (invariants RefDag, RefInstall,    *)
(* RefUpdate below: two independent characterisations must agree) and      *)
(* -coverage shows that every branch of the oracle is exercised.           *)
(***************************************************************************)
EXTENDS Deps, TLC, Json

CONSTANTS
  DagPlain,     \* node set of the dag family with one constraint for every edge
  DagMixed,     \* node set of the dag family where each edge is satisfied / violated
  PointVers, PointCons,            \* install: single-tag lists (constraint semantics pointwise)
  ListPool, ListMax, ListCons,     \* install: unsorted tag lists (sequences without repetition)
  UpdCons, UpdIvs, UpdPool, UpdMax,\* update
  ResCons, ResVers, ResTargets, ResSelf   \* resolve

VARIABLES input, exp, done
vars == <<input, exp, done>>

-----------------------------------------------------------------------------
(* abstract values *)
V(a, b, c) == [k |-> "sem", maj |-> a, min |-> b, pat |-> c, pre |-> REL, sp |-> 0, d |-> "none"]
Z          == V(0, 0, 0)
Pre(v, p)  == [v EXCEPT !.pre = p]
Sp(v, s)   == [v EXCEPT !.sp = s]
Junk(i)    == [k |-> "junk", maj |-> 0, min |-> 0, pat |-> 0, pre |-> REL, sp |-> i, d |-> "none"]
Dig(x)     == [k |-> "digest", maj |-> 0, min |-> 0, pat |-> 0, pre |-> REL, sp |-> 0, d |-> x]
NoVer      == [k |-> "none", maj |-> 0, min |-> 0, pat |-> 0, pre |-> REL, sp |-> 0, d |-> "none"]

C(op, a, b) == [op |-> op, a |-> a, b |-> b, d |-> "none", sp |-> 0]
C1(op, a)   == C(op, a, Z)
CAny        == C("any", Z, Z)
CDig(x)     == [op |-> "digest", a |-> Z, b |-> Z, d |-> x, sp |-> 0]
CInv(i)     == [op |-> "invalid", a |-> Z, b |-> Z, d |-> "none", sp |-> i]
CSp(c, s)   == [c EXCEPT !.sp = s]

AllV  == {V(a, b, c) : a \in 0..2, b \in 0..2, c \in 0..2}
Alpha == Pre(V(1, 1, 0), 0)
Rc    == Pre(V(1, 1, 0), 1)
Bases == {V(0, 0, 0), V(1, 0, 0), V(1, 1, 0), V(1, 1, 1), V(2, 0, 0)}

AllCons ==
  {C1(op, a) : op \in {"ge", "gt", "le", "lt", "eq"}, a \in Bases}
  \cup {CSp(C1(op, a), 1) : op \in {"ge", "eq"}, a \in {V(1, 0, 0), V(1, 1, 0)}}      \* other spellings
  \cup {C1(op, a) : op \in {"caret", "tilde"}, a \in {b \in Bases : b.maj >= 1}}
  \cup {C(op, a, b) : op \in {"range", "between"}, a \in Bases \ {Z}, b \in {x \in Bases : x.maj >= 1}}
  \cup {CAny, CDig("dA"), CDig("dB"), CInv(0), CInv(1), CInv(2), CInv(3)}
  \cup {C1("ge", Alpha), C1("ge", Rc), C1("gt", Alpha), C1("eq", Rc)}

\* a representative of every shape
FewCons ==
  {C1("ge", V(1, 0, 0)), C1("ge", V(1, 1, 0)), C1("gt", V(2, 0, 0)), C1("lt", V(2, 0, 0)), C1("le", V(1, 1, 0)),
   C1("eq", V(1, 1, 0)), C1("caret", V(1, 0, 0)), C1("tilde", V(1, 1, 0)), C("range", V(1, 0, 0), V(1, 1, 1)),
   C("between", V(1, 0, 0), V(2, 0, 0)), CAny, CDig("dA"), CInv(0), CInv(2), C1("ge", Alpha)}

Pool7  == {V(1, 0, 0), Sp(V(1, 0, 0), 1), V(1, 1, 0), V(2, 0, 0), Rc, Junk(0), Junk(1)}
Pool10 == Pool7 \cup {V(0, 2, 1), V(1, 1, 2), Alpha}

\* update family
UCons5 == {C1("ge", V(1, 1, 0)), C1("lt", V(2, 0, 0)), C1("caret", V(1, 0, 0)), CDig("dA"), CInv(0)}
UCons9 == UCons5 \cup {C1("ge", V(2, 0, 0)), C1("eq", V(1, 0, 0)), CDig("dB"), CAny}
UIvs4  == {V(1, 0, 0), V(2, 0, 0), Dig("dB"), Junk(0)}
UIvs6  == UIvs4 \cup {V(1, 1, 0), Rc}
UPool5 == {V(1, 0, 0), V(1, 1, 0), V(2, 0, 0), Rc, Junk(1)}
UPool7 == UPool5 \cup {V(1, 1, 1), Sp(V(2, 0, 0), 1)}

\* resolve family
RCons4 == {C1("ge", V(1, 0, 0)), C1("ge", V(2, 0, 0)), CDig("dA"), CInv(0)}
RCons6 == RCons4 \cup {CDig("dB"), C1("lt", V(2, 0, 0))}
RVers2 == {V(1, 0, 0), Dig("dA")}
RVers4 == RVers2 \cup {V(2, 0, 0), Junk(0)}

PointAll == AllV \cup {Alpha, Rc, Junk(0)}
N2 == {"n1", "n2"}
N3 == {"n1", "n2", "n3"}
N4 == {"n1", "n2", "n3", "n4"}
TgtAB  == {"a", "b"}
TgtSAB == {"s", "a", "b"}

-----------------------------------------------------------------------------
(* input families *)
GE1 == C1("ge", V(1, 0, 0))     \* satisfied by every lock member of the dag family (all at 1.0.0)
GE2 == C1("ge", V(2, 0, 0))     \* violated

\* Each family is a predicate "x is an input of the family", written with bounded existential
\* quantifiers so that TLC enumerates the domain from Init without building the sets.
DagInput(x, NN, CS) ==
  \E L \in SUBSET NN : \E Ep \in SUBSET (L \X NN) : \E g \in [Ep -> CS] :
    x = [fam |-> "dag",
         lock |-> {[n |-> y, ver |-> V(1, 0, 0)] : y \in L},
         edges |-> {[f |-> p[1], t |-> p[2], c |-> g[p]] : p \in Ep}]

NoRep(s) == \A i, j \in DOMAIN s : i # j => s[i] # s[j]

Flags == {<<FALSE, FALSE>>, <<TRUE, FALSE>>, <<TRUE, TRUE>>}     \* <<upgrades, downgrades>>

InstallRec(c, tags, fl, np) ==
  [fam |-> "install", cons |-> [i \in 1..np |-> c], tags |-> tags, iv |-> NoVer, inLock |-> FALSE,
   up |-> fl[1], down |-> fl[2]]

InstallInput(x) ==
  \* constraint semantics pointwise: single-tag lists over the whole version domain
  \/ \E c \in PointCons : \E v \in PointVers : x = InstallRec(c, <<v>>, <<FALSE, FALSE>>, 1)
  \* unsorted tag lists with junk, prereleases and ties
  \/ \E c \in ListCons : \E n \in 0..ListMax : \E tags \in [1..n -> ListPool] : \E fl \in Flags :
       NoRep(tags) /\ x = InstallRec(c, tags, fl, 1)
  \* a diamond: two parents declare the same constraint
  \/ \E c \in ListCons : \E tags \in [1..2 -> ListPool] : \E fl \in {<<FALSE, FALSE>>, <<TRUE, FALSE>>} :
       NoRep(tags) /\ x = InstallRec(c, tags, fl, 2)

\* a set of tags as a deliberately unsorted (descending, junk last) list
Ord(v) == IF v.k = "sem" THEN Key(v) * 10 + v.sp ELSE 0 - 1 - v.sp
RECURSIVE DescSeq(_)
DescSeq(S) == IF S = {} THEN <<>>
              ELSE LET y == CHOOSE u \in S : \A z \in S : Ord(z) <= Ord(u) IN <<y>> \o DescSeq(S \ {y})

UpdateInput(x) ==
  \E n \in 1..2 : \E cs \in [1..n -> UpdCons] : \E T \in SUBSET UpdPool : \E iv \in UpdIvs :
  \E il \in BOOLEAN : \E dn \in BOOLEAN :
    /\ Cardinality(T) <= UpdMax
    /\ x = [fam |-> "update", cons |-> cs, tags |-> DescSeq(T), iv |-> iv, inLock |-> il, up |-> TRUE, down |-> dn]

\* resolve: lock members L \subseteq {"a","b"}, each with a version and dependencies on ResTargets;
\* the revision "s" (version 1.0.0) has constrained direct dependencies (targets ResSelf, in the lock
\* or missing); selfIn: "s" is already a lock member; up: which DAG implementation the manager is given.
ResInput(x) ==
  \E L \in SUBSET TgtAB : \E X \in SUBSET ResSelf : \E sd \in [X -> ResCons] :
  \E vf \in [L -> ResVers] : \E df \in [L -> SUBSET ResTargets] : \E si \in BOOLEAN : \E u \in BOOLEAN :
    x = [fam |-> "resolve",
         lock |-> {[n |-> y, ver |-> vf[y], deps |-> {[t |-> z, c |-> CAny] : z \in df[y]}] : y \in L},
         self |-> {[t |-> y, c |-> sd[y]] : y \in X},
         selfIn |-> si, up |-> u]

IsInput(x) == \/ DagInput(x, DagPlain, {GE1}) \/ DagInput(x, DagMixed, {GE1, GE2})
              \/ InstallInput(x) \/ UpdateInput(x) \/ ResInput(x)

-----------------------------------------------------------------------------
(* the reference evaluated on an input (never emitted) *)
NoExp == [fam |-> "none"]
VerOfLock(in, n) == IF n = "s" THEN V(1, 0, 0) ELSE (CHOOSE p \in in.lock : p.n = n).ver

Expected(in) ==
  CASE in.fam = "dag" ->
         LET L == {p.n : p \in in.lock} IN
         [fam |-> "dag", cycle |-> HasCycle(in.edges), implied |-> Implied(L, in.edges),
          impliedUp |-> ImpliedUp(L, in.edges, LAMBDA n : VerOfLock(in, n)),
          reach |-> [n \in L |-> Reach(in.edges, n)]]
    [] in.fam = "install" ->
         [fam |-> "install", target |-> InstallTarget(in.cons[1], Range(in.tags))]
    [] in.fam = "update" ->
         [fam |-> "update", target |-> UpdateTarget(Range(in.cons), in.iv, Range(in.tags), in.down),
          triggered |-> ~in.inLock \/ \E c \in Range(in.cons) : ~ValidFor(in.iv, c)]
    [] in.fam = "resolve" ->
         LET D == {[f |-> "s", t |-> e.t, c |-> e.c] : e \in in.self}
             E == D \cup UNION {{[f |-> p.n, t |-> e.t, c |-> e.c] : e \in p.deps} : p \in in.lock}
         IN [fam |-> "resolve",
             satisfied |-> Satisfied("s", D, E, {p.n : p \in in.lock} \cup {"s"}, LAMBDA n : VerOfLock(in, n))]

Init == IsInput(input) /\ exp = NoExp /\ done = FALSE
Compute == ~done /\ done' = TRUE /\ exp' = Expected(input) /\ UNCHANGED input
Spec == Init /\ [][Compute]_vars

\* scenario emission: the input only
Emit == PrintT(<<"VEC", ToJson(input)>>)

-----------------------------------------------------------------------------
(* the oracle checked against independent characterisations (design level) *)
RefDag ==
  exp.fam = "dag" =>
    /\ exp.cycle = ~Rankable(input.edges)
    /\ \A n \in DOMAIN exp.reach : exp.reach[n] = LeastClosed(input.edges, n)
    /\ exp.implied \subseteq exp.impliedUp
    /\ exp.implied \cap {p.n : p \in input.lock} = {}

RefInstall ==
  exp.fam = "install" =>
    LET c == input.cons[1]
        T == Range(input.tags)
        x == exp.target IN
    /\ x.k = "sem" => /\ \E t \in T : Key(t) = x.key /\ Sat(c, t)
                      /\ \A t \in T : Sat(c, t) => Key(t) <= x.key
    /\ x.k = "none" => ~IsDigest(c) /\ \A t \in T : ~Sat(c, t)
    /\ x.k = "digest" => IsDigest(c)
    /\ x.k # "unspec"

RefUpdate ==
  exp.fam = "update" =>
    LET cs == Range(input.cons)
        T == Range(input.tags)
        x == exp.target
        ok(t) == \A c \in cs : Sat(c, t) IN
    /\ x.k = "sem" =>
         /\ \E t \in T : Key(t) = x.key /\ ok(t)
         /\ x.key >= Key(input.iv) => \A t \in T : (ok(t) /\ Key(t) >= Key(input.iv)) => Key(t) >= x.key
         /\ x.key < Key(input.iv) => /\ input.down
                                     /\ \A t \in T : ok(t) => Key(t) <= x.key
    /\ (x.k = "none" /\ IsSem(input.iv) /\ \A c \in cs : IsRange(c)) =>
         \A t \in T : ok(t) => (Key(t) < Key(input.iv) /\ ~input.down)
    /\ x.k = "digest" => \A c \in cs : IsDigest(c) /\ c.d = x.d

=============================================================================
