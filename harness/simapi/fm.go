package simapi

import (
	"fmt"

	"k8s.io/apimachinery/pkg/apis/meta/v1/unstructured"
	"k8s.io/apimachinery/pkg/runtime"
	"k8s.io/apimachinery/pkg/runtime/schema"
	"k8s.io/apimachinery/pkg/util/managedfields"
	"sigs.k8s.io/structured-merge-diff/v4/fieldpath"
	"sigs.k8s.io/structured-merge-diff/v4/typed"
	"sigs.k8s.io/structured-merge-diff/v4/value"
)

// The structured-merge-diff schema used for every kind: ObjectMeta is typed as
// upstream types it (ownerReferences associative by uid with atomic elements,
// finalizers a set, labels/annotations granular maps); everything else is
// "deduced" exactly like a CRD with x-kubernetes-preserve-unknown-fields:
// maps are granular, lists are atomic.
const smdSchema = `types:
- name: obj
  map:
    fields:
    - name: apiVersion
      type:
        scalar: string
    - name: kind
      type:
        scalar: string
    - name: metadata
      type:
        namedType: meta
    elementType:
      namedType: __untyped_deduced_
- name: meta
  map:
    fields:
    - name: ownerReferences
      type:
        list:
          elementType:
            namedType: ownerRef
          elementRelationship: associative
          keys:
          - uid
    - name: finalizers
      type:
        list:
          elementType:
            scalar: string
          elementRelationship: associative
    - name: labels
      type:
        map:
          elementType:
            scalar: string
    - name: annotations
      type:
        map:
          elementType:
            scalar: string
    elementType:
      namedType: __untyped_deduced_
- name: ownerRef
  map:
    elementType:
      namedType: __untyped_atomic_
    elementRelationship: atomic
- name: __untyped_atomic_
  scalar: untyped
  list:
    elementType:
      namedType: __untyped_atomic_
    elementRelationship: atomic
  map:
    elementType:
      namedType: __untyped_atomic_
    elementRelationship: atomic
- name: __untyped_deduced_
  scalar: untyped
  list:
    elementType:
      namedType: __untyped_atomic_
    elementRelationship: atomic
  map:
    elementType:
      namedType: __untyped_deduced_
    elementRelationship: separable
`

var objType = func() typed.ParseableType {
	p, err := typed.NewParser(typed.YAMLObject(smdSchema))
	if err != nil {
		panic(err)
	}
	return p.Type("obj")
}()

type typeConverter struct{}

func (typeConverter) ObjectToTyped(obj runtime.Object, opts ...typed.ValidationOptions) (*typed.TypedValue, error) {
	u, ok := obj.(*unstructured.Unstructured)
	if !ok {
		return nil, fmt.Errorf("simapi: field manager got %T, want *unstructured.Unstructured", obj)
	}
	return objType.FromUnstructured(u.UnstructuredContent(), opts...)
}

func (typeConverter) TypedToObject(v *typed.TypedValue) (runtime.Object, error) {
	return valueToObject(v.AsValue())
}

func valueToObject(val value.Value) (runtime.Object, error) {
	switch o := val.Unstructured().(type) {
	case map[string]interface{}:
		return &unstructured.Unstructured{Object: o}, nil
	default:
		return nil, fmt.Errorf("simapi: cannot convert %T to unstructured", o)
	}
}

// nopConvertor "converts" between API versions by rewriting apiVersion: every
// version of a kind has the same schema in this model.
type nopConvertor struct{}

func (nopConvertor) Convert(in, out, _ interface{}) error {
	i, ok1 := in.(*unstructured.Unstructured)
	o, ok2 := out.(*unstructured.Unstructured)
	if !ok1 || !ok2 {
		return fmt.Errorf("simapi: cannot convert %T to %T", in, out)
	}
	o.Object = i.DeepCopy().Object
	return nil
}

func (nopConvertor) ConvertToVersion(in runtime.Object, gv runtime.GroupVersioner) (runtime.Object, error) {
	u, ok := in.(*unstructured.Unstructured)
	if !ok {
		return nil, fmt.Errorf("simapi: cannot convert %T", in)
	}
	kinds := []schema.GroupVersionKind{u.GroupVersionKind()}
	gvk, ok := gv.KindForGroupVersionKinds(kinds)
	if !ok || gvk == u.GroupVersionKind() {
		return in, nil
	}
	c := u.DeepCopy()
	c.SetGroupVersionKind(gvk)
	return c, nil
}

func (nopConvertor) ConvertFieldLabel(_ schema.GroupVersionKind, label, value string) (string, string, error) {
	return label, value, nil
}

type nopDefaulter struct{}

func (nopDefaulter) Default(runtime.Object) {}

type creater struct{}

func (creater) New(gvk schema.GroupVersionKind) (runtime.Object, error) {
	u := &unstructured.Unstructured{Object: map[string]interface{}{}}
	u.SetGroupVersionKind(gvk)
	return u, nil
}

type fieldManagerEntry struct {
	fm *managedfields.FieldManager
}

// fieldManager returns the field manager for a kind/subresource. As in the API
// server, the main resource resets status and the status subresource resets
// spec when the kind has a status subresource.
func (s *Server) fieldManager(gvk schema.GroupVersionKind, sub string) *managedfields.FieldManager {
	id := gvk.String() + "|" + sub
	if e, ok := s.fms[id]; ok {
		return e.fm
	}
	var reset map[fieldpath.APIVersion]*fieldpath.Set
	if !s.noStatus[gvk.GroupKind()] {
		av := fieldpath.APIVersion(gvk.GroupVersion().String())
		if sub == "status" {
			reset = map[fieldpath.APIVersion]*fieldpath.Set{av: fieldpath.NewSet(fieldpath.MakePathOrDie("spec"))}
		} else {
			reset = map[fieldpath.APIVersion]*fieldpath.Set{av: fieldpath.NewSet(fieldpath.MakePathOrDie("status"))}
		}
	}
	fm, err := managedfields.NewDefaultCRDFieldManager(typeConverter{}, nopConvertor{}, nopDefaulter{}, creater{}, gvk, gvk.GroupVersion(), sub, reset)
	if err != nil {
		panic(err)
	}
	s.fms[id] = &fieldManagerEntry{fm: fm}
	return fm
}
