"""X09 - package image signature verification (extension beyond C01..C20): the verification controller
(internal/controller/pkg/signature/reconciler.go), the gate in the package revision reconciler that consumes its verdict
(internal/controller/pkg/revision/reconciler.go, feature EnableAlphaSignatureVerification), the selection of the
ImageConfig whose `verification` applies to an image (internal/xpkg/config.go) and the watch handler that maps ImageConfig
events to revisions.  Both REAL reconcilers run in one world; the Validator is a recording fake (the cosign validator needs
a registry: not covered).  Model: spec/Signature.tla; driver: harness/drivers/signature; monitor: spec/MonSignature.tla."""
import glob
import json
import os
import shutil
import subprocess

import vlib

PID = "X09"
MODULE = "MCSignature"
DRIVER = "./drivers/signature"
# (cfg suffix, scenarios replayed) per tier
QUICK = [("quick", 700), ("quick_gate", 500), ("quick_ic", 500), ("quick_route", 300), ("quick_odd", 400), ("quick_tie", 160)]
THOROUGH = [("thorough", 16000), ("thorough_gate", 14000), ("thorough_ic", 12000), ("thorough_f2", 6000), ("thorough_route", 8000), ("thorough_odd", 8000),
            ("quick", 17000), ("quick_gate", 2000), ("quick_ic", 6000), ("quick_route", 1600), ("quick_odd", 7200), ("quick_tie", 160)]
VEC = {"quick": ("vec_quick", 2600), "thorough": ("vec_thorough", 43000)}
# witness cfgs: a guard of the model switched off, the code as it was before the repair a5e0931 of finding F-a (D33), or the
# code as written for observation O1, must violate the named invariant (anti-vacuity at model level); `fixed_sticky` is the
# start of witness_sticky with a verdict that is evaluated at every reconcile
WITNESS = [("witness_gateoff", ["GateSafe"]), ("witness_inactive", ["InactiveDeactivates"]),
           ("witness_sticky", ["VerdictCurrent"]), ("fixed_sticky", [])]
# the overlay that makes the unexported watch handler reachable (added to the package at build time; /repo is not written)
EXPORT = {"/repo/internal/controller/pkg/signature/zz_verif_export.go": os.path.join(vlib.HARNESS, "overlay", "signature", "zz_verif_export.go.txt")}

MON_FORMULAS = [
    "Sig.Gone.Calls", "Sig.Gone.Exit", "Sig.Inactive.Calls", "Sig.Inactive.Exit", "Sig.Final.Calls", "Sig.Final.Exit", "Sig.Evaluates",
    "Sig.Verdict.Shape", "Sig.Skipped.OnlyIfNoMatch", "Sig.NoMatch.Skipped", "Sig.Select.Longest", "Sig.NoCosign.Incomplete",
    "Sig.Incomplete.Why", "Sig.BadRef.Incomplete", "Sig.Validate.Ref", "Sig.Validate.Secrets.OwnKept", "Sig.Validate.Secrets.Longest",
    "Sig.Succeeded.NeedsValidation", "Sig.Failed.IffInvalid", "Sig.Failed.Names", "Sig.Validated.Succeeds", "Sig.Exit.Result",
    "Sig.Exit.Invalid", "Sig.Requeue.OnFailure", "Sig.Requeue.NeverPolls", "Sig.Writes.OnlyStatus", "Sig.Writes.AtMostOne",
    "Sig.Writes.OnlyVerdict", "Sig.Quiescent", "Verdict.ChangedOnlyBy", "Rev.KeepsVerdict",
    "Enqueue.Exact", "Enqueue.Once", "Enqueue.CoversSelected", "Select.Longest", "Select.PullSecret.Longest", "Select.OrderIndependent",
    "Select.PullSecret.OrderIndependent",
    "Gate.Closed.NoSeams", "Gate.Closed.NoWrites", "Gate.Closed.Calls", "Gate.Closed.Await", "Gate.Closed.Silent", "Gate.Closed.AwaitWritten",
    "Gate.Closed.Exit", "Gate.Closed.OnlyHealthy", "Gate.Open.Proceeds", "Gate.Open.Deactivates", "Gate.Establish.Control",
    "Gate.Inactive.Deactivates", "Gate.Deleting.NotGated", "Rev.Paused.Calls", "Rev.Quiescent",
    "Settled.Stable", "Settled.Verdict.Defined", "Settled.Verdict.Current", "Settled.Installed", "Settled.Inactive.Deactivated.Verified",
    "Settled.Inactive.Deactivated", "Settled.Upgrade.NotBlocked", "Settled.Paused", "Settled.Deleted",
]


def features(h):
    """Features of a scenario for the feature-covering sample: those of the history (vlib.hist_features) and those of the
    initial configuration (the revision's state and verdict, the ImageConfigs, the signatures, the feature flag, the list
    order), so that rare starting points are always represented."""
    fs = set(vlib.hist_features(h))
    init = h[0] if isinstance(h, list) and h and isinstance(h[0], dict) else {}
    rv = init.get("rev", {})
    fs.add("rev:%s/%s/fin=%s/inst=%s/paused=%s/pcond=%s/sec=%s/h=%s" % (rv.get("des"), rv.get("img"), rv.get("fin"), rv.get("inst"), rv.get("paused"),
                                                                    rv.get("pcond"), rv.get("sec"), rv.get("healthy")))
    fs.add("ver=%s/%s" % (rv.get("ver", {}).get("st"), rv.get("ver", {}).get("by")))
    fs.add("ics=%s" % ",".join(sorted(init.get("ics", []))))
    fs.add("okby=%s" % ",".join(sorted(init.get("okby", []))))
    fs.add("feat=%s" % init.get("feat"))
    fs.add("ord=%s" % init.get("ord"))
    for e in h[1:]:
        if e.get("t") == "env":
            fs.add("env:%s:%s:%s" % (e.get("k"), e.get("o"), e.get("f")))
    return fs


def sample(ctx, mc, n):
    if mc["emitted"] <= n:
        return ctx.sample_lines_uniform(mc["emitted_file"], n, mc["emitted"])
    return ctx.sample_lines_stratified(mc["emitted_file"], n, mc["emitted"], key=features)


def regression():
    out = []
    for p in sorted(glob.glob(os.path.join(vlib.VERIF, "scenarios", PID, "*.json"))):
        with open(p) as f:
            out.append(json.load(f))
    return out


def regression_vecs():
    out = []
    for p in sorted(glob.glob(os.path.join(vlib.VERIF, "scenarios", PID, "vec", "*.json"))):
        with open(p) as f:
            out.append(json.load(f))
    return out


def build(ctx):
    """go build of the driver with the overlay that exports the unexported watch handler (build tag verifoverlay).
    VERIF_X09_OVERLAY = a further `go build -overlay` file whose replacements are merged in (used by
    checks/x09_selftest.py for scratch mutants of the code under test; nothing is written to /repo)."""
    rep = dict(EXPORT)
    extra = os.environ.get("VERIF_X09_OVERLAY")
    if extra:
        with open(extra) as f:
            rep.update(json.load(f).get("Replace", {}))
    bindir = os.path.join(ctx.work, "bin")
    os.makedirs(bindir, exist_ok=True)
    ov = os.path.join(bindir, "overlay.json")
    with open(ov, "w") as f:
        json.dump({"Replace": rep}, f)
    out = os.path.join(bindir, "signature")
    e = dict(os.environ)
    e.update(vlib.GOENV)
    shutil.copy("/repo/go.sum", os.path.join(vlib.HARNESS, "go.sum"))
    p = subprocess.run(["go", "build", "-tags", "verifoverlay", "-overlay", ov, "-o", out, DRIVER], cwd=vlib.HARNESS, env=e,
                       stdout=subprocess.PIPE, stderr=subprocess.STDOUT, text=True)
    if p.returncode != 0:
        raise vlib.Inconclusive("harness does not build against /repo (overlay %s):\n%s" % (ov, p.stdout[-3000:]))
    return out


def expand_id(by_id, scid):
    parts = scid.split("/")
    base = dict(by_id.get(parts[0], {"id": parts[0]}))
    base["id"] = scid
    base.pop("sweepall", None)
    for p in parts[1:]:
        if p.startswith("sweep-"):
            _, r, k, o = p.split("-")
            base["sweep"] = {"rec": int(r[1:]), "idx": int(k[1:]), "outcome": o}
    return base


def hit_counts(files):
    """How often the things the formulas talk about occur in the recorded traces (anti-vacuity; not part of the verdict)."""
    c = {}

    def inc(k):
        c[k] = c.get(k, 0) + 1
    for fn in files:
        with open(fn) as f:
            for line in f:
                e = json.loads(line)
                ev, seen, a = e["ev"], e["seen"], e["actor"]
                ver = e["post"]["rev"]["ver"]
                if ev == "seam":
                    inc("seam:%s:%s" % (e["cls"], e["outcome"]))
                    if e["cls"] == "validate":
                        tie = len({"".join(p) for x in e["vconfigs"] if x["ver"] != "none" for p in x["prefixes"]}) < \
                            sum(len(x["prefixes"]) for x in e["vconfigs"] if x["ver"] != "none")
                        inc("validate:cfg=%s:own=%d:extra=%s%s" % (e["arg"]["cfg"], len(seen["secs"]),
                                                                  "yes" if len(e["arg"]["secrets"]) > len(seen["secs"]) else "no", ":tie" if tie else ""))
                    if e["cls"] == "establish":
                        inc("establish:control=%s:des=%s" % (e["arg"]["control"], seen["des"]))
                if ev == "call":
                    if e["injected"]:
                        inc("injected:%s:%s:%s" % (a, e["cls"], e["injected"]))
                    if e["outcome"] == "conflict" and not e["injected"]:
                        inc("stale-conflict:%s:%s" % (a, e["cls"]))
                    if e["cls"] == "sstatus" and e["outcome"] == "ok":
                        inc("verdict-written:%s:%s%s" % (ver["st"], ver["by"], ":" + ver["step"] if ver["step"] != "none" else ""))
                    if a == "rev" and e["cls"] == "status" and e["outcome"] == "ok":
                        inc("status:rev:%s:%s" % (e["post"]["rev"]["synced"], e["post"]["rev"]["healthy"]))
                if ev == "end":
                    if a == "sig":
                        kind = "gone" if seen["got"] and not seen["ex"] else "noget" if not seen["got"] else "inactive" if seen["des"] != "Active" else \
                            "final" if seen["ver"]["st"] in ("Skipped", "Succeeded") else "work"
                    else:
                        gate = "off" if not e["feat"] else "open" if seen["ver"]["st"] in ("Skipped", "Succeeded") else "closed"
                        kind = "gone" if seen["got"] and not seen["ex"] else "noget" if not seen["got"] else "paused" if seen["paused"] else \
                            "deleting" if seen["del"] else "cleaning" if seen["pcond"] else "%s:%s" % (seen["des"], gate)
                    inc("end:%s:%s:%s%s" % (a, kind, e["result"], ":settling" if e["settling"] else ""))
                    if e["clean"]:
                        inc("end:%s:clean" % a)
                    if e["steady"]:
                        inc("end:%s:steady" % a)
                    if e["requeue"]:
                        inc("end:%s:requeue" % a)
                if ev == "env":
                    inc("env:" + e["verb"] + (":mid" if e["seen"]["got"] else ""))
                if ev == "enq":
                    q = e["enq"]
                    inc("enq:%s:%s->%s:reqs=%d" % (q["kind"], q["oldver"], q["newver"], len(q["reqs"])))
                if ev == "settled":
                    r = e["post"]["rev"]
                    inc("settled:stable=%s:%s:%s:%s" % (e["stable"], r["des"] if r["ex"] else "gone", ver["st"], r["healthy"]))
                if ev == "vec":
                    for side in ("before", "after"):
                        for s in e["vec"][side]:
                            inc("vec:sel=%s%s" % ("same" if s["fwd"]["v"] == s["rev"]["v"] else "ORDER-DEPENDENT", ":err" if s["fwd"]["verr"] else ""))
    return dict(sorted(c.items()))


def trace_files(prefix):
    d = os.path.dirname(prefix)
    return [os.path.join(d, f) for f in sorted(os.listdir(d)) if f.startswith(os.path.basename(prefix))]


def drive_and_judge(ctx, scs, vecs, shards=8, counts=True):
    by_id = {s["id"]: s for s in scs}
    by_id.update({v["id"]: v for v in vecs})
    binp = build(ctx)
    files, viols, nlines = [], [], 0
    s = dict(scenarios=0, runs=0, reconciles=0, events=0, drift=0, drift_runs=0, sweep_runs=0, vectors=0, samples=[], counts={}, drift_by_abs={})
    if scs:
        prefix, s = ctx.run_sharded(binp, scs, ["-chunk", "40000"], shards=shards)
        v, n = ctx.monitor("MonSignature", prefix, par=8)
        viols += v
        nlines += n
        files += trace_files(prefix)
    sv = {}
    if vecs:
        vp = ctx.write_scenarios(vecs, "vectors.ndjson")
        vt = os.path.join(ctx.work, "vtrace.ndjson")
        vs = os.path.join(ctx.work, "vsummary.json")
        ctx.run([binp, "-vectors", vp, "-trace", vt, "-summary", vs, "-chunk", "40000"])
        with open(vs) as f:
            sv = json.load(f)
        v, n = ctx.monitor("MonSignature", vt, par=8)
        viols += v
        nlines += n
        files += trace_files(vt)
        s["vectors"] = sv["vectors"]
        s["events"] = s.get("events", 0) + sv["events"]
        if not s.get("samples"):
            s["samples"] = sv["samples"]
    if not (s.get("enqueue_handler") or sv.get("enqueue_handler")):
        raise vlib.Inconclusive("the driver was built without the overlay that exports the watch handler")
    if nlines != s["events"]:
        raise vlib.Inconclusive("the monitor read %d of the %d recorded events - was another ./check X09 running at the same time?" % (nlines, s["events"]))
    for formula, line, scid in viols:
        ctx.violation(formula, scid, ctx.replay_file(expand_id(by_id, scid)), "trace line %d" % line, fingerprint=formula)
    hc = hit_counts(files) if counts else {}
    byf = {}
    for formula, _, _ in viols:
        byf[formula] = byf.get(formula, 0) + 1
    s["violations_by_formula"] = dict(sorted(byf.items()))
    return s, nlines, hc


def emit_all(ctx, plan, vec):
    """Runs the model configurations (side by side) and samples their scenarios / vectors."""
    import concurrent.futures

    def mc_one(name):
        return ctx.model_check(MODULE, "%s_%s.cfg" % (MODULE, name), sub="mc_" + name, workers=4 if ctx.quick else 8,
                               timeout=300 if ctx.quick else 3000)
    names = [name for name, _ in plan] + [vec[0]]
    with concurrent.futures.ThreadPoolExecutor(max_workers=7 if ctx.quick else 3) as ex:
        mcs = list(ex.map(mc_one, names))
    scs, vecs, states, trans, emitted, consts = [], [], 0, 0, 0, {}
    for (name, n), mc in zip(plan + [vec], mcs):
        cfg = "%s_%s.cfg" % (MODULE, name)
        if name == vec[0]:
            vecs = [{"id": "%s-vec-%07d" % (PID, i), "vec": v} for i, v in ctx.sample_lines_uniform(mc["emitted_file"], n, mc["emitted"])]
        else:
            scs += [{"id": "%s-%s-%07d" % (PID, name, i), "hist": h} for i, h in sample(ctx, mc, n)]
        states += mc["states"]
        trans += mc["transitions"]
        emitted += mc["emitted"]
        consts[cfg] = dict(states=mc["states"], transitions=mc["transitions"], depth=mc["depth"], scenarios=mc["emitted"])
    return scs, vecs, states, trans, emitted, consts


def run(ctx):
    plan = QUICK if ctx.quick else THOROUGH
    scs, vecs, states, trans, emitted, consts = emit_all(ctx, plan, VEC[ctx.tier])
    for name, expect in ([] if ctx.quick else WITNESS):
        cfg = "%s_%s.cfg" % (MODULE, name)
        mc = ctx.model_check(MODULE, cfg, sub="mc_" + name, workers=1, timeout=300, expect_violations=expect)
        consts[cfg] = dict(states=mc["states"], violated=mc["violated"], expected=expect)
    # the first longer scenarios of some configurations are also swept over every REAL call index x outcome (that reaches
    # the calls behind the gate which the model does not describe)
    nsweep = 2 if ctx.quick else 10
    seen = {}
    for sc in scs:
        cfg = sc["id"].split("-")[1]
        if cfg in ("quick", "quick_gate", "quick_route") and seen.get(cfg, 0) < nsweep and len(sc["hist"]) > 9:
            sc["sweepall"] = True
            seen[cfg] = seen.get(cfg, 0) + 1
    chosen = regression() + scs
    s, nlines, hc = drive_and_judge(ctx, chosen, regression_vecs() + vecs, shards=8 if ctx.quick else 14)
    ctx.cov.update(dict(
        states=states, transitions=trans, traces_validated_against_impl=s["runs"] + s["vectors"], samples=s["samples"][:2],
        model_runs=consts, scenarios_emitted=emitted, scenarios_replayed=s["scenarios"], vectors_replayed=s["vectors"], reconciles=s["reconciles"],
        sweep_runs=s["sweep_runs"], events=nlines,
        per_action_counts={k: v for k, v in s["counts"].items() if not k.startswith("abs:ign:")},
        drift=dict(unmatched_calls=s["drift"], runs_with_drift=s["drift_runs"], by_call=s.get("drift_by_abs", {})),
        formula_hit_counts=hc, monitor_formulas=MON_FORMULAS, violations_by_formula=s["violations_by_formula"],
        checker_cmd="tlc MCSignature (M,G) -> harness/drivers/signature on /repo (T) -> tlc MonSignature",
        rule="one scenario per model transition that ends a reconcile (shortest history reaching it); every failure kind (error value / "
             "Conflict / cache miss / dead process before / after the effect) is its own transition; environment steps between and in the "
             "middle of reconciles; every ImageConfig event is handed to the real watch handler; every scenario is followed by the "
             "fault-free aftermath (a controller runs when something it watches changed - for the verification controller also when the "
             "real watch handler enqueued the revision - or when it asked for it, then everybody once more) whose outcome is judged "
             "(Settled.*); sweep = every real call index x {error, conflict, crash before, crash after, cache miss}; vectors = every "
             "ImageConfig event x sets of other configs x images of two revisions, selection asked with both list orders; time passes "
             "between reconciles (every lastTransitionTime is moved into the past)",
    ))
    ctx.assumptions += [
        "simapi models the API server rules the reconcilers rely on (optimistic concurrency on Update / status Update, status "
        "subresource, finalizers and deletionTimestamp, no-op writes keep the resourceVersion)",
        "the Validator is a recording fake that accepts an image iff the world says the authorities of the config it was handed accept "
        "it; the cosign validator (validate.go, attestation.go) needs a registry and the Sigstore trust roots: not covered",
        "the revision reconciler is wired as in X07 (real ImageConfig store, ImageBackend, parser, Provider linter, dependency manager, "
        "finalizer; recording fakes for registry, cache, establisher, runtime hooks); what lies behind the gate is X07's subject and "
        "is only observed here (which seams ran, whether the revision ended up installed / deactivated)",
        "the unexported watch handler is reached through a build-time overlay (harness/overlay/signature/zz_verif_export.go.txt: a "
        "one-line exported wrapper; /repo is not written); one revision in the behaviour part, two in the vector part",
        "the list order of the cached client is modelled as name order or its reverse",
        "verdict only from traces of the real code judged by MonSignature.tla",
    ]


def replay(ctx, path):
    with open(path) as f:
        sc = json.load(f)
    if "vec" in sc:
        s, nlines, _ = drive_and_judge(ctx, [], [sc], shards=1, counts=False)
    else:
        s, nlines, _ = drive_and_judge(ctx, [sc], [], shards=1, counts=False)
    ctx.cov.update(dict(states=1, transitions=1, traces_validated_against_impl=s["runs"] + s["vectors"], samples=[sc], events=nlines))
