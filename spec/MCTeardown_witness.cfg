SPECIFICATION Spec
CONSTANTS
  Foreground = FALSE
  MaxRecs = 2
  MaxEnv = 2
  MaxFaults = 0
  ThirdParty = FALSE
VIEW view

CHECK_DEADLOCK FALSE
INVARIANTS Ordered
