// Driver for spec/Ownership.tla (C02): for every placement (which object a
// Crossplane controller would write on behalf of an owner) x pre-state of
// that object, run the real reconciler on simapi and record the write log:
// who controlled the target of every mutating call before the call.
package main

import (
	"context"
	"crypto/sha256"
	"encoding/json"
	"errors"
	"flag"
	"fmt"
	"os"
	"strings"

	"github.com/google/go-containerregistry/pkg/name"
	ggcr "github.com/google/go-containerregistry/pkg/v1"
	appsv1 "k8s.io/api/apps/v1"
	corev1 "k8s.io/api/core/v1"
	rbacv1 "k8s.io/api/rbac/v1"
	extv1 "k8s.io/apiextensions-apiserver/pkg/apis/apiextensions/v1"
	metav1 "k8s.io/apimachinery/pkg/apis/meta/v1"
	"k8s.io/apimachinery/pkg/apis/meta/v1/unstructured"
	"k8s.io/apimachinery/pkg/runtime"
	"k8s.io/apimachinery/pkg/types"
	"k8s.io/utils/ptr"
	"sigs.k8s.io/controller-runtime/pkg/reconcile"

	xpv1 "github.com/crossplane/crossplane-runtime/apis/common/v1"
	"github.com/crossplane/crossplane-runtime/pkg/event"
	"github.com/crossplane/crossplane-runtime/pkg/resource"

	v1 "github.com/crossplane/crossplane/apis/apiextensions/v1"
	pkgv1 "github.com/crossplane/crossplane/apis/pkg/v1"
	pkgv1beta1 "github.com/crossplane/crossplane/apis/pkg/v1beta1"
	"github.com/crossplane/crossplane/internal/controller/apiextensions/definition"
	"github.com/crossplane/crossplane/internal/controller/apiextensions/offered"
	"github.com/crossplane/crossplane/internal/controller/pkg/manager"
	rbacdef "github.com/crossplane/crossplane/internal/controller/rbac/definition"
	"github.com/crossplane/crossplane/internal/controller/rbac/provider/binding"
	"github.com/crossplane/crossplane/internal/controller/rbac/provider/roles"
	"github.com/crossplane/crossplane/internal/xcrd"
	"github.com/crossplane/crossplane/internal/xpkg"
	"github.com/crossplane/crossplane/zzverif/fakes"
	"github.com/crossplane/crossplane/zzverif/scen"
	"github.com/crossplane/crossplane/zzverif/simapi"
	"github.com/crossplane/crossplane/zzverif/trace"
)

type vec struct {
	Case string `json:"case"`
	Pre  string `json:"pre"`
}

// recorder notes whether any warning event was recorded.
type recorder struct{ warned bool }

func (r *recorder) Event(_ runtime.Object, e event.Event) {
	if e.Type == event.TypeWarning {
		r.warned = true
	}
}
func (r *recorder) WithAnnotations(...string) event.Recorder { return r }

type fetcher struct{ hex string }

func (f *fetcher) Fetch(context.Context, name.Reference, ...string) (ggcr.Image, error) { return nil, errors.New("unused") }
func (f *fetcher) Tags(context.Context, name.Reference, ...string) ([]string, error)    { return nil, errors.New("unused") }
func (f *fetcher) Head(context.Context, name.Reference, ...string) (*ggcr.Descriptor, error) {
	return &ggcr.Descriptor{Digest: ggcr.Hash{Algorithm: "sha256", Hex: f.hex}}, nil
}

func digest(u *unstructured.Unstructured) string {
	if u == nil {
		return "absent"
	}
	b, _ := json.Marshal(u.Object)
	return fmt.Sprintf("%x", sha256.Sum256(b))
}

func foreignRef() metav1.OwnerReference {
	return metav1.OwnerReference{APIVersion: "example.org/v1", Kind: "Other", Name: "someone-else", UID: "foreign-uid", Controller: ptr.To(true)}
}

type world struct {
	s      *simapi.Server
	c      *simapi.Client
	owner  types.UID
	placed []simapi.Key // the keys of the placed object(s): any of them may be pre-set
	run    func() error
	rec    *recorder
	unsync func() bool // did the reconciler write an unsynced / error condition somewhere
}

func newWorld() *world {
	sch := runtime.NewScheme()
	_ = v1.AddToScheme(sch)
	_ = extv1.AddToScheme(sch)
	_ = corev1.AddToScheme(sch)
	_ = rbacv1.AddToScheme(sch)
	_ = appsv1.AddToScheme(sch)
	_ = pkgv1.AddToScheme(sch)
	_ = pkgv1beta1.AddToScheme(sch)
	s := simapi.NewServer(sch)
	return &world{s: s, c: simapi.NewClient(s, "ctl"), rec: &recorder{}, unsync: func() bool { return false }}
}

func xrd() *v1.CompositeResourceDefinition {
	d := &v1.CompositeResourceDefinition{ObjectMeta: metav1.ObjectMeta{Name: "xthings.ex.org"}}
	d.Spec.Group = "ex.org"
	d.Spec.Names = extv1.CustomResourceDefinitionNames{Kind: "XThing", Plural: "xthings", Singular: "xthing", ListKind: "XThingList"}
	d.Spec.ClaimNames = &extv1.CustomResourceDefinitionNames{Kind: "Thing", Plural: "things", Singular: "thing", ListKind: "ThingList"}
	d.Spec.Versions = []v1.CompositeResourceDefinitionVersion{{Name: "v1", Served: true, Referenceable: true,
		Schema: &v1.CompositeResourceValidation{OpenAPIV3Schema: runtime.RawExtension{Raw: []byte(`{"type":"object","properties":{"spec":{"type":"object"}}}`)}}}}
	return d
}

func (w *world) setup(v vec) {
	mgr := &fakes.Manager{Client: w.c, Sch: w.s.Scheme}
	ca := resource.ClientApplicator{Client: w.c, Applicator: resource.NewAPIPatchingApplicator(w.c)}
	switch v.Case {
	case "xrd-composite-crd", "xrd-claim-crd":
		d := xrd()
		w.owner = w.s.Put(d).GetUID()
		req := reconcile.Request{NamespacedName: types.NamespacedName{Name: d.Name}}
		if v.Case == "xrd-composite-crd" {
			w.placed = []simapi.Key{{Group: "apiextensions.k8s.io", Kind: "CustomResourceDefinition", Name: "xthings.ex.org"}}
			r := definition.NewReconciler(ca, definition.WithRecorder(w.rec))
			w.run = func() error { _, err := r.Reconcile(context.Background(), req); return err }
		} else {
			w.placed = []simapi.Key{{Group: "apiextensions.k8s.io", Kind: "CustomResourceDefinition", Name: "things.ex.org"}}
			r := offered.NewReconciler(ca, offered.WithRecorder(w.rec))
			w.run = func() error { _, err := r.Reconcile(context.Background(), req); return err }
		}
	case "rbac-xrd-roles":
		d := xrd()
		w.owner = w.s.Put(d).GetUID()
		for _, cr := range rbacdef.RenderClusterRoles(d) {
			w.placed = append(w.placed, simapi.Key{Group: "rbac.authorization.k8s.io", Kind: "ClusterRole", Name: cr.GetName()})
		}
		r := rbacdef.NewReconciler(mgr, rbacdef.WithRecorder(w.rec))
		w.run = func() error {
			_, err := r.Reconcile(context.Background(), reconcile.Request{NamespacedName: types.NamespacedName{Name: d.Name}})
			return err
		}
	case "rbac-system-role", "rbac-binding":
		crd := &extv1.CustomResourceDefinition{ObjectMeta: metav1.ObjectMeta{Name: "widgets.prov.example.org"}}
		crd.Spec.Group = "prov.example.org"
		crd.Spec.Names = extv1.CustomResourceDefinitionNames{Kind: "Widget", Plural: "widgets"}
		w.s.Put(crd)
		pr := &pkgv1.ProviderRevision{ObjectMeta: metav1.ObjectMeta{Name: "prov-abc123"}}
		pr.Spec.Package = "xpkg.example.org/org/prov:v1"
		pr.Spec.DesiredState = pkgv1.PackageRevisionActive
		pr.Status.ObjectRefs = []xpv1.TypedReference{{APIVersion: "apiextensions.k8s.io/v1", Kind: "CustomResourceDefinition", Name: crd.Name}}
		pu := w.s.Put(pr)
		w.owner = pu.GetUID()
		dep := &appsv1.Deployment{ObjectMeta: metav1.ObjectMeta{Name: "prov-abc123", Namespace: "crossplane-system",
			OwnerReferences: []metav1.OwnerReference{{APIVersion: "pkg.crossplane.io/v1", Kind: "ProviderRevision", Name: pr.Name, UID: pu.GetUID(), Controller: ptr.To(true)}}}}
		dep.Spec.Template.Spec.ServiceAccountName = "prov-abc123"
		w.s.Put(dep)
		req := reconcile.Request{NamespacedName: types.NamespacedName{Name: pr.Name}}
		if v.Case == "rbac-system-role" {
			w.placed = []simapi.Key{{Group: "rbac.authorization.k8s.io", Kind: "ClusterRole", Name: roles.SystemClusterRoleName(pr.Name)}}
			r := roles.NewReconciler(mgr, roles.WithRecorder(w.rec))
			w.run = func() error { _, err := r.Reconcile(context.Background(), req); return err }
		} else {
			w.placed = []simapi.Key{{Group: "rbac.authorization.k8s.io", Kind: "ClusterRoleBinding", Name: roles.SystemClusterRoleName(pr.Name)}}
			r := binding.NewReconciler(mgr, binding.WithRecorder(w.rec))
			w.run = func() error { _, err := r.Reconcile(context.Background(), req); return err }
		}
	case "pkg-revision", "pkg-revision-gc":
		hex := "d2" + strings.Repeat("0", 62)
		p := &pkgv1.Provider{ObjectMeta: metav1.ObjectMeta{Name: "pkg"}}
		p.Spec.Package = "xpkg.example.org/org/pkg:t1"
		p.Spec.RevisionHistoryLimit = ptr.To(int64(1))
		w.owner = w.s.Put(p).GetUID()
		placedName := xpkg.FriendlyID("pkg", hex)
		if v.Case == "pkg-revision-gc" {
			// the placed object is the oldest revision, eligible for history garbage collection; two newer ones exist
			placedName = xpkg.FriendlyID("pkg", "d1"+strings.Repeat("0", 62))
			for i, h := range []string{"d2", "d3"} {
				r := &pkgv1.ProviderRevision{ObjectMeta: metav1.ObjectMeta{Name: xpkg.FriendlyID("pkg", h+strings.Repeat("0", 62)), Labels: map[string]string{pkgv1.LabelParentPackage: "pkg"},
					OwnerReferences: []metav1.OwnerReference{{APIVersion: "pkg.crossplane.io/v1", Kind: "Provider", Name: "pkg", UID: w.owner, Controller: ptr.To(true)}}}}
				r.Spec.Revision = int64(i + 2)
				r.Spec.DesiredState = pkgv1.PackageRevisionInactive
				r.Spec.Package = p.Spec.Package
				w.s.Put(r)
			}
		}
		w.placed = []simapi.Key{{Group: "pkg.crossplane.io", Kind: "ProviderRevision", Name: placedName}}
		r := manager.NewReconciler(mgr,
			manager.WithNewPackageFn(func() pkgv1.Package { return &pkgv1.Provider{} }),
			manager.WithNewPackageRevisionFn(func() pkgv1.PackageRevision { return &pkgv1.ProviderRevision{} }),
			manager.WithNewPackageRevisionListFn(func() pkgv1.PackageRevisionList { return &pkgv1.ProviderRevisionList{} }),
			manager.WithRevisioner(manager.NewPackageRevisioner(&fetcher{hex: hex})),
			manager.WithConfigStore(xpkg.NewImageConfigStore(w.c, "crossplane-system")),
			manager.WithRecorder(w.rec))
		w.run = func() error {
			_, err := r.Reconcile(context.Background(), reconcile.Request{NamespacedName: types.NamespacedName{Name: "pkg"}})
			return err
		}
	default:
		panic("unknown case " + v.Case)
	}
}

func (w *world) place(v vec) {
	if v.Pre == "absent" {
		return
	}
	for _, k := range w.placed {
		u := &unstructured.Unstructured{Object: map[string]any{}}
		av := "v1"
		if k.Group != "" {
			av = k.Group + "/v1"
		}
		u.SetAPIVersion(av)
		u.SetKind(k.Kind)
		u.SetName(k.Name)
		u.SetLabels(map[string]string{"placed-by": "someone"})
		switch k.Kind {
		case "CustomResourceDefinition":
			// a CRD with the derived name but somebody's own content
			d := xrd()
			d.SetUID("x")
			c, _ := xcrd.ForCompositeResource(d)
			c.OwnerReferences = nil
			b, _ := json.Marshal(c)
			_ = json.Unmarshal(b, &u.Object)
			u.SetName(k.Name)
			u.SetLabels(map[string]string{"placed-by": "someone"})
			delete(u.Object, "status")
		case "ProviderRevision":
			_ = unstructured.SetNestedField(u.Object, int64(1), "spec", "revision")
			_ = unstructured.SetNestedField(u.Object, "Inactive", "spec", "desiredState")
			_ = unstructured.SetNestedField(u.Object, "xpkg.example.org/org/pkg:t0", "spec", "image")
			u.SetLabels(map[string]string{pkgv1.LabelParentPackage: "pkg", "placed-by": "someone"})
		}
		switch v.Pre {
		case "owner":
			var or metav1.OwnerReference
			switch {
			case k.Kind == "ProviderRevision":
				or = metav1.OwnerReference{APIVersion: "pkg.crossplane.io/v1", Kind: "Provider", Name: "pkg", UID: w.owner, Controller: ptr.To(true)}
			case strings.HasPrefix(k.Name, "crossplane:provider"):
				or = metav1.OwnerReference{APIVersion: "pkg.crossplane.io/v1", Kind: "ProviderRevision", Name: "prov-abc123", UID: w.owner, Controller: ptr.To(true)}
			default:
				or = metav1.OwnerReference{APIVersion: "apiextensions.crossplane.io/v1", Kind: "CompositeResourceDefinition", Name: "xthings.ex.org", UID: w.owner, Controller: ptr.To(true)}
			}
			u.SetOwnerReferences([]metav1.OwnerReference{or})
		case "foreign":
			u.SetOwnerReferences([]metav1.OwnerReference{foreignRef()})
		}
		w.s.Put(u)
	}
}

func runVec(tw *trace.Writer, id string, v vec) {
	tw.Boundary()
	w := newWorld()
	w.setup(v)
	w.place(v)
	before := map[simapi.Key]string{}
	for _, k := range w.placed {
		before[k] = digest(w.s.Peek(k))
	}
	writes := []any{}
	placedWritten := false
	w.s.OnEvent = func(e *simapi.Event) {
		if !e.IsWrite() || e.DryRun {
			return
		}
		pc := "none"
		if e.Pre.Exists && e.Pre.Ctrl != "" {
			pc = "foreign"
			if e.Pre.Ctrl == string(w.owner) {
				pc = "owner"
			}
		}
		applied := e.Applied && !e.Noop
		for _, k := range w.placed {
			if k.Kind == e.Kind && k.Name == e.Name && e.Applied {
				placedWritten = true
			}
		}
		writes = append(writes, map[string]any{"target": e.Kind + "/" + e.Name, "preCtrl": pc, "applied": applied, "verb": e.Verb})
	}
	w.c.BeginReconcile()
	err := w.run()
	frozen := true
	for _, k := range w.placed {
		if digest(w.s.Peek(k)) != before[k] {
			frozen = false
		}
	}
	// a no-op apply of identical content also counts as "the reconciler dealt with the object"
	if v.Pre == "owner" || v.Pre == "uncontrolled" || v.Pre == "absent" {
		for _, k := range w.placed {
			if o := w.s.Peek(k); o != nil {
				if c := metav1.GetControllerOf(o); c != nil && c.UID == w.owner {
					placedWritten = true
				}
			}
		}
		if v.Case == "pkg-revision-gc" && w.s.Peek(w.placed[0]) == nil {
			placedWritten = true
		}
	}
	tw.Emit(map[string]any{"ev": "run", "scenario": id, "case": v.Case, "pre": v.Pre, "writes": writes, "frozen": frozen,
		"surfaced": err != nil || w.rec.warned || w.unsync(), "placedWritten": placedWritten, "err": err != nil})
}

func main() {
	scenarios := flag.String("scenarios", "", "NDJSON of vectors")
	tracePath := flag.String("trace", "", "output trace")
	sumPath := flag.String("summary", "", "summary")
	chunk := flag.Int("chunk", 0, "chunk")
	flag.Parse()
	raws, err := scen.Load(*scenarios)
	if err != nil {
		fmt.Fprintln(os.Stderr, err)
		os.Exit(2)
	}
	tw, err := trace.New(*tracePath, *chunk)
	if err != nil {
		fmt.Fprintln(os.Stderr, err)
		os.Exit(2)
	}
	n := 0
	samples := []any{}
	for _, raw := range raws {
		var sc struct {
			ID   string `json:"id"`
			Hist vec    `json:"hist"`
		}
		if err := json.Unmarshal(raw, &sc); err != nil {
			fmt.Fprintln(os.Stderr, err)
			os.Exit(2)
		}
		runVec(tw, sc.ID, sc.Hist)
		n++
		if len(samples) < 2 {
			samples = append(samples, json.RawMessage(raw))
		}
	}
	_ = tw.Close()
	_ = scen.WriteJSON(*sumPath, map[string]any{"scenarios": n, "runs": n, "events": tw.Lines, "counts": tw.Counts, "samples": samples})
}
