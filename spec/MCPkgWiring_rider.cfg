SPECIFICATION Spec
CONSTANTS
  Profiles <- Profiles1
  Perturb = "none"
ACTION_CONSTRAINT Emit
CHECK_DEADLOCK FALSE
INVARIANTS RefConsistent RefRegistered RefHooks RefWatches RefEnqueue RefSymmetric RefDeps RefInstall
