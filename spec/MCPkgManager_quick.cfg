SPECIFICATION Spec
CONSTANTS
  DSeq <- DSeq3
  Tags = {"t1", "t2"}
  Limits = {1}
  MaxEdits = 3
  MaxFaults = 1
  MaxRecs = 4
  WithFin = FALSE
  ForeignAct = FALSE
  Foreign = {}
  FixGC = TRUE
  MidEnv = FALSE
  Legacy = FALSE
  InitReg <- Reg2
VIEW view
ACTION_CONSTRAINT Emit
CHECK_DEADLOCK FALSE
INVARIANTS OneActive GcSafe AfterReconcile
PROPERTIES ActivateLast
