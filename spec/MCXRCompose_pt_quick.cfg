SPECIFICATION Spec
CONSTANTS
  Mode = "PT"
  Names = {"a", "b"}
  MaxObjs = 4
  MaxRecs = 3
  MaxFaults = 1
  MaxEnv = 2
  ForeignAt = "none"
  RenderFails = TRUE
  CacheMisses = FALSE
  VerBumps = TRUE
  Forges = TRUE
  Legacies = FALSE
  FailKinds = {}
VIEW view
ACTION_CONSTRAINT Emit
CHECK_DEADLOCK FALSE
INVARIANTS NoLeak AtMostOne StepProps GcExact
PROPERTIES NameStable
