// Driver that binds harness/simapi to spec/KubeAPI.tla: seeded random operation
// sequences against the real simapi on a few objects; one trace record per call
// with the abstract state of the target before and after.
package main

import (
	"context"
	"encoding/json"
	"flag"
	"fmt"
	"math/rand"
	"os"
	"reflect"
	"sort"
	"strconv"

	metav1 "k8s.io/apimachinery/pkg/apis/meta/v1"
	"k8s.io/apimachinery/pkg/apis/meta/v1/unstructured"
	"k8s.io/apimachinery/pkg/runtime"
	"k8s.io/apimachinery/pkg/types"
	"k8s.io/utils/ptr"
	"sigs.k8s.io/controller-runtime/pkg/client"

	"github.com/crossplane/crossplane/zzverif/scen"
	"github.com/crossplane/crossplane/zzverif/simapi"
	"github.com/crossplane/crossplane/zzverif/trace"
)

var vals = []string{"-", "a", "b"}

func key(n string) simapi.Key { return simapi.Key{Group: "ex.org", Kind: "Thing", Name: n} }

func strs(ss []string) []any {
	out := make([]any, len(ss))
	for i, s := range ss {
		out[i] = s
	}
	return out
}

func field(u *unstructured.Unstructured, path ...string) string {
	v, ok, _ := unstructured.NestedString(u.Object, path...)
	if !ok {
		return "-"
	}
	return v
}

// owners of spec.<f> (every manager, whatever the operation), from managedFields
func owners(u *unstructured.Unstructured, f string) []string {
	out := []string{}
	for _, e := range u.GetManagedFields() {
		if e.FieldsV1 == nil {
			continue
		}
		if containsField(string(e.FieldsV1.Raw), f) {
			out = append(out, e.Manager)
		}
	}
	sort.Strings(out)
	return out
}

func containsField(raw, f string) bool {
	// fieldsV1 is JSON like {"f:spec":{"f:f1":{}}}; a substring test is enough for the two spec fields
	return len(raw) > 0 && (indexOf(raw, `"f:`+f+`"`) >= 0)
}

func indexOf(s, sub string) int {
	for i := 0; i+len(sub) <= len(s); i++ {
		if s[i:i+len(sub)] == sub {
			return i
		}
	}
	return -1
}

func abstract(u *unstructured.Unstructured) map[string]any {
	if u == nil {
		return map[string]any{"ex": false, "rv": 0, "gen": 0, "del": false, "fins": []any{}, "ctrl": "none", "f1": "-", "f2": "-", "st": "-", "own1": []any{}, "own2": []any{}}
	}
	rv, _ := strconv.Atoi(u.GetResourceVersion())
	ctrl := "none"
	if c := metav1.GetControllerOf(u); c != nil {
		ctrl = string(c.UID)
	}
	fins := append([]string(nil), u.GetFinalizers()...)
	sort.Strings(fins)
	return map[string]any{"ex": true, "rv": rv, "gen": int(u.GetGeneration()), "del": u.GetDeletionTimestamp() != nil, "fins": strs(fins), "ctrl": ctrl,
		"f1": field(u, "spec", "f1"), "f2": field(u, "spec", "f2"), "st": field(u, "status", "s"), "own1": strs(owners(u, "f1")), "own2": strs(owners(u, "f2"))}
}

func thing(name string) *unstructured.Unstructured {
	u := &unstructured.Unstructured{Object: map[string]any{}}
	u.SetAPIVersion("ex.org/v1")
	u.SetKind("Thing")
	u.SetName(name)
	// every object has a spec (so that a merge patch of an absent field does not create the spec map)
	_ = unstructured.SetNestedField(u.Object, "k", "spec", "keep")
	return u
}

func setf(u *unstructured.Unstructured, v string, path ...string) {
	if v == "-" {
		unstructured.RemoveNestedField(u.Object, path...)
		return
	}
	_ = unstructured.SetNestedField(u.Object, v, path...)
}

func maxRV(s *simapi.Server) int {
	m := 0
	for _, k := range s.Keys() {
		if o := s.Peek(k); o != nil {
			if v, _ := strconv.Atoi(o.GetResourceVersion()); v > m {
				m = v
			}
		}
	}
	return m
}

// ---- scripted mode: request sequences emitted by TLC from spec/MCKubeAPI.tla

type request struct {
	Verb   string   `json:"verb"`
	Sub    string   `json:"sub"`
	Dry    bool     `json:"dry"`
	Inj    string   `json:"inj"`
	RvMode string   `json:"rvmode"`
	F1     string   `json:"f1"`
	F2     string   `json:"f2"`
	St     string   `json:"st"`
	Fins   []string `json:"fins"`
	Ctrls  int      `json:"ctrls"`
	Mgr    string   `json:"mgr"`
	Force  bool     `json:"force"`
}

func keepOr(v, stored string) string {
	if v == "keep" {
		return stored
	}
	return v
}

// scripted replays one request sequence on a fresh server; one trace record per request.
func scripted(tw *trace.Writer, id string, reqs []request, counts map[string]int) {
	ctx := context.Background()
	s := simapi.NewServer(runtime.NewScheme())
	c := simapi.NewClient(s, "t")
	var inj simapi.Decision
	c.Intercept = func(*simapi.Call) simapi.Decision { return inj }
	const name = "x"
	hiRV := 0
	for _, r := range reqs {
		c.BeginReconcile()
		pre := s.Peek(key(name))
		if m := maxRV(s); m > hiRV {
			hiRV = m
		}
		inj = map[string]simapi.Decision{"": simapi.Proceed, "error": simapi.FailError, "conflict": simapi.FailConflict,
			"crashBefore": simapi.CrashBefore, "crashAfter": simapi.CrashAfter}[r.Inj]
		preAbs := abstract(pre)
		cur := 0
		if pre != nil {
			cur = atoi(pre.GetResourceVersion())
		}
		reqRV := 0
		switch r.RvMode {
		case "cur":
			reqRV = cur
		case "stale":
			reqRV = 99
			if cur > 1 {
				reqRV = cur - 1
			}
		}
		// the request body: what the model's ReqOf says, built on a copy of the stored object (or a fresh one)
		base := thing(name)
		if pre != nil {
			base = pre.DeepCopy()
		}
		base.SetResourceVersion("")
		if reqRV != 0 {
			base.SetResourceVersion(strconv.Itoa(reqRV))
		}
		f1, f2, st := keepOr(r.F1, preAbs["f1"].(string)), keepOr(r.F2, preAbs["f2"].(string)), keepOr(r.St, preAbs["st"].(string))
		fins := r.Fins
		if len(fins) == 1 && fins[0] == "keep" {
			fins = nil
			for _, x := range preAbs["fins"].([]any) {
				fins = append(fins, x.(string))
			}
		}
		if fins == nil {
			fins = []string{}
		}
		ors := []metav1.OwnerReference{}
		for i := 0; i < r.Ctrls; i++ {
			ors = append(ors, metav1.OwnerReference{APIVersion: "v1", Kind: "O", Name: fmt.Sprintf("o%d", i+1), UID: types.UID(fmt.Sprintf("o%d", i+1)), Controller: ptr.To(true)})
		}
		ctrl := "none"
		if r.Ctrls >= 1 {
			ctrl = "o1"
		}
		req := map[string]any{"rv": reqRV, "ctrls": r.Ctrls, "ctrl": ctrl, "fins": strs(fins), "f1": f1, "f2": f2, "st": st}
		dryOpt := func() []client.PatchOption {
			if r.Dry {
				return []client.PatchOption{client.DryRunAll}
			}
			return nil
		}
		switch {
		case r.Verb == "get":
			_ = c.Get(ctx, types.NamespacedName{Name: name}, thing(name))
		case r.Verb == "create":
			o := thing(name)
			setf(o, f1, "spec", "f1")
			setf(o, f2, "spec", "f2")
			setf(o, st, "status", "s")
			o.SetFinalizers(fins)
			o.SetOwnerReferences(ors)
			if r.Dry {
				_ = c.Create(ctx, o, client.DryRunAll)
			} else {
				_ = c.Create(ctx, o)
			}
		case r.Verb == "update":
			o := base
			setf(o, f1, "spec", "f1")
			setf(o, f2, "spec", "f2")
			setf(o, st, "status", "s")
			o.SetFinalizers(fins)
			o.SetOwnerReferences(ors)
			var uo []client.UpdateOption
			var so []client.SubResourceUpdateOption
			if r.Dry {
				uo, so = append(uo, client.DryRunAll), append(so, client.DryRunAll)
			}
			if r.Sub == "status" {
				_ = c.Status().Update(ctx, o, so...)
			} else {
				_ = c.Update(ctx, o, uo...)
			}
		case r.Verb == "patch-merge":
			o := thing(name)
			unstructured.RemoveNestedField(o.Object, "spec")
			p := `{"spec":{"f1":` + jsonVal(f1) + `}}`
			if reqRV != 0 {
				p = `{"metadata":{"resourceVersion":"` + strconv.Itoa(reqRV) + `"},"spec":{"f1":` + jsonVal(f1) + `}}`
			}
			_ = c.Patch(ctx, o, client.RawPatch(types.MergePatchType, []byte(p)), dryOpt()...)
		case r.Verb == "delete":
			o := thing(name)
			unstructured.RemoveNestedField(o.Object, "spec")
			var dopts []client.DeleteOption
			if reqRV != 0 {
				dopts = append(dopts, client.Preconditions{ResourceVersion: ptr.To(strconv.Itoa(reqRV))})
			}
			if r.Dry {
				dopts = append(dopts, client.DryRunAll)
			}
			_ = c.Delete(ctx, o, dopts...)
		case r.Verb == "patch-apply":
			o := thing(name)
			f1, f2 = r.F1, r.F2 // an apply asserts exactly what it names ("-" = not asserted)
			req["f1"], req["f2"] = f1, f2
			setf(o, f1, "spec", "f1")
			setf(o, f2, "spec", "f2")
			if reqRV != 0 {
				o.SetResourceVersion(strconv.Itoa(reqRV))
			}
			po := append([]client.PatchOption{client.FieldOwner(r.Mgr)}, dryOpt()...)
			if r.Force {
				po = append(po, client.ForceOwnership)
			}
			_ = c.Patch(ctx, o, client.Apply, po...)
		default:
			panic("unknown verb " + r.Verb)
		}
		ev := s.Log[len(s.Log)-1]
		post := s.Peek(key(name))
		op := map[string]any{"verb": r.Verb, "sub": r.Sub, "dry": r.Dry && r.Verb != "get", "injected": ev.Injected, "outcome": ev.Outcome, "req": req,
			"mgr": r.Mgr, "force": r.Force, "maxrv": hiRV}
		if ev.Injected == "crashAfter" {
			op["injected"] = ""
			if ev.Outcome == "dropped" {
				op["outcome"] = "ok"
			}
		}
		op["identical"] = identical(pre, post)
		tw.Emit(map[string]any{"ev": "call", "scenario": id, "pre": preAbs, "post": abstract(post), "op": op})
		counts[r.Verb+"/"+fmt.Sprint(op["outcome"])]++
	}
}

func main() {
	scenarios := flag.String("scenarios", "", "NDJSON file of {id, hist: [request...]} (scripted mode); empty = random mode")
	tracePath := flag.String("trace", "", "output trace")
	sumPath := flag.String("summary", "", "summary")
	seed := flag.Int64("seed", 1, "seed")
	runs := flag.Int("runs", 300, "operation sequences")
	steps := flag.Int("steps", 40, "operations per sequence")
	flag.Parse()
	tw, err := trace.New(*tracePath)
	if err != nil {
		fmt.Fprintln(os.Stderr, err)
		os.Exit(2)
	}
	rng := rand.New(rand.NewSource(*seed))
	ctx := context.Background()
	counts := map[string]int{}
	if *scenarios != "" {
		raws, err := scen.Load(*scenarios)
		if err != nil {
			fmt.Fprintln(os.Stderr, err)
			os.Exit(2)
		}
		for _, raw := range raws {
			var sc struct {
				ID   string    `json:"id"`
				Hist []request `json:"hist"`
			}
			if err := json.Unmarshal(raw, &sc); err != nil {
				fmt.Fprintln(os.Stderr, "bad scenario:", err)
				os.Exit(2)
			}
			tw.Boundary()
			scripted(tw, sc.ID, sc.Hist, counts)
		}
		_ = tw.Close()
		_ = scen.WriteJSON(*sumPath, map[string]any{"runs": len(raws), "events": tw.Lines, "counts": counts})
		return
	}
	for r := 0; r < *runs; r++ {
		s := simapi.NewServer(runtime.NewScheme())
		c := simapi.NewClient(s, "t")
		var inj simapi.Decision
		c.Intercept = func(*simapi.Call) simapi.Decision { return inj }
		hiRV := 0
		id := fmt.Sprintf("K-%d-%04d", *seed, r)
		for k := 0; k < *steps; k++ {
			c.BeginReconcile()
			name := []string{"x", "y"}[rng.Intn(2)]
			pre := s.Peek(key(name))
			if m := maxRV(s); m > hiRV {
				hiRV = m
			}
			inj = simapi.Proceed
			if rng.Intn(10) == 0 {
				inj = []simapi.Decision{simapi.FailError, simapi.FailConflict, simapi.CrashBefore, simapi.CrashAfter}[rng.Intn(4)]
			}
			dry := rng.Intn(8) == 0
			// the request starts from a copy that is current or stale
			base := thing(name)
			if pre != nil && rng.Intn(4) != 0 {
				base = pre.DeepCopy()
			}
			reqRV := 0
			switch rng.Intn(4) {
			case 0:
				base.SetResourceVersion("")
			case 1:
				if pre != nil {
					base.SetResourceVersion(strconv.Itoa(maxInt(1, atoi(pre.GetResourceVersion())-1))) // stale
				}
			}
			req := map[string]any{"rv": 0, "ctrls": 0, "ctrl": "none", "fins": []any{}, "f1": "-", "f2": "-", "st": "-"}
			verbs := []string{"get", "create", "update", "update-status", "patch-merge", "delete", "patch-apply", "patch-apply"}
			verb := verbs[rng.Intn(len(verbs))]
			mgr, force := "", false
			var callErr error
			var dopts []client.DeleteOption
			f1, f2, st := vals[rng.Intn(3)], vals[rng.Intn(3)], vals[rng.Intn(3)]
			fins := [][]string{{}, {"x"}, {"x", "y"}}[rng.Intn(3)]
			ctrls := []int{0, 1, 1, 2}[rng.Intn(4)]
			ors := []metav1.OwnerReference{}
			for i := 0; i < ctrls; i++ {
				ors = append(ors, metav1.OwnerReference{APIVersion: "v1", Kind: "O", Name: fmt.Sprintf("o%d", i+1), UID: types.UID(fmt.Sprintf("o%d", i+1)), Controller: ptr.To(true)})
			}
			ctrl := "none"
			if ctrls >= 1 {
				ctrl = "o1"
			}
			sub := ""
			switch verb {
			case "get":
				callErr = c.Get(ctx, types.NamespacedName{Name: name}, thing(name))
			case "create":
				o := thing(name)
				setf(o, f1, "spec", "f1")
				setf(o, f2, "spec", "f2")
				setf(o, st, "status", "s")
				o.SetFinalizers(fins)
				o.SetOwnerReferences(ors)
				req["f1"], req["f2"], req["st"], req["fins"], req["ctrls"], req["ctrl"] = f1, f2, st, strs(fins), ctrls, ctrl
				if dry {
					callErr = c.Create(ctx, o, client.DryRunAll)
				} else {
					callErr = c.Create(ctx, o)
				}
			case "update", "update-status":
				o := base
				reqRV = atoi(o.GetResourceVersion())
				setf(o, f1, "spec", "f1")
				setf(o, f2, "spec", "f2")
				setf(o, st, "status", "s")
				o.SetFinalizers(fins)
				o.SetOwnerReferences(ors)
				req["rv"], req["f1"], req["f2"], req["st"], req["fins"], req["ctrls"], req["ctrl"] = reqRV, f1, f2, st, strs(fins), ctrls, ctrl
				if verb == "update-status" {
					verb, sub = "update", "status"
					if dry {
						callErr = c.Status().Update(ctx, o, client.DryRunAll)
					} else {
						callErr = c.Status().Update(ctx, o)
					}
				} else if dry {
					callErr = c.Update(ctx, o, client.DryRunAll)
				} else {
					callErr = c.Update(ctx, o)
				}
			case "patch-merge":
				o := thing(name)
				unstructured.RemoveNestedField(o.Object, "spec")
				p := `{"spec":{"f1":` + jsonVal(f1) + `}`
				if pre != nil && rng.Intn(2) == 0 {
					reqRV = atoi(base.GetResourceVersion())
					if reqRV != 0 {
						p = `{"metadata":{"resourceVersion":"` + strconv.Itoa(reqRV) + `"},"spec":{"f1":` + jsonVal(f1) + `}`
					}
				}
				p += "}"
				req["rv"], req["f1"] = reqRV, f1
				po := []client.PatchOption{}
				if dry {
					po = append(po, client.DryRunAll)
				}
				callErr = c.Patch(ctx, o, client.RawPatch(types.MergePatchType, []byte(p)), po...)
			case "delete":
				o := thing(name)
				unstructured.RemoveNestedField(o.Object, "spec")
				if pre != nil && rng.Intn(3) == 0 {
					reqRV = atoi(base.GetResourceVersion())
					if reqRV != 0 {
						dopts = append(dopts, client.Preconditions{ResourceVersion: ptr.To(strconv.Itoa(reqRV))})
					}
				}
				if dry {
					dopts = append(dopts, client.DryRunAll)
				}
				req["rv"] = reqRV
				callErr = c.Delete(ctx, o, dopts...)
			case "patch-apply":
				o := thing(name)
				setf(o, f1, "spec", "f1")
				setf(o, f2, "spec", "f2")
				mgr, force = []string{"m1", "m2"}[rng.Intn(2)], rng.Intn(3) != 0
				if pre != nil && rng.Intn(4) == 0 {
					reqRV = atoi(base.GetResourceVersion())
					o.SetResourceVersion(base.GetResourceVersion())
				}
				req["rv"], req["f1"], req["f2"] = reqRV, f1, f2
				po := []client.PatchOption{client.FieldOwner(mgr)}
				if force {
					po = append(po, client.ForceOwnership)
				}
				if dry {
					po = append(po, client.DryRunAll)
				}
				callErr = c.Patch(ctx, o, client.Apply, po...)
			}
			ev := s.Log[len(s.Log)-1]
			_ = callErr
			post := s.Peek(key(name))
			op := map[string]any{"verb": verb, "sub": sub, "dry": dry && verb != "get", "injected": ev.Injected, "outcome": ev.Outcome, "req": req, "mgr": mgr, "force": force, "maxrv": hiRV}
			if ev.Injected == "crashAfter" {
				op["injected"] = "" // the effect is applied: judged like a call that went through (its reply is lost)
				if ev.Outcome == "dropped" {
					op["outcome"] = "ok"
				}
			}
			op["identical"] = identical(pre, post)
			tw.Emit(map[string]any{"ev": "call", "scenario": id, "pre": abstract(pre), "post": abstract(post), "op": op})
			counts[verb+"/"+fmt.Sprint(op["outcome"])]++
		}
	}
	_ = tw.Close()
	_ = scen.WriteJSON(*sumPath, map[string]any{"runs": *runs, "events": tw.Lines, "counts": counts})
}

// identical: the stored object is byte-identical before and after, resourceVersion and managedFields timestamps aside
func identical(a, b *unstructured.Unstructured) bool {
	if a == nil || b == nil {
		return a == nil && b == nil
	}
	strip := func(u *unstructured.Unstructured) map[string]any {
		c := u.DeepCopy()
		c.SetResourceVersion("")
		mf := c.GetManagedFields()
		for i := range mf {
			mf[i].Time = nil
		}
		c.SetManagedFields(mf)
		return c.Object
	}
	return reflect.DeepEqual(strip(a), strip(b))
}

func jsonVal(v string) string {
	if v == "-" {
		return "null"
	}
	return `"` + v + `"`
}

func atoi(s string) int { v, _ := strconv.Atoi(s); return v }

func maxInt(a, b int) int {
	if a > b {
		return a
	}
	return b
}
