SPECIFICATION Spec
CONSTANTS
  Ctrls = {"c1"}
  Wids = {"xr", "cdA"}
  Procs = {1, 2}
  MaxOps = 3
  MaxInst = 1
  MaxSrc = 4
  OpKinds <- ReadOps
  SWSets <- SW_a
  FixGC = TRUE
  FixSnapshot = TRUE
  FixLost = FALSE
  MaxStopFails = 0
  FixStopped = TRUE
VIEW view
CHECK_DEADLOCK FALSE
INVARIANTS OneWatch StopClean StepProps
