SPECIFICATION Spec
CONSTANTS
  Foreground = FALSE
  MaxRecs = 2
  MaxEnv = 3
  MaxFaults = 1
  ThirdParty = TRUE
VIEW view
ACTION_CONSTRAINT EmitEnd
CHECK_DEADLOCK FALSE

