// Driver for spec/PkgRevision.tla (property C15): replays TLC behaviours
// against the real package revision reconciler
// (internal/controller/pkg/revision.Reconciler) with
//
//   - the real ImageBackend over a fake Fetcher that serves OCI images built by
//     the real xpkg.Builder (or, for packages the builder refuses, assembled
//     with the real xpkg.Layer / AnnotateLayers), with byte-position read
//     faults injected into the uncompressed stream of the package layer;
//   - the real xpkg.FsPackageCache on an afero.MemMapFs wrapped with
//     byte-position write faults, failing Create / Remove and a "process died"
//     switch;
//   - the real package parser and the three real linters, the real
//     PackageDependencyManager and ImageConfigStore on simapi;
//   - a recording Establisher (C16 covers the real one);
//   - the real signature Reconciler with a scripted Validator.
//
// The driver only observes: which source the content came from, the state of
// the cache entry (exists, size, gunzips completely, number of documents),
// the objects handed to Establish as (kind, name, content digest), and the
// conditions. All property logic lives in spec/MonPkgRevision.tla.
package main

import (
	"archive/tar"
	"bytes"
	"compress/gzip"
	"context"
	"crypto/sha256"
	"encoding/hex"
	"encoding/json"
	"errors"
	"flag"
	"fmt"
	"hash/fnv"
	"io"
	"math/rand"
	"os"
	"reflect"
	"sort"
	"strings"
	"sync"
	"time"
	"unsafe"

	"github.com/google/go-containerregistry/pkg/name"
	v1 "github.com/google/go-containerregistry/pkg/v1"
	"github.com/google/go-containerregistry/pkg/v1/empty"
	"github.com/google/go-containerregistry/pkg/v1/mutate"
	"github.com/google/go-containerregistry/pkg/v1/partial"
	"github.com/google/go-containerregistry/pkg/v1/random"
	"github.com/google/go-containerregistry/pkg/v1/tarball"
	ggcrtypes "github.com/google/go-containerregistry/pkg/v1/types"
	"github.com/spf13/afero"
	admv1 "k8s.io/api/admissionregistration/v1"
	corev1 "k8s.io/api/core/v1"
	extv1 "k8s.io/apiextensions-apiserver/pkg/apis/apiextensions/v1"
	metav1 "k8s.io/apimachinery/pkg/apis/meta/v1"
	"k8s.io/apimachinery/pkg/apis/meta/v1/unstructured"
	kruntime "k8s.io/apimachinery/pkg/runtime"
	"k8s.io/apimachinery/pkg/runtime/schema"
	"k8s.io/apimachinery/pkg/types"
	"k8s.io/utils/ptr"
	"sigs.k8s.io/controller-runtime/pkg/reconcile"
	"sigs.k8s.io/yaml"

	xpv1 "github.com/crossplane/crossplane-runtime/apis/common/v1"
	"github.com/crossplane/crossplane-runtime/pkg/feature"
	"github.com/crossplane/crossplane-runtime/pkg/parser"

	apixv1 "github.com/crossplane/crossplane/apis/apiextensions/v1"
	pkgmetav1 "github.com/crossplane/crossplane/apis/pkg/meta/v1"
	pkgv1 "github.com/crossplane/crossplane/apis/pkg/v1"
	pkgv1beta1 "github.com/crossplane/crossplane/apis/pkg/v1beta1"
	"github.com/crossplane/crossplane/internal/controller/pkg/revision"
	"github.com/crossplane/crossplane/internal/controller/pkg/signature"
	"github.com/crossplane/crossplane/internal/dag"
	"github.com/crossplane/crossplane/internal/features"
	"github.com/crossplane/crossplane/internal/version"
	"github.com/crossplane/crossplane/internal/xpkg"
	"github.com/crossplane/crossplane/internal/xpkg/parser/examples"
	"github.com/crossplane/crossplane/zzverif/fakes"
	"github.com/crossplane/crossplane/zzverif/scen"
	"github.com/crossplane/crossplane/zzverif/simapi"
	"github.com/crossplane/crossplane/zzverif/trace"
)

const (
	namespace = "crossplane-system"
	pkgName   = "pkg"
	registry  = "xpkg.example.org"
	source    = registry + "/org/pkg:v1"
	cacheDir  = "/cache"
	crdGroup  = "example.org"
)

var (
	theScheme  *kruntime.Scheme
	metaScheme *kruntime.Scheme
	objScheme  *kruntime.Scheme

	errInjectedRead  = errors.New("injected: connection reset while reading the layer")
	errInjectedWrite = errors.New("injected: no space left on device")
	errInjectedFetch = errors.New("injected: registry unavailable")
	errDead          = errors.New("injected: the process has died")
)

func init() {
	theScheme = kruntime.NewScheme()
	_ = pkgv1.AddToScheme(theScheme)
	_ = pkgv1beta1.AddToScheme(theScheme)
	_ = extv1.AddToScheme(theScheme)
	_ = corev1.AddToScheme(theScheme)
	metaScheme, _ = xpkg.BuildMetaScheme()
	objScheme, _ = xpkg.BuildObjectScheme()
}

// ------------------------------------------------------------- documents

// doc is one document of a package stream.
type doc struct {
	Tok  string
	Meta bool
	Kind string // the token of the kind, as the monitor knows it
	ID   string // kind/name/content digest
	YAML []byte
}

// digestOf is the content digest of an object: the SHA-256 of its JSON form with
// object keys in canonical order (embedded raw JSON, e.g. an XRD's schema, keeps
// the key order of its source text otherwise).
func digestOf(o any) string {
	b, err := json.Marshal(o)
	if err != nil {
		return "err"
	}
	var v any
	if err := json.Unmarshal(b, &v); err != nil {
		return "err"
	}
	if b, err = json.Marshal(v); err != nil {
		return "err"
	}
	h := sha256.Sum256(b)
	return hex.EncodeToString(h[:5])
}

func idOf(o kruntime.Object) string {
	n := ""
	if m, ok := o.(metav1.Object); ok {
		n = m.GetName()
	}
	return o.GetObjectKind().GroupVersionKind().Kind + "/" + n + "/" + digestOf(o)
}

// edge: the scenario (by a hash of its id, setEdge) runs on a PRE-RELEASE build of Crossplane, v1.18.0-rc.0.57.g1a2b3c4 (what
// every build between two tags is), and its constraints sit right at that version: ">=v1.18.0" is not met by a release
// candidate of v1.18.0, ">=v1.18.0-rc.0" is. Otherwise the running version is the release v1.18.0 and the unmet constraint
// sits right above it. (Added after the seeded change C15-m7 - the pre-release part dropped before comparing - was missed.)
var edge bool

func setEdge(id string) {
	h := fnv.New32a()
	_, _ = h.Write([]byte(strings.SplitN(id, "/", 2)[0]))
	edge = h.Sum32()%2 == 1
}

// versioner: the real version.Versioner, holding the running version of this scenario.
func versioner() *version.Versioner {
	v := version.New()
	if edge {
		f := reflect.ValueOf(v).Elem().FieldByName("version")
		if !f.IsValid() || f.Kind() != reflect.String {
			panic("version.Versioner has no string field 'version' any more: adapt the driver")
		}
		reflect.NewAt(f.Type(), unsafe.Pointer(f.UnsafeAddr())).Elem().SetString("v1.18.0-rc.0.57.g1a2b3c4")
	}
	return v
}

func constraint(cons string) *pkgmetav1.CrossplaneConstraints {
	switch cons {
	case "met":
		if edge {
			return &pkgmetav1.CrossplaneConstraints{Version: ">=v1.18.0-rc.0"}
		}
		return &pkgmetav1.CrossplaneConstraints{Version: ">=v1.0.0"}
	case "unmet":
		if edge {
			return &pkgmetav1.CrossplaneConstraints{Version: ">=v1.18.0"}
		}
		return &pkgmetav1.CrossplaneConstraints{Version: ">v1.18.0"}
	case "bad":
		return &pkgmetav1.CrossplaneConstraints{Version: "not a >>> range"}
	}
	return nil
}

func crdNames(n string) extv1.CustomResourceDefinitionNames {
	kind := strings.ToUpper(n[:1]) + n[1:]
	return extv1.CustomResourceDefinitionNames{Kind: kind, ListKind: kind + "List", Plural: n + "s", Singular: n}
}

func schemaProps(desc string) *extv1.JSONSchemaProps {
	return &extv1.JSONSchemaProps{Type: "object", Description: desc, Properties: map[string]extv1.JSONSchemaProps{
		"spec": {Type: "object", Properties: map[string]extv1.JSONSchemaProps{
			"size":   {Type: "integer", Description: "how many"},
			"region": {Type: "string", Description: "where"},
		}},
	}}
}

// mkDoc builds the i-th document of a stream from its token.
func mkDoc(tok string, i int, cons string) doc {
	n := fmt.Sprintf("%s%d", strings.ToLower(strings.TrimPrefix(tok, "m")), i)
	var o kruntime.Object
	d := doc{Tok: tok, Kind: tok}
	switch tok {
	case "mP":
		d.Meta = true
		o = &pkgmetav1.Provider{TypeMeta: metav1.TypeMeta{APIVersion: "meta.pkg.crossplane.io/v1", Kind: "Provider"}, ObjectMeta: metav1.ObjectMeta{Name: pkgName},
			Spec: pkgmetav1.ProviderSpec{Controller: pkgmetav1.ControllerSpec{Image: ptr.To(registry + "/org/pkg-controller:v1")}, MetaSpec: pkgmetav1.MetaSpec{Crossplane: constraint(cons)}}}
	case "mC":
		d.Meta = true
		o = &pkgmetav1.Configuration{TypeMeta: metav1.TypeMeta{APIVersion: "meta.pkg.crossplane.io/v1", Kind: "Configuration"}, ObjectMeta: metav1.ObjectMeta{Name: pkgName},
			Spec: pkgmetav1.ConfigurationSpec{MetaSpec: pkgmetav1.MetaSpec{Crossplane: constraint(cons)}}}
	case "mF":
		d.Meta = true
		o = &pkgmetav1.Function{TypeMeta: metav1.TypeMeta{APIVersion: "meta.pkg.crossplane.io/v1", Kind: "Function"}, ObjectMeta: metav1.ObjectMeta{Name: pkgName},
			Spec: pkgmetav1.FunctionSpec{Image: ptr.To(registry + "/org/pkg-function:v1"), MetaSpec: pkgmetav1.MetaSpec{Crossplane: constraint(cons)}}}
	case "CRD":
		o = &extv1.CustomResourceDefinition{TypeMeta: metav1.TypeMeta{APIVersion: "apiextensions.k8s.io/v1", Kind: "CustomResourceDefinition"},
			ObjectMeta: metav1.ObjectMeta{Name: n + "s." + crdGroup, Labels: map[string]string{"pkg": pkgName}},
			Spec: extv1.CustomResourceDefinitionSpec{Group: crdGroup, Names: crdNames(n), Scope: extv1.ClusterScoped,
				Versions: []extv1.CustomResourceDefinitionVersion{
					{Name: "v1alpha1", Served: true, Storage: false, Schema: &extv1.CustomResourceValidation{OpenAPIV3Schema: schemaProps("old " + n)}},
					{Name: "v1", Served: true, Storage: true, Schema: &extv1.CustomResourceValidation{OpenAPIV3Schema: schemaProps("the " + n)}}}}}
	case "XRD":
		o = &apixv1.CompositeResourceDefinition{TypeMeta: metav1.TypeMeta{APIVersion: "apiextensions.crossplane.io/v1", Kind: "CompositeResourceDefinition"},
			ObjectMeta: metav1.ObjectMeta{Name: "x" + n + "s." + crdGroup},
			Spec: apixv1.CompositeResourceDefinitionSpec{Group: crdGroup, Names: crdNames("x" + n), ClaimNames: ptr.To(crdNames(n)),
				ConnectionSecretKeys: []string{"user", "password"},
				Versions: []apixv1.CompositeResourceDefinitionVersion{{Name: "v1", Served: true, Referenceable: true,
					Schema: &apixv1.CompositeResourceValidation{OpenAPIV3Schema: kruntime.RawExtension{Raw: []byte(`{"type":"object","properties":{"spec":{"type":"object","properties":{"size":{"type":"integer"}}}}}`)}}}}}}
	case "CMP":
		o = &apixv1.Composition{TypeMeta: metav1.TypeMeta{APIVersion: "apiextensions.crossplane.io/v1", Kind: "Composition"},
			ObjectMeta: metav1.ObjectMeta{Name: n, Labels: map[string]string{"provider": "example"}},
			Spec: apixv1.CompositionSpec{CompositeTypeRef: apixv1.TypeReference{APIVersion: crdGroup + "/v1", Kind: "X" + n},
				Mode: ptr.To(apixv1.CompositionModePipeline),
				Pipeline: []apixv1.PipelineStep{
					{Step: "render", FunctionRef: apixv1.FunctionReference{Name: "function-render"}, Input: &kruntime.RawExtension{Raw: []byte(`{"apiVersion":"fn.example.org/v1","kind":"Input","size":3}`)}},
					{Step: "ready", FunctionRef: apixv1.FunctionReference{Name: "function-ready"}}}}}
	case "MWC":
		o = &admv1.MutatingWebhookConfiguration{TypeMeta: metav1.TypeMeta{APIVersion: "admissionregistration.k8s.io/v1", Kind: "MutatingWebhookConfiguration"},
			ObjectMeta: metav1.ObjectMeta{Name: n},
			Webhooks: []admv1.MutatingWebhook{{Name: n + ".example.org", AdmissionReviewVersions: []string{"v1"}, SideEffects: ptr.To(admv1.SideEffectClassNone),
				ClientConfig: admv1.WebhookClientConfig{Service: &admv1.ServiceReference{Namespace: namespace, Name: "webhook", Path: ptr.To("/mutate")}},
				Rules:        []admv1.RuleWithOperations{{Operations: []admv1.OperationType{admv1.Create}, Rule: admv1.Rule{APIGroups: []string{crdGroup}, APIVersions: []string{"v1"}, Resources: []string{"things"}}}}}}}
	case "VWC":
		o = &admv1.ValidatingWebhookConfiguration{TypeMeta: metav1.TypeMeta{APIVersion: "admissionregistration.k8s.io/v1", Kind: "ValidatingWebhookConfiguration"},
			ObjectMeta: metav1.ObjectMeta{Name: n},
			Webhooks: []admv1.ValidatingWebhook{{Name: n + ".example.org", AdmissionReviewVersions: []string{"v1"}, SideEffects: ptr.To(admv1.SideEffectClassNone),
				ClientConfig: admv1.WebhookClientConfig{Service: &admv1.ServiceReference{Namespace: namespace, Name: "webhook", Path: ptr.To("/validate")}},
				Rules:        []admv1.RuleWithOperations{{Operations: []admv1.OperationType{admv1.Create, admv1.Update}, Rule: admv1.Rule{APIGroups: []string{crdGroup}, APIVersions: []string{"v1"}, Resources: []string{"things"}}}}}}}
	case "ALIEN":
		// a kind neither scheme of the parser knows
		d.YAML = []byte("apiVersion: v1\nkind: ConfigMap\nmetadata:\n  name: " + n + "\ndata:\n  key: value\n")
		h := sha256.Sum256(d.YAML)
		d.ID = "ConfigMap/" + n + "/" + hex.EncodeToString(h[:5])
		return d
	default:
		panic("unknown document token " + tok)
	}
	y, err := yaml.Marshal(o)
	if err != nil {
		panic(err)
	}
	d.YAML, d.ID = y, idOf(o)
	return d
}

// ---------------------------------------------------------------- images

type image struct {
	key       string
	docs      []doc
	declMeta  []any // kind tokens of the meta documents, stream order
	declObjs  []any // ids of the object documents
	declKinds []any // kind tokens of the object documents
	layout    string
	built     bool
	buildErr  string
	img       v1.Image
	pkgLayer  v1.Hash // digest of the layer holding package.yaml ("" for twobase: both)
	stream    []byte  // package.yaml as stored in the image
	bounds    []int   // bounds[k] = length of the prefix holding exactly the first k documents
	dataOff   int     // offset of package.yaml's content in the uncompressed package layer
	dataOpen  int     // the n-th Uncompressed() of the package layer during Init is the one that is parsed
	cacheGz   []byte  // the complete cache entry
	revName   string
	initErr   string // ImageBackend.Init fails on the healthy image (invalid layout)
	rt        map[string]any
}

var images = map[string]*image{}

func lintCleanForBuilder(toks []string, cons string) bool {
	// xpkg build picks the linter from the kind of the (single) meta document
	if len(toks) == 0 || !strings.HasPrefix(toks[0], "m") || cons == "bad" {
		return false
	}
	allowed := map[string]string{"mP": "CRD MWC VWC", "mC": "XRD CMP", "mF": "CRD XRD CMP MWC VWC"}[toks[0]]
	for _, t := range toks[1:] {
		if !strings.Contains(allowed, t) {
			return false
		}
	}
	return true
}

func buildFilters() parser.BackendOption {
	return parser.FsFilters(parser.SkipDirs(), parser.SkipNotYAML(), parser.SkipEmpty())
}

// countingReader counts the bytes read through it.
type countingReader struct {
	r io.Reader
	n int
}

func (c *countingReader) Read(p []byte) (int, error) {
	n, err := c.r.Read(p)
	c.n += n
	return n, err
}

// findStream locates package.yaml in the topmost layer that has it.
func findStream(img v1.Image) (v1.Hash, []byte, int, error) {
	layers, err := img.Layers()
	if err != nil {
		return v1.Hash{}, nil, 0, err
	}
	for i := len(layers) - 1; i >= 0; i-- {
		rc, err := layers[i].Uncompressed()
		if err != nil {
			return v1.Hash{}, nil, 0, err
		}
		cr := &countingReader{r: rc}
		tr := tar.NewReader(cr)
		for {
			h, err := tr.Next()
			if err != nil {
				break
			}
			if h.Name == xpkg.StreamFile {
				off := cr.n
				b, err := io.ReadAll(tr)
				_ = rc.Close()
				if err != nil {
					return v1.Hash{}, nil, 0, err
				}
				d, err := layers[i].Digest()
				return d, b, off, err
			}
		}
		_ = rc.Close()
	}
	return v1.Hash{}, nil, 0, errors.New("no package.yaml in the image")
}

// docBounds returns, for k = 0..n, the length of the shortest prefix of the
// stream that holds exactly the first k documents (cut right before the
// separator line that follows document k, or at the end of the stream).
func docBounds(stream []byte) []int {
	bounds := []int{0}
	off, inDoc := 0, false
	for off < len(stream) {
		end := bytes.IndexByte(stream[off:], '\n')
		if end < 0 {
			end = len(stream) - off
		} else {
			end++
		}
		line := stream[off : off+end]
		if bytes.HasPrefix(line, []byte("---")) {
			if inDoc {
				bounds = append(bounds, off)
				inDoc = false
			}
		} else if t := bytes.TrimSpace(line); len(t) > 0 && t[0] != '#' {
			inDoc = true
		}
		off += end
	}
	if inDoc {
		bounds = append(bounds, len(stream))
	}
	return bounds
}

type tarFile struct {
	name string
	data []byte
}

// tarLayer builds an image layer holding the files in the given order.
func tarLayer(files []tarFile) v1.Layer {
	var buf bytes.Buffer
	tw := tar.NewWriter(&buf)
	for _, f := range files {
		if err := tw.WriteHeader(&tar.Header{Name: f.name, Mode: int64(xpkg.StreamFileMode), Size: int64(len(f.data))}); err != nil {
			panic(err)
		}
		if _, err := tw.Write(f.data); err != nil {
			panic(err)
		}
	}
	if err := tw.Close(); err != nil {
		panic(err)
	}
	b := buf.Bytes()
	l, err := tarball.LayerFromOpener(func() (io.ReadCloser, error) { return io.NopCloser(bytes.NewReader(b)), nil })
	if err != nil {
		panic(err)
	}
	return l
}

func getImage(toks []string, cons, layout string, wantBuilt bool) *image {
	built := wantBuilt && lintCleanForBuilder(toks, cons) && layout != "twobase" && !strings.HasPrefix(layout, "decoy")
	key := fmt.Sprintf("%s|%s|%s|%v|%v", strings.Join(toks, ","), cons, layout, built, edge)
	if im, ok := images[key]; ok {
		return im
	}
	im := &image{key: key, layout: layout, built: built, declMeta: []any{}, declObjs: []any{}, declKinds: []any{}}
	for i, t := range toks {
		d := mkDoc(t, i+1, cons)
		im.docs = append(im.docs, d)
		if d.Meta {
			im.declMeta = append(im.declMeta, d.Kind)
		} else {
			im.declObjs = append(im.declObjs, d.ID)
			im.declKinds = append(im.declKinds, d.Kind)
		}
	}
	ctx := context.Background()
	multi := layout == "multi" || layout == "multiplain"
	annotate := layout == "annotated" || layout == "multi" || layout == "twobase" || layout == "decoy"
	var base v1.Image = empty.Image
	if multi {
		// a runtime base image of two layers, as embedded by `xpkg build --embed-runtime-image`
		b, err := random.Image(300, 2, random.WithSource(rand.NewSource(7)))
		if err != nil {
			panic(err)
		}
		base = b
	}
	var img v1.Image
	if built {
		fs := afero.NewMemMapFs()
		_ = fs.MkdirAll("/pkg", 0o755)
		for i, d := range im.docs {
			fn := fmt.Sprintf("/pkg/o%02d.yaml", i)
			if d.Meta {
				fn = "/pkg/crossplane.yaml"
			}
			_ = afero.WriteFile(fs, fn, d.YAML, 0o644)
		}
		if multi {
			_ = fs.MkdirAll("/pkg/examples", 0o755)
			_ = afero.WriteFile(fs, "/pkg/examples/thing.yaml", []byte("apiVersion: example.org/v1\nkind: Thing\nmetadata:\n  name: example\nspec:\n  size: 1\n"), 0o644)
		}
		b := xpkg.New(
			parser.NewFsBackend(fs, parser.FsDir("/pkg"), parser.FsFilters(parser.SkipDirs(), parser.SkipNotYAML(), parser.SkipEmpty(), xpkg.SkipContains("examples"))),
			parser.NewFsBackend(fs, parser.FsDir("/pkg/examples"), buildFilters()),
			parser.New(metaScheme, objScheme), examples.New())
		var err error
		img, _, err = b.Build(ctx, xpkg.WithBase(base))
		if err != nil {
			im.buildErr = err.Error()
			im.built = false
		}
	}
	if img == nil {
		var buf bytes.Buffer
		for _, d := range im.docs {
			buf.WriteString("---\n")
			buf.Write(d.YAML)
		}
		cfgFile, err := base.ConfigFile()
		if err != nil {
			panic(err)
		}
		cfg := cfgFile.Config
		if cfg.Labels == nil {
			cfg.Labels = map[string]string{}
		}
		raw := buf.Bytes()
		layer, err := xpkg.Layer(bytes.NewReader(raw), xpkg.StreamFile, xpkg.PackageAnnotation, int64(len(raw)), xpkg.StreamFileMode, &cfg)
		if err != nil {
			panic(err)
		}
		// layouts "decoy" / "decoyplain": the image also holds another file whose base name is package.yaml
		// (examples/package.yaml, a well-formed package stream of its own) - in front of the package stream in the
		// annotated layer, or in an upper layer of a plain image (the flattened filesystem lists upper layers first).
		// The package stream of the image is the file named package.yaml, nothing else.
		var upper v1.Layer
		if strings.HasPrefix(layout, "decoy") {
			mt := "mP"
			for _, t := range toks {
				if strings.HasPrefix(t, "m") {
					mt = t
					break
				}
			}
			var dec bytes.Buffer
			for i, t := range []string{mt, "CRD", "MWC"} {
				dec.WriteString("---\n")
				dec.Write(mkDoc(t, 90+i, cons).YAML)
			}
			if layout == "decoy" {
				// (... and a hidden sibling .package.yaml: a name that only differs by leading characters a careless
				// normalisation strips - added after the seeded change C15-m8 was missed)
				layer = tarLayer([]tarFile{{"." + xpkg.StreamFile, dec.Bytes()}, {"examples/" + xpkg.StreamFile, dec.Bytes()}, {xpkg.StreamFile, raw}})
				d, err := layer.Digest()
				if err != nil {
					panic(err)
				}
				cfg.Labels[xpkg.Label(d.String())] = xpkg.PackageAnnotation
			} else {
				upper = tarLayer([]tarFile{{"." + xpkg.StreamFile, dec.Bytes()}, {"examples/" + xpkg.StreamFile, dec.Bytes()}})
			}
		}
		img, err = mutate.AppendLayers(base, layer)
		if err != nil {
			panic(err)
		}
		if upper != nil {
			if img, err = mutate.AppendLayers(img, upper); err != nil {
				panic(err)
			}
		}
		if layout == "twobase" {
			// a second layer annotated as base: the xpkg specification forbids it
			other := append([]byte("# second base layer\n"), raw...)
			l2, err := xpkg.Layer(bytes.NewReader(other), xpkg.StreamFile, xpkg.PackageAnnotation, int64(len(other)), xpkg.StreamFileMode, &cfg)
			if err != nil {
				panic(err)
			}
			if img, err = mutate.AppendLayers(img, l2); err != nil {
				panic(err)
			}
		}
		if img, err = mutate.Config(img, cfg); err != nil {
			panic(err)
		}
	}
	if annotate {
		var err error
		if img, err = xpkg.AnnotateLayers(img); err != nil {
			panic(err)
		}
	}
	img = toWire(img)
	im.img = img
	var err error
	if im.pkgLayer, im.stream, im.dataOff, err = findStream(img); err != nil {
		panic(err)
	}
	im.bounds = docBounds(im.stream)
	if len(im.bounds) != len(im.docs)+1 {
		panic(fmt.Sprintf("image %s: %d documents in the stream, %d expected", key, len(im.bounds)-1, len(im.docs)))
	}
	dg, err := img.Digest()
	if err != nil {
		panic(err)
	}
	im.revName = xpkg.FriendlyID(pkgName, dg.Hex)
	// the complete cache entry, as the real cache writes it
	mem := afero.NewMemMapFs()
	if err := xpkg.NewFsPackageCache(cacheDir, mem).Store(im.revName, io.NopCloser(bytes.NewReader(im.stream))); err != nil {
		panic(err)
	}
	if im.cacheGz, err = afero.ReadFile(mem, xpkg.BuildPath(cacheDir, im.revName, ".gz")); err != nil {
		panic(err)
	}
	// calibration: a healthy Init through the real ImageBackend; which open of the package layer carries the parsed data
	cal := &world{im: im, plan: noFaults()}
	rc, err := revision.NewImageBackend(&fetcher{w: cal}, revision.WithDefaultRegistry(registry)).Init(ctx, revision.PackageRevision(newRevision("Provider", im, false)))
	parsedObjs, parsedMeta := []any{}, []any{}
	if err != nil {
		im.initErr = err.Error()
		if debug {
			fmt.Fprintln(os.Stderr, "image", key, "init:", err)
		}
	} else {
		im.dataOpen = cal.opens
		pkg, perr := parser.New(metaScheme, objScheme).Parse(ctx, rc)
		if perr == nil {
			for _, o := range pkg.GetObjects() {
				parsedObjs = append(parsedObjs, idOf(o))
			}
			for _, o := range pkg.GetMeta() {
				parsedMeta = append(parsedMeta, idOf(o))
			}
		}
	}
	dirObjs, dirMeta := []any{}, []any{}
	for _, d := range im.docs {
		if d.Meta {
			dirMeta = append(dirMeta, d.ID)
		} else {
			dirObjs = append(dirObjs, d.ID)
		}
	}
	im.rt = map[string]any{"built": im.built, "dir": dirObjs, "dirMeta": dirMeta, "parsed": parsedObjs, "parsedMeta": parsedMeta}
	images[key] = im
	return im
}

// wireImage is the image as a registry serves it: raw manifest and config
// bytes plus compressed layer blobs. Everything else (Manifest(), layer
// annotations, Uncompressed() = gunzip of the blob, DiffIDs) is derived by
// go-containerregistry exactly as it is for a remote image.
type wireImage struct {
	manifest, config []byte
	mt               ggcrtypes.MediaType
	blobs            map[v1.Hash]*wireLayer
}

type wireLayer struct {
	digest v1.Hash
	blob   []byte
	mt     ggcrtypes.MediaType
}

func (l *wireLayer) Digest() (v1.Hash, error) { return l.digest, nil }
func (l *wireLayer) Compressed() (io.ReadCloser, error) {
	return io.NopCloser(bytes.NewReader(l.blob)), nil
}
func (l *wireLayer) Size() (int64, error)                    { return int64(len(l.blob)), nil }
func (l *wireLayer) MediaType() (ggcrtypes.MediaType, error) { return l.mt, nil }

func (i *wireImage) RawManifest() ([]byte, error)            { return i.manifest, nil }
func (i *wireImage) RawConfigFile() ([]byte, error)          { return i.config, nil }
func (i *wireImage) MediaType() (ggcrtypes.MediaType, error) { return i.mt, nil }
func (i *wireImage) LayerByDigest(h v1.Hash) (partial.CompressedLayer, error) {
	l, ok := i.blobs[h]
	if !ok {
		return nil, fmt.Errorf("blob %s unknown", h)
	}
	return l, nil
}

func toWire(img v1.Image) v1.Image {
	must := func(err error) {
		if err != nil {
			panic(err)
		}
	}
	wi := &wireImage{blobs: map[v1.Hash]*wireLayer{}}
	var err error
	wi.manifest, err = img.RawManifest()
	must(err)
	wi.config, err = img.RawConfigFile()
	must(err)
	wi.mt, err = img.MediaType()
	must(err)
	layers, err := img.Layers()
	must(err)
	for _, l := range layers {
		d, err := l.Digest()
		must(err)
		rc, err := l.Compressed()
		must(err)
		b, err := io.ReadAll(rc)
		must(err)
		_ = rc.Close()
		mt, err := l.MediaType()
		must(err)
		wi.blobs[d] = &wireLayer{digest: d, blob: b, mt: mt}
	}
	out, err := partial.CompressedToImage(wi)
	must(err)
	return out
}

// ------------------------------------------------- fetcher with read faults

type fetcher struct{ w *world }

func (f *fetcher) Fetch(_ context.Context, _ name.Reference, _ ...string) (v1.Image, error) {
	w := f.w
	w.mu.Lock()
	w.opens = 0
	w.fetches++
	fail := w.plan.Src == "init"
	w.mu.Unlock()
	if w.isDead() {
		return nil, errDead
	}
	if fail {
		w.observe("fetch", "error")
		return nil, errInjectedFetch
	}
	w.mu.Lock()
	w.src = "registry"
	w.mu.Unlock()
	w.observe("fetch", "ok")
	return &fImage{Image: w.im.img, w: w}, nil
}

func (f *fetcher) Head(context.Context, name.Reference, ...string) (*v1.Descriptor, error) {
	return nil, errors.New("not used")
}

func (f *fetcher) Tags(context.Context, name.Reference, ...string) ([]string, error) {
	return nil, errors.New("not used")
}

type fImage struct {
	v1.Image
	w *world
}

func (i *fImage) wrap(l v1.Layer) v1.Layer {
	d, err := l.Digest()
	if err != nil || d != i.w.im.pkgLayer {
		return l
	}
	return &fLayer{Layer: l, w: i.w}
}

func (i *fImage) Layers() ([]v1.Layer, error) {
	ls, err := i.Image.Layers()
	if err != nil {
		return nil, err
	}
	out := make([]v1.Layer, len(ls))
	for k, l := range ls {
		out[k] = i.wrap(l)
	}
	return out, nil
}

func (i *fImage) LayerByDigest(h v1.Hash) (v1.Layer, error) {
	l, err := i.Image.LayerByDigest(h)
	if err != nil {
		return nil, err
	}
	return i.wrap(l), nil
}

func (i *fImage) LayerByDiffID(h v1.Hash) (v1.Layer, error) {
	l, err := i.Image.LayerByDiffID(h)
	if err != nil {
		return nil, err
	}
	return i.wrap(l), nil
}

type fLayer struct {
	v1.Layer
	w *world
}

func (l *fLayer) Uncompressed() (io.ReadCloser, error) {
	rc, err := l.Layer.Uncompressed()
	if err != nil {
		return nil, err
	}
	w := l.w
	w.mu.Lock()
	w.opens++
	n := w.opens
	at := w.plan.SrcAt
	w.mu.Unlock()
	if n != w.im.dataOpen {
		return rc, nil
	}
	fr := &failReader{rc: rc, w: w, limit: -1}
	if at >= 0 {
		fr.limit = w.im.dataOff + at
	}
	return fr, nil
}

// failReader hands out the first limit bytes and then fails every read.
type failReader struct {
	rc    io.ReadCloser
	w     *world
	limit int // -1: never fails
	n     int
}

func (f *failReader) Read(p []byte) (int, error) {
	if g := f.w.readGate; g != nil && f.n >= f.w.im.dataOff {
		g(f.n - f.w.im.dataOff)
	}
	if f.limit >= 0 {
		if f.n >= f.limit {
			f.w.mu.Lock()
			f.w.srcErr = true
			f.w.mu.Unlock()
			return 0, errInjectedRead
		}
		if len(p) > f.limit-f.n {
			p = p[:f.limit-f.n]
		}
	}
	n, err := f.rc.Read(p)
	f.n += n
	return n, err
}

func (f *failReader) Close() error { return f.rc.Close() }

// -------------------------------------------- cache filesystem with faults

type faultFs struct {
	afero.Fs
	w *world
}

func (f *faultFs) Create(name string) (afero.File, error) {
	w := f.w
	if w.isDead() {
		return nil, errDead
	}
	if w.createGate != nil {
		w.createGate()
	}
	if w.plan.Store == "create" {
		return nil, errInjectedWrite
	}
	file, err := f.Fs.Create(name)
	if err != nil {
		return nil, err
	}
	return &faultFile{File: file, w: w}, nil
}

func (f *faultFs) Remove(name string) error {
	if f.w.isDead() {
		return errDead
	}
	if f.w.plan.Del == "fail" {
		return errInjectedWrite
	}
	return f.Fs.Remove(name)
}

func (f *faultFs) Open(name string) (afero.File, error) {
	if f.w.isDead() {
		return nil, errDead
	}
	return f.Fs.Open(name)
}

func (f *faultFs) Stat(name string) (os.FileInfo, error) {
	if f.w.isDead() {
		return nil, errDead
	}
	return f.Fs.Stat(name)
}

type faultFile struct {
	afero.File
	w *world
	n int
}

func (f *faultFile) Write(p []byte) (int, error) {
	w := f.w
	if w.isDead() {
		return 0, errDead
	}
	if (w.plan.Store == "write" || w.plan.Store == "crash") && f.n+len(p) > w.plan.StoreAt {
		k := w.plan.StoreAt - f.n
		if k < 0 {
			k = 0
		}
		n, _ := f.File.Write(p[:k])
		f.n += n
		if w.plan.Store == "crash" {
			w.die()
			return n, errDead
		}
		return n, errInjectedWrite
	}
	n, err := f.File.Write(p)
	f.n += n
	return n, err
}

func (f *faultFile) Close() error {
	if f.w.isDead() {
		_ = f.File.Close()
		return errDead
	}
	return f.File.Close()
}

// recCache records the calls the reconciler makes on the real cache.
type recCache struct {
	real *xpkg.FsPackageCache
	w    *world
}

func res(err error) string {
	if err != nil {
		return "error"
	}
	return "ok"
}

func (c *recCache) Has(id string) bool {
	ok := c.real.Has(id)
	c.w.observe("has", fmt.Sprint(ok))
	return ok
}

func (c *recCache) Get(id string) (io.ReadCloser, error) {
	rc, err := c.real.Get(id)
	if err == nil {
		c.w.mu.Lock()
		c.w.src = "cache"
		c.w.cacheUsed = c.w.cacheInfo()
		c.w.mu.Unlock()
	}
	c.w.observe("get", res(err))
	return rc, err
}

func (c *recCache) Store(id string, content io.ReadCloser) error {
	err := c.real.Store(id, content)
	if err != nil {
		c.w.mu.Lock()
		c.w.storeErr = true
		c.w.mu.Unlock()
	}
	c.w.observe("store", res(err))
	return err
}

func (c *recCache) Delete(id string) error {
	err := c.real.Delete(id)
	c.w.observe("delete", res(err))
	return err
}

// ------------------------------------------------- recording establisher

type recEstablisher struct{ w *world }

func (e *recEstablisher) Establish(_ context.Context, objs []kruntime.Object, _ pkgv1.PackageRevision, _ bool) ([]xpv1.TypedReference, error) {
	w := e.w
	if w.isDead() {
		return nil, errDead
	}
	ids, refs := []any{}, []xpv1.TypedReference{}
	for _, o := range objs {
		ids = append(ids, idOf(o))
		gvk := o.GetObjectKind().GroupVersionKind()
		n := ""
		if m, ok := o.(metav1.Object); ok {
			n = m.GetName()
		}
		refs = append(refs, xpv1.TypedReference{APIVersion: gvk.GroupVersion().String(), Kind: gvk.Kind, Name: n})
	}
	w.mu.Lock()
	w.estCalled, w.est = true, ids
	w.mu.Unlock()
	w.observe("establish", "ok")
	return refs, nil
}

func (e *recEstablisher) ReleaseObjects(context.Context, pkgv1.PackageRevision) error { return nil }

type validator struct{ w *world }

func (v *validator) Validate(context.Context, name.Reference, *pkgv1beta1.ImageVerification, ...string) error {
	v.w.validated++
	if v.w.sigOutcome == "fail" {
		return errors.New("scripted: no matching signatures")
	}
	return nil
}

// ---------------------------------------------------------------- the world

type plan struct {
	Src     string `json:"src"`     // none | bound | mid | byte | init
	SrcK    int    `json:"srcK"`    // document index of bound / mid
	SrcAt   int    `json:"srcAt"`   // byte offset in package.yaml at which reading fails (-1: never)
	Store   string `json:"store"`   // none | create | write | crash
	StoreK  int    `json:"storeK"`  // phase: 0 first byte, 1 header, 2 body, 3 trailer; -1: StoreAt given
	StoreAt int    `json:"storeAt"` // byte offset in the cache file at which writing fails
	Del     string `json:"del"`     // ok | fail
	API     string `json:"api"`     // none | crashUpdate
}

func noFaults() plan {
	return plan{Src: "none", SrcAt: -1, Store: "none", StoreAt: -1, Del: "ok", API: "none"}
}

type world struct {
	mu sync.Mutex
	s  *simapi.Server
	c  *simapi.Client
	tw *trace.Writer

	scenID  string
	ctr     *counter // event numbering within the scenario (shared by the two worlds of a concurrent run)
	rtype   string
	cons    string
	ignore  bool
	verifOn bool
	vcfg    bool
	im      *image
	mem     afero.Fs
	cache   *xpkg.FsPackageCache
	flags   *feature.Flags

	// the reconcile in flight
	recNo     int
	plan      plan
	dead      bool
	opens     int
	fetches   int
	src       string
	srcErr    bool
	estCalled bool
	est       []any
	cachePre  map[string]any
	cacheUsed map[string]any // the entry as it was when cache.Get handed it out
	storeErr  bool           // cache.Store returned an error in this reconcile
	conc      bool           // another reconciler of the same revision runs at the same time
	verPre    string
	apiCalls  int
	midVar    string

	sigOutcome string
	validated  int

	readGate   func(off int)
	createGate func()
}

// counter numbers the events of one scenario: seq = distance to the scenario's reset event.
type counter struct {
	mu sync.Mutex
	n  int
}

func (w *world) isDead() bool { w.mu.Lock(); defer w.mu.Unlock(); return w.dead }
func (w *world) die()         { w.mu.Lock(); w.dead = true; w.mu.Unlock() }

func revGK(rtype string) schema.GroupKind {
	return schema.GroupKind{Group: "pkg.crossplane.io", Kind: rtype + "Revision"}
}

func (w *world) revKey() simapi.Key {
	gk := revGK(w.rtype)
	return simapi.Key{Group: gk.Group, Kind: gk.Kind, Name: w.im.revName}
}

func newRevision(rtype string, im *image, ignore bool) pkgv1.PackageRevision {
	spec := pkgv1.PackageRevisionSpec{DesiredState: pkgv1.PackageRevisionActive, Package: source, Revision: 1,
		IgnoreCrossplaneConstraints: ptr.To(ignore), SkipDependencyResolution: ptr.To(false)}
	om := metav1.ObjectMeta{Name: im.revName, Labels: map[string]string{pkgv1.LabelParentPackage: pkgName}}
	switch rtype {
	case "Provider":
		return &pkgv1.ProviderRevision{ObjectMeta: om, Spec: pkgv1.ProviderRevisionSpec{PackageRevisionSpec: spec}}
	case "Configuration":
		return &pkgv1.ConfigurationRevision{ObjectMeta: om, Spec: spec}
	case "Function":
		return &pkgv1.FunctionRevision{ObjectMeta: om, Spec: pkgv1.FunctionRevisionSpec{PackageRevisionSpec: spec}}
	}
	panic("unknown revision type " + rtype)
}

func newRevFn(rtype string) func() pkgv1.PackageRevision {
	switch rtype {
	case "Provider":
		return func() pkgv1.PackageRevision { return &pkgv1.ProviderRevision{} }
	case "Configuration":
		return func() pkgv1.PackageRevision { return &pkgv1.ConfigurationRevision{} }
	}
	return func() pkgv1.PackageRevision { return &pkgv1.FunctionRevision{} }
}

func pkgGVK(rtype string) schema.GroupVersionKind {
	switch rtype {
	case "Provider":
		return pkgv1.ProviderGroupVersionKind
	case "Configuration":
		return pkgv1.ConfigurationGroupVersionKind
	}
	return pkgv1.FunctionGroupVersionKind
}

// the same linter constructors the three Setup...Revision functions use
func linterFor(rtype string) parser.Linter {
	switch rtype {
	case "Provider":
		return xpkg.NewProviderLinter()
	case "Configuration":
		return xpkg.NewConfigurationLinter()
	}
	return xpkg.NewFunctionLinter()
}

func (w *world) cachePath() string { return xpkg.BuildPath(cacheDir, w.im.revName, ".gz") }

// cacheInfo is the projection of the cache entry of the revision.
func noCache() map[string]any {
	return map[string]any{"exists": false, "size": 0, "gz": "none", "docs": 0, "half": false, "whole": false, "prefix": false, "dig": "none", "complete": false}
}

func (w *world) cacheInfo() map[string]any {
	out := noCache()
	b, err := afero.ReadFile(w.mem, w.cachePath())
	if err != nil {
		return out
	}
	out["exists"], out["size"] = true, len(b)
	h := sha256.Sum256(b)
	out["dig"] = hex.EncodeToString(h[:5])
	var content []byte
	zr, err := gzip.NewReader(bytes.NewReader(b))
	if err != nil {
		out["gz"] = "err"
		return out
	}
	content, err = io.ReadAll(zr)
	out["gz"] = "ok"
	if err != nil {
		out["gz"] = "err"
	}
	if bytes.HasPrefix(w.im.stream, content) {
		out["prefix"] = true
		k := 0
		for k+1 < len(w.im.bounds) && w.im.bounds[k+1] <= len(content) {
			k++
		}
		out["docs"] = k
		// anything but white space and separators beyond the k-th document is a partial document
		rest := content[w.im.bounds[k]:]
		for _, line := range bytes.Split(rest, []byte("\n")) {
			if t := bytes.TrimSpace(line); len(t) > 0 && t[0] != '#' && !bytes.HasPrefix(line, []byte("---")) {
				out["half"] = true
			}
		}
		out["whole"] = out["gz"] == "ok" && len(content) == len(w.im.stream)
		out["complete"] = out["gz"] == "ok" && k == len(w.im.bounds)-1 && out["half"] == false // statistics only: the monitor decides from the fields above
	} else {
		out["docs"] = -1
	}
	return out
}

func (w *world) verified() string {
	u := w.s.Peek(w.revKey())
	if u == nil {
		return "unset"
	}
	conds, _, _ := unstructured.NestedSlice(u.Object, "status", "conditions")
	for _, c := range conds {
		m, _ := c.(map[string]any)
		if m["type"] == string(pkgv1.TypeVerified) {
			s, _ := m["status"].(string)
			return s
		}
	}
	return "unset"
}

func (w *world) healthy() string {
	u := w.s.Peek(w.revKey())
	if u == nil {
		return "gone"
	}
	conds, _, _ := unstructured.NestedSlice(u.Object, "status", "conditions")
	for _, c := range conds {
		m, _ := c.(map[string]any)
		if m["type"] == string(pkgv1.TypeHealthy) {
			s, _ := m["status"].(string)
			r, _ := m["reason"].(string)
			return s + ":" + r
		}
	}
	return "unset"
}

func (w *world) inLock() bool {
	u := w.s.Peek(simapi.Key{Group: "pkg.crossplane.io", Kind: "Lock", Name: "lock"})
	if u == nil {
		return false
	}
	ps, _, _ := unstructured.NestedSlice(u.Object, "packages")
	for _, p := range ps {
		if m, _ := p.(map[string]any); m["name"] == w.im.revName {
			return true
		}
	}
	return false
}

// emit writes one trace event carrying the full projection. Every event has the same keys.
func (w *world) emit(ev string, m map[string]any) {
	w.mu.Lock()
	defer w.mu.Unlock()
	est := w.est
	if est == nil {
		est = []any{}
	}
	pre := w.cachePre
	if pre == nil {
		pre = w.cacheInfoLocked()
	}
	used := w.cacheUsed
	if used == nil {
		used = noCache()
	}
	p := w.plan
	w.ctr.mu.Lock()
	defer w.ctr.mu.Unlock()
	base := map[string]any{"ev": ev, "scenario": w.scenID, "seq": w.ctr.n, "rec": w.recNo,
		"rtype": w.rtype, "cons": w.cons, "ignore": w.ignoreNow(), "verifOn": w.verifOn, "vcfg": w.vcfg,
		"layout": w.im.layout, "built": w.im.built, "initErr": w.im.initErr != "",
		"declMeta": w.im.declMeta, "declObjs": w.im.declObjs, "declKinds": w.im.declKinds,
		"verified": w.verified(), "verifiedPre": w.verPre, "healthy": w.healthy(), "inLock": w.inLock(),
		"op": "", "opres": "", "src": w.src, "srcErr": w.srcErr, "storeErr": w.storeErr, "conc": w.conc, "fetches": w.fetches,
		"cache": w.cacheInfoLocked(), "cachePre": pre, "cacheUsed": used,
		"estCalled": w.estCalled, "est": est, "result": "", "apiCalls": w.apiCalls,
		"fault": map[string]any{"src": p.Src, "srcK": p.SrcK, "srcAt": p.SrcAt, "store": p.Store, "storeAt": p.StoreAt, "del": p.Del, "api": p.API, "mid": w.midVar},
		"rt":    map[string]any{"built": false, "dir": []any{}, "dirMeta": []any{}, "parsed": []any{}, "parsedMeta": []any{}},
	}
	for k, v := range m {
		base[k] = v
	}
	w.tw.Emit(base)
	w.ctr.n++
	count(base)
}

func (w *world) cacheInfoLocked() map[string]any { return w.cacheInfo() }

func (w *world) ignoreNow() bool {
	u := w.s.Peek(w.revKey())
	if u == nil {
		return w.ignore
	}
	b, _, _ := unstructured.NestedBool(u.Object, "spec", "ignoreCrossplaneConstraints")
	return b
}

// observe records a step of the pipeline as a trace event.
func (w *world) observe(op, r string) {
	if w.tw == nil {
		return // calibration
	}
	w.emit("step", map[string]any{"op": op, "opres": r})
}

var debug = os.Getenv("VERIF_DEBUG") != ""

var hits = map[string]int{}
var hitsMu sync.Mutex

// count keeps statistics for the evidence file (how often each formula's antecedent was exercised).
func count(e map[string]any) {
	hitsMu.Lock()
	defer hitsMu.Unlock()
	ev := e["ev"].(string)
	if ev == "step" {
		hits["step_"+e["op"].(string)+"_"+e["opres"].(string)]++
		return
	}
	if ev == "build" {
		if e["rt"].(map[string]any)["built"].(bool) {
			hits["roundtrip_built_images"]++
		} else {
			hits["raw_images"]++
		}
		return
	}
	if ev != "end" {
		return
	}
	hits["reconciles"]++
	hits["result_"+e["result"].(string)]++
	pre := e["cacheUsed"].(map[string]any)
	post := e["cache"].(map[string]any)
	if e["estCalled"].(bool) {
		hits["established"]++
		hits["established_from_"+e["src"].(string)]++
		if e["src"] == "cache" && !pre["complete"].(bool) {
			hits["established_from_incomplete_cache"]++
		}
	}
	if e["src"] == "cache" {
		hits["cache_used"]++
		if !pre["complete"].(bool) {
			hits["cache_used_incomplete"]++
		}
	}
	if e["srcErr"].(bool) {
		hits["source_read_failed"]++
		if post["exists"].(bool) {
			hits["source_read_failed_entry_left"]++
		}
	}
	if post["exists"].(bool) && !post["complete"].(bool) {
		hits["incomplete_entry_after_reconcile_gz_"+post["gz"].(string)]++
	}
	// statistics only (the verdict is the monitor's): how often a package that must not be installed was reconciled
	metas, kinds := e["declMeta"].([]any), e["declKinds"].([]any)
	rt := e["rtype"].(string)
	if len(metas) != 1 {
		hits["gate_metacount_antecedent"]++
	}
	for _, m := range metas {
		if m != map[string]string{"Provider": "mP", "Configuration": "mC", "Function": "mF"}[rt] {
			hits["gate_metatype_antecedent"]++
			break
		}
	}
	allowed := map[string]string{"Provider": "CRD MWC VWC", "Configuration": "XRD CMP", "Function": "CRD XRD CMP MWC VWC"}[rt]
	for _, k := range kinds {
		if !strings.Contains(allowed, k.(string)) {
			hits["gate_kind_antecedent"]++
			break
		}
	}
	if c := e["cons"]; (c == "unmet" || c == "bad") && !e["ignore"].(bool) {
		hits["gate_constraints_antecedent"]++
	}
	if c := e["cons"]; c == "unmet" && e["ignore"].(bool) && e["estCalled"].(bool) {
		hits["installed_with_ignored_constraints"]++
	}
	f := e["fault"].(map[string]any)
	if e["storeErr"].(bool) {
		hits["store_failed"]++
		if f["del"] == "ok" && e["result"] != "crashed" && !e["conc"].(bool) {
			hits["failed_store_cleanup_antecedent"]++
		}
	}
	// observation (not part of C15's safety reading): a healthy reconcile of an installable package that installs
	// nothing because the cache entry it was handed is corrupt - nothing ever removes such an entry
	if f["src"] == "none" && f["store"] == "none" && f["del"] == "ok" && f["api"] == "none" && e["src"] == "cache" && !e["estCalled"].(bool) &&
		pre["exists"].(bool) && pre["gz"] == "err" && e["result"] == "error" {
		hits["observation_healthy_reconcile_blocked_by_corrupt_entry"]++
	}
	if f["store"] != "none" {
		hits["store_fault_"+f["store"].(string)]++
	}
	if f["del"] == "fail" {
		hits["delete_fault"]++
	}
	if e["verifOn"].(bool) && e["verifiedPre"] != "True" {
		hits["gate_verification_antecedent"]++
	}
	if e["verifOn"].(bool) && e["verifiedPre"] == "True" {
		hits["verification_passed"]++
	}
}

func newWorld(tw *trace.Writer, id string, init map[string]any, layout string, wantBuilt bool, midVar string) *world {
	toks := []string{}
	for _, t := range init["stream"].([]any) {
		toks = append(toks, t.(string))
	}
	w := &world{tw: tw, scenID: id, rtype: init["rtype"].(string), cons: init["cons"].(string), ignore: init["ignore"].(bool),
		verifOn: init["verif"].(bool), vcfg: init["vcfg"].(bool), plan: noFaults(), src: "none", verPre: "unset", midVar: midVar, ctr: &counter{}}
	w.im = getImage(toks, w.cons, layout, wantBuilt)
	w.s = simapi.NewServer(theScheme)
	w.c = simapi.NewClient(w.s, "revision")
	w.mem = afero.NewMemMapFs()
	w.cache = xpkg.NewFsPackageCache(cacheDir, &faultFs{Fs: w.mem, w: w})
	w.flags = &feature.Flags{}
	if w.verifOn {
		w.flags.Enable(features.EnableAlphaSignatureVerification)
	}
	pr := newRevision(w.rtype, w.im, w.ignore)
	switch v0, _ := init["v0"].(string); v0 {
	case "Unknown":
		pr.SetConditions(xpv1.Condition{Type: pkgv1.TypeVerified, Status: corev1.ConditionUnknown, Reason: "Pending", LastTransitionTime: metav1.Now()})
	case "False":
		pr.SetConditions(pkgv1.VerificationIncomplete(errors.New("earlier attempt")))
	case "True":
		pr.SetConditions(pkgv1.VerificationSkipped())
	}
	w.s.Put(pr)
	if w.vcfg {
		w.s.Put(&pkgv1beta1.ImageConfig{ObjectMeta: metav1.ObjectMeta{Name: "verify-org"}, Spec: pkgv1beta1.ImageConfigSpec{
			MatchImages: []pkgv1beta1.ImageMatch{{Prefix: registry + "/org/"}},
			Verification: &pkgv1beta1.ImageVerification{Provider: pkgv1beta1.ImageVerificationProviderCosign,
				Cosign: &pkgv1beta1.CosignVerificationConfig{Authorities: []pkgv1beta1.CosignAuthority{{Name: "k", Key: &pkgv1beta1.KeyRef{SecretRef: pkgv1beta1.LocalSecretKeySelector{LocalSecretReference: xpv1.LocalSecretReference{Name: "cosign"}, Key: "pub"}, HashAlgorithm: "sha256"}}}}}}})
	}
	// an unrelated image config that must not matter
	w.s.Put(&pkgv1beta1.ImageConfig{ObjectMeta: metav1.ObjectMeta{Name: "other-registry"}, Spec: pkgv1beta1.ImageConfigSpec{
		MatchImages: []pkgv1beta1.ImageMatch{{Prefix: "registry.other.org/"}},
		Verification: &pkgv1beta1.ImageVerification{Provider: pkgv1beta1.ImageVerificationProviderCosign,
			Cosign: &pkgv1beta1.CosignVerificationConfig{Authorities: []pkgv1beta1.CosignAuthority{{Name: "k"}}}}}})
	switch c0, _ := init["cache0"].(string); c0 {
	case "complete":
		_ = afero.WriteFile(w.mem, w.cachePath(), w.im.cacheGz, 0o644)
	case "badhdr":
		_ = afero.WriteFile(w.mem, w.cachePath(), []byte{0x1f, 0x8b, 0x08}, 0o644)
	case "empty":
		_ = afero.WriteFile(w.mem, w.cachePath(), []byte{}, 0o644)
	case "badbody":
		_ = afero.WriteFile(w.mem, w.cachePath(), w.im.cacheGz[:len(w.im.cacheGz)/2], 0o644)
	case "notrailer":
		_ = afero.WriteFile(w.mem, w.cachePath(), w.im.cacheGz[:len(w.im.cacheGz)-8], 0o644)
	}
	w.c.Intercept = func(cl *simapi.Call) simapi.Decision {
		w.mu.Lock()
		dead, api := w.dead, w.plan.API
		w.apiCalls++
		w.mu.Unlock()
		if dead {
			return simapi.CrashBefore
		}
		if api == "crashUpdate" && cl.Verb == "update" && cl.Sub == "" && cl.Key.Kind == revGK(w.rtype).Kind {
			w.die()
			return simapi.CrashBefore
		}
		return simapi.Proceed
	}
	return w
}

// resolve turns the abstract fault positions of a plan into byte offsets of this image.
func (w *world) resolve(p plan) plan {
	im := w.im
	switch p.Src {
	case "bound":
		k := p.SrcK
		if k >= len(im.bounds) {
			k = len(im.bounds) - 1
		}
		p.SrcAt = im.bounds[k]
	case "mid":
		k := p.SrcK
		if k >= len(im.bounds)-1 {
			k = len(im.bounds) - 2
		}
		a, b := im.bounds[k], im.bounds[k+1]
		at := a + (b-a)/2
		if w.midVar == "line" {
			// the end of the line the middle falls in: the partial document is still YAML
			if i := bytes.IndexByte(im.stream[at:b], '\n'); i >= 0 && at+i+1 < b {
				at += i + 1
			}
		} else if at < b && im.stream[at] == '\n' {
			at++
		}
		p.SrcAt = at
	case "byte", "none", "init":
	default:
		panic("unknown source fault " + p.Src)
	}
	if (p.Store == "write" || p.Store == "crash") && p.StoreK >= 0 {
		n := len(im.cacheGz)
		p.StoreAt = []int{0, 5, n / 2, n - 4}[p.StoreK]
	}
	return p
}

func (w *world) reconcile(p plan) {
	w.mu.Lock()
	w.recNo++
	w.plan = w.resolve(p)
	w.dead, w.opens, w.fetches, w.src, w.srcErr, w.estCalled, w.est, w.apiCalls, w.cacheUsed, w.storeErr = false, 0, 0, "none", false, false, nil, 0, nil, false
	w.cachePre = w.cacheInfo()
	w.verPre = w.verified()
	w.mu.Unlock()
	w.c.BeginReconcile()
	mgr := &fakes.Manager{Client: w.c, Sch: theScheme}
	rec := revision.NewReconciler(mgr,
		revision.WithCache(&recCache{real: w.cache, w: w}),
		revision.WithDependencyManager(revision.NewPackageDependencyManager(w.c, dag.NewMapDag, pkgGVK(w.rtype))),
		revision.WithEstablisher(&recEstablisher{w: w}),
		revision.WithNewPackageRevisionFn(newRevFn(w.rtype)),
		revision.WithParser(parser.New(metaScheme, objScheme)),
		revision.WithParserBackend(revision.NewImageBackend(&fetcher{w: w}, revision.WithDefaultRegistry(registry))),
		revision.WithConfigStore(xpkg.NewImageConfigStore(w.c, namespace)),
		revision.WithLinter(linterFor(w.rtype)),
		revision.WithVersioner(versioner()),
		revision.WithNamespace(namespace),
		revision.WithServiceAccount("crossplane"),
		revision.WithFeatureFlags(w.flags),
	)
	w.emit("start", nil)
	res, err := rec.Reconcile(context.Background(), reconcile.Request{NamespacedName: types.NamespacedName{Name: w.im.revName}})
	if debug && err != nil {
		fmt.Fprintln(os.Stderr, w.scenID, "rec", w.recNo, "error:", err)
	}
	result := "ok"
	switch {
	case w.isDead():
		result = "crashed"
	case err != nil:
		result = "error"
	case res.Requeue:
		result = "requeue"
	}
	w.mu.Lock()
	w.dead = false
	w.mu.Unlock()
	w.emit("end", map[string]any{"result": result})
	w.mu.Lock()
	w.cachePre, w.cacheUsed, w.plan = nil, nil, noFaults()
	w.mu.Unlock()
}

func (w *world) sig(outcome string) {
	w.sigOutcome = outcome
	w.c.BeginReconcile()
	rec := signature.NewReconciler(w.c,
		signature.WithNewPackageRevisionFn(newRevFn(w.rtype)),
		signature.WithConfigStore(xpkg.NewImageConfigStore(w.c, namespace)),
		signature.WithValidator(&validator{w: w}),
		signature.WithNamespace(namespace),
		signature.WithDefaultRegistry(registry),
		signature.WithServiceAccount("crossplane"))
	before := w.validated
	_, err := rec.Reconcile(context.Background(), reconcile.Request{NamespacedName: types.NamespacedName{Name: w.im.revName}})
	r := res(err)
	if w.validated > before {
		r += ":validated"
	}
	w.emit("sig", map[string]any{"op": outcome, "opres": r})
}

func (w *world) env(kind string) {
	switch kind {
	case "ignore":
		w.s.Mutate(w.revKey(), func(u *unstructured.Unstructured) {
			_ = unstructured.SetNestedField(u.Object, true, "spec", "ignoreCrossplaneConstraints")
		})
	case "wipe": // the pod restarted with an emptyDir cache
		_ = w.mem.Remove(w.cachePath())
	default:
		panic("unknown env step " + kind)
	}
	w.emit("env", map[string]any{"op": kind})
}

// ------------------------------------------------------------ scenarios

type entry struct {
	T string `json:"t"`
	A string `json:"a"`
	K int    `json:"k"`
	H bool   `json:"h"`
}

type scenario struct {
	ID      string            `json:"id"`
	Hist    []json.RawMessage `json:"hist"`
	Layout  string            `json:"layout"`
	Build   string            `json:"build"` // "" | built | raw
	Mid     string            `json:"mid"`   // "" | line | byte
	Bytes   *byteFault        `json:"bytes"`
	Concur  *concur           `json:"concur"`
	Extra   int               `json:"extra"`
	VLayout string            `json:"vlayout"` // run (and sweep) this scenario with this layout instead of the rotating one
	VBuild  string            `json:"vbuild"`
}

// byteFault is one run of a byte sweep: the first reconcile fails at this byte, two healthy reconciles follow.
type byteFault struct {
	Kind string `json:"kind"` // src | write | crash
	At   int    `json:"at"`
	Del  string `json:"del"`
}

// concur: a second reconcile of the same revision starts while the first one is in the middle of the stream.
type concur struct {
	At     int    `json:"at"`     // the first reconciler has read this many bytes of package.yaml when the second starts
	SrcAt  int    `json:"srcAt"`  // the first reconciler's source fails here (-1: never)
	Second string `json:"second"` // whole: the second runs to completion while the first waits | has: it only passes cache.Has
}

type summary struct {
	Scenarios  int            `json:"scenarios"`
	Runs       int            `json:"runs"`
	Reconciles int            `json:"reconciles"`
	Events     int            `json:"events"`
	SweepRuns  int            `json:"sweep_runs"`
	ConcurRuns int            `json:"concur_runs"`
	Images     int            `json:"images"`
	Built      int            `json:"images_built"`
	BuildErrs  map[string]int `json:"build_errors"`
	Counts     map[string]int `json:"counts"`
	Hits       map[string]int `json:"hits"`
	Samples    []any          `json:"samples"`
	Drift      int            `json:"drift"`
}

func parseHist(raw []json.RawMessage) (map[string]any, []entry, error) {
	if len(raw) == 0 {
		return nil, nil, errors.New("empty history")
	}
	var init map[string]any
	if err := json.Unmarshal(raw[0], &init); err != nil {
		return nil, nil, err
	}
	if init["t"] != "init" {
		return nil, nil, errors.New("history does not start with init")
	}
	var es []entry
	for _, r := range raw[1:] {
		var e entry
		if err := json.Unmarshal(r, &e); err != nil {
			return nil, nil, err
		}
		es = append(es, e)
	}
	return init, es, nil
}

func start(tw *trace.Writer, id string, init map[string]any, layout, build, mid string) *world {
	tw.Boundary()
	w := newWorld(tw, id, init, layout, build != "raw", mid)
	w.emit("reset", nil)
	w.emit("build", map[string]any{"rt": w.im.rt})
	return w
}

// run replays one history.
func run(tw *trace.Writer, sc *scenario, id string, init map[string]any, es []entry, layout, build, mid string, sum *summary) {
	w := start(tw, id, init, layout, build, mid)
	i := 0
	for i < len(es) {
		e := es[i]
		i++
		switch e.T {
		case "sig":
			w.sig(e.A)
		case "env":
			w.env(e.A)
		case "rec":
			p := noFaults()
			for i < len(es) && es[i].T != "rec" && es[i].T != "sig" && es[i].T != "env" {
				f := es[i]
				i++
				switch f.T {
				case "srcfault":
					p.Src, p.SrcK = f.A, f.K
				case "storefault":
					p.Store, p.StoreK = f.A, f.K
				case "delfault":
					p.Del = "fail"
				case "crash":
					p.API = "crashUpdate"
				default:
					panic("unknown history entry " + f.T)
				}
			}
			w.reconcile(p)
			sum.Reconciles++
		default:
			panic("unknown history entry " + e.T)
		}
	}
	for k := 0; k < sc.Extra; k++ {
		w.reconcile(noFaults())
		sum.Reconciles++
	}
	sum.Runs++
}

// runBytes: one run of a byte sweep.
func runBytes(tw *trace.Writer, id string, init map[string]any, layout, build string, bf *byteFault, sum *summary) {
	w := start(tw, id, init, layout, build, "byte")
	p := noFaults()
	switch bf.Kind {
	case "src":
		p.Src, p.SrcAt = "byte", bf.At
	case "write", "crash":
		p.Store, p.StoreK, p.StoreAt = bf.Kind, -1, bf.At
	}
	if bf.Del == "fail" {
		p.Del = "fail"
	}
	w.reconcile(p)
	w.reconcile(noFaults())
	w.reconcile(noFaults())
	sum.Reconciles += 3
	sum.Runs++
	sum.SweepRuns++
}

// runConcur: two reconcilers of the same revision share the cache; the second
// starts when the first has read At bytes of the package stream.
func runConcur(tw *trace.Writer, id string, init map[string]any, layout, build string, cc *concur, sum *summary) {
	w := start(tw, id, init, layout, build, "byte")
	// The second reconciler is its own world on the same API server, cache file system and image.
	w2 := &world{tw: tw, scenID: id, rtype: w.rtype, cons: w.cons, ignore: w.ignore, verifOn: w.verifOn, vcfg: w.vcfg, plan: noFaults(),
		src: "none", verPre: "unset", midVar: "byte", im: w.im, s: w.s, mem: w.mem, flags: w.flags, ctr: w.ctr}
	w.conc, w2.conc = true, true
	w2.c = simapi.NewClient(w.s, "revision-2")
	w2.cache = w.cache // the two controllers share the process-wide cache object (and its lock)
	done2 := make(chan struct{})
	var once sync.Once
	second := func() {
		once.Do(func() {
			go func() {
				defer close(done2)
				w2.reconcile(noFaults())
			}()
		})
	}
	w.readGate = func(off int) {
		if off < cc.At {
			return
		}
		fired := false
		once.Do(func() {
			fired = true
			go func() {
				defer close(done2)
				w2.reconcile(noFaults())
			}()
		})
		if !fired {
			return
		}
		if cc.Second == "whole" {
			// the second cannot finish while the first holds the cache's write lock: give it a moment to get as far as it can
			select {
			case <-done2:
			case <-time.After(30 * time.Millisecond):
			}
		} else {
			time.Sleep(2 * time.Millisecond)
		}
	}
	p := noFaults()
	if cc.SrcAt >= 0 {
		p.Src, p.SrcAt = "byte", cc.SrcAt
	}
	w.reconcile(p)
	second() // if the first reconcile never got that far
	<-done2
	w.conc = false
	w.reconcile(noFaults())
	sum.Reconciles += 3
	sum.Runs++
	sum.ConcurRuns++
}

func main() {
	scenarios := flag.String("scenarios", "", "NDJSON file of TLC histories")
	tracePath := flag.String("trace", "", "output trace")
	sumPath := flag.String("summary", "", "output summary JSON")
	chunk := flag.Int("chunk", 0, "split the trace into files of about this many events")
	variants := flag.String("variants", "rotate", "rotate|all: image layouts (annotated, plain, multi, multiplain) and builder/raw per scenario")
	sweepN := flag.Int("sweep", 0, "number of scenarios whose image is swept over every byte position of the source stream and of the cache file")
	sweepStep := flag.Int("sweepstep", 1, "byte step of the sweeps")
	concurN := flag.Int("concur", 0, "number of scenarios also run with a concurrent second reconcile")
	seed := flag.Int64("seed", 1, "seed")
	sweepOnly := flag.Bool("sweeponly", false, "only run the byte sweeps")
	flag.Parse()

	raws, err := scen.Load(*scenarios)
	if err != nil {
		fmt.Fprintln(os.Stderr, err)
		os.Exit(2)
	}
	tw, err := trace.New(*tracePath, *chunk)
	if err != nil {
		fmt.Fprintln(os.Stderr, err)
		os.Exit(2)
	}
	sum := &summary{BuildErrs: map[string]int{}}
	rng := rand.New(rand.NewSource(*seed))
	layouts := []string{"annotated", "plain", "multi", "multiplain", "decoy", "decoyplain"}
	swept := map[string]bool{}
	for i, raw := range raws {
		var sc scenario
		if err := json.Unmarshal(raw, &sc); err != nil {
			fmt.Fprintln(os.Stderr, "bad scenario:", err)
			os.Exit(2)
		}
		init, es, err := parseHist(sc.Hist)
		if err != nil {
			fmt.Fprintln(os.Stderr, "bad scenario history:", err)
			os.Exit(2)
		}
		sum.Scenarios++
		setEdge(sc.ID)
		if sc.Layout != "" {
			// a replay file / regression scenario: run exactly what it says
			switch {
			case sc.Bytes != nil:
				runBytes(tw, sc.ID, init, sc.Layout, sc.Build, sc.Bytes, sum)
			case sc.Concur != nil:
				runConcur(tw, sc.ID, init, sc.Layout, sc.Build, sc.Concur, sum)
			default:
				run(tw, &sc, sc.ID, init, es, sc.Layout, sc.Build, sc.Mid, sum)
			}
			continue
		}
		type variant struct{ layout, build, mid string }
		var vs []variant
		if *variants == "all" {
			for _, l := range layouts {
				for _, b := range []string{"built", "raw"} {
					vs = append(vs, variant{l, b, []string{"line", "byte"}[(i+len(vs))%2]})
				}
			}
		} else {
			// rotate on the scenario's own number so that the choice does not depend on sharding
			n := idNumber(sc.ID)
			vs = []variant{{layouts[n%len(layouts)], []string{"built", "raw"}[(n/len(layouts))%2], []string{"line", "byte"}[(n/(2*len(layouts)))%2]}}
		}
		if sc.VLayout != "" {
			b := sc.VBuild
			if b == "" {
				b = "built"
			}
			vs = []variant{{sc.VLayout, b, "line"}}
		}
		if l, _ := init["layout"].(string); l != "" && l != "any" {
			vs = []variant{{l, "raw", "line"}}
		}
		for _, v := range vs {
			if *sweepOnly {
				break
			}
			id := fmt.Sprintf("%s/%s-%s-%s", sc.ID, v.layout, v.build, v.mid)
			run(tw, &sc, id, init, es, v.layout, v.build, v.mid, sum)
		}
		v := vs[0]
		im := getImage(toksOf(init), init["cons"].(string), v.layout, v.build != "raw")
		if len(swept) < *sweepN && !swept[im.key+init["rtype"].(string)] && im.initErr == "" {
			swept[im.key+init["rtype"].(string)] = true
			clean := map[string]any{}
			for k, x := range init {
				clean[k] = x
			}
			clean["cache0"] = "absent"
			for b := 0; b <= len(im.stream); b += *sweepStep {
				runBytes(tw, fmt.Sprintf("%s/sweep-src-%d-%s-%s", sc.ID, b, v.layout, v.build), clean, v.layout, v.build, &byteFault{Kind: "src", At: b, Del: "ok"}, sum)
			}
			for b := 0; b < len(im.cacheGz); b += *sweepStep {
				for _, k := range []string{"write", "crash"} {
					for _, d := range []string{"ok", "fail"} {
						if k == "crash" && d == "fail" {
							continue
						}
						runBytes(tw, fmt.Sprintf("%s/sweep-%s-%d-%s-%s-%s", sc.ID, k, b, d, v.layout, v.build), clean, v.layout, v.build, &byteFault{Kind: k, At: b, Del: d}, sum)
					}
				}
			}
		}
		if i < *concurN && im.initErr == "" && !*sweepOnly {
			clean := map[string]any{}
			for k, x := range init {
				clean[k] = x
			}
			clean["cache0"] = "absent"
			for j := 0; j < 3; j++ {
				cc := &concur{At: rng.Intn(len(im.stream)), SrcAt: -1, Second: []string{"whole", "has"}[j%2]}
				if j == 2 {
					cc.SrcAt = cc.At + rng.Intn(len(im.stream)-cc.At)
				}
				runConcur(tw, fmt.Sprintf("%s/concur-%d-%d-%s-%s-%s", sc.ID, cc.At, cc.SrcAt, cc.Second, v.layout, v.build), clean, v.layout, v.build, cc, sum)
			}
		}
		if len(sum.Samples) < 2 {
			sum.Samples = append(sum.Samples, json.RawMessage(raw))
		}
	}
	keys := []string{}
	for k := range images {
		keys = append(keys, k)
	}
	sort.Strings(keys)
	for _, k := range keys {
		sum.Images++
		if images[k].built {
			sum.Built++
		}
		if images[k].buildErr != "" {
			sum.BuildErrs[images[k].buildErr]++
		}
	}
	sum.Events = tw.Lines
	sum.Counts = tw.Counts
	sum.Hits = hits
	if err := tw.Close(); err != nil {
		fmt.Fprintln(os.Stderr, err)
		os.Exit(2)
	}
	if err := scen.WriteJSON(*sumPath, sum); err != nil {
		fmt.Fprintln(os.Stderr, err)
		os.Exit(2)
	}
}

// idNumber is the number at the end of a scenario id (0 if there is none).
func idNumber(id string) int {
	n, mul := 0, 1
	for i := len(id) - 1; i >= 0 && id[i] >= '0' && id[i] <= '9'; i-- {
		n += int(id[i]-'0') * mul
		mul *= 10
	}
	return n
}

func toksOf(init map[string]any) []string {
	out := []string{}
	for _, t := range init["stream"].([]any) {
		out = append(out, t.(string))
	}
	return out
}
