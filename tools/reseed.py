#!/usr/bin/env python3
"""Re-evaluate kept seeded changes (seeded/<id>/patch.diff) against the current checks.

  tools/reseed.py [--tier quick] [--jobs 2] [<id> ...]        (default: every directory under seeded/)

For each seed: a scratch worktree of /repo's HEAD is created under /tmp, the patch applied, the worktree bound at /repo
(and a copy of /verif at /verif) in a private mount namespace, the checks recorded in its meta.json are run there, and
the worktree is removed again.  /repo itself is never touched.  Results are appended to meta.json ("history") and a
table is printed; exit 1 if a seed is missed.
"""
import argparse
import concurrent.futures
import json
import os
import re
import subprocess
import sys

V = "/verif"
ENV = dict(os.environ, GOFLAGS="-mod=mod", GOPROXY="off", GOSUMDB="off", GOTOOLCHAIN="local")


def sh(cmd, cwd=None, timeout=7200):
    p = subprocess.run(cmd, cwd=cwd, env=ENV, shell=True, stdout=subprocess.PIPE, stderr=subprocess.STDOUT, text=True, timeout=timeout)
    return p.returncode, p.stdout


def one(sid, tier):
    d = os.path.join(V, "seeded", sid)
    meta = json.load(open(os.path.join(d, "meta.json")))
    checks = list(meta.get("evaluation", {}).keys()) or [meta["property"]]
    wt, vc = "/tmp/wt-eval-" + sid, "/tmp/vc-eval-" + sid
    sh("git -C /repo worktree remove --force %s; rm -rf %s %s" % (wt, wt, vc))
    rc, out = sh("git -C /repo worktree add --detach %s HEAD" % wt)
    if rc != 0:
        return sid, None, "worktree: " + out[-300:]
    results = {}
    try:
        rc, out = sh("git apply %s" % os.path.join(d, "patch.diff"), cwd=wt)
        if rc != 0:
            return sid, None, "patch does not apply to /repo's HEAD: " + out[-300:]
        sh("mkdir -p %s && rsync -a --exclude .work --exclude .git --exclude evidence /verif/ %s/ && mkdir -p %s/evidence" % (vc, vc, vc))
        for c in checks:
            rc, out = sh("unshare -m sh -c 'mount --bind %s /repo && mount --bind %s /verif && cd /verif && ./check %s --tier %s'" % (wt, vc, c, tier))
            forms = {}
            for m in re.finditer(r"^VIOLATION .*formula=(\S+)", out, re.M):
                forms[m.group(1)] = forms.get(m.group(1), 0) + 1
            results[c] = {"tier": tier, "exit": rc, "formulas": forms, "tail": out.strip().splitlines()[-1] if out.strip() else ""}
    finally:
        sh("git -C /repo worktree remove --force %s; rm -rf %s %s" % (wt, wt, vc))
    caught = any(r["exit"] == 1 for r in results.values())
    hist = meta.get("history", [])
    hist.append({"evaluation": meta.get("evaluation"), "caught": meta.get("caught")})
    meta["history"], meta["evaluation"], meta["caught"] = hist, results, caught
    meta["evaluated_how"] = ("scratch worktree at /repo's HEAD with patch.diff applied, bound at /repo in a private mount namespace "
                             "(unshare -m; mount --bind), ./check run there unchanged (tools/reseed.py)")
    json.dump(meta, open(os.path.join(d, "meta.json"), "w"), indent=1)
    return sid, caught, {c: (r["exit"], sorted(r["formulas"])) for c, r in results.items()}


def main():
    ap = argparse.ArgumentParser()
    ap.add_argument("ids", nargs="*")
    ap.add_argument("--tier", default="quick")
    ap.add_argument("--jobs", type=int, default=2)
    a = ap.parse_args()
    ids = a.ids or sorted(x for x in os.listdir(os.path.join(V, "seeded")) if os.path.exists(os.path.join(V, "seeded", x, "meta.json")))
    missed = 0
    with concurrent.futures.ThreadPoolExecutor(a.jobs) as ex:
        for sid, caught, detail in ex.map(lambda s: one(s, a.tier), ids):
            print(sid, {True: "caught", False: "MISSED", None: "ERROR"}[caught], detail, flush=True)
            if not caught:
                missed += 1
    sys.exit(1 if missed else 0)


if __name__ == "__main__":
    main()
