"""C13 - dynamic controllers and watches stay consistent under any interleaving.
Model: spec/Engine.tla (gate-level segments of the engine methods); driver: harness/drivers/engine
(real engine.ControllerEngine + StoppableSource + InformerTrackingCache + watch.GarbageCollector,
goroutines gated inside the fakes); monitor: spec/MonEngine.tla."""
import glob
import json
import os
import subprocess

import vlib

PID = "C13"
FORMULAS = ["OneWatch", "StopClean.NotCancelled", "StopClean.HandlerLeft", "GcOnlyUnused.NotComposed", "GcOnlyUnused.Referenced",
            "Reestablish", "RunningExact", "GetWatchesCovers", "NoDeadlock", "NoRace"]
WITNESS = [("MCEngine_witness_d2.cfg", ["StepProps"]), ("MCEngine_witness_d10.cfg", ["OneWatch"]), ("MCEngine_witness_d8.cfg", ["StopClean"]),
           ("MCEngine_witness_d15.cfg", ["StepProps"])]


def regression():
    out = []
    for p in sorted(glob.glob(os.path.join(vlib.VERIF, "scenarios", PID, "*.json"))):
        with open(p) as f:
            out.append(json.load(f))
    return out


def drive_and_judge(ctx, scs, stress, shards=6):
    by_id = {s["id"]: s for s in scs}
    binp = ctx.go_build("./drivers/engine")
    prefix, s = ctx.run_sharded(binp, scs, ["-chunk", "150000"], shards=shards)
    if stress:
        st = os.path.join(ctx.work, "trace.ndjson.stress")
        ss = os.path.join(ctx.work, "summary_stress.json")
        ctx.run([binp, "-trace", st, "-summary", ss, "-stress", str(stress), "-seed", str(ctx.seed)])
        with open(ss) as f:
            s = vlib.merge_summaries([s, json.load(f)])
    viols, nlines = ctx.monitor("MonEngine", prefix)
    for formula, line, scid in viols:
        sc = by_id.get(scid, {"id": scid, "stress": True, "seed": ctx.seed})
        ctx.violation(formula, scid, ctx.replay_file(sc), "trace line %d" % line, fingerprint=formula)
    return s, nlines


def race_run(ctx, n):
    """Random concurrent stress under the Go race detector: 'neither deadlocks nor races'."""
    out = os.path.join(ctx.work, "bin", "engine-race")
    e = dict(os.environ)
    e.update(vlib.GOENV)
    p = subprocess.run(["go", "build", "-race", "-o", out, "./drivers/engine"], cwd=vlib.HARNESS, env=e,
                       stdout=subprocess.PIPE, stderr=subprocess.STDOUT, text=True)
    if p.returncode != 0:
        raise vlib.Inconclusive("race build failed:\n" + p.stdout[-3000:])
    tr = os.path.join(ctx.work, "trace_race.ndjson")
    p = subprocess.run([out, "-trace", tr, "-summary", os.path.join(ctx.work, "summary_race.json"), "-stress", str(n), "-seed", str(ctx.seed + 1000)],
                       cwd=ctx.work, env=e, stdout=subprocess.PIPE, stderr=subprocess.STDOUT, text=True, timeout=3000)
    races = p.stdout.count("WARNING: DATA RACE")
    if races:
        rp = os.path.join(ctx.work, "race_report.txt")
        with open(rp, "w") as f:
            f.write(p.stdout)
        ctx.violation("NoRace", "stress-race-seed-%d" % (ctx.seed + 1000), rp, "%d data race reports" % races, fingerprint="NoRace")
    elif p.returncode != 0:
        raise vlib.Inconclusive("race stress run failed rc=%d:\n%s" % (p.returncode, p.stdout[-3000:]))
    return races


def run(ctx):
    quick = ctx.quick
    plan = [("MCEngine_quick.cfg", 14000), ("MCEngine_quick_all.cfg", 8000), ("MCEngine_quick_read.cfg", 4000)] if quick else \
           [("MCEngine_quick.cfg", 100000), ("MCEngine_quick_all.cfg", 30000), ("MCEngine_quick_read.cfg", 30000), ("MCEngine_thorough.cfg", 250000), ("MCEngine_thorough_b.cfg", 150000)]
    scs, states, trans, emitted, consts = [], 0, 0, 0, {}
    for cfg, n in plan:
        name = cfg[len("MCEngine_"):-4]
        mc = ctx.model_check("MCEngine", cfg, sub="mc_" + name, workers=8 if quick else 16, timeout=300 if quick else 3000, heap="12g")
        scs += [{"id": "%s-%s-%07d" % (PID, name, i), "hist": h} for i, h in ctx.sample_lines(mc["emitted_file"], n, mc["emitted"])]
        states += mc["states"]
        trans += mc["transitions"]
        emitted += mc["emitted"]
        consts[cfg] = dict(states=mc["states"], transitions=mc["transitions"], depth=mc["depth"], schedules=mc["emitted"])
    # anti-vacuity: the model of the code as it was before each repair violates the corresponding invariant
    for cfg, exp in WITNESS:
        mc = ctx.model_check("MCEngine", cfg, sub="mc_" + cfg[len("MCEngine_"):-4], workers=4, timeout=300, expect_violations=exp)
        consts[cfg] = dict(violates=exp, states_to_violation=mc["states"])
    chosen = regression() + scs
    s, nlines = drive_and_judge(ctx, chosen, stress=150 if quick else 3000, shards=6 if quick else 14)
    races = race_run(ctx, 60 if quick else 1500)
    ctx.cov.update(dict(
        states=states, transitions=trans, traces_validated_against_impl=s["runs"] + s.get("stress_runs", 0), samples=s["samples"][:2],
        model_runs=consts, schedules_emitted=emitted, schedules_replayed=s["scenarios"], steps=s["steps"], stress_runs=s.get("stress_runs", 0),
        race_detector_runs=60 if quick else 1500, race_reports=races, hung=s.get("hung", 0), events=nlines,
        atomicity_probes=dict(attempted=s.get("atomicity_probes", 0), other_caller_not_blocked=s.get("atomicity_probes_entered", 0),
                              note="a StartWatches held at its second snapshot while the next StartWatches of the schedule is released: "
                                   "on a lock-protected segment the other caller blocks (unless it holds an older controller instance)"),
        drift=dict(steps_out_of_sync=s["drift"], runs_with_drift=s["drift_runs"]),
        monitor_formulas=FORMULAS, exhaustive=(emitted == len(scs)),
        checker_cmd="tlc MCEngine (M,G) -> harness/drivers/engine on /repo (T) -> tlc MonEngine; go build -race stress",
        rule="one schedule per model transition that completes an operation; the real goroutines are paused where the engine "
             "has released its locks and will act on what it read (after ActiveInformers(), after the collector's List and GetWatches); "
             "plus truly concurrent random stress (state judged at quiescence and after stopping everything) and the same under the race detector",
    ))
    ctx.assumptions += ["interleavings inside a lock-protected segment have no effect on the abstract state (lock discipline); "
                        "Go memory-model races are outside TLA+: the race detector run is attached as the NoRace formula",
                        "handler registrations are attributed to (controller instance, watch) by a probe event through the registered handler",
                        "verdict only from traces of the real engine judged by MonEngine.tla"]


def replay(ctx, path):
    with open(path) as f:
        sc = json.load(f)
    if sc.get("stress"):
        binp = ctx.go_build("./drivers/engine")
        tr = os.path.join(ctx.work, "trace.ndjson")
        ctx.run([binp, "-trace", tr, "-summary", os.path.join(ctx.work, "summary.json"), "-stress", "150", "-seed", str(sc.get("seed", 1))])
        viols, nlines = ctx.monitor("MonEngine", tr)
        for formula, line, scid in viols:
            ctx.violation(formula, scid, path, "trace line %d" % line, fingerprint=formula)
        ctx.cov.update(dict(states=1, transitions=1, traces_validated_against_impl=150, samples=[sc], events=nlines))
        return
    s, nlines = drive_and_judge(ctx, [sc], stress=0, shards=1)
    ctx.cov.update(dict(states=1, transitions=1, traces_validated_against_impl=s["runs"], samples=[sc], events=nlines))
