SPECIFICATION Spec
CONSTANTS
  DSeq <- DSeq4
  Tags = {"t1", "t2"}
  Limits = {1}
  MaxEdits = 3
  MaxFaults = 0
  MaxRecs = 5
  WithFin = FALSE
  ForeignAct = FALSE
  Foreign = {"d1", "d2"}
  FixGC = TRUE
  MidEnv = FALSE
  Legacy = FALSE
  InitReg <- Reg2
VIEW view
ACTION_CONSTRAINT Emit
CHECK_DEADLOCK FALSE
INVARIANTS OneActive
PROPERTIES ActivateLast ForeignFrozen
