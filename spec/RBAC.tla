------------------------------- MODULE RBAC -------------------------------
(***************************************************************************)
(* Reference semantics for property C18 "the RBAC manager grants a         *)
(* provider no permission beyond what is allowed".                         *)
(*                                                                         *)
(* Nothing in this module describes how Crossplane computes anything: it   *)
(* is the yardstick.  It contains                                          *)
(*   - Kubernetes' meaning of an rbac/v1 PolicyRule: Den(rule) = the set   *)
(*     of concrete requests the RBAC authorizer admits because of the rule *)
(*     (plugin/pkg/auth/authorizer/rbac RuleAllows + pkg/apis/rbac/v1      *)
(*     evaluation_helpers: VerbMatches, APIGroupMatches, ResourceMatches,  *)
(*     ResourceNameMatches, NonResourceURLMatches);                        *)
(*   - Kubernetes' rule-wise covering relation (pkg/registry/rbac/         *)
(*     validation/policy_comparator.go: Covers, BreakdownRule, ruleCovers, *)
(*     resourceCoversAll, nonResourceURLCovers), the relation the API      *)
(*     server itself uses for privilege-escalation checks;                 *)
(*   - what C18 allows a provider's system ClusterRole, the binding of     *)
(*     that role, and the ClusterRoles derived from an XRD to contain.     *)
(*                                                                         *)
(* A rule is a record [groups, resources, names, verbs, urls] of sets of   *)
(* strings.  Kubernetes semantics that matter here:                        *)
(*   - "*" in apiGroups / resources / verbs / nonResourceURLs is a         *)
(*     wildcard; "*/sub" matches subresource sub of every resource; a      *)
(*     nonResourceURL ending in "*" is a prefix pattern;                   *)
(*   - resourceNames = {} means every name (and requests without a name);  *)
(*     "*" in resourceNames is NOT a wildcard: it is the literal name "*". *)
(*                                                                         *)
(* TLC has no string splitting, so the structure of resource strings       *)
(* ("r1/status", "*/finalizers") and of URL patterns is given by tables    *)
(* over the bounded universe (Parse, UrlStarCovers); strings outside the   *)
(* tables are treated as opaque resources / exact URLs.                    *)
(*                                                                         *)
(* The operators are used by MCRBAC (design level: the two Kubernetes      *)
(* notions are consistent with each other on every enumerated vector) and  *)
(* by MonRBAC (verdict: evaluated on outcomes of the real Crossplane code).*)
(***************************************************************************)
EXTENDS Integers, Sequences, FiniteSets, TLC

Star == "*"
Range(s) == {s[i] : i \in DOMAIN s}

\* --------------------------------------------------------------- resources
ResStr(b, s) == IF s = "" THEN b ELSE b \o "/" \o s
KnownBases == {"r1", "r2", "c1", "m1", "m2", "secrets", "configmaps", "events", "leases", "_r", Star}
KnownSubs == {"", "status", "finalizers", "_s"}
KnownRes == KnownBases \X KnownSubs
ParseTab == [x \in {ResStr(c[1], c[2]) : c \in KnownRes} |-> CHOOSE c \in KnownRes : ResStr(c[1], c[2]) = x]
\* <<base, subresource>> of a resource string
Parse(x) == IF x \in DOMAIN ParseTab THEN ParseTab[x] ELSE <<x, "">>

\* ------------------------------------------------------- non-resource URLs
\* strings.HasSuffix(o, "*") /\ strings.HasPrefix(s, strings.TrimRight(o, "*")), tabulated for the universe
UrlStarCovers(o, s) ==
  CASE o = Star -> TRUE
    [] o = "/a/*" -> s \in {"/a/b", "/a/*", "/a/_u"}
    [] OTHER -> FALSE
ConcreteUrls == {"/a", "/a/b", "/a/_u", "/_u"}
IsUrlPattern(u) == u \in {Star, "/a/*"}

\* ------------------------------------------------------------------- rules
Rule(g, r, n, v, u) == [groups |-> g, resources |-> r, names |-> n, verbs |-> v, urls |-> u]
ResRule(g, r, n, v) == Rule(g, r, n, v, {})
UrlRule(u, v) == Rule({}, {}, {}, v, u)
\* what the API server accepts in a ClusterRole (pkg/apis/rbac/validation ValidatePolicyRule)
ValidRule(r) ==
  /\ r.verbs # {}
  /\ IF r.urls # {} THEN r.groups = {} /\ r.resources = {} /\ r.names = {}
     ELSE r.groups # {} /\ r.resources # {}

(***************************************************************************)
(* Den: the authorizer's view.  A concrete resource request is             *)
(* <<"res", group, <<resource, subresource>>, name, verb>>, a concrete     *)
(* non-resource request is <<"url", path, verb>>.  The universe U of       *)
(* concrete values is finite: every atom mentioned by the rules under      *)
(* comparison plus one fresh value per dimension ("_g", "_r", "_s", "_n",  *)
(* "_v", "/_u"); matching only ever tests equality with a mentioned atom   *)
(* or a wildcard, so one fresh value per dimension represents all others   *)
(* ("_n" also stands for requests that carry no name: list, create).       *)
(***************************************************************************)
Universe(rules) ==
  LET parsed == {Parse(x) : x \in UNION {r.resources : r \in rules}} IN
  [G |-> (UNION {r.groups : r \in rules} \ {Star}) \cup {"_g"},
   R |-> (({p[1] : p \in parsed} \ {Star}) \cup {"_r"}) \X ({p[2] : p \in parsed} \cup {"", "_s"}),
   N |-> UNION {r.names : r \in rules} \cup {"_n"},
   V |-> (UNION {r.verbs : r \in rules} \ {Star}) \cup {"_v"},
   P |-> ({u \in UNION {r.urls : r \in rules} : ~IsUrlPattern(u)}) \cup ConcreteUrls]

VerbM(r, U) == IF Star \in r.verbs THEN U.V ELSE r.verbs \cap U.V
GroupM(r, U) == IF Star \in r.groups THEN U.G ELSE r.groups \cap U.G
\* ResourceMatches(rule, combinedRequestedResource, requestedSubresource)
ResourceM(r, U) ==
  {c \in U.R : \E x \in r.resources :
     \/ x = Star
     \/ x = ResStr(c[1], c[2])
     \/ (c[2] # "" /\ x = ResStr(Star, c[2]))}
\* ResourceNameMatches: no names = every name; otherwise literal equality
NameM(r, U) == IF r.names = {} THEN U.N ELSE r.names \cap U.N
UrlM(r, U) == {p \in U.P : \E x \in r.urls : x = Star \/ x = p \/ UrlStarCovers(x, p)}

DenRes(r, U) == {"res"} \X GroupM(r, U) \X ResourceM(r, U) \X NameM(r, U) \X VerbM(r, U)
DenUrl(r, U) == {"url"} \X UrlM(r, U) \X VerbM(r, U)
DenAll(rules, U) == UNION {DenRes(r, U) : r \in rules} \cup UNION {DenUrl(r, U) : r \in rules}
\* Den(L) \subseteq Den(R) over the universe induced by both
DenSubset(L, R) ==
  LET U == Universe(L \cup R) IN
  \A l \in L :
    /\ \A t \in DenRes(l, U) : \E x \in R : t \in DenRes(x, U)
    /\ \A t \in DenUrl(l, U) : \E x \in R : t \in DenUrl(x, U)
DenEqual(L, R) == DenSubset(L, R) /\ DenSubset(R, L)
\* the <<group, <<resource, subresource>>>> pairs a rule set gives any access to (verbs and names projected away)
Touches(rules, U) == UNION {GroupM(r, U) \X ResourceM(r, U) : r \in {x \in rules : x.verbs # {}}}

(***************************************************************************)
(* Covers: transcription of policy_comparator.go.                          *)
(***************************************************************************)
\* BreakdownRule: one group, resource, verb and at most one name per sub-rule
Breakdown(r) ==
  {ResRule({g}, {x}, IF n = "-none-" THEN {} ELSE {n}, {v}) :
      g \in r.groups, x \in r.resources, v \in r.verbs,
      n \in (IF r.names = {} THEN {"-none-"} ELSE r.names)}
  \cup {UrlRule({u}, {v}) : u \in r.urls, v \in r.verbs}
BreakdownAll(rules) == UNION {Breakdown(r) : r \in rules}

HasAll(set, contains) == contains \subseteq set
ResourceCoversAll(setR, coversR) ==
  \/ Star \in setR
  \/ HasAll(setR, coversR)
  \/ \A p \in coversR :
       \/ p \in setR
       \/ (Parse(p)[2] # "" /\ ResStr(Star, Parse(p)[2]) \in setR)
UrlCovers(o, s) == o = s \/ UrlStarCovers(o, s)
UrlsCoverAll(set, covers) == \A p \in covers : \E o \in set : UrlCovers(o, p)
\* ruleCovers(ownerRule, subRule)
RuleCovers(o, s) ==
  /\ (Star \in o.verbs \/ HasAll(o.verbs, s.verbs))
  /\ (Star \in o.groups \/ HasAll(o.groups, s.groups))
  /\ ResourceCoversAll(o.resources, s.resources)
  /\ UrlsCoverAll(o.urls, s.urls)
  /\ IF s.names = {} THEN o.names = {} ELSE (o.names = {} \/ HasAll(o.names, s.names))
\* the sub-rules of the requests that no single owner rule covers
Uncovered(owners, requests) == {q \in BreakdownAll(requests) : ~\E o \in owners : RuleCovers(o, q)}
Covers(owners, requests) == Uncovered(owners, requests) = {}

\* D12 cell: the reading under which a literal "*" resource name in an owner
\* rule would mean "any name" (NOT Kubernetes semantics).  Used only to tell
\* unsound grants caused by that reading apart from every other unsound grant.
StarNameAsAny(o) == IF Star \in o.names THEN [o EXCEPT !.names = {}] ELSE o
UncoveredLenient(owners, requests) == Uncovered({StarNameAsAny(o) : o \in owners}, requests)

\* design-level sanity of the two notions (checked by MCRBAC on every vector):
\* what Kubernetes' Covers accepts, its authorizer would also admit
CoversImpliesDen(owners, requests) == Covers(owners, requests) => DenSubset(requests, owners)

(***************************************************************************)
(* What C18 allows.                                                        *)
(***************************************************************************)
AllVerbs == {Star}
\* "the fixed baseline (secrets, config maps, events, leases)"
Baseline == {ResRule({"", "coordination.k8s.io"}, {"secrets", "configmaps", "events", "leases"}, {}, AllVerbs)}

\* owned-object references: only apiextensions.k8s.io CustomResourceDefinitions named <plural>.<group> define resources
IsCrdRef(ref) == ref.k \in {"crd", "crdbeta"}
Defined(refs) == {<<ref.g, ref.p>> : ref \in {x \in refs : IsCrdRef(x)}}

\* family membership: same (non-empty) family label, same registry, same organisation; an unparsable source belongs to no organisation
SameOrg(a, b) == a.reg # "none" /\ b.reg # "none" /\ a.reg = b.reg /\ a.org = b.org
IsMember(self, m) == self.label # "" /\ m.label = self.label /\ SameOrg(self.src, m.src)

\* the rules a system role may at most amount to for a set of <<group, plural>> resources and granted requests:
\* the resources and their status, finalizers of anything within those groups, the baseline, the requests.
\* C18 does not restrict verbs on the provider's own resources, so every verb is allowed here.
SystemAllowed(res, requests) ==
  {ResRule({x[1]}, {x[2], ResStr(x[2], "status")}, {}, AllVerbs) : x \in res}
  \cup (IF res = {} THEN {} ELSE {ResRule({x[1] : x \in res}, {ResStr(Star, "finalizers")}, {}, AllVerbs)})
  \cup Baseline \cup requests

\* XRD roles: exact denotations per role (verbs as rendered by rbac/definition/roles.go)
ViewVerbs == {"get", "list", "watch"}
XrdKinds(x, withClaim) == {x.plural} \cup (IF withClaim /\ x.claim # "" THEN {x.claim} ELSE {})
XrdAllowed(role, x) ==
  CASE role = "system" ->
         {ResRule({x.group}, {p, ResStr(p, "status")}, {}, AllVerbs) : p \in XrdKinds(x, TRUE)}
         \cup {ResRule({x.group}, {ResStr(p, "finalizers")}, {}, {"update"}) : p \in XrdKinds(x, TRUE)}
    [] role = "edit" -> {ResRule({x.group}, {p, ResStr(p, "status")}, {}, AllVerbs) : p \in XrdKinds(x, TRUE)}
    [] role = "view" -> {ResRule({x.group}, {p, ResStr(p, "status")}, {}, ViewVerbs) : p \in XrdKinds(x, TRUE)}
    [] role = "browse" -> {ResRule({x.group}, {p, ResStr(p, "status")}, {}, ViewVerbs) : p \in XrdKinds(x, FALSE)}
    [] OTHER -> {}
\* the widest thing any role of an XRD may touch: composite and claim resources, their status and finalizers
XrdWidest(x) == {ResRule({x.group}, {p, ResStr(p, "status"), ResStr(p, "finalizers")}, {}, AllVerbs) : p \in XrdKinds(x, TRUE)}

(***************************************************************************)
(* Design of the code under test, as read at the pinned commit (used by    *)
(* MCRBAC for the design-level check (M) and by MonRBAC only to report     *)
(* drift between this reading and the real outcome - never for a verdict). *)
(*   requests.go: Expand turns rules into paths, no names => name "*";     *)
(*   node.Allowed: a request path is allowed iff some allowed path of the  *)
(*   same shape equals it position-wise or has "*" at that position.       *)
(*   reconciler.go: rejected # {} => return before any role is applied;    *)
(*   family members: same label (List MatchingLabels) /\ ~OrgDiffer.Differs*)
(*   roles.go RenderClusterRoles: nothing if no resources, else per group  *)
(*   resources + /status, "*/finalizers" (update) in those groups,         *)
(*   baseline, permission requests verbatim.                               *)
(***************************************************************************)
CodeExpand(r) ==
  {<<"url", u, v>> : u \in r.urls, v \in r.verbs}
  \cup {<<"resource", g, x, n, v>> : g \in r.groups, x \in r.resources, v \in r.verbs,
                                    n \in (IF r.names = {} THEN {Star} ELSE r.names)}
CodeExpandAll(rules) == UNION {CodeExpand(r) : r \in rules}
CodePathAllowed(allowed, p) ==
  \E a \in allowed : Len(a) = Len(p) /\ \A i \in 1..Len(p) : a[i] = p[i] \/ a[i] = Star
CodeRejected(allow, requests) ==
  LET t == CodeExpandAll(allow) IN {p \in CodeExpandAll(requests) : ~CodePathAllowed(t, p)}
SystemVerbs == {"get", "list", "watch", "update", "patch", "create"}
CodeResources(self, members) ==
  Defined(self.refs) \cup UNION {Defined(m.refs) : m \in {x \in members : IsMember(self, x)}}
CodeSystemRules(res, requests) ==
  IF res = {} THEN {}
  ELSE {ResRule({g}, UNION {{x[2], ResStr(x[2], "status")} : x \in {y \in res : y[1] = g}}, {}, SystemVerbs) : g \in {x[1] : x \in res}}
       \cup {ResRule({x[1] : x \in res}, {ResStr(Star, "finalizers")}, {}, {"update"})}
       \cup Baseline \cup requests
=============================================================================
