SPECIFICATION Spec
CONSTANTS
  InitRevs <- RevOdd
  InitICs <- IcOdd
  InitVst <- VstDefault
  InitOk <- OkMany
  Feats <- OnlyTrue
  Orders <- BothOrders
  ICs <- IcsQ
  Imgs <- ImgsNone
  MaxSig = 2
  MaxRev = 2
  MaxFaults = 1
  MaxEnv = 1
  MidEnv = TRUE
  EnvKinds <- EnvIc
  FaultKinds <- FaultsAll
  GateOn = TRUE
  GateSkipsInactive = TRUE
  Sticky = TRUE
  VecICs <- NoICs
  VecEvICs <- NoICs
  VecImgs <- NoICs
VIEW view
ACTION_CONSTRAINT Emit
CHECK_DEADLOCK FALSE
INVARIANTS GateSafe RepairedSig VerdictShape RepairedRev InactiveDeactivates
