"""C19 - an in-use resource cannot be deleted; protection ends exactly when use ends.
Model: spec/Usage.tla (Usage reconciler call by call, selector resolver, DELETE admission with the objectSelector,
shared field index; two reconciles interleave at call granularity); driver: harness/drivers/usage (the real
usage.Reconciler, the real webhook set up by usage.SetupWebhookWithManager, rules/objectSelector read from
cluster/webhookconfigurations/usage.yaml, one gated goroutine per Usage); monitor: spec/MonUsage.tla."""
import glob
import json
import os

import vlib

PID = "C19"
FORMULAS = ["Protected", "Protected.NotRecorded", "Protected.StaleUnlabel", "Allowed", "LabelFirst", "LabelFirst.StaleUnlabel",
            "LabelLast", "LabelLast.StaleUnlabel", "Owned", "IndexAgree"]
# D11 (DESIGN section 4): every manifestation of the stale un-labelling shares one fingerprint
FINGERPRINTS = {"Protected.StaleUnlabel": "StaleUnlabel", "LabelFirst.StaleUnlabel": "StaleUnlabel", "LabelLast.StaleUnlabel": "StaleUnlabel"}
# the model of the code as written violates these (D11); the model with the candidate repair satisfies everything
WITNESS = [("MCUsage_witness_protected.cfg", ["Protected"]), ("MCUsage_witness_labellast.cfg", ["LabelLast"]),
           ("MCUsage_witness_labelfirst.cfg", ["LabelFirst"])]


def regression():
    out = []
    for p in sorted(glob.glob(os.path.join(vlib.VERIF, "scenarios", PID, "*.json"))):
        with open(p) as f:
            out.append(json.load(f))
    return out


def replay_scenario(by_id, scid):
    """The replay file of a (possibly derived) scenario id: base history + how 'fail' was realised + the swept fault."""
    parts = scid.split("/")
    base = dict(by_id.get(parts[0], {"id": parts[0]}))
    base["id"] = scid
    if "variant" not in base:
        base["variant"] = "error"
    for p in parts[1:]:
        if p.startswith("sweep-"):
            _, a, r, k, o = p.split("-")
            base["sweep"] = {"actor": a, "rec": int(r[1:]), "idx": int(k[1:]), "outcome": o}
            base["extra"] = 2
        else:
            base["variant"] = p
    return base


def drive_and_judge(ctx, scs, sweep=0, variants="rotate", shards=6, allprobes=False):
    by_id = {s["id"]: s for s in scs}
    binp = ctx.go_build("./drivers/usage")
    args = ["-chunk", "60000", "-sweep", str(sweep), "-variants", variants, "-seed", str(ctx.seed)]
    if allprobes:
        args.append("-allprobes")
    prefix, s = ctx.run_sharded(binp, scs, args, shards=shards)
    viols, nlines = ctx.monitor("MonUsage", prefix, par=8)
    per = {}
    for formula, line, scid in viols:
        per[formula] = per.get(formula, 0) + 1
        ctx.violation(formula, scid, ctx.replay_file(replay_scenario(by_id, scid)), "trace line %d" % line,
                      fingerprint=FINGERPRINTS.get(formula, formula))
    s["violations_by_formula"] = per
    return s, nlines


def run(ctx):
    quick = ctx.quick
    if quick:
        plan = [("MCUsage_quick_race.cfg", 1500), ("MCUsage_quick_faults.cfg", 1500), ("MCUsage_quick_two.cfg", 700)]
    else:
        plan = [("MCUsage_quick_race.cfg", 20000), ("MCUsage_quick_faults.cfg", 45000), ("MCUsage_quick_two.cfg", 8000),
                ("MCUsage_thorough_race.cfg", 60000), ("MCUsage_thorough_faults.cfg", 40000), ("MCUsage_thorough_two.cfg", 40000)]
    scs, states, trans, emitted, consts = [], 0, 0, 0, {}
    for cfg, n in plan:
        name = cfg[len("MCUsage_"):-4]
        mc = ctx.model_check("MCUsage", cfg, sub="mc_" + name, workers=8 if quick else 16, timeout=300 if quick else 3000, heap="12g")
        scs += [{"id": "%s-%s-%07d" % (PID, name, i), "hist": h} for i, h in ctx.sample_lines(mc["emitted_file"], n, mc["emitted"])]
        states += mc["states"]
        trans += mc["transitions"]
        emitted += mc["emitted"]
        consts[cfg] = dict(states=mc["states"], transitions=mc["transitions"], depth=mc["depth"], scenarios=mc["emitted"])
    # the design as coded admits the D11 race (expected model-level violations); with the candidate repair every formula holds
    for cfg, exp in WITNESS:
        mc = ctx.model_check("MCUsage", cfg, sub="mc_" + cfg[len("MCUsage_"):-4], workers=4, timeout=300, expect_violations=exp)
        consts[cfg] = dict(violates=exp, states_to_violation=mc["states"])
    mc = ctx.model_check("MCUsage", "MCUsage_fixed.cfg", sub="mc_fixed", workers=8, timeout=600)
    consts["MCUsage_fixed.cfg"] = dict(states=mc["states"], transitions=mc["transitions"], holds="all formulas, FixBump = TRUE")
    chosen = regression() + scs
    s, nlines = drive_and_judge(ctx, chosen, sweep=2 if quick else 12, variants="rotate" if quick else "all",
                                shards=6 if quick else 14, allprobes=not quick)
    ctx.cov.update(dict(
        states=states, transitions=trans, traces_validated_against_impl=s["runs"], samples=s["samples"][:2], model_runs=consts,
        scenarios_emitted=emitted, scenarios_replayed=s["scenarios"], reconciles=s["reconciles"], sweep_runs=s["sweep_runs"],
        admission_probes=s["probes"], events=nlines, per_action_counts=s["counts"],
        drift=dict(unmatched_calls=s["drift"], runs_with_drift=s["drift_runs"], by_call=s.get("drift_by_abs", {})),
        monitor_formulas=FORMULAS, violations_by_formula=s["violations_by_formula"], exhaustive=(emitted == len(scs)),
        checker_cmd="tlc MCUsage (M,G) -> harness/drivers/usage on /repo (T) -> tlc MonUsage",
        rule="one scenario per model transition that ends a reconcile, is a delete request or a re-application by the composer "
             "(shortest history reaching it); a model 'fail' is realised as error / conflict / crash-before; sweep = every real call "
             "index of every reconcile x 4 outcomes + 2 fault-free reconciles of every Usage; after every call and environment step "
             "the real webhook path is probed for every used resource and served version",
    ))
    ctx.assumptions += [
        "simapi models the API server rules listed in spec/KubeAPI.tla; an update that changes nothing keeps the resourceVersion",
        "the API server consults the webhook as cluster/webhookconfigurations/usage.yaml says (rules, objectSelector, service path, "
        "failurePolicy), read at run time; the handler is reached through the http.Handler the real SetupWebhookWithManager registered",
        "probes run the real handler with its annotation patch captured instead of applied; delete requests that are part of a "
        "scenario go through the store and take effect",
        "the composer's re-application of a composed Usage is the patching apply with MustBeControllableBy + the real "
        "usage.RespectOwnerRefs (as composition_pt.go does), not a full XR reconcile",
        "verdict only from traces of the real reconciler / webhook judged by MonUsage.tla",
    ]


def replay(ctx, path):
    with open(path) as f:
        sc = json.load(f)
    if "variant" not in sc and "sweep" not in sc:
        sc["variant"] = "error"
    s, nlines = drive_and_judge(ctx, [sc], shards=1, allprobes=True)
    ctx.cov.update(dict(states=1, transitions=1, traces_validated_against_impl=s["runs"], samples=[sc], events=nlines,
                        violations_by_formula=s["violations_by_formula"]))
