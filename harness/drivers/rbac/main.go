// Driver for spec/RBAC.tla (property C18): replays the input vectors TLC
// enumerates (spec/MCRBAC.tla) against the real RBAC manager code
//
//	roles.NewClusterRoleBackedValidator / ValidatePermissionRequests, roles.Expand,
//	roles.RenderClusterRoles, roles.DefinedResources, roles.OrgDiffer (through the reconciler),
//	the provider roles Reconciler and the binding Reconciler end-to-end on simapi,
//	rbac/definition RenderClusterRoles and its Reconciler,
//
// and records, per vector, one trace event holding the input and the projected
// real outcome (rejected rules, the ClusterRoles / ClusterRoleBinding read
// back from the store, the write log of the judged reconcile). No property
// logic lives here: spec/MonRBAC.tla judges the records.
package main

import (
	"context"
	"encoding/json"
	"flag"
	"fmt"
	"os"
	"sort"
	"strings"

	appsv1 "k8s.io/api/apps/v1"
	corev1 "k8s.io/api/core/v1"
	rbacv1 "k8s.io/api/rbac/v1"
	extv1 "k8s.io/apiextensions-apiserver/pkg/apis/apiextensions/v1"
	metav1 "k8s.io/apimachinery/pkg/apis/meta/v1"
	"k8s.io/apimachinery/pkg/apis/meta/v1/unstructured"
	"k8s.io/apimachinery/pkg/runtime"
	"k8s.io/apimachinery/pkg/runtime/schema"
	"k8s.io/apimachinery/pkg/types"
	"k8s.io/utils/ptr"
	"sigs.k8s.io/controller-runtime/pkg/reconcile"

	xpv1 "github.com/crossplane/crossplane-runtime/apis/common/v1"
	"github.com/crossplane/crossplane-runtime/pkg/event"

	xrdv1 "github.com/crossplane/crossplane/apis/apiextensions/v1"
	pkgv1 "github.com/crossplane/crossplane/apis/pkg/v1"
	"github.com/crossplane/crossplane/internal/controller/rbac/definition"
	"github.com/crossplane/crossplane/internal/controller/rbac/provider/binding"
	"github.com/crossplane/crossplane/internal/controller/rbac/provider/roles"
	"github.com/crossplane/crossplane/zzverif/fakes"
	"github.com/crossplane/crossplane/zzverif/scen"
	"github.com/crossplane/crossplane/zzverif/simapi"
	"github.com/crossplane/crossplane/zzverif/trace"
)

// ------------------------------------------------------------------ input

type ruleIn struct {
	Groups    []string `json:"groups"`
	Resources []string `json:"resources"`
	Names     []string `json:"names"`
	Verbs     []string `json:"verbs"`
	Urls      []string `json:"urls"`
}

type srcIn struct {
	Reg  string `json:"reg"`
	Org  string `json:"org"`
	Form string `json:"form"`
}

type refIn struct {
	K string `json:"k"`
	G string `json:"g"`
	P string `json:"p"`
}

type revIn struct {
	Label string  `json:"label"`
	Src   srcIn   `json:"src"`
	Refs  []refIn `json:"refs"`
}

type depIn struct {
	Name  string `json:"name"`
	Owner string `json:"owner"`
	SA    string `json:"sa"`
}

type xrdIn struct {
	Group  string `json:"group"`
	Plural string `json:"plural"`
	Claim  string `json:"claim"`
}

type input struct {
	Fam     string   `json:"fam"`
	Mode    string   `json:"mode"`
	Allow   []ruleIn `json:"allow"`
	Reqs    []ruleIn `json:"reqs"`
	Self    revIn    `json:"self"`
	Members []revIn  `json:"members"`
	Pre     string   `json:"pre"`
	Deps    []depIn  `json:"deps"`
	Prebind string   `json:"prebind"`
	Xrd     xrdIn    `json:"xrd"`
}

const (
	allowName   = "crossplane:allowed-provider-permissions"
	selfName    = "provider-self-abc123"
	otherName   = "provider-other-def456"
	deployNS    = "crossplane-system"
	registry0   = "xpkg.example.org"
	registry1   = "registry.other.io"
	familyLabel = pkgv1.LabelProviderFamily
)

func nz(s []string) []string {
	if s == nil {
		return []string{}
	}
	return s
}

func policy(r ruleIn) rbacv1.PolicyRule {
	// empty lists stay nil, as they are after decoding a manifest
	cp := func(s []string) []string {
		if len(s) == 0 {
			return nil
		}
		return append([]string(nil), s...)
	}
	return rbacv1.PolicyRule{APIGroups: cp(r.Groups), Resources: cp(r.Resources), ResourceNames: cp(r.Names), Verbs: cp(r.Verbs), NonResourceURLs: cp(r.Urls)}
}

func policies(rs []ruleIn) []rbacv1.PolicyRule {
	out := make([]rbacv1.PolicyRule, 0, len(rs))
	for _, r := range rs {
		out = append(out, policy(r))
	}
	return out
}

// source renders the package reference for the abstract (registry, org, form).
func source(s srcIn, pkg string) string {
	reg := map[string]string{"R0": registry0, "R1": registry1}[s.Reg]
	org := map[string]string{"o0": "acme", "o1": "evil", "o0x": "acmex"}[s.Org]
	switch s.Form {
	case "tag":
		return reg + "/" + org + "/" + pkg + ":v1.2.3"
	case "digest":
		return reg + "/" + org + "/" + pkg + "@sha256:" + strings.Repeat("ab", 32)
	case "implicit":
		return org + "/" + pkg + ":v1.2.3"
	case "nested":
		return reg + "/" + org + "/sub/" + pkg + ":v1.2.3"
	default:
		return "NOT A REFERENCE !!"
	}
}

func typedRefs(refs []refIn) []xpv1.TypedReference {
	out := []xpv1.TypedReference{}
	for _, r := range refs {
		switch r.K {
		case "crd":
			out = append(out, xpv1.TypedReference{APIVersion: "apiextensions.k8s.io/v1", Kind: "CustomResourceDefinition", Name: r.P + "." + r.G})
		case "crdbeta":
			out = append(out, xpv1.TypedReference{APIVersion: "apiextensions.k8s.io/v1beta1", Kind: "CustomResourceDefinition", Name: r.P + "." + r.G})
		case "xrd":
			out = append(out, xpv1.TypedReference{APIVersion: "apiextensions.crossplane.io/v1", Kind: "CompositeResourceDefinition", Name: r.P + "." + r.G})
		case "fakegroup":
			out = append(out, xpv1.TypedReference{APIVersion: "example.org/v1", Kind: "CustomResourceDefinition", Name: r.P + "." + r.G})
		case "nodot":
			out = append(out, xpv1.TypedReference{APIVersion: "apiextensions.k8s.io/v1", Kind: "CustomResourceDefinition", Name: r.P})
		default:
			panic("unknown ref kind " + r.K)
		}
	}
	return out
}

// ----------------------------------------------------------- projection

func ruleOut(r rbacv1.PolicyRule) map[string]any {
	return map[string]any{"groups": nz(r.APIGroups), "resources": nz(r.Resources), "names": nz(r.ResourceNames), "verbs": nz(r.Verbs), "urls": nz(r.NonResourceURLs)}
}

func rulesOut(rs []rbacv1.PolicyRule) []any {
	out := []any{}
	for _, r := range rs {
		out = append(out, ruleOut(r))
	}
	return out
}

func granular(rs []roles.Rule) []any {
	out := []any{}
	for _, r := range rs {
		out = append(out, map[string]any{"g": r.APIGroup, "r": r.Resource, "n": r.ResourceName, "v": r.Verb, "u": r.NonResourceURL})
	}
	return out
}

func roleKind(name string) string {
	for suffix, k := range map[string]string{":system": "system", ":aggregate-to-crossplane": "system", ":aggregate-to-edit": "edit", ":aggregate-to-view": "view", ":aggregate-to-browse": "browse"} {
		if strings.HasSuffix(name, suffix) {
			return k
		}
	}
	return "other"
}

type world struct {
	s        *simapi.Server
	c        *simapi.Client
	selfUID  types.UID
	otherUID types.UID
	xrdUID   types.UID
	rec      bool
	writes   []any
}

func (w *world) ctrlOf(o metav1.Object) string {
	c := metav1.GetControllerOf(o)
	switch {
	case c == nil:
		return "none"
	case c.UID == w.selfUID && w.selfUID != "":
		return "self"
	case c.UID == w.xrdUID && w.xrdUID != "":
		return "self"
	default:
		return "other"
	}
}

func (w *world) roleOut(cr *rbacv1.ClusterRole) map[string]any {
	return map[string]any{"name": cr.GetName(), "kind": roleKind(cr.GetName()), "ctrl": w.ctrlOf(cr), "rules": rulesOut(cr.Rules)}
}

// storedRoles reads back every ClusterRole except the allow list.
func (w *world) storedRoles() []any {
	l := &rbacv1.ClusterRoleList{}
	rd := simapi.NewClient(w.s, "observer")
	if err := rd.List(context.Background(), l); err != nil {
		panic(err)
	}
	sort.Slice(l.Items, func(i, j int) bool { return l.Items[i].Name < l.Items[j].Name })
	out := []any{}
	for i := range l.Items {
		if l.Items[i].Name == allowName {
			continue
		}
		out = append(out, w.roleOut(&l.Items[i]))
	}
	return out
}

func (w *world) onEvent(e *simapi.Event) {
	if !w.rec || !e.IsWrite() || e.Actor == "observer" {
		return
	}
	if e.Kind != "ClusterRole" && e.Kind != "ClusterRoleBinding" {
		return
	}
	w.writes = append(w.writes, map[string]any{"verb": e.Verb, "kind": e.Kind, "name": e.Name, "applied": e.Applied && !e.DryRun, "noop": e.Noop, "outcome": e.Outcome})
}

type recorder struct{ warnings, normals int }

func (r *recorder) Event(_ runtime.Object, e event.Event) {
	if e.Type == event.TypeWarning {
		r.warnings++
	} else {
		r.normals++
	}
}
func (r *recorder) WithAnnotations(...string) event.Recorder { return r }

var scheme = func() *runtime.Scheme {
	s := runtime.NewScheme()
	for _, f := range []func(*runtime.Scheme) error{pkgv1.AddToScheme, rbacv1.AddToScheme, appsv1.AddToScheme, corev1.AddToScheme, extv1.AddToScheme, xrdv1.AddToScheme} {
		if err := f(s); err != nil {
			panic(err)
		}
	}
	return s
}()

func newWorld() *world {
	s := simapi.NewServer(scheme)
	s.Namespaced(schema.GroupKind{Group: "apps", Kind: "Deployment"})
	s.NoStatus(schema.GroupKind{Group: rbacv1.GroupName, Kind: "ClusterRole"}, schema.GroupKind{Group: rbacv1.GroupName, Kind: "ClusterRoleBinding"})
	w := &world{s: s, c: simapi.NewClient(s, "rbac")}
	s.OnEvent = w.onEvent
	return w
}

func emptyOut() map[string]any {
	return map[string]any{
		"err": "", "rejected": []any{}, "expand": []any{}, "recErr": "", "bindErr": "", "rejEvents": 0,
		"roles": []any{}, "rendered": []any{}, "writes": []any{},
		"binding": map[string]any{"exists": false, "name": "", "ctrl": "none", "refKind": "", "refGroup": "", "refName": "", "subjects": []any{}},
	}
}

func errClass(err error) string {
	if err != nil {
		return "error"
	}
	return ""
}

// validator builds the validator the RBAC manager would run with in this mode.
func (w *world) validator(in *input) roles.PermissionRequestsValidator {
	if in.Mode == "secure" {
		// rbac manager started without an allow-list ClusterRole: NewReconciler's default
		return roles.PermissionRequestsValidatorFn(roles.VerySecureValidator)
	}
	return roles.NewClusterRoleBackedValidator(w.c, allowName)
}

func (w *world) putAllow(in *input) {
	if in.Mode == "noallow" {
		return
	}
	w.s.Put(&rbacv1.ClusterRole{ObjectMeta: metav1.ObjectMeta{Name: allowName}, Rules: policies(in.Allow)})
}

// validate records what the real validator and the real Expand say.
func (w *world) validate(in *input, out map[string]any) {
	ctx := context.Background()
	reqs := policies(in.Reqs)
	rejected, err := w.validator(in).ValidatePermissionRequests(ctx, reqs...)
	out["err"] = errClass(err)
	out["rejected"] = granular(rejected)
	ex, err := roles.Expand(ctx, reqs...)
	if err != nil {
		panic(err)
	}
	out["expand"] = granular(ex)
}

func (w *world) putRevision(name string, r revIn, reqs []rbacv1.PolicyRule, pkg string) types.UID {
	pr := &pkgv1.ProviderRevision{ObjectMeta: metav1.ObjectMeta{Name: name}}
	if r.Label != "" {
		pr.Labels = map[string]string{familyLabel: r.Label}
	}
	pr.Spec.Package = source(r.Src, pkg)
	pr.Spec.DesiredState = pkgv1.PackageRevisionActive
	pr.Spec.Revision = 1
	pr.Status.ObjectRefs = typedRefs(r.Refs)
	pr.Status.PermissionRequests = reqs
	u := w.s.Put(pr)
	for _, ref := range r.Refs {
		if ref.K == "crd" || ref.K == "crdbeta" {
			crd := &extv1.CustomResourceDefinition{ObjectMeta: metav1.ObjectMeta{Name: ref.P + "." + ref.G}}
			crd.Spec.Group = ref.G
			crd.Spec.Names.Plural = ref.P
			crd.OwnerReferences = []metav1.OwnerReference{{APIVersion: "pkg.crossplane.io/v1", Kind: "ProviderRevision", Name: name, UID: u.GetUID(), Controller: ptr.To(true)}}
			w.s.Put(crd)
		}
	}
	return u.GetUID()
}

func (w *world) setRequests(reqs []rbacv1.PolicyRule) {
	pr := &pkgv1.ProviderRevision{}
	rd := simapi.NewClient(w.s, "observer")
	if err := rd.Get(context.Background(), types.NamespacedName{Name: selfName}, pr); err != nil {
		panic(err)
	}
	pr.Status.PermissionRequests = reqs
	w.s.Put(pr)
}

func (w *world) rolesReconciler(in *input, rec *recorder) *roles.Reconciler {
	mgr := &fakes.Manager{Client: w.c, Sch: scheme}
	opts := []roles.ReconcilerOption{roles.WithRecorder(rec), roles.WithOrgDiffer(roles.OrgDiffer{DefaultRegistry: registry0})}
	if in.Mode != "secure" {
		opts = append(opts, roles.WithPermissionRequestsValidator(roles.NewClusterRoleBackedValidator(w.c, allowName)))
	}
	return roles.NewReconciler(mgr, opts...)
}

func selfReq() reconcile.Request {
	return reconcile.Request{NamespacedName: types.NamespacedName{Name: selfName}}
}

// provider families: the roles reconciler end to end.
func (w *world) runProvider(in *input, out map[string]any) {
	ctx := context.Background()
	// the allow list exists while the earlier reconcile runs; in mode "noallow" it is deleted afterwards
	w.s.Put(&rbacv1.ClusterRole{ObjectMeta: metav1.ObjectMeta{Name: allowName}, Rules: policies(in.Allow)})
	reqs := policies(in.Reqs)
	w.selfUID = w.putRevision(selfName, in.Self, nil, "provider-self")
	for i, m := range in.Members {
		w.putRevision(fmt.Sprintf("provider-member%d-%d", i+1, i+1), m, nil, fmt.Sprintf("provider-member%d", i+1))
	}
	// one reconciler (and validator) for the earlier and the judged reconcile, as in the running RBAC manager
	rec := &recorder{}
	r := w.rolesReconciler(in, rec)
	if in.Pre == "roles" {
		// an earlier reconcile, when the revision requested nothing, created the roles
		if _, err := r.Reconcile(ctx, selfReq()); err != nil {
			panic(fmt.Sprintf("pre reconcile: %v", err))
		}
	}
	if in.Pre == "wide" {
		// an earlier reconcile granted these requests while the allow list allowed everything; the administrator has
		// since edited the allow list (in place) down to in.Allow
		k := simapi.Key{Group: rbacv1.GroupName, Kind: "ClusterRole", Name: allowName}
		narrow, _, _ := unstructured.NestedSlice(w.s.Peek(k).Object, "rules")
		w.s.Mutate(k, func(u *unstructured.Unstructured) {
			_ = unstructured.SetNestedSlice(u.Object, []any{
				map[string]any{"apiGroups": []any{"*"}, "resources": []any{"*"}, "verbs": []any{"*"}},
				map[string]any{"nonResourceURLs": []any{"*"}, "verbs": []any{"*"}}}, "rules")
		})
		w.setRequests(reqs)
		if _, err := r.Reconcile(ctx, selfReq()); err != nil {
			panic(fmt.Sprintf("pre reconcile (wide allow list): %v", err))
		}
		w.s.Mutate(k, func(u *unstructured.Unstructured) {
			if len(narrow) == 0 {
				unstructured.RemoveNestedField(u.Object, "rules")
				return
			}
			_ = unstructured.SetNestedSlice(u.Object, narrow, "rules")
		})
	}
	if in.Mode == "noallow" {
		w.s.Remove(simapi.Key{Group: rbacv1.GroupName, Kind: "ClusterRole", Name: allowName})
	}
	w.setRequests(reqs)
	w.validate(in, out)

	rec.warnings = 0
	w.c.BeginReconcile()
	w.rec = true
	_, err := r.Reconcile(ctx, selfReq())
	w.rec = false
	out["recErr"] = errClass(err)
	out["rejEvents"] = rec.warnings
	out["writes"] = append([]any{}, w.writes...)
	out["roles"] = w.storedRoles()

	// the renderer on its own, for the revision's own resources
	pr := &pkgv1.ProviderRevision{}
	if err := simapi.NewClient(w.s, "observer").Get(ctx, types.NamespacedName{Name: selfName}, pr); err != nil {
		panic(err)
	}
	rendered := []any{}
	for _, cr := range roles.RenderClusterRoles(pr, roles.DefinedResources(pr.Status.ObjectRefs)) {
		rendered = append(rendered, w.roleOut(&cr))
	}
	out["rendered"] = rendered
}

func (w *world) runBinding(in *input, out map[string]any) {
	ctx := context.Background()
	w.putAllow(in)
	w.selfUID = w.putRevision(selfName, in.Self, nil, "provider-self")
	w.otherUID = w.putRevision(otherName, revIn{Src: in.Self.Src, Refs: []refIn{{K: "crd", G: "g2", P: "r2"}}}, nil, "provider-other")
	for _, d := range in.Deps {
		dep := &appsv1.Deployment{ObjectMeta: metav1.ObjectMeta{Name: d.Name, Namespace: deployNS}}
		dep.Spec.Template.Spec.ServiceAccountName = d.SA
		switch d.Owner {
		case "self":
			dep.OwnerReferences = []metav1.OwnerReference{{APIVersion: "pkg.crossplane.io/v1", Kind: "ProviderRevision", Name: selfName, UID: w.selfUID, Controller: ptr.To(true)}}
		case "selfnc":
			dep.OwnerReferences = []metav1.OwnerReference{{APIVersion: "pkg.crossplane.io/v1", Kind: "ProviderRevision", Name: selfName, UID: w.selfUID}}
		case "other":
			dep.OwnerReferences = []metav1.OwnerReference{{APIVersion: "pkg.crossplane.io/v1", Kind: "ProviderRevision", Name: otherName, UID: w.otherUID, Controller: ptr.To(true)}}
		}
		w.s.Put(dep)
	}
	sysName := roles.SystemClusterRoleName(selfName)
	if in.Prebind == "stale" {
		w.s.Put(&rbacv1.ClusterRoleBinding{
			ObjectMeta: metav1.ObjectMeta{Name: sysName, OwnerReferences: []metav1.OwnerReference{{APIVersion: "pkg.crossplane.io/v1", Kind: "ProviderRevision", Name: selfName, UID: w.selfUID, Controller: ptr.To(true), BlockOwnerDeletion: ptr.To(true)}}},
			RoleRef:    rbacv1.RoleRef{APIGroup: rbacv1.GroupName, Kind: "ClusterRole", Name: sysName},
			Subjects:   []rbacv1.Subject{{Kind: rbacv1.ServiceAccountKind, Namespace: deployNS, Name: "stale-sa"}},
		})
	}
	mgr := &fakes.Manager{Client: w.c, Sch: scheme}
	// both provider reconcilers of the RBAC manager run for the revisions
	for _, n := range []string{selfName, otherName} {
		w.c.BeginReconcile()
		if _, err := w.rolesReconciler(in, &recorder{}).Reconcile(ctx, reconcile.Request{NamespacedName: types.NamespacedName{Name: n}}); err != nil {
			out["recErr"] = "error"
		}
	}
	w.c.BeginReconcile()
	w.rec = true
	_, err := binding.NewReconciler(mgr).Reconcile(ctx, selfReq())
	w.rec = false
	out["bindErr"] = errClass(err)
	out["writes"] = append([]any{}, w.writes...)
	out["roles"] = w.storedRoles()
	l := &rbacv1.ClusterRoleBindingList{}
	if err := simapi.NewClient(w.s, "observer").List(ctx, l); err != nil {
		panic(err)
	}
	for i := range l.Items {
		b := &l.Items[i]
		if metav1.GetControllerOf(b) == nil || metav1.GetControllerOf(b).UID != w.selfUID {
			continue
		}
		subs := []any{}
		for _, s := range b.Subjects {
			subs = append(subs, map[string]any{"kind": s.Kind, "ns": s.Namespace, "name": s.Name})
		}
		out["binding"] = map[string]any{"exists": true, "name": b.Name, "ctrl": w.ctrlOf(b), "refKind": b.RoleRef.Kind, "refGroup": b.RoleRef.APIGroup, "refName": b.RoleRef.Name, "subjects": subs}
	}
}

func (w *world) runXRD(in *input, out map[string]any) {
	ctx := context.Background()
	name := in.Xrd.Plural + "." + in.Xrd.Group
	d := &xrdv1.CompositeResourceDefinition{ObjectMeta: metav1.ObjectMeta{Name: name}}
	d.Spec.Group = in.Xrd.Group
	d.Spec.Names = extv1.CustomResourceDefinitionNames{Plural: in.Xrd.Plural, Kind: "X" + in.Xrd.Plural}
	if in.Xrd.Claim != "" {
		d.Spec.ClaimNames = &extv1.CustomResourceDefinitionNames{Plural: in.Xrd.Claim, Kind: "C" + in.Xrd.Claim}
	}
	u := w.s.Put(d)
	w.xrdUID = u.GetUID()
	d.SetUID(u.GetUID())
	rendered := []any{}
	for _, cr := range definition.RenderClusterRoles(d) {
		rendered = append(rendered, w.roleOut(&cr))
	}
	out["rendered"] = rendered
	mgr := &fakes.Manager{Client: w.c, Sch: scheme}
	w.c.BeginReconcile()
	w.rec = true
	_, err := definition.NewReconciler(mgr).Reconcile(ctx, reconcile.Request{NamespacedName: types.NamespacedName{Name: name}})
	w.rec = false
	out["recErr"] = errClass(err)
	out["writes"] = append([]any{}, w.writes...)
	out["roles"] = w.storedRoles()
}

func runVector(in *input) map[string]any {
	w := newWorld()
	out := emptyOut()
	switch in.Fam {
	case "val1", "val2", "valx", "valr":
		w.putAllow(in)
		w.validate(in, out)
	case "fam", "prov":
		w.runProvider(in, out)
	case "bind":
		w.runBinding(in, out)
	case "xrd":
		w.runXRD(in, out)
	default:
		panic("unknown family " + in.Fam)
	}
	return out
}

// chain is the validator as the RBAC manager runs it: one instance for the life of the process, validating one
// revision after the other while the administrator edits the allow-list ClusterRole in place (same object, same uid;
// the API server keeps no generation for ClusterRoles).  Its answer must depend on the current allow list only.
type chain struct {
	w *world
	v roles.PermissionRequestsValidator
}

func newChain() *chain {
	w := newWorld()
	return &chain{w: w, v: roles.NewClusterRoleBackedValidator(w.c, allowName)}
}

func (c *chain) validate(in *input) map[string]any {
	out := emptyOut()
	k := simapi.Key{Group: rbacv1.GroupName, Kind: "ClusterRole", Name: allowName}
	if c.w.s.Peek(k) == nil {
		c.w.putAllow(in)
	} else {
		rules := []any{}
		for _, r := range policies(in.Allow) {
			m, err := runtime.DefaultUnstructuredConverter.ToUnstructured(&r)
			if err != nil {
				panic(err)
			}
			rules = append(rules, m)
		}
		c.w.s.Mutate(k, func(u *unstructured.Unstructured) {
			if len(rules) == 0 {
				unstructured.RemoveNestedField(u.Object, "rules")
				return
			}
			_ = unstructured.SetNestedSlice(u.Object, rules, "rules")
		})
	}
	ctx := context.Background()
	reqs := policies(in.Reqs)
	rejected, err := c.v.ValidatePermissionRequests(ctx, reqs...)
	out["err"] = errClass(err)
	out["rejected"] = granular(rejected)
	ex, err := roles.Expand(ctx, reqs...)
	if err != nil {
		panic(err)
	}
	out["expand"] = granular(ex)
	return out
}

type summary struct {
	Scenarios int            `json:"scenarios"`
	Runs      int            `json:"runs"`
	Events    int            `json:"events"`
	ByFamily  map[string]int `json:"by_family"`
	Counts    map[string]int `json:"counts"`
	Samples   []any          `json:"samples"`
}

func main() {
	scenarios := flag.String("scenarios", "", "NDJSON file of {id, input} scenarios")
	tracePath := flag.String("trace", "", "output trace")
	sumPath := flag.String("summary", "", "output summary JSON")
	chunk := flag.Int("chunk", 0, "split the trace into files of about this many events")
	_ = flag.Int("seed", 1, "unused: the driver makes no random choice")
	flag.Parse()

	raws, err := scen.Load(*scenarios)
	if err != nil {
		fmt.Fprintln(os.Stderr, err)
		os.Exit(2)
	}
	tw, err := trace.New(*tracePath, *chunk)
	if err != nil {
		fmt.Fprintln(os.Stderr, err)
		os.Exit(2)
	}
	sum := &summary{ByFamily: map[string]int{}, Counts: map[string]int{}}
	seenFam := map[string]bool{}
	ch := newChain()
	for _, raw := range raws {
		var sc struct {
			ID    string          `json:"id"`
			Input json.RawMessage `json:"input"`
		}
		if err := json.Unmarshal(raw, &sc); err != nil || len(sc.Input) == 0 {
			fmt.Fprintln(os.Stderr, "bad scenario:", err, string(raw[:min(len(raw), 200)]))
			os.Exit(2)
		}
		var in input
		if err := json.Unmarshal(sc.Input, &in); err != nil {
			fmt.Fprintln(os.Stderr, "bad scenario input:", err)
			os.Exit(2)
		}
		var anyIn map[string]any
		_ = json.Unmarshal(sc.Input, &anyIn)
		out := runVector(&in)
		tw.Boundary()
		ev := map[string]any{"ev": "out", "scenario": sc.ID, "fam": in.Fam, "input": anyIn, "out": out}
		tw.Emit(ev)
		if strings.HasPrefix(in.Fam, "val") && in.Mode == "cr" {
			// the same vector on the long-lived validator, after whatever it validated before
			cout := ch.validate(&in)
			tw.Boundary()
			tw.Emit(map[string]any{"ev": "out", "scenario": sc.ID + "/chained", "fam": in.Fam, "input": anyIn, "out": cout})
			sum.Runs++
			sum.Counts["chained"]++
			if fmt.Sprint(cout["rejected"]) != fmt.Sprint(out["rejected"]) || cout["err"] != out["err"] {
				sum.Counts["chained:differs-from-fresh"]++
			}
		}
		sum.Scenarios++
		sum.Runs++
		sum.ByFamily[in.Fam]++
		// anti-vacuity counters: how often each formula's antecedent was exercised
		rej := len(out["rejected"].([]any)) > 0
		isVal := strings.HasPrefix(in.Fam, "val")
		switch {
		case out["err"] != "":
			sum.Counts[in.Fam+":validator-error"]++
		case rej:
			sum.Counts[in.Fam+":rejected"]++
		case isVal || in.Fam == "fam" || in.Fam == "prov":
			sum.Counts[in.Fam+":granted"]++
		}
		applied := 0
		for _, x := range out["writes"].([]any) {
			if x.(map[string]any)["applied"].(bool) {
				applied++
			}
		}
		if applied > 0 {
			sum.Counts[in.Fam+":wrote-roles"]++
		}
		if len(out["roles"].([]any)) > 0 {
			sum.Counts[in.Fam+":roles-in-store"]++
		}
		if out["binding"].(map[string]any)["exists"].(bool) {
			sum.Counts[in.Fam+":binding"]++
		}
		if !seenFam[in.Fam] && (in.Fam == "prov" || in.Fam == "val1" || in.Fam == "xrd") {
			seenFam[in.Fam] = true
			sum.Samples = append(sum.Samples, ev)
		}
	}
	sum.Events = tw.Lines
	if err := tw.Close(); err != nil {
		fmt.Fprintln(os.Stderr, err)
		os.Exit(2)
	}
	if err := scen.WriteJSON(*sumPath, sum); err != nil {
		fmt.Fprintln(os.Stderr, err)
		os.Exit(2)
	}
}
