-------------------------- MODULE MCCompValidation --------------------------
(***************************************************************************)
(* Vector enumeration for X05 (spec/CompValidation.tla): Init picks one    *)
(* input of the bounded domain, the single Compute step emits it as        *)
(*   <<"VEC", ToJson(input)>>                                              *)
(* Every emitted vector becomes one run of the real validator (library,    *)
(* webhook in three modes, schema-less part) and of the real runtime on    *)
(* sample values in harness/drivers/compvalidation; MonCompValidation      *)
(* judges the outcome.  Families (input.fam):                              *)
(*   patch      one patch: type x from x to x transform chain (<= 2) x     *)
(*              policy x inline / through a PatchSet x schema variants x   *)
(*              on the first resource (kind Thing) / the second (Other)    *)
(*   mode       webhook: annotation x feature flag x available CRDs x body *)
(*   ready      one readiness check: type x field path x match fields      *)
(*   conn       one connection detail: type x field path                   *)
(*   malformed  Compositions the API types can express but nobody writes   *)
(* (M) design-level invariants checked here on every vector:               *)
(*   DesignSound  the validator's static typing (ValAccepts) accepts no    *)
(*                patch whose dynamic type flow (Run) has a type error -   *)
(*                except in the cells of KnownCells.  With KnownCells = {} *)
(*                (witness_sound cfg) TLC must find the counterexamples;   *)
(*                KnownCells = {ConvertFormatOnInteger} is the open finding *)
(*                D23; with the repaired convert guard switched off        *)
(*                (witness_convobj cfg: FixConvertObject <- NoFix) it must *)
(*                find the ConvertObjectInput counterexample again.        *)
(*   RefTotal     both type systems are defined on the whole domain.       *)
(* MCCompValidation_deep.cfg checks DesignSound on all chains of three     *)
(* transforms over all source and destination types - beyond what is       *)
(* replayed (model only, nothing emitted).                                 *)
(***************************************************************************)
EXTENDS CompValidation, Json
CONSTANTS Tier, Fams, KnownCells
VARIABLES input, out
vars == <<input, out>>

\* --------------------------------------------------------------- chains
Core == {"math.mul", "math.min", "map", "str.fmt", "str.upper", "str.join", "cv.string", "cv.int64", "cv.float64.q", "cv.object.j", "cv.object"}
Chains1 == {<<>>} \cup {<<t>> : t \in Transforms}
Chains2(S1, S2) == {<<a, b>> : a \in S1, b \in S2}
ChainsQuick == Chains1 \cup Chains2(Core, Core)
ChainsAll == Chains1 \cup Chains2(Transforms, Transforms)

\* beyond the replayed bound (Tier = "deep", the model only, nothing is emitted): chains of three transforms
Chains3 == {<<a, b, c>> : a \in Transforms, b \in Transforms, c \in Core}

\* -------------------------------------------------------------- patches
PV(pt, via, from, to, ch, pol, vs, cs, xrs, cds) ==
  [fam |-> "patch", ptype |-> pt, via |-> via, from |-> from, to |-> to, chain |-> ch, pol |-> pol, vars |-> vs, cstrat |-> cs, xrs |-> xrs, cds |-> cds, res |-> "r1"]
OnR2(v) == [v EXCEPT !.res = "r2"]
Field(pt, from, to, ch) == PV(pt, "inline", from, to, ch, "nil", <<>>, "none", "typed", "typed")
From == "FromCompositeFieldPath"
To == "ToCompositeFieldPath"
SrcTyped == {"str", "int", "num", "bool", "obj", "arr"}
DstTyped == {"str", "int", "num", "bool", "obj", "arr", "freek"}
SrcWide == SrcTyped \cup {"map", "ios", "freek"}
DstWide == DstTyped \cup {"ios", "map", "unset"}
\* type matrix: source type x destination type x chain.  Written as a predicate on `input` (TLC enumerates nested
\* quantifiers without building - and sorting - the set of records, which costs minutes for 10^5 vectors)
InMatrix ==
  IF Tier = "deep" THEN \E f \in SrcWide, t \in {"str", "int", "num", "obj", "arr", "freek"}, ch \in Chains3 : input = Field(From, f, t, ch)
  ELSE IF Tier = "witness" THEN \E f \in {"obj", "num", "int"}, t \in {"obj", "num"}, ch \in Chains1 \cup Chains2({"math.min"}, {"cv.float64.q"}) : input = Field(From, f, t, ch)
  ELSE IF Tier = "quick"
  THEN \/ \E f \in SrcTyped, t \in DstTyped, ch \in ChainsQuick : input = Field(From, f, t, ch)
       \/ \E f \in SrcTyped, t \in DstTyped, ch \in Chains1 : input = Field(To, f, t, ch)
       \/ \E f \in SrcTyped, ch \in Chains1 : input = Field(From, f, "unset", ch)
  ELSE \/ \E f \in SrcWide, t \in DstWide, ch \in ChainsAll : input = Field(From, f, t, ch)
       \/ \E f \in SrcWide, t \in DstWide, ch \in ChainsQuick : input = Field(To, f, t, ch)
\* field paths: every key as a source (destination of unknown type) and as a destination (source of unknown / string type)
Paths ==
  {Field(pt, f, t, <<>>) : pt \in {From, To, "default"}, f \in AllKeys, t \in {"freek", "unset"}}
  \cup {Field(pt, f, t, <<>>) : pt \in {From, To}, f \in {"freek", "str"}, t \in AllKeys}
  \cup {PV(pt, via, f, t, <<>>, pol, <<>>, "none", "typed", "typed") :
          pt \in {From, To}, via \in {"inline", "patchset"}, f \in {"str", "int", "nope", "xonly", "conly", "unset"}, t \in {"str", "int", "nope", "unset"},
          pol \in {"nil", "empty", "Optional", "Required"}}
\* the second resource (kind Other): its patches are typed with ITS schema
Second ==
  {OnR2(Field(pt, f, t, ch)) : pt \in {From, To}, f \in {"str", "int", "xonly", "conly", "oonly", "nope"}, t \in {"str", "int", "xonly", "conly", "oonly", "freek", "unset"},
                               ch \in {<<>>, <<"str.fmt">>, <<"math.mul">>}}
  \cup {OnR2(PV(pt, "patchset", f, t, <<>>, "nil", <<>>, "none", vp[1], vp[2])) : pt \in {From, To}, f \in {"str", "conly", "oonly"}, t \in {"str", "conly", "oonly"},
                               vp \in {<<"typed", "typed">>, <<"typed", "noschema">>, <<"preserve", "typed">>}}
  \cup {OnR2(PV(pt, "inline", "unset", t, <<>>, "nil", vs, "string", "typed", "typed")) : pt \in CombineTypes, t \in {"str", "oonly", "conly", "xonly"},
                               vs \in {<<"str", "oonly">>, <<"conly">>, <<"xonly">>, <<"oonly">>}}
SomeKeys == IF Tier = "quick" THEN {"str", "int", "nope", "strx", "mname", "mbogus", "xonly"} ELSE {"str", "int", "arr0", "nope", "strx", "mname", "mbogus", "wild", "bad", "xonly"}
VariantPairs == IF Tier = "quick" THEN {<<"typed", v>> : v \in Variants} \cup {<<v, "typed">> : v \in Variants} \cup {<<v, v>> : v \in Variants}
                ELSE Variants \X Variants
InSchemas ==
  \E pt \in (IF Tier = "quick" THEN {From} ELSE {From, To}), f \in SomeKeys, t \in (IF Tier = "quick" THEN {"str", "int", "nope", "mname", "unset"} ELSE SomeKeys \cup {"unset"}),
     ch \in (IF Tier = "quick" THEN {<<>>, <<"str.fmt">>} ELSE {<<>>, <<"math.mul">>, <<"str.fmt">>}), vp \in VariantPairs :
       input = PV(pt, "inline", f, t, ch, "nil", <<>>, "none", vp[1], vp[2])
\* combine
VarLists == {<<"str">>, <<"str", "int">>, <<"int", "obj">>, <<"nope">>, <<"str", "nope">>, <<"freek", "str">>, <<"ios">>, <<"xonly">>, <<"conly">>, <<"bad", "str">>, <<>>}
CombineChains == {<<>>, <<"cv.int64">>, <<"math.mul">>, <<"str.upper">>, <<"cv.int64", "math.mul">>, <<"str.join">>, <<"cv.object.j">>, <<"cv.object.j", "cv.object">>, <<"map">>}
Combines ==
  {PV(pt, via, "unset", t, ch, pol, vs, "string", "typed", "typed") :
     pt \in CombineTypes, via \in {"inline"}, t \in (IF Tier = "quick" THEN {"str", "int", "obj", "nope", "freek"} ELSE {"str", "int", "num", "obj", "nope", "freek", "ios", "wild", "mlabel"}),
     ch \in (IF Tier = "quick" THEN {<<>>, <<"cv.int64">>, <<"math.mul">>, <<"cv.int64", "math.mul">>, <<"str.join">>, <<"cv.object.j", "cv.object">>} ELSE CombineChains),
     pol \in {"nil"}, vs \in VarLists}
  \cup {PV(pt, via, "unset", t, <<>>, pol, <<"str", "int">>, cs, "typed", "typed") :
          pt \in CombineTypes, via \in {"inline", "patchset"}, t \in {"str", "int", "unset"}, pol \in {"nil", "Optional", "Required"}, cs \in {"string", "nocfg", "bogus", "none"}}
InPatch == IF Tier \in {"witness", "deep"} THEN InMatrix ELSE InMatrix \/ InSchemas \/ input \in Paths \/ input \in Combines \/ input \in Second

\* ----------------------------------------------------------------- mode
ModeVectors ==
  {[fam |-> "mode", mode |-> m, feat |-> f, crds |-> c, body |-> b] :
     m \in {"unset", "strict", "loose", "warn", "bogus"}, f \in {"on", "off"}, c \in {"all", "noxr", "nothing", "noother", "none", "dupxr", "listerr"},
     b \in {"valid", "typeerr", "patherr", "logicerr"}}

\* ------------------------------------------------------------ readiness
ReadyKeys == {"str", "int", "num", "bool", "obj", "arr", "arr0", "ios", "freek", "free", "xonly", "conly", "nope", "strx", "mname", "mbogus", "status", "bad", "wild", "empty"}
ReadyVectors ==
  {[fam |-> "ready", rtype |-> rt, path |-> p, ms |-> ms, mi |-> mi, mc |-> mc, cds |-> "typed"] :
     rt \in ReadyTypes \cup {"Bogus"}, p \in ReadyKeys, ms \in {"set"}, mi \in {1}, mc \in {"set"}}
  \cup {[fam |-> "ready", rtype |-> rt, path |-> p, ms |-> ms, mi |-> mi, mc |-> mc, cds |-> "typed"] :
          rt \in {"MatchString", "MatchInteger", "MatchCondition", "NonEmpty"}, p \in {"str", "int", "nope", "empty"}, ms \in {"set", "unset"}, mi \in {0, 1}, mc \in {"nil", "set", "empty"}}
  \cup {[fam |-> "ready", rtype |-> rt, path |-> p, ms |-> "set", mi |-> 1, mc |-> "set", cds |-> v] :
          rt \in ReadyTypes, p \in {"str", "int", "nope", "mname", "mbogus"}, v \in Variants \ {"typed"}}

\* ---------------------------------------------------- connection details
ConnVectors ==
  {[fam |-> "conn", ctype |-> ct, path |-> p, name |-> n, cds |-> "typed"] :
     ct \in {"nil", "FromFieldPath", "FromConnectionSecretKey", "FromValue", "Bogus"}, p \in ReadyKeys \cup {"unset"}, n \in {"set", "unset"}}
  \cup {[fam |-> "conn", ctype |-> "FromFieldPath", path |-> p, name |-> "set", cds |-> v] : p \in {"str", "int", "nope", "mname", "mbogus"}, v \in Variants \ {"typed"}}

\* ------------------------------------------------------------ malformed
BadTransforms == {"bad.type", "bad.nomath", "bad.nostring", "bad.noconvert", "bad.nomap", "bad.nomatch", "bad.strtype", "bad.strdefault", "bad.strconv",
                  "bad.strnoconv", "bad.cvtype", "bad.cvformat", "bad.mathtype", "bad.regexp", "bad.nopatterns", "bad.nopairs"}
Shapes == {"empty", "noresources", "pipeline-noresources", "pipeline-with-resources", "bogus-mode", "patch-type-bogus", "patch-empty", "patchset-noname",
           "patchset-undefined", "patchset-nested", "patchset-bad-member", "patchset-unused-bad-path", "patchset-duplicate-names", "combine-nil", "combine-noto",
           "combine-novars", "combine-emptyvar", "base-empty", "base-notjson", "base-nokind", "base-array", "base-nokind-ready", "base-core-kind",
           "typeref-empty", "typeref-malformed", "names-mixed", "names-duplicate", "names-anonymous", "ready-bogus-type", "ready-nil-condition", "conn-empty",
           "policy-bogus", "huge-index", "deep-path", "many-patches"}
           \cup {"tr:" \o t : t \in BadTransforms} \cup {"tr:cv.int64+" \o t : t \in BadTransforms} \cup {"tr:map+" \o t : t \in BadTransforms}
MalformedVectors == {[fam |-> "malformed", shape |-> s] : s \in Shapes}

InDomain(f) == CASE f = "patch" -> InPatch [] f = "mode" -> input \in ModeVectors [] f = "ready" -> input \in ReadyVectors [] f = "conn" -> input \in ConnVectors
                 [] f = "malformed" -> input \in MalformedVectors

\* ------------------------------------------------------------------ spec
Init == /\ \E f \in Fams : InDomain(f)
        /\ out = "-"
Compute == /\ out = "-"
           /\ out' = "done"
           /\ UNCHANGED input
Spec == Init /\ [][Compute]_vars
Emit == PrintT(<<"VEC", ToJson(input')>>)

\* ------------------------------------------ design-level properties (M)
NoFix == FALSE      \* for the definition override of FixConvertObject in the witness cfg
DesignSound == input.fam = "patch" => DesignSoundFor(input, KnownCells)
\* the same after the Compute step (the witness cfg uses it: TLC reports no state count for a violated initial state)
DesignSoundDone == out = "done" => DesignSound
RefTotal == input.fam = "patch" =>
              /\ ValAccepts(input) \in BOOLEAN
              /\ \A g \in StartSet(input) : TypeErr(input.chain, g) \in {"always", "never", "some"} /\ Cell(input.chain, g) \in {"ConvertObjectInput", "ConvertFormatOnInteger", "Applies"}
              /\ DstClass(input) # "nokey" \/ ~LogicallyValid(input)
=============================================================================
