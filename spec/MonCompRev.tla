----------------------------- MODULE MonCompRev -----------------------------
(***************************************************************************)
(* Trace monitor for CompRev: evaluates the C12 formulas on every recorded *)
(* state / step of executions of the real composition revision reconciler  *)
(* and the real APIRevisionFetcher.  The trace is fully logged (every      *)
(* event carries the whole projected state), so the search is linear: one  *)
(* state per line.  A violated formula is reported as a VIOL line and the  *)
(* monitor keeps going.                                                    *)
(*                                                                         *)
(* A revision record: [name, c (content named by its hash label), known    *)
(* (its name is <composition>-<hash[:7]> of that content), num, ctrl       *)
(* ("comp" | "none" | "foreign"), specOk (spec minus the revision number   *)
(* equals the content's spec), labOk (labels = the content's labels + the  *)
(* two crossplane labels), lab (selector label value), dg (digest of       *)
(* spec minus number + labels + annotations)].                             *)
(***************************************************************************)
EXTENDS Integers, Sequences, FiniteSets, TLC, Json, IOUtils

Trace == ndJsonDeserialize(IOEnv.VERIF_TRACE)
VARIABLE l
Range(s) == {s[i] : i \in DOMAIN s}
Max(S) == IF S = {} THEN 0 ELSE CHOOSE m \in S : \A x \in S : x <= m

Revs(e) == Range(e.post.revs)

\* ---- state formulas (every recorded state)
\* at most one revision per content ...
OneDup(e) == \A i, j \in DOMAIN e.post.revs : i # j => e.post.revs[i].c # e.post.revs[j].c
\* ... named by the function of the content
OneName(e) == \A r \in Revs(e) : r.known
\* whose spec (and labels) equal that content
FaithfulSpec(e) == \A r \in Revs(e) : r.specOk /\ r.labOk

\* ---- step formulas (p = previous event of the same run, e = this event)
Same(p, e) == {<<r, s>> \in Revs(p) \X Revs(e) : r.name = s.name}
\* apart from its revision number a revision is never edited
FaithfulEdited(p, e) == \A rs \in Same(p, e) : rs[2].dg = rs[1].dg /\ rs[2].c = rs[1].c
\* a captured content stays captured (nothing in this closed world deletes revisions)
OneLost(p, e) == \A r \in Revs(p) : \E s \in Revs(e) : s.name = r.name
\* revision numbers only grow
Grows(p, e) == \A rs \in Same(p, e) : rs[2].num >= rs[1].num
\* the reconcile in flight listed revisions the Composition did not control (stripped owner references)
Unowned(e) == e.ev \in {"call", "end"} /\ e.seen.unowned
Monotone(p, e) == Unowned(e) \/ Grows(p, e)
MonotoneUnowned(p, e) == ~Unowned(e) \/ Grows(p, e)

\* ---- end of a fault-free reconcile in a quiet environment
AtEnd(e) == e.ev = "end" /\ e.quiet /\ ~e.faulty
CurRevs(e) == {r \in Revs(e) : r.c = e.post.comp.c}
CurExists(e) == AtEnd(e) => CurRevs(e) # {}
Highest(e) == \A r \in CurRevs(e) : \A x \in Revs(e) : x.name # r.name => x.num < r.num
\* three names for one formula, by the circumstances of the reconcile: it listed revisions the Composition
\* did not control / it listed only controlled revisions but the owner references had been stripped
\* earlier in the run / neither
CurHighestUnowned(e) == (AtEnd(e) /\ e.seen.unowned) => Highest(e)
CurHighestAfterStrip(e) == (AtEnd(e) /\ ~e.seen.unowned /\ e.stripped) => Highest(e)
CurHighest(e) == (AtEnd(e) /\ ~e.seen.unowned /\ ~e.stripped) => Highest(e)

\* ... and the Composition controls it (again): Automatic XRs choose among the revisions the Composition controls, so a
\* current revision left without its controller reference after a restore sends them back to older content
\* (added after the seeded change C12-m9 - re-adoption skipped for the revision that already has the highest number - was missed)
CurControlled(e) == AtEnd(e) => \A r \in CurRevs(e) : r.ctrl = "comp"

\* ---- XR side: APIRevisionFetcher.Fetch
IsFetch(e) == e.ev = "fetch"
\* Manual: the referenced revision is returned and stays referenced
\* (also when the pinned revision cannot be read at that moment - e.fetch.hidden: the XR keeps its reference and gets an error)
Manual(e) == (IsFetch(e) /\ e.fetch.pol = "Manual" /\ e.fetch.pinned # "none") =>
               /\ e.fetch.ref = e.fetch.pinned
               /\ IF (\E r \in Revs(e) : r.c = e.fetch.pinned) /\ ~e.fetch.hidden THEN e.fetch.got = e.fetch.pinned ELSE e.fetch.got = "error"
\* Automatic: the highest-numbered revision controlled by the Composition that matches the selector
Eligible(e) == {r \in Revs(e) : r.ctrl = "comp" /\ (e.fetch.sel # "none" => r.lab = e.fetch.sel)}
Automatic(e) == (IsFetch(e) /\ e.fetch.pol = "Automatic") =>
                  IF Eligible(e) = {} THEN e.fetch.got = "error" /\ e.fetch.ref = e.fetch.pinned
                  ELSE /\ \E r \in Eligible(e) : r.c = e.fetch.got /\ r.num = Max({x.num : x \in Eligible(e)})
                       /\ e.fetch.ref = e.fetch.got

Viol(name, i) == PrintT("VIOL|" \o name \o "|" \o ToString(i) \o "|" \o Trace[i].scenario)
Check(i) ==
  LET e == Trace[i] IN
  /\ (OneDup(e) \/ Viol("OnePerContent.Duplicate", i))
  /\ (OneName(e) \/ Viol("OnePerContent.Name", i))
  /\ (FaithfulSpec(e) \/ Viol("Faithful.Spec", i))
  /\ (CurExists(e) \/ Viol("CurrentHighest.Missing", i))
  /\ (CurHighest(e) \/ Viol("CurrentHighest", i))
  /\ (CurHighestUnowned(e) \/ Viol("CurrentHighest.ListedUnowned", i))
  /\ (CurHighestAfterStrip(e) \/ Viol("CurrentHighest.AfterStrip", i))
  /\ (CurControlled(e) \/ Viol("CurrentHighest.Controlled", i))
  /\ (Manual(e) \/ Viol("Manual", i))
  /\ (Automatic(e) \/ Viol("Automatic", i))
  /\ (e.ev = "reset" \/ i = 1 \/
        LET p == Trace[i - 1] IN
        /\ (FaithfulEdited(p, e) \/ Viol("Faithful.Edited", i))
        /\ (OneLost(p, e) \/ Viol("OnePerContent.Lost", i))
        /\ (Monotone(p, e) \/ Viol("Monotone", i))
        /\ (MonotoneUnowned(p, e) \/ Viol("Monotone.ListedUnowned", i)))

Init == l = 0
Next == /\ l < Len(Trace) /\ l' = l + 1 /\ Check(l')
        /\ (l' < Len(Trace) \/ PrintT("DONE|" \o ToString(l')))
Spec == Init /\ [][Next]_l
=============================================================================
