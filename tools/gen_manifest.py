#!/usr/bin/env python3
"""Regenerates /verif/MANIFEST.json from the table below (one entry per claimed property)."""
import json
import os

V = os.path.dirname(os.path.dirname(os.path.abspath(__file__)))
TECH = "TLA+ model checking (TLC) + TLC-generated behaviours replayed on the real code + TLC trace validation of the recorded executions"
BASE_NOTE = ("Trusted: TLC, harness/simapi (API-server semantics incl. real structured-merge-diff), the projection in the driver. "
             "The verdict comes only from traces of the real code judged by the TLA+ monitor; the model makes the exploration exhaustive within its bounds. ")

CHECKS = {
 "C01": ("spec/XRCompose.tla models the XR reconcile with both composers, one action per API call, faults/crashes at every call, desired-set changes, user deletions, foreign-controller placements. "
         "Every reconcile-ending transition is replayed on the real composite.Reconciler (+3 fault-free reconciles) and a fault sweep covers every real call index; "
         "TLC judges NoLeak, AtMostOne, NameStable on every recorded state/step and Quiescent at steady state.",
         "Bounds quick: 2 names, 4 ids, 3 reconciles, 1 fault, 2 env steps (sampled); thorough: 3 names, 5 ids, 4 reconciles, 2 faults, 3 env steps.", "DESIGN.md 3 C01"),
 "C02": ("spec/Ownership.tla states the rule over write logs (a target whose controller reference names a foreign owner is never written, stays byte-identical, and the conflict surfaces); TLC enumerates placements x pre-states for the objects no other module drives (CRDs of an XRD, RBAC roles/binding/XRD roles, the package revision with the derived name incl. history GC) and the real definition/offered/RBAC/manager reconcilers run on simapi; the ForeignUntouched* riders of XRCompose (both composers), ConnSecrets (XR and claim secrets), Establisher (active and inactive revisions) and PkgManager run in the same check.",
         "Placements enumerated, not discovered: a new kind of object Crossplane starts writing needs a new case. Usage in-use label and the plain owner reference of an inactive revision are excluded as the property says.", "DESIGN.md 3 C02"),
 "C03": ("Same module as C01; the environment also chooses how and at which step the pipeline fails (function error, fatal result, requirements that never stabilise) and changes the desired set; "
         "TLC judges FailSafe (no composed write, references untouched after an observation/pipeline failure), NeverDeleteDesired and GcExact (deleted = referenced, controllable, no longer desired) on the real traces.",
         "Two-step scripted pipeline (step 1 over-approximates, the last step decides); bounds as C01.", "DESIGN.md 3 C03"),
 "C04": ("spec/Pipeline.tla is a reference interpreter of the function pipeline contract (step order, threading of desired state and context, one observation per reconcile, extra-resource rounds up to the bound, own input and credentials per step, result/condition surfacing, fatal stops) over a family of scripted programs, plus a model of the function-runner connection table; TLC enumerates pipelines of 1-3 programs x cluster contents x existing resources x transport and connection-table operation sequences; every vector is one run of the real composite.Reconciler + FunctionComposer + FetchingFunctionRunner + ExistingExtraResourcesFetcher (in process and over the real PackagedFunctionRunner on gRPC unix sockets); TLC judges 31 formulas (Order.*, Threading.*, SameObserved.*, Rounds.*, OwnInput.*, Final.*, Results.*, Routing.*, Reference.*) on every recorded call and outcome.",
         "Programs are a fixed family (13 incl. requirement chasing, growing, relabelling, never stabilising, fatal); payload values are markers; TLS and real network transports are outside.", "DESIGN.md 3 C04"),
 "C19": ("spec/Usage.tla models the Usage reconciler (one action per API call in code order, ok/fail/crash-after, two Usages interleaved call by call, selector resolution, composed Usages re-applied by the composer) with the environment (Usage creation by reference/selector, deletions of Usages, used and using resources, GC, delete requests through either served version with every propagation policy); schedules are replayed on the real usage Reconciler (one goroutine per Usage, gated) and the real webhook handler registered through SetupWebhookWithManager with the rules of cluster/webhookconfigurations/usage.yaml evaluated by simapi's delete admission; TLC judges Protected, Allowed, LabelFirst, LabelLast, Owned, IndexAgree, UsageAfterUser on every recorded state incl. admission probes for every used resource/version/policy.",
         "Known finding D11 (stale unlabel by a deleting Usage after another Usage's no-op label write). Re-creation of resources, replayDeletion and webhook call faults are not modelled.", "DESIGN.md 3 C19"),
 "C05": ("spec/Conditions.tla states when Ready/Synced may be reported; TLC enumerates every combination of per-resource ready/apply/render outcomes, XR-level ready flag, function conditions (system and custom types), fatal result and prior conditions; each vector is two or three reconciles of the real composite.Reconciler with the real composers (and of the real claim.Reconciler with both syncers for the claim leg); TLC judges ReadyTruth, SyncedTruth, NoForgery, CustomKept, UnknownOnFatal, ClaimReady on the stored conditions.",
         "Exhaustive over the vector domain (6288 vectors) in both tiers; an erroring reconcile leaves the previous Ready condition: the property is read as a statement about what a reconcile newly asserts.", "DESIGN.md 3 C05"),
 "C06": ("spec/Claim.tla models the claim reconcile of both syncers (one action per API call in code order, ok/fail/crash-after variants, stale cached reads of any earlier claim version, claim deletion, XR controller steps, a pre-existing XR bound to another claim under any name incl. the referenced one); behaviours are replayed on the real claim.Reconciler with the real syncers and name generator over simapi (stale reads served from the stored history); TLC judges OneXR, RefFirst, NoHijack on every recorded state.",
         "XR reads are fresh; two claims racing for one unbound XR are out of the quantifier; a model without the resourceVersion check violates OneXR (witness cfg).", "DESIGN.md 3 C06"),
 "C08": ("spec/Teardown.tla is the joint model of the definition, offered, claim and composite reconcilers with user deletions, Kubernetes CRD-instance cleanup, foreground GC, third-party finalizer removals and API errors; TLC explores their interleavings at call granularity; each schedule is replayed on the real reconcilers (one goroutine each, paused before the calls whose timing matters); TLC judges CrdAfterAll, StopAfterGone, XrdFinalizer, ClaimAfterXR on the recorded steps.",
         "1 XRD, 1 claim, 1 XR, <=2-3 reconciles per actor. Known finding D9 (XR re-created between the XRD reconciler's List and Stop). The package-revision/Lock and composed-Usage clauses are judged by riders of other modules.", "DESIGN.md 3 C08"),
 "C11": ("spec/XCRD.tla abstracts XRDs (versions, per-version spec/status property maps incl. names that shadow machinery fields, required lists, CEL rules, oneOf, name limits, claim names, default policies, conversion) and (old,new) pairs; every vector is materialised as a real XRD and run through the real ForCompositeResource / ForCompositeResourceClaim / ValidateUpdate / admission handler; TLC judges Versions, Scope, Owner, Author, Machinery, Collide, Immutable on the projected CRDs.",
         "Standard machinery schema = what the code emits for a reference XRD without author properties (a change to the contents of the schema tables themselves is a blind spot).", "DESIGN.md 3 C11"),
 "C07": ("spec/FieldPartition.tla states the claim/XR field partition independently of the code's tables; TLC enumerates presence/absence classes of every machinery field, user fields that shadow machinery names at other nesting levels, reserved/unreserved label keys, update policies, both syncers, first sync and re-sync; each vector is pruned by the real generated claim CRD, run through the real Sync of both syncers on simapi (real SSA field ownership) and judged by 24 TLA+ formulas.",
         "Values are atoms; two behaviours the property does not demand are deliberately not asserted (DESIGN 3 C07); look-alike label keys are an observation outside the default runs.", "DESIGN.md 3 C07"),
 "C09": ("spec/ConnSecrets.tla: TLC enumerates connection detail maps, XRD key filters, extraction configs and every pre-state of source/destination secrets; the real publisher, extractor and claim propagator (and end-to-end the real XR and claim reconcilers) run on stored secrets; TLC judges Filtered, OnlyIfAsked, ExactCopy, NoRead, NoRewrite, ForeignUntouched, OwnerOnly on each recorded outcome.",
         "Publishing is a merge patch: Filtered is judged on what this publish writes (DESIGN 3 C09).", "DESIGN.md 3 C09"),
 "C10": ("spec/Patches.tla transcribes the case analysis of P&T patches and transforms over a lattice of boundary JSON values; every enumerated vector is one run of the real Apply/Resolve/Render functions (panics recovered and recorded) and, for HalfRendered, of the real PTComposer on simapi; TLC judges Total, Determinism, SourcePure, OptionalNoop, RequiredErr, ConvertLaw/Meaning.*, HalfRendered.* on the recorded outputs.",
         "Bounded value lattice: arbitrary strings, unicode, number precision are outside it; where the API documentation is silent only totality/purity/determinism are asserted.", "DESIGN.md 3 C10"),
 "C12": ("spec/CompRev.tla models the composition revision controller (one action per API call, faults/crashes, edits incl. reverts and label-only edits, stripped owner references) and the XR-side revision fetch; behaviours are replayed on the real composition.Reconciler and APIRevisionFetcher; TLC judges OnePerContent, Faithful, Monotone, CurrentHighest, Manual, Automatic on every recorded state.",
         "List order fixed by construction of names; bounds 3-4 contents, <=4 edits, <=2 faults.", "DESIGN.md 3 C12"),
 "C13": ("spec/Engine.tla models the controller engine at the grain of its lock-protected segments (StartWatches and the collector read, release every lock, and act later); TLC explores all interleavings of concurrent callers; each schedule is replayed deterministically on the real ControllerEngine/StoppableSource/InformerTrackingCache/watch GC by pausing the real goroutines inside the fakes; plus truly concurrent stress and a race-detector run; TLC judges OneWatch, StopClean, GcOnlyUnused, Reestablish, RunningExact, NoDeadlock.",
         "Interleavings inside a lock-protected segment cannot be forced without hooks and are only reached by the stress runs; Go memory-model races are covered by go build -race, not by TLA+.", "DESIGN.md 3 C13"),
 "C15": ("spec/PkgRevision.tla models the revision reconciler's content pipeline (cache hit/miss, image layouts, tee of the stream into the cache with read/store/delete faults at document and byte positions, parser, linters, version constraints, verification gate, establish) over several reconciles sharing the cache and crashes; behaviours are replayed on the real revision.Reconciler + ImageBackend + FsPackageCache (fault-injecting fs) + parser/linters + signature reconciler with images built by the real xpkg builder; TLC judges Exact, CacheSound, Gate.*, RoundTrip on what the recording establisher was handed.",
         "Objects are tokens (kind, name, content digest); YAML/gzip/OCI byte fidelity is exercised, not modelled; establishing itself is C16's subject.", "DESIGN.md 3 C15"),
 "C16": ("spec/Establisher.tla models Establish (validate phase then establish phase, one action per call) and ReleaseObjects over upgrade/rollback sequences, pre-existing objects (absent, uncontrolled, controlled by the previous revision or by another package) and scripted rejections; behaviours are replayed on the real revision reconciler + APIEstablisher (sequential with fault sweep, and 4 workers under a seeded gate); TLC judges AllOrNothing, OnlyActiveCreates, InactivePlain, OneController, ReleaseKeeps, PkgOwner, ForeignUntouched.",
         "'Cannot be taken over' is judged on the cluster state when Establish starts; a transient API fault after full validation may leave a prefix written (interpretation in the spec).", "DESIGN.md 3 C16"),
 "C17": ("spec/Deps.tla holds the reference semantics (reachability, cycles, implied nodes, semantic-version order, constraint satisfaction, MaxSat/MinUpgrade/MaxDowngrade, Satisfied); TLC enumerates all digraphs on <=3 (4) nodes, tag lists and constraint shapes; each vector runs the real MapDag/MapUpgradingDag, the resolver Reconciler end-to-end and PackageDependencyManager.Resolve; TLC judges the outputs.",
         "Constraint strings from a fixed family of shapes; a recovered panic that installs nothing (D5) is an observation, not a violation.", "DESIGN.md 3 C17"),
 "C18": ("spec/RBAC.tla states Kubernetes' rule denotation and Covers over a small universe with wildcards; TLC enumerates allow-list x request pairs, owned CRD lists, family/registry/org combinations and XRDs; the real validator, role renderers and the provider roles/binding reconcilers run on simapi; TLC judges Sound, AllOrNone, SystemRole, Family, Binding, XrdRoles on the recorded roles.",
         "Completeness (rejecting what Kubernetes would cover) is information only. Known finding D12 (literal '*' resource name in the allow list).", "DESIGN.md 3 C18"),
 "C20": ("spec/Init.tla models the initializer steps in init.go order (one action per API call, faults/crashes, re-runs) over initial cluster contents and package reference forms; behaviours are replayed through the real initializer.Init with the real steps on simapi (fast key pool injected into the certificate generator, a sample with the real generator); TLC judges Idempotent, KeepCA, KeepCerts, Chain (x509 facts), NoDupPkg, Untouched, Bundle.",
         "Image repository identity = registry host + path as written; certificate validity is computed by crypto/x509 in the projection.", "DESIGN.md 3 C20"),
 "C14": ("TLC exhaustively explores PkgManager.tla (package manager reconcile, one action per API call, faults/crashes at every call, user edits, registry changes); every reconcile-ending transition becomes a scenario replayed on the real manager.Reconciler; "
         "TLC judges OneActive, GcSafe, AfterReconcile, ActivateLast, NameFunction on every recorded state of the real executions.",
         "Bounds: 3 digests, 2 tags, <=4 edits, <=2 faults, <=5 reconciles; quick samples 3000 of the emitted scenarios + real-call-index fault sweep.", "DESIGN.md 3 C14"),
}


def entry(pid):
    text, note, ref = CHECKS[pid]
    return {"property_id": pid, "quick_cmd": "./check %s --tier quick" % pid, "thorough_cmd": "./check %s --tier thorough" % pid,
            "evidence_file": "evidence/%s.json" % pid, "replay_cmd_template": "./check %s --replay {path}" % pid, "engine": "tla-trace",
            "level_claimed": {"category": "model_checking", "text": text, "design_ref": ref},
            "level_note": BASE_NOTE + note, "technique": TECH}


def main():
    p = os.path.join(V, "MANIFEST.json")
    m = json.load(open(p))
    m["checks"] = [entry(k) for k in sorted(CHECKS)]
    m["engines"] = [{"name": "tla-trace", "path": "check", "serves_properties": sorted(CHECKS),
                     "kind_free_text": "TLC model checking of spec/*.tla, replay of TLC-generated behaviours on the real code over harness/simapi, TLC trace validation of the recorded executions (spec/Mon*.tla)"}]
    na = {x["property_id"]: x for x in m.get("not_applicable", [])}
    m["not_applicable"] = [na.get(k, {"property_id": k, "reason": "check under construction in this session (see DESIGN.md section 7)"})
                           for k in ["C%02d" % i for i in range(1, 21)] if k not in CHECKS]
    json.dump(m, open(p, "w"), indent=1)
    print("claimed:", sorted(CHECKS))


if __name__ == "__main__":
    main()
