"""C09 - connection details reach only their owner's secret, filtered, from the right XR.
Reference semantics + the code as read: spec/ConnSecrets.tla; vectors: spec/MCConnSecrets.tla;
driver: harness/drivers/connsecrets (real APIFilteredSecretPublisher.PublishConnection,
APIConnectionPropagator.PropagateConnection, ExtractConnectionDetails, and end-to-end the real XR
and claim reconcilers, all against stored Secrets on simapi); judge: spec/MonConnSecrets.tla."""
import glob
import json
import os
import re

import vlib

PID = "C09"
# formulas of MonClaimLifecycle.tla about the claim's connection secret on the production stack (wiring rider)
WIRING_EXTRA = ["Conn.Recorded", "Conn.Published", "Conn.Secret"]
MON_FORMULAS = ["Filtered.Body", "Filtered.Store", "Filtered.WholeSecret", "OnlyIfAsked", "ExactCopy", "NoRead",
                "NoRewrite.Write", "NoRewrite.Published", "ForeignUntouched", "ForeignUntouched.UncontrolledOpaque",
                "OwnerOnly", "Surfaces", "Extract.Keys", "Extract.Values", "Extract.ErrorEmpty"]
INFO_FORMULAS = ["Drift.Publish", "Drift.Propagate", "Drift.Extract", "Info.Retained", "Info.NeverAdopted", "Info.NoopRewrite"]
MAX_REPLAY_FILES_PER_FORMULA = 10
NONE = "-"


def regression():
    out = []
    for p in sorted(glob.glob(os.path.join(vlib.VERIF, "scenarios", PID, "*.json"))):
        with open(p) as f:
            out.append(json.load(f))
    return out


def random_vectors(ctx, n):
    """Seeded random vectors beyond the domain TLC enumerates: four keys, three value atoms, extraction
    config lists of three or four entries. Same record shape as the emitted vectors."""
    rng = ctx.rng
    keys, vals = ["k1", "k2", "k3", "k4"], ["v1", "v2", "v3"]

    def dmap(p=0.5):
        return {k: (rng.choice(vals) if rng.random() < p else NONE) for k in keys}

    def near(m):
        """a map related to m: equal, a subset, a superset, one value changed"""
        m = dict(m)
        r = rng.random()
        ks = [k for k in keys if m[k] != NONE]
        if r < 0.3:
            return m
        if r < 0.5 and ks:
            m[rng.choice(ks)] = NONE
        elif r < 0.7:
            m[rng.choice(keys)] = rng.choice(vals)
        elif ks:
            m[rng.choice(ks)] = rng.choice(vals)
        return m

    def sec(ctrls, like):
        if rng.random() < 0.12:
            return dict(exists=False, ctrl="none", type="none", data={k: NONE for k in keys})
        return dict(exists=True, ctrl=rng.choice(ctrls), type=rng.choice(["conn", "conn", "opaque"]),
                    data=near(like) if rng.random() < 0.7 else dmap())

    def base(fam):
        e = {k: NONE for k in keys}
        gone = dict(exists=False, ctrl="none", type="none", data=dict(e))
        return dict(fam=fam, details=dict(e), details2=dict(e), filter=[], xwants=True, cwants=True,
                    xsec=gone, csec=dict(gone, data=dict(e)), cfgs=[], cdata=dict(e))

    def cfg():
        tp = rng.choice(["key", "path", "value", "value", "key", "other"])
        name = rng.choice(keys + keys + keys + [""])
        if tp == "key":
            arg = rng.choice(keys + keys + ["nil"])
        elif tp == "path":
            arg = rng.choice(["pstr", "pnum", "pobj", "pmissing", "pbad", "pstr", "pmissing", "nil"])
        elif tp == "value":
            arg = rng.choice(vals + vals + vals + ["nil"])
        else:
            arg, name = "x", rng.choice(keys)
        return dict(tp=tp, name=name, arg=arg)

    out = []
    for i in range(n):
        r = rng.random()
        if r < 0.4:
            v = base("publish")
            v["details"] = dmap(0.6)
            v["filter"] = sorted(rng.sample(keys, rng.randint(0, 3))) if rng.random() < 0.7 else []
            allowed = [k for k in keys if v["details"][k] != NONE and (not v["filter"] or k in v["filter"])]
            want = {k: (v["details"][k] if k in allowed else NONE) for k in keys}
            v["xwants"] = rng.random() < 0.9
            v["xsec"] = sec(["none", "xr", "xr", "other"], want)
        elif r < 0.75:
            v = base("propagate")
            v["xwants"], v["cwants"] = rng.random() < 0.93, rng.random() < 0.93
            v["xsec"] = sec(["xr", "xr", "xr", "none", "plain", "other"], dmap())
            v["csec"] = sec(["none", "claim", "claim", "other"], v["xsec"]["data"])
        else:
            v = base("extract")
            v["cfgs"] = [cfg() for _ in range(rng.randint(3, 4))]
            # mostly well-formed lists, so that long lists also reach the extraction proper
            if rng.random() < 0.7:
                v["cfgs"] = [c for c in v["cfgs"] if c["name"] != "" and c["arg"] != "nil"] or [dict(tp="value", name="k1", arg="v1")]
            v["cdata"] = dmap()
        out.append({"id": "%s-rnd%d-%06d" % (PID, ctx.seed, i), "input": v})
    return out


def monitor_extras(ctx):
    """INFO|<name>|<line>|<scenario> and HITS|name=n|... lines of the monitor runs (information / anti-vacuity, never a verdict)."""
    info, examples, hits = {}, {}, {}
    for out in glob.glob(os.path.join(ctx.work, "mon*", "tlc_MonConnSecrets.out")):
        with open(out) as f:
            txt = f.read()
        for m in re.finditer(r'^"INFO\|([^|"]+)\|(\d+)\|([^"]*)"$', txt, re.M):
            info[m.group(1)] = info.get(m.group(1), 0) + 1
            examples.setdefault(m.group(1), m.group(3))
        for m in re.finditer(r'^"HITS\|([^"]*)"$', txt, re.M):
            for kv in m.group(1).split("|"):
                k, v = kv.rsplit("=", 1)
                hits[k] = hits.get(k, 0) + int(v)
    return info, examples, hits


def drive_and_judge(ctx, scs, shards=8):
    by_id = {s["id"]: s for s in scs}
    binp = ctx.go_build("./drivers/connsecrets")
    prefix, s = ctx.run_sharded(binp, scs, ["-seed", str(ctx.seed)], shards=shards)
    viols, nlines = ctx.monitor("MonConnSecrets", prefix, par=8)
    files, per_formula = {}, {}
    for formula, line, scid in sorted(viols, key=lambda v: (v[0], v[2])):
        per_formula[formula] = per_formula.get(formula, 0) + 1
        if per_formula[formula] <= MAX_REPLAY_FILES_PER_FORMULA:
            files[(formula, per_formula[formula])] = ctx.replay_file(by_id.get(scid, {"id": scid}))
            rp = files[(formula, per_formula[formula])]
        else:
            rp = files[(formula, 1)]  # more of the same formula: point at the first scenario
        ctx.violation(formula, scid, rp, "trace line %d" % line, fingerprint=formula)
    info, examples, hits = monitor_extras(ctx)
    return s, nlines, per_formula, info, examples, hits


def run(ctx):
    quick = ctx.quick
    cfg = "MCConnSecrets_quick.cfg" if quick else "MCConnSecrets_thorough.cfg"
    mc = ctx.model_check("MCConnSecrets", cfg, workers=8 if quick else 16, timeout=120 if quick else 1500)
    vecs = [{"id": "%s-%07d" % (PID, i), "input": v} for i, v in ctx.sample_lines(mc["emitted_file"], mc["emitted"], mc["emitted"])]
    direct = [s for s in vecs if not s["input"]["fam"].startswith("e2e")]
    e2e = [s for s in vecs if s["input"]["fam"] == "e2e"]
    e2ept = [s for s in vecs if s["input"]["fam"] == "e2ept"]
    e2eobs = [s for s in vecs if s["input"]["fam"] == "e2eobs"]
    e2e_all = len(e2e) + len(e2ept) + len(e2eobs)
    # a reconcile-level scenario costs 5-15 ms (two to six real reconciles): the quick tier replays a seeded sample of them
    e2e = ctx.sample(e2e, 1200 if quick else 10 ** 9) + ctx.sample(e2ept, 1200 if quick else 10 ** 9) + ctx.sample(e2eobs, 600 if quick else 10 ** 9)
    rnd = random_vectors(ctx, 6000 if quick else 80000)
    chosen = regression() + direct + e2e + rnd
    s, nlines, per_formula, info, examples, hits = drive_and_judge(ctx, chosen)
    from checks import wiring_rider
    wr = wiring_rider.run(ctx, PID, extra=WIRING_EXTRA)
    samples = []
    for ev in s.get("samples", [])[:3]:
        o = ev["obs"]
        samples.append({"scenario": ev["scenario"], "fam": ev["fam"], "step": ev["step"], "input": ev["input"],
                        "obs": {k: o[k] for k in ("leg", "details", "filter", "xpre", "xpost", "cpre", "cpost", "published", "err", "writes", "xout", "xerr")}})
    ctx.cov.update(dict(
        wiring_rider=wr,
        states=mc["states"], transitions=mc["transitions"], traces_validated_against_impl=s["runs"], samples=samples,
        model_runs={cfg: dict(states=mc["states"], transitions=mc["transitions"], vectors=mc["emitted"])},
        vectors_emitted=mc["emitted"], vectors_replayed=len(direct) + len(e2e), e2e_emitted=e2e_all, e2e_replayed=len(e2e),
        regression_scenarios=len(chosen) - len(direct) - len(e2e) - len(rnd), random_vectors=len(rnd),
        vectors_by_family=s["by_family"], events=nlines, driver_counts=s["counts"], antecedent_hits=hits,
        monitor_formulas=MON_FORMULAS, violations_by_formula=per_formula,
        information=dict(counts=info, examples=examples, formulas=INFO_FORMULAS),
        drift=dict(publish=info.get("Drift.Publish", 0), propagate=info.get("Drift.Propagate", 0), extract=info.get("Drift.Extract", 0)),
        exhaustive=(e2e_all == len(e2e)),
        checker_cmd="tlc MCConnSecrets (M,G: vectors) -> harness/drivers/connsecrets on /repo (T) -> tlc MonConnSecrets",
        rule="every emitted publish / propagate / extract vector is run through the real function against stored Secrets (one trace record "
             "per vector); e2e vectors run three XR reconciles and three claim reconciles of the real reconcilers (one record per reconcile), "
             "e2ept vectors two XR reconciles with the real P&T composer (an extract and a publish record per reconcile)",
    ))
    ctx.assumptions += [
        "simapi stands in for the API server (stored Secrets, resourceVersions, merge patch, Update, no-op writes keep the resourceVersion); "
        "it does not model that a Secret's type is immutable",
        "publishing is a merge patch: Filtered is judged on what each publish writes (request body and store diff); the whole-secret form only "
        "on reconcile histories that start without a secret and keep the XRD filter constant",
        "an uncontrolled secret is adoptable only if it is of the connection type (what ConnectionSecretMustBeControllableBy demands)",
        "'identical data' = the secret's current data equals the data this publish / propagation carries",
        "verdict only from outcomes of the real code judged by MonConnSecrets.tla; Drift.* and Info.* are information",
    ]


def replay(ctx, path):
    with open(path) as f:
        sc = json.load(f)
    if sc.get("rider") == "wiring":
        from checks import wiring_rider
        return wiring_rider.replay(ctx, path, extra=WIRING_EXTRA)
    s, nlines, per_formula, info, examples, hits = drive_and_judge(ctx, [sc], shards=1)
    ctx.cov.update(dict(states=1, transitions=1, traces_validated_against_impl=s["runs"], samples=[sc], events=nlines,
                        violations_by_formula=per_formula, information=dict(counts=info), antecedent_hits=hits))
