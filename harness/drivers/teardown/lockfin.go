package main

// The package clause of C08 (spec/LockFin.tla): the real package revision
// reconciler's deletion branch with the real PackageDependencyManager.RemoveSelf
// on simapi; faults at the model's calls and a sweep over every real call index.

import (
	"context"
	"encoding/json"
	"fmt"
	"io"
	"os"
	"strings"

	metav1 "k8s.io/apimachinery/pkg/apis/meta/v1"
	"k8s.io/apimachinery/pkg/runtime"
	"k8s.io/apimachinery/pkg/types"
	"k8s.io/utils/ptr"
	"sigs.k8s.io/controller-runtime/pkg/reconcile"

	pkgv1 "github.com/crossplane/crossplane/apis/pkg/v1"
	pkgv1beta1 "github.com/crossplane/crossplane/apis/pkg/v1beta1"
	"github.com/crossplane/crossplane/internal/controller/pkg/revision"
	"github.com/crossplane/crossplane/internal/dag"
	"github.com/crossplane/crossplane/internal/xpkg"
	"github.com/crossplane/crossplane/zzverif/fakes"
	"github.com/crossplane/crossplane/zzverif/replay"
	"github.com/crossplane/crossplane/zzverif/scen"
	"github.com/crossplane/crossplane/zzverif/simapi"
	"github.com/crossplane/crossplane/zzverif/trace"
)

const (
	lfRev  = "prov-abc123"
	finRev = "revision.pkg.crossplane.io"
)

type nopCache struct{}

func (nopCache) Has(string) bool                   { return false }
func (nopCache) Get(string) (io.ReadCloser, error) { return nil, fmt.Errorf("empty") }
func (nopCache) Store(string, io.ReadCloser) error { return nil }
func (nopCache) Delete(string) error               { return nil }

type lfWorld struct {
	s    *simapi.Server
	c    *simapi.Client
	rec  reconcile.Reconciler
	tw   *trace.Writer
	scen string
	al   *replay.Aligner
}

func (w *lfWorld) post() map[string]any {
	rk := simapi.Key{Group: "pkg.crossplane.io", Kind: "ProviderRevision", Name: lfRev}
	r := w.s.Peek(rk)
	fin := r != nil && has(r.GetFinalizers(), finRev)
	inLock := false
	if l := w.s.Peek(simapi.Key{Group: "pkg.crossplane.io", Kind: "Lock", Name: "lock"}); l != nil {
		b, _ := json.Marshal(l.Object["packages"])
		inLock = strings.Contains(string(b), `"name":"`+lfRev+`"`)
	}
	return map[string]any{"fin": fin, "ex": r != nil, "inLock": inLock}
}

func (w *lfWorld) emit(ev string, m map[string]any) {
	base := map[string]any{"ev": ev, "scenario": w.scen, "abs": "", "outcome": "", "injected": "", "post": w.post()}
	for k, v := range m {
		base[k] = v
	}
	w.tw.Emit(base)
}

func (w *lfWorld) classify(c *simapi.Call) string {
	v := c.Verb
	if c.Sub != "" {
		return "pre:status"
	}
	switch c.Key.Kind {
	case "ProviderRevision":
		return v + ":rev"
	case "Lock":
		return v + ":lock"
	}
	return "pre:" + c.Key.Kind
}

func newLF(tw *trace.Writer, id, lockState, desired string) *lfWorld {
	sch := runtime.NewScheme()
	_ = pkgv1.AddToScheme(sch)
	_ = pkgv1beta1.AddToScheme(sch)
	s := simapi.NewServer(sch)
	s.NoStatus(simapi.Key{Group: "pkg.crossplane.io", Kind: "Lock"}.GK())
	w := &lfWorld{s: s, c: simapi.NewClient(s, "rev"), tw: tw, scen: id}
	pr := &pkgv1.ProviderRevision{ObjectMeta: metav1.ObjectMeta{Name: lfRev, Finalizers: []string{finRev}, Labels: map[string]string{pkgv1.LabelParentPackage: "prov"}}}
	pr.Spec.Package = "xpkg.example.org/org/prov:v1"
	pr.Spec.DesiredState = pkgv1.PackageRevisionActive
	if desired == "Inactive" {
		pr.Spec.DesiredState = pkgv1.PackageRevisionInactive
	}
	s.Put(pr)
	s.MarkDeleted(simapi.Key{Group: "pkg.crossplane.io", Kind: "ProviderRevision", Name: lfRev})
	if lockState != "nolock" {
		l := &pkgv1beta1.Lock{ObjectMeta: metav1.ObjectMeta{Name: "lock"}}
		other := pkgv1beta1.LockPackage{Name: "other-rev", Type: ptr.To(pkgv1beta1.ProviderPackageType), Source: "xpkg.example.org/org/other", Version: "v1"}
		own := pkgv1beta1.LockPackage{Name: lfRev, Type: ptr.To(pkgv1beta1.ProviderPackageType), Source: "xpkg.example.org/org/prov", Version: "v1"}
		switch lockState {
		case "entry":
			l.Packages = []pkgv1beta1.LockPackage{other, own}
		case "entryfirst":
			l.Packages = []pkgv1beta1.LockPackage{own, other}
		case "entryonly":
			l.Packages = []pkgv1beta1.LockPackage{own}
		default:
			l.Packages = []pkgv1beta1.LockPackage{other}
		}
		s.Put(l)
	}
	mgr := &fakes.Manager{Client: w.c, Sch: sch}
	w.rec = revision.NewReconciler(mgr,
		revision.WithCache(nopCache{}),
		revision.WithNewPackageRevisionFn(func() pkgv1.PackageRevision { return &pkgv1.ProviderRevision{} }),
		revision.WithDependencyManager(revision.NewPackageDependencyManager(w.c, dag.NewMapDag, pkgv1.ProviderGroupVersionKind)),
		revision.WithConfigStore(xpkg.NewImageConfigStore(w.c, "crossplane-system")),
		revision.WithNamespace("crossplane-system"))
	w.c.Intercept = func(c *simapi.Call) simapi.Decision {
		if w.al == nil {
			return simapi.Proceed
		}
		return w.al.OnCall(w.classify(c), c.Write)
	}
	s.OnEvent = func(e *simapi.Event) {
		if e.Outcome == "dropped" && e.Injected == "" {
			return
		}
		abs := w.classify(&simapi.Call{Verb: e.Verb, Sub: e.Sub, Key: simapi.Key{Group: e.Group, Kind: e.Kind, Name: e.Name}})
		w.emit("call", map[string]any{"abs": abs, "outcome": e.Outcome, "injected": e.Injected})
	}
	return w
}

func (w *lfWorld) reconcile(al *replay.Aligner, sweepIdx int, d simapi.Decision) int {
	al.Ignore = func(abs string) bool { return strings.HasPrefix(abs, "pre:") }
	w.al = al
	w.c.BeginReconcile()
	if sweepIdx > 0 {
		inner := w.c.Intercept
		w.c.Intercept = func(c *simapi.Call) simapi.Decision {
			r := inner(c)
			if c.Idx == sweepIdx && r == simapi.Proceed {
				if d == simapi.FailConflict && !c.Write {
					return simapi.FailError
				}
				return d
			}
			return r
		}
		defer func() { w.c.Intercept = inner }()
	}
	_, _ = w.rec.Reconcile(context.Background(), reconcile.Request{NamespacedName: types.NamespacedName{Name: lfRev}})
	al.Finish()
	w.emit("end", nil)
	w.al = nil
	return w.c.Calls()
}

func lockfinMain(scenarios, tracePath, sumPath string) {
	raws, err := scen.Load(scenarios)
	if err != nil {
		fmt.Fprintln(os.Stderr, err)
		os.Exit(2)
	}
	tw, err := trace.New(tracePath)
	if err != nil {
		fmt.Fprintln(os.Stderr, err)
		os.Exit(2)
	}
	runs, drift := 0, 0
	samples := []any{}
	for _, raw := range raws {
		var sc struct {
			ID   string          `json:"id"`
			Hist json.RawMessage `json:"hist"`
		}
		if err := json.Unmarshal(raw, &sc); err != nil {
			fmt.Fprintln(os.Stderr, err)
			os.Exit(2)
		}
		hist, err := replay.Parse(sc.Hist)
		if err != nil || len(hist) == 0 {
			fmt.Fprintln(os.Stderr, "bad history")
			os.Exit(2)
		}
		if len(samples) < 2 {
			samples = append(samples, json.RawMessage(raw))
		}
		one := func(id string, sweepRec, sweepIdx int, d simapi.Decision) []int {
			tw.Boundary()
			w := newLF(tw, id, hist[0].K, hist[0].O)
			w.emit("reset", nil)
			blocks, _ := replay.Split(hist[1:], func(e replay.Entry) bool { return e.K == "get:rev" })
			calls := []int{}
			for i, b := range blocks {
				// the model's abstract keys carry the verb and kind in K
				steps := make([]replay.Entry, len(b.Steps))
				for j, e := range b.Steps {
					steps[j] = replay.Entry{T: e.T, K: strings.SplitN(e.K, ":", 2)[0], O: strings.SplitN(e.K+":", ":", 3)[1], F: e.F}
				}
				al := &replay.Aligner{Steps: steps, Variant: simapi.FailError}
				si := 0
				if sweepRec == i+1 {
					si = sweepIdx
				}
				calls = append(calls, w.reconcile(al, si, d))
				if sweepRec == 0 {
					drift += al.Drift
				}
			}
			for i := 0; i < 2; i++ {
				calls = append(calls, w.reconcile(&replay.Aligner{}, 0, d))
			}
			runs++
			return calls
		}
		calls := one(sc.ID, 0, 0, simapi.Proceed)
		for r, n := range calls {
			for k := 1; k <= n; k++ {
				for _, d := range []simapi.Decision{simapi.FailError, simapi.FailConflict, simapi.CrashBefore, simapi.CrashAfter} {
					one(fmt.Sprintf("%s/sweep-r%d-k%d-%s", sc.ID, r+1, k, d), r+1, k, d)
				}
			}
		}
	}
	_ = tw.Close()
	_ = scen.WriteJSON(sumPath, map[string]any{"scenarios": len(raws), "runs": runs, "events": tw.Lines, "drift": drift, "counts": tw.Counts, "samples": samples})
}
