#!/usr/bin/env python3
"""Confirm and evaluate a seeded change written by an independent agent.

  tools/seed.py <PROP> <outdir> <i> <pkgdir> <TestRegex> [--checks C01,C03] [--tier quick]

1. confirm in the scratch worktree /tmp/wt-<prop> (never in /repo): demo passes on the clean tree; with the
   diff applied the tree builds, the existing tests of the touched packages pass (demo absent) and the demo fails;
2. evaluate: apply the diff to /repo, run ./check for the property (and any --checks), undo it straight afterwards;
3. keep it as /verif/seeded/<PROP>-m<i>/ {patch.diff, demo, meta.json}.
"""
import argparse
import json
import os
import re
import shutil
import subprocess
import sys

ENV = dict(os.environ, GOFLAGS="-mod=mod", GOPROXY="off", GOSUMDB="off", GOTOOLCHAIN="local")
V = "/verif"


def sh(cmd, cwd=None, timeout=3600):
    p = subprocess.run(cmd, cwd=cwd, env=ENV, shell=isinstance(cmd, str), stdout=subprocess.PIPE, stderr=subprocess.STDOUT, text=True, timeout=timeout)
    return p.returncode, p.stdout


def main():
    ap = argparse.ArgumentParser()
    ap.add_argument("prop")
    ap.add_argument("outdir")
    ap.add_argument("i")
    ap.add_argument("pkgdir")
    ap.add_argument("test")
    ap.add_argument("--checks", default="")
    ap.add_argument("--tier", default="quick")
    ap.add_argument("--skip-confirm", action="store_true")
    ap.add_argument("--in-repo", action="store_true", help="apply the diff to /repo itself (and undo it) instead of binding the scratch worktree at /repo in a private mount namespace")
    a = ap.parse_args()
    wt = "/tmp/wt-" + a.prop.lower()
    diff = os.path.join(a.outdir, "m%s.diff" % a.i)
    demos = [f for f in os.listdir(a.outdir) if f.startswith("m%s_demo" % a.i)]
    demo = os.path.join(a.outdir, demos[0])
    sid = "%s-m%s" % (a.prop, a.i)
    meta = {"id": sid, "property": a.prop, "source": "independent sub-agent given only the property text and a scratch worktree",
            "demo": {"file": demos[0], "package_dir": a.pkgdir, "run": "go test ./%s -run '%s' -count=1" % (a.pkgdir, a.test)}}
    md = os.path.join(a.outdir, "m%s.md" % a.i)
    if os.path.exists(md):
        meta["needs_to_manifest"] = open(md).read()
    confirm = {}
    if not a.skip_confirm:
        sh("git checkout -- . && git clean -fdq", cwd=wt)
        dst = os.path.join(wt, a.pkgdir, "zz_" + demos[0])
        shutil.copy(demo, dst)
        rc, out = sh("go test ./%s -run '%s' -count=1" % (a.pkgdir, a.test), cwd=wt)
        confirm["demo_on_clean_tree"] = "pass" if rc == 0 else "FAIL"
        os.remove(dst)
        rc, out = sh("git apply %s" % diff, cwd=wt)
        confirm["diff_applies"] = rc == 0
        touched = sorted({os.path.dirname(l[6:]) for l in open(diff) if l.startswith("+++ b/") and l.strip().endswith(".go")})
        rc, out = sh("go build ./...", cwd=wt)
        confirm["builds"] = rc == 0
        rc, out = sh("go test -count=1 " + " ".join("./" + t + "/..." for t in touched), cwd=wt)
        confirm["existing_tests_of_touched_packages"] = "pass" if rc == 0 else "FAIL: " + out[-500:]
        shutil.copy(demo, dst)
        rc, out = sh("go test ./%s -run '%s' -count=1" % (a.pkgdir, a.test), cwd=wt)
        confirm["demo_with_change"] = "fails (as required)" if rc != 0 else "PASSES (invalid seed)"
        confirm["demo_failure_excerpt"] = "\n".join(l for l in out.splitlines() if "---" in l or "Error" in l or "violat" in l.lower())[:1500]
        os.remove(dst)
        sh("git checkout -- . && git clean -fdq", cwd=wt)
        meta["confirmed"] = confirm
        print(json.dumps(confirm, indent=1))
        ok = confirm["demo_on_clean_tree"] == "pass" and confirm["diff_applies"] and confirm["builds"] and \
            confirm["existing_tests_of_touched_packages"] == "pass" and confirm["demo_with_change"].startswith("fails")
        if not ok:
            print("NOT CONFIRMED - not kept")
            sys.exit(3)
    # evaluate
    checks = [a.prop] + [c for c in a.checks.split(",") if c]
    results = {}

    def record(c, rc, out):
        forms = {}
        for m in re.finditer(r"^VIOLATION .*formula=(\S+)", out, re.M):
            forms[m.group(1)] = forms.get(m.group(1), 0) + 1
        results[c] = {"tier": a.tier, "exit": rc, "formulas": forms, "tail": out.strip().splitlines()[-1] if out.strip() else ""}
        print(c, results[c])
    if a.in_repo:
        rc, out = sh("git -C /repo status --porcelain --untracked-files=no")
        if out.strip():
            print("/repo is not clean:", out)
            sys.exit(2)
        rc, out = sh("git -C /repo apply %s" % diff)
        try:
            for c in checks:
                record(c, *sh("./check %s --tier %s" % (c, a.tier), cwd=V, timeout=7200))
        finally:
            sh("git -C /repo checkout -- .")
        meta["evaluated_how"] = "git -C /repo apply <patch.diff>; ./check ...; git -C /repo checkout -- ."
    else:
        # the scratch worktree (same commit as /repo, diff applied) is bound at /repo and a copy of /verif at /verif,
        # in a private mount namespace: the checks run unchanged and nothing outside the namespace sees the change
        rc, out = sh("git -C /repo rev-parse HEAD")
        rc2, out2 = sh("git rev-parse HEAD", cwd=wt)
        if out.strip() != out2.strip():
            print("scratch worktree is not at /repo's HEAD")
            sys.exit(2)
        sh("git checkout -- . && git clean -fdq", cwd=wt)
        rc, out = sh("git apply %s" % diff, cwd=wt)
        if rc != 0:
            print("diff does not apply:", out)
            sys.exit(2)
        vc = "/tmp/vc-" + sid
        sh("rm -rf %s && mkdir -p %s && rsync -a --exclude .work --exclude .git --exclude evidence /verif/ %s/ && mkdir -p %s/evidence" % (vc, vc, vc, vc))
        try:
            for c in checks:
                record(c, *sh("unshare -m sh -c 'mount --bind %s /repo && mount --bind %s /verif && cd /verif && ./check %s --tier %s'"
                              % (wt, vc, c, a.tier), timeout=7200))
        finally:
            sh("git checkout -- . && git clean -fdq", cwd=wt)
            sh("rm -rf " + vc)
        meta["evaluated_how"] = ("scratch worktree at /repo's HEAD with patch.diff applied, bound at /repo in a private mount "
                                 "namespace (unshare -m; mount --bind), ./check run there unchanged")
    meta["evaluation"] = results
    meta["caught"] = any(r["exit"] == 1 for r in results.values())
    d = os.path.join(V, "seeded", sid)
    os.makedirs(d, exist_ok=True)
    mp = os.path.join(d, "meta.json")
    if os.path.exists(mp):
        old = json.load(open(mp))
        if "confirmed" not in meta and "confirmed" in old:
            meta["confirmed"] = old["confirmed"]
        hist = old.get("history", [])
        hist.append({"evaluation": old.get("evaluation"), "caught": old.get("caught")})
        meta["history"] = hist
    shutil.copy(diff, os.path.join(d, "patch.diff"))
    shutil.copy(demo, os.path.join(d, demos[0]))
    with open(os.path.join(d, "meta.json"), "w") as f:
        json.dump(meta, f, indent=1)
    print(sid, "caught" if meta["caught"] else "MISSED")


if __name__ == "__main__":
    main()
