SPECIFICATION Spec
CONSTANTS
  Comps <- Comps2
  Attr <- AttrAll
  InitComps <- InitAll
  InitRefs <- NoneOnly
  InitSels <- SelsBoth
  InitDefs <- NoneOnly
  InitEnfs <- NoneOnly
  InitUser <- OnlyFalse
  InitOFin <- OnlyFalse
  MaxRecs = 1
  MaxFaults = 1
  MaxEnv = 1
  MidEnv = TRUE
  EnvKinds <- EnvXR
  FaultKinds <- NoFaults
  ComposeOuts <- OutsOk
  FinFirst = TRUE
  RvCheck = FALSE
VIEW view
ACTION_CONSTRAINT Emit
CHECK_DEADLOCK FALSE
INVARIANTS StepProps
