------------------------------ MODULE MCEngine ------------------------------
EXTENDS Engine, Json
\* one schedule per transition that completes an operation
Emit == (\E p \in Procs : nops'[p] # nops[p]) => PrintT(<<"TRACE", ToJson(hist')>>)
SW_a == {<<"xr">>, <<"cdA">>, <<"xr", "cdA">>}
SW_b == {<<"xr", "rev">>, <<"cdA">>, <<"cdA", "cdB">>}
AllOps == {"Start", "Stop", "IsRunning", "GetWatches", "StartWatches", "StopWatches", "GC", "RemoveInformer", "ChangeRefs", "CachedRead"}
CoreOps == {"Start", "Stop", "StartWatches", "GC", "RemoveInformer"}
ReadOps == {"Start", "StartWatches", "RemoveInformer", "CachedRead"}
=============================================================================
