---------------------------- MODULE MonOwnership ----------------------------
EXTENDS Ownership, Json, IOUtils
Trace == ndJsonDeserialize(IOEnv.VERIF_TRACE)
VARIABLE l
Viol(name, i) == PrintT("VIOL|" \o name \o "|" \o ToString(i) \o "|" \o Trace[i].scenario)
Check(i) ==
  LET r == Trace[i] IN
  /\ (ForeignUntouched(r) \/ Viol("ForeignUntouched." \o r.case, i))
  /\ (ForeignFrozen(r) \/ Viol("ForeignFrozen." \o r.case, i))
  /\ (Surfaces(r) \/ Viol("Surfaces." \o r.case, i))
  /\ (Exercised(r) \/ Viol("Exercised." \o r.case, i))
Init == l = 0
Next == /\ l < Len(Trace) /\ l' = l + 1 /\ Check(l')
        /\ (l' < Len(Trace) \/ PrintT("DONE|" \o ToString(l')))
Spec == Init /\ [][Next]_l
=============================================================================
