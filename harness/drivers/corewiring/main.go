// Driver for spec/CoreWiring.tla (check X12): what the PRODUCTION Setup functions of the apiextensions and rbac
// controllers, the options functions of the XRD controllers and the admission webhook Setup functions wire.
//
// For every input vector TLC enumerates (feature flags, poll interval, concurrency, XRD shape; allow-list ClusterRole and
// default registry for rbac) the driver calls the real internal/controller/apiextensions.Setup or
// internal/controller/rbac.Setup with a capturing manager (infra.go: capManager embeds harness/fakes.Manager and keeps the
// Runnables handed to Add) and then observes every captured controller, behaviourally wherever the code allows:
//
//   - what it watches (controller-runtime's internal Controller: Do, startWatches - a source.Kind with type, handler,
//     predicates - by reflection) and which requests every watch enqueues for create / update / delete / generic events
//     of a fixed set of probe objects (recording work queue; the handlers list through whatever client they were given);
//   - the wrappers around the reconciler: a holding global rate limiter must stop the request before the API is reached
//     (and must be asked under this controller's name); a Conflict handed to the first read must come back as "requeue,
//     no error", a plain error as an error; the work queue's own back-off (first delay, cap);
//   - logger, event recorder and poll interval handed on: log lines / events of probe reconciles arrive at
//     Options.Logger with controller=<name> / at the manager's recorder for <name>; RequeueAfter of a settled reconcile;
//   - which API client every call goes through: the manager's client, the engine's cached and uncached clients are three
//     NAMED clients of one simapi server; plus, structurally, which of them each reconciler / handler reaches at all;
//   - the captured definition / offered reconcilers are run on simapi (the API server establishing the CRDs in between)
//     until they start the XR / claim controller on a capturing engine that serves the clients of the REAL
//     engine.ControllerEngine given to Setup; the started controllers get the same treatment, their parts (composer
//     per mode, publishers, fetchers, configurators, selectors, syncer, upgrader, propagator, unpublisher, watch
//     starter, garbage collector, field index) are reported, and XRs / a claim are reconciled through them: P&T and
//     Pipeline mode (function called through the real PackagedFunctionRunner over gRPC), each with the composed resource
//     in the informer cache and missing from it;
//   - the three webhook Setup functions: paths, field indexes, and AdmissionReview requests over HTTP (is schema
//     validation done under the flag, which operations are answered), next to the shipped webhook configurations.
//
// Output: NDJSON records "setup", "ctl" (one per controller), "dyn" (XR / claim controller), "hook", "hookcfg",
// "uniform" (all controllers side by side). No judgement happens here: MonCoreWiring.tla compares them with CoreWiring.tla.
package main

import (
	"encoding/json"
	"flag"
	"fmt"
	"os"
	"path/filepath"

	admv1 "k8s.io/api/admissionregistration/v1"
	appsv1 "k8s.io/api/apps/v1"
	corev1 "k8s.io/api/core/v1"
	rbacv1 "k8s.io/api/rbac/v1"
	extv1 "k8s.io/apiextensions-apiserver/pkg/apis/apiextensions/v1"
	apimeta "k8s.io/apimachinery/pkg/api/meta"
	kruntime "k8s.io/apimachinery/pkg/runtime"

	apixv1 "github.com/crossplane/crossplane/apis/apiextensions/v1"
	apixv1beta1 "github.com/crossplane/crossplane/apis/apiextensions/v1beta1"
	pkgv1 "github.com/crossplane/crossplane/apis/pkg/v1"
	secretsv1alpha1 "github.com/crossplane/crossplane/apis/secrets/v1alpha1"
	"github.com/crossplane/crossplane/zzverif/scen"
	"github.com/crossplane/crossplane/zzverif/trace"
)

var (
	theScheme *kruntime.Scheme
	theMapper apimeta.RESTMapper
)

func must(err error) {
	if err != nil {
		fmt.Fprintln(os.Stderr, "driver:", err)
		os.Exit(2)
	}
}

func initScheme() {
	theScheme = kruntime.NewScheme()
	for _, add := range []func(*kruntime.Scheme) error{apixv1.AddToScheme, apixv1beta1.AddToScheme, pkgv1.AddToScheme, extv1.AddToScheme,
		corev1.AddToScheme, appsv1.AddToScheme, rbacv1.AddToScheme, admv1.AddToScheme, secretsv1alpha1.AddToScheme} {
		must(add(theScheme))
	}
	theMapper = newMapper()
}

type summary struct {
	Vectors     int            `json:"vectors"`
	Events      int            `json:"events"`
	Families    map[string]int `json:"families"`
	Records     map[string]int `json:"records"`
	Controllers map[string]int `json:"controllers"`
	Probes      int            `json:"probes"`
	Reconciles  int            `json:"reconciles"`
	Samples     []any          `json:"samples"`
}

var reconciles int

func main() {
	scenarios := flag.String("scenarios", "", "NDJSON file of input vectors")
	tracePath := flag.String("trace", "", "output trace")
	sumPath := flag.String("summary", "", "output summary JSON")
	chunk := flag.Int("chunk", 0, "split the trace into files of about this many events")
	_ = flag.Int64("seed", 1, "unused: every vector is run deterministically")
	flag.Parse()

	raws, err := scen.Load(*scenarios)
	must(err)
	tw, err := trace.New(*tracePath, *chunk)
	must(err)
	initScheme()
	startFunction(filepath.Dir(*tracePath))
	defer stopFunction()
	sum := &summary{Families: map[string]int{}, Records: map[string]int{}, Controllers: map[string]int{}, Samples: []any{}}
	for _, raw := range raws {
		var sc struct {
			ID    string          `json:"id"`
			Input json.RawMessage `json:"input"`
		}
		must(json.Unmarshal(raw, &sc))
		var in vec
		must(json.Unmarshal(sc.Input, &in))
		tw.Boundary()
		var recs []map[string]any
		switch in.Fam {
		case "core":
			recs = runCore(in)
		case "rbac":
			recs = runRbac(in)
		default:
			must(fmt.Errorf("scenario %s: unknown family %q", sc.ID, in.Fam))
		}
		for _, r := range recs {
			r["scenario"] = sc.ID
			r["input"] = sc.Input
			tw.Emit(r)
			sum.Records[r["t"].(string)]++
			if t := r["t"].(string); t == "ctl" || t == "dyn" {
				sum.Controllers[r["ctl"].(string)]++
				if o, ok := r["o"].(map[string]any); ok {
					if ps, ok := o["probes"].([]any); ok {
						sum.Probes += len(ps)
					}
				}
			}
		}
		sum.Vectors++
		sum.Families[in.Fam]++
		if len(sum.Samples) < 2 && len(recs) > 1 {
			sum.Samples = append(sum.Samples, map[string]any{"input": sc.Input, "setup": recs[0]["o"]})
		}
	}
	sum.Events = tw.Lines
	sum.Reconciles = reconciles
	must(tw.Close())
	stopFunction()
	must(scen.WriteJSON(*sumPath, sum))
}
