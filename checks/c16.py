"""C16 - establishing package objects is all-or-nothing and respects the active/inactive role
(+ the C02 placement "package object controlled by another package").
Model: spec/Establisher.tla; driver: harness/drivers/establisher (real revision.Reconciler activate/deactivate
path + real revision.APIEstablisher on simapi); monitor: spec/MonEstablisher.tla."""
import glob
import json
import os

import vlib

PID = "C16"
MON_FORMULAS = ["AllOrNothing.Blocked", "AllOrNothing.ValidatedFirst", "OnlyActiveCreates", "InactivePlain.Step",
                "InactivePlain.Settled", "OneController", "ReleaseKeeps.Step", "ReleaseKeeps.Settled",
                "ReleaseKeeps.NotCollected", "PkgOwner.Write", "PkgOwner.Settled", "ForeignUntouched.Active",
                "ForeignUntouched.Inactive", "ForeignUntouched.Surfaces", "ForeignUntouched.SurfacesReconcile", "Frame"]


def scenarios_from(ctx, mc, prefix, n):
    return [{"id": "%s-%s-%07d" % (PID, prefix, i), "hist": h} for i, h in ctx.sample_lines(mc["emitted_file"], n, mc["emitted"])]


def regression():
    out = []
    for p in sorted(glob.glob(os.path.join(vlib.VERIF, "scenarios", PID, "*.json"))):
        with open(p) as f:
            out.append(json.load(f))
    return out


def drive_and_judge(ctx, scs, sweep=0, par=0, parvariants=3, variants="rotate"):
    by_id = {s["id"]: s for s in scs}
    sp = ctx.write_scenarios(scs)
    binp = ctx.go_build("./drivers/establisher")
    trace = os.path.join(ctx.work, "trace.ndjson")
    summ = os.path.join(ctx.work, "summary.json")
    ctx.run([binp, "-scenarios", sp, "-trace", trace, "-summary", summ, "-sweep", str(sweep), "-par", str(par),
             "-parvariants", str(parvariants), "-variants", variants, "-chunk", "60000", "-seed", str(ctx.seed)])
    with open(summ) as f:
        s = json.load(f)
    viols, nlines = ctx.monitor("MonEstablisher", trace)
    for formula, line, scid in viols:
        parts = scid.split("/")
        base = dict(by_id.get(parts[0], {"id": parts[0]}))
        base["id"] = scid
        for p in parts[1:]:
            if p.startswith("sweep-"):
                _, r, k, o = p.split("-")
                base["sweep"] = {"rec": int(r[1:]), "idx": int(k[1:]), "outcome": o}
                base["extra"] = 1
            elif p.startswith("par-"):
                _, sd, wk = p.split("-")
                base["par"] = {"seed": int(sd[1:]), "workers": int(wk[1:])}
                base["extra"] = 1
            else:
                base["variant"] = p
        ctx.violation(formula, scid, ctx.replay_file(base), "trace line %d" % line, fingerprint=formula)
    return s, nlines


# "Only an active revision creates objects or becomes their controller": whether the revision reconciler asks the establisher
# to control is decided from spec.desiredState - Active, Inactive, or (revisions written before fix 5866e3a, under a Manual
# activation policy) EMPTY. This check's own model knows two states; the module PkgLifecycle (check X07) runs the revision
# reconciler in all three and judges what it asks of the establisher (added after the seeded change C16-m9 was missed).
RIDER_FORMULAS = ["Rev.Establish.Control", "Rev.Inactive.WithRefs", "Rev.Order.Gate", "Settled.Rev.Health.UndefinedState"]


def rider_lifecycle(ctx):
    from checks import x07
    sub = ctx.sub("pkglifecycle")
    scs, st, tr = [], 0, 0
    for sc in x07.regression():     # (the revisions without a desired state are in X07's regression scenarios fc-*)
        scs.append(dict(sc, id=sc["id"].replace(x07.PID, PID + "-pl", 1), rider="pkglifecycle"))
    for name, n in ([("quick_gate", 1000), ("quick_rev", 150)] if ctx.quick else [("quick_gate", 100000), ("thorough_rev", 6000), ("quick_rev", 3000)]):
        mc = sub.model_check(x07.MODULE, "%s_%s.cfg" % (x07.MODULE, name), sub="mc_" + name, workers=4, timeout=1500)
        scs += [{"id": "%s-pl-%s-%07d" % (PID, name, i), "hist": h, "rider": "pkglifecycle"} for i, h in sub.sample_lines(mc["emitted_file"], n, mc["emitted"])]
        st += mc["states"]
        tr += mc["transitions"]
    res = x07.drive_and_judge(sub, scs, sweep=0, shards=4, counts=False)
    for v in sub.violations:
        if v["formula"] in RIDER_FORMULAS:
            ctx.violations.append(v)
    return dict(states=st, transitions=tr, runs=res[0].get("runs"), events=res[1], formulas=RIDER_FORMULAS)


def run(ctx):
    quick = ctx.quick
    cfgs = ["MCEstablisher_quick.cfg", "MCEstablisher_quick3.cfg"] if quick else ["MCEstablisher_thorough.cfg", "MCEstablisher_mid.cfg"]
    scs, states, trans, emitted = [], 0, 0, 0
    consts = {}
    budget = 1600 if quick else 36000
    for i, cfg in enumerate(cfgs):
        mc = ctx.model_check("MCEstablisher", cfg, workers=8 if quick else 16, timeout=300 if quick else 3000)
        scs += scenarios_from(ctx, mc, "m%d" % i, budget // len(cfgs))
        states += mc["states"]
        trans += mc["transitions"]
        emitted += mc["emitted"]
        consts[cfg] = dict(states=mc["states"], transitions=mc["transitions"], depth=mc["depth"], scenarios=mc["emitted"])
    chosen = regression() + scs
    s, nlines = drive_and_judge(ctx, chosen, sweep=6 if quick else 100, par=160 if quick else 3000,
                                parvariants=3 if quick else 4, variants="all")
    ctx.cov.update(dict(
        states=states, transitions=trans, traces_validated_against_impl=s["runs"],
        samples=s["samples"][:2], model_runs=consts, scenarios_emitted=emitted, scenarios_replayed=s["scenarios"],
        reconciles=s["reconciles"], sweep_runs=s["sweep_runs"], parallel_runs=s["par_runs"],
        parallel_choice_points=s["par_choices"], parallel_gate_timeouts=s["par_gate_timeouts"],
        events=nlines, per_action_counts=s["counts"], formula_antecedent_hits=s["hits"],
        drift=dict(unmatched_calls=s["drift"], runs_with_drift=s["drift_runs"], by_abs=s["drift_by_abs"]),
        monitor_formulas=MON_FORMULAS, exhaustive=(emitted == len(scs)),
        checker_cmd="tlc MCEstablisher (M,G) -> harness/drivers/establisher on /repo (T) -> tlc MonEstablisher",
        rule="one scenario per model transition that ends a reconcile (shortest history reaching it); a model 'fail' is "
             "realised as error / conflict / crash-before; sweep = every real call index x 4 outcomes + a fault-free reconcile "
             "of both revisions; parallel = 4 establisher workers, call order and one optional fault drawn from a seed",
    ))
    ctx.cov["lifecycle_rider"] = rider_lifecycle(ctx)
    ctx.assumptions += ["simapi models the API server rules listed in spec/KubeAPI.tla (dry-run, scripted Invalid, <=1 controller)",
                        "the driver adds controller-runtime client semantics simapi lacks: cancelled contexts fail calls, "
                        "Update restores the caller's TypeMeta and Create does not, cached typed reads carry TypeMeta",
                        "'cannot be taken over' is judged on the cluster state when Establish starts; faults injected in the "
                        "establish phase may leave a prefix written (see spec/Establisher.tla)",
                        "which revision is active, and when which revision is reconciled, are environment steps chosen by TLC",
                        "verdict only from traces of the real revision.Reconciler + APIEstablisher judged by MonEstablisher.tla"]


def replay(ctx, path):
    with open(path) as f:
        sc = json.load(f)
    if sc.get("rider") == "pkglifecycle":
        from checks import x07
        x07.replay(ctx, path)
        ctx.violations = [v for v in ctx.violations if v["formula"] in RIDER_FORMULAS]
        return
    s, nlines = drive_and_judge(ctx, [sc])
    ctx.cov.update(dict(states=1, transitions=1, traces_validated_against_impl=s["runs"], samples=[sc], events=nlines))
