#!/usr/bin/env python3
"""Anti-vacuity self test of the X10 check (run by hand: python3 checks/x10_selftest.py [mutant-name ...]).

1. sanity mutants of the real code (usage/reconciler.go, usage/selector.go, internal/usage/handler.go) applied ONLY through
   `go build -overlay` on scratch copies under /verif/.work/X10/selftest, and of cluster/webhookconfigurations/usage.yaml as a
   scratch copy handed to the driver (nothing is written to /repo): each must make MonUsageLifecycle report the expected
   formulas (formulas that do not fire, or fire less often, on the unchanged tree);
2. the two repairs this module led to, reverted (D36 = 1dd9b46: the handler honours request.DryRun; D35 = 5b601cd: it does not
   dereference an unresolved spec.by): DryRun.NoEffect / Webhook.Deny.Panic + Webhook.Recorded.Panic must fire again;
3. seeded corruption of one recorded field of a real trace: MonUsageLifecycle must reject exactly that line."""
import json
import os
import subprocess
import sys

sys.path.insert(0, os.path.dirname(os.path.dirname(os.path.abspath(__file__))))
import vlib  # noqa: E402
from checks import x10  # noqa: E402

REC = "/repo/internal/controller/apiextensions/usage/reconciler.go"
SEL = "/repo/internal/controller/apiextensions/usage/selector.go"
HND = "/repo/internal/usage/handler.go"
YAML = "/repo/cluster/webhookconfigurations/usage.yaml"
MUTANTS = [
    # (name, file, [(old text, new text)], formulas that must fire)
    ("selector-picks-last-match", SEL,
     [("\t\t\tName: o.GetName(),\n\t\t}\n\t\tbreak\n", "\t\t\tName: o.GetName(),\n\t\t}\n")],
     ["Select.First.Of"]),
    ("selector-ignores-controller-ref", SEL,
     [("\t\tif controllersMustMatch(rs.ResourceSelector) && !meta.HaveSameController(&o, u) {",
       "\t\tif controllersMustMatch(rs.ResourceSelector) && !meta.HaveSameController(&o, u) && len(l.Items) > 5 {")],
     ["Select.Matches.Of"]),
    ("selector-resolved-again-every-time", SEL,
     [("\tif of.ResourceRef == nil || len(of.ResourceRef.Name) == 0 {",
       "\tif of.ResourceRef == nil || len(of.ResourceRef.Name) == 0 || of.ResourceSelector != nil {")],
     ["Select.Once", "Select.Sticky"]),
    ("owner-reference-as-controller", REC,
     [("\t\t\tmeta.AddOwnerReference(u, meta.AsOwner(", "\t\t\tmeta.AddOwnerReference(u, meta.AsController(")],
     ["Owner.Added"]),
    ("using-not-found-tolerated", REC,
     [("\t\tif err := r.client.Get(ctx, client.ObjectKey{Name: by.ResourceRef.Name}, using); err != nil {",
       "\t\tif err := r.client.Get(ctx, client.ObjectKey{Name: by.ResourceRef.Name}, using); err != nil && !kerrors.IsNotFound(err) {")],
     ["Exit.Error", "Settled.Ready"]),
    ("replay-without-being-asked", REC,
     [("\t\tif u.Spec.ReplayDeletion != nil && *u.Spec.ReplayDeletion && used.GetAnnotations() != nil {",
       "\t\tif used.GetAnnotations() != nil {")],
     ["Replay.OnlyIfAsked"]),
    ("replay-with-default-policy", REC,
     [("client.PropagationPolicy(policy)); err != nil {", "client.PropagationPolicy(metav1.DeletePropagationBackground)); err != nil {")],
     ["Replay.Policy"]),
    ("replay-forgotten", REC,
     [("\t\t\tif policy, ok := used.GetAnnotations()[usage.AnnotationKeyDeletionAttempt]; ok {",
       "\t\t\tif policy, ok := used.GetAnnotations()[usage.AnnotationKeyDeletionAttempt]; ok && u.Spec.By == nil && u.Spec.Reason == nil {")],
     ["Replay.Happens"]),
    ("composed-usage-does-not-wait", REC,
     [("\t\tif by != nil && u.Labels[xcrd.LabelKeyNamePrefixForComposed] != \"\" {",
       "\t\tif by != nil && u.Labels[xcrd.LabelKeyNamePrefixForComposed] == \"never\" {")],
     ["Delete.Order"]),
    ("wait-without-requeue", REC,
     [("\t\t\t\treturn reconcile.Result{RequeueAfter: waitPollInterval}, nil", "\t\t\t\treturn reconcile.Result{}, nil")],
     ["Wait.Exit"]),
    ("addfinalizer-skipped", REC,
     [("\tif err := r.usage.AddFinalizer(ctx, u); err != nil {", "\tif err := error(nil); err != nil {")],
     ["Finalizer.BeforeLabel", "Settled.Ready"]),
    ("get-used-failure-without-event", REC,
     [("\t\tlog.Debug(errGetUsed, \"error\", err)\n\t\terr = errors.Wrap(err, errGetUsed)\n\t\tr.record.Event(u, event.Warning(reasonGetUsed, err))\n\t\treturn reconcile.Result{}, err\n\t}\n\n\t// Used resource should have in-use label.",
       "\t\tlog.Debug(errGetUsed, \"error\", err)\n\t\terr = errors.Wrap(err, errGetUsed)\n\t\treturn reconcile.Result{}, err\n\t}\n\n\t// Used resource should have in-use label.")],
     ["Exit.Event"]),
    ("no-poll-after-success", REC,
     [("\treturn reconcile.Result{RequeueAfter: r.pollInterval}, nil\n}", "\treturn reconcile.Result{}, nil\n}")],
     ["Requeue.Poll"]),
    ("details-annotation-decorated", REC,
     [("\t\treturn *u.Spec.Reason\n", "\t\treturn \"because \" + *u.Spec.Reason\n")],
     ["Details.Value", "Settled.Ready"]),
    ("label-update-drops-annotations", REC,
     [("\t\tmeta.AddLabels(used, map[string]string{inUseLabelKey: \"true\"})\n", "\t\tmeta.AddLabels(used, map[string]string{inUseLabelKey: \"true\"})\n\t\tused.SetAnnotations(nil)\n")],
     ["Used.OnlyLabel"]),
    ("webhook-fails-open-on-list-error", HND,
     [("\t\th.log.Debug(\"Error when getting Usages\", \"apiVersion\", u.GetAPIVersion(), \"kind\", u.GetKind(), \"name\", u.GetName(), \"err\", err)\n\t\treturn admission.Errored(http.StatusInternalServerError, err)",
       "\t\th.log.Debug(\"Error when getting Usages\", \"apiVersion\", u.GetAPIVersion(), \"kind\", u.GetKind(), \"name\", u.GetName(), \"err\", err)\n\t\treturn admission.Allowed(\"\")")],
     ["Webhook.FailClosed"]),
    ("webhook-records-foreground-by-default", HND,
     [("\t\tpolicy := metav1.DeletePropagationBackground\n", "\t\tpolicy := metav1.DeletePropagationForeground\n")],
     ["Webhook.Recorded"]),
    ("webhook-message-cites-reason-for-by", HND,
     [("\tif first.Spec.By != nil && first.Spec.By.ResourceRef != nil {\n",
       "\tif first.Spec.By != nil && first.Spec.By.ResourceRef != nil && first.Spec.Reason == nil {\n")],
     ["Webhook.Message"]),
    ("revert-1dd9b46-dry-run-attempt-recorded", HND,
     [("\t\tif !dryRun && (u.GetAnnotations() == nil || u.GetAnnotations()[AnnotationKeyDeletionAttempt] != string(policy)) {",
       "\t\tif u.GetAnnotations() == nil || u.GetAnnotations()[AnnotationKeyDeletionAttempt] != string(policy) {")],
     ["DryRun.NoEffect"]),
    ("revert-5b601cd-panic-on-unresolved-by", HND,
     [("\tif first.Spec.By != nil && first.Spec.By.ResourceRef != nil {\n", "\tif first.Spec.By != nil {\n")],
     ["Webhook.Deny.Panic", "Webhook.Recorded.Panic"]),
    ("webhook-accepts-update", HND,
     [("\tcase admissionv1.Create, admissionv1.Update, admissionv1.Connect:", "\tcase admissionv1.Update:\n\t\treturn admission.Allowed(\"\")\n\tcase admissionv1.Create, admissionv1.Connect:")],
     ["Webhook.NonDelete"]),
]
YAML_MUTANTS = [
    ("yaml-no-object-selector", [("    objectSelector:\n      matchLabels:\n        crossplane.io/in-use: \"true\"\n", "")], ["Webhook.Scope"]),
    ("yaml-selector-on-another-label", [("        crossplane.io/in-use: \"true\"\n", "        crossplane.io/inuse: \"true\"\n")], ["Webhook.Reached", "Webhook.Deny"]),
    ("yaml-rules-skip-the-group", [("      - apiGroups:\n          - '*'\n", "      - apiGroups:\n          - 'apiextensions.crossplane.io'\n")], ["Webhook.Reached"]),
]


def mutate(name, path, edits, d):
    src = open(path).read()
    for old, new in edits:
        if src.count(old) != 1:
            raise SystemExit("mutant %s: anchor text occurs %d times in %s:\n%s" % (name, src.count(old), path, old))
        src = src.replace(old, new)
    os.makedirs(d, exist_ok=True)
    mp = os.path.join(d, os.path.basename(path))
    with open(mp, "w") as f:
        f.write(src)
    return mp


def build_mutant(ctx, name, path, edits):
    d = os.path.join(ctx.work, "mutants", name)
    mp = mutate(name, path, edits, d)
    ov = os.path.join(d, "overlay.json")
    with open(ov, "w") as f:
        json.dump({"Replace": {path: mp}}, f)
    out = os.path.join(d, "usagelifecycle")
    e = dict(os.environ)
    e.update(vlib.GOENV)
    p = subprocess.run(["go", "build", "-overlay", ov, "-o", out, "./drivers/usagelifecycle"], cwd=vlib.HARNESS, env=e,
                       stdout=subprocess.PIPE, stderr=subprocess.STDOUT, text=True)
    if p.returncode != 0:
        raise SystemExit("mutant %s does not build:\n%s" % (name, p.stdout[-3000:]))
    return out


def judge(ctx, binp, scs, tag, extra=()):
    prefix, _ = ctx.run_sharded(binp, scs, ["-sweep", "0", "-chunk", "40000", "-par", "500", "-expectwait", "8"] + list(extra), shards=6, name="trace_" + tag)
    viols, _ = ctx.monitor("MonUsageLifecycle", prefix, par=8)
    by = {}
    for f, _, _ in viols:
        by[f] = by.get(f, 0) + 1
    return by, prefix


def main():
    only = set(sys.argv[1:])
    ctx = vlib.Ctx("X10/selftest", "quick", 1)
    scs = x10.regression()
    for name, n in x10.QUICK:
        mc = ctx.model_check(x10.MODULE, "%s_%s.cfg" % (x10.MODULE, name), sub="mc_" + name, workers=8, timeout=300)
        scs += [{"id": "X10-%s-%07d" % (name, i), "hist": h}
                for i, h in ctx.sample_lines_stratified(mc["emitted_file"], n, mc["emitted"], key=x10.features)]
    ok = True
    plain = ctx.go_build("./drivers/usagelifecycle")
    base, prefix = judge(ctx, plain, scs, "base")
    print("unchanged tree:", base, flush=True)
    if base:
        ok = False
        print("UNEXPECTED formulas on the unchanged tree:", sorted(base))
    for name, path, edits, expect in MUTANTS:
        if only and name not in only:
            continue
        got, _ = judge(ctx, build_mutant(ctx, name, path, edits), scs, name)
        raised = {f: n for f, n in got.items() if n > base.get(f, 0)}
        hit = all(f in raised for f in expect)
        ok &= hit
        print("mutant %-40s %s  new/raised: %s" % (name, "DETECTED" if hit else "MISSED (expected %s)" % expect, raised), flush=True)
    for name, edits, expect in YAML_MUTANTS:
        if only and name not in only:
            continue
        mp = mutate(name, YAML, edits, os.path.join(ctx.work, "mutants", name))
        got, _ = judge(ctx, plain, scs, name, extra=["-webhookcfg", mp])
        raised = {f: n for f, n in got.items() if n > base.get(f, 0)}
        hit = all(f in raised for f in expect)
        ok &= hit
        print("mutant %-40s %s  new/raised: %s" % (name, "DETECTED" if hit else "MISSED (expected %s)" % expect, raised), flush=True)
    if only:
        print("selftest (subset)", "PASSED" if ok else "FAILED")
        return 0 if ok else 1

    # seeded corruption of recorded fields of a real trace
    first = sorted(f for f in os.listdir(ctx.work) if f.startswith(os.path.basename(prefix)))[0]
    lines = open(os.path.join(ctx.work, first)).read().splitlines()

    def me(e):
        return [u for u in e["post"]["us"] if u["id"] == e["actor"]][0]
    same = lambda p, e: p["scenario"] == e["scenario"] and e["ev"] != "reset"   # noqa: E731
    corruptions = [
        ("resolved name changed by the controller", lambda p, e: same(p, e) and e["ev"] == "call" and e["abs"] == "update:label" and me(e)["ex"],
         lambda e: me(e).update(of="u9"), "Select.Sticky"),
        ("user's spec rewritten", lambda p, e: same(p, e) and e["ev"] == "call" and e["abs"] == "update:details" and e["applied"],
         lambda e: me(e).update(rest="0000"), "Spec.UserFieldsKept"),
        ("owner reference is a controller reference", lambda p, e: same(p, e) and e["ev"] == "call" and e["abs"] == "update:own" and e["applied"] and not e["noop"],
         lambda e: me(e)["owners"][-1].update(ctl=True), "Owner.Added"),
        ("owner reference with another uid", lambda p, e: same(p, e) and e["ev"] == "call" and e["abs"] == "update:own" and e["applied"] and not e["noop"],
         lambda e: e["bgot"].update(uid="uid-9999"), "Owner.Added"),
        ("used resource's annotations touched by the label write", lambda p, e: same(p, e) and e["ev"] == "call" and e["abs"] == "update:label" and e["applied"] and not e["noop"],
         lambda e: e["post"]["used"][0].update(rest="0000"), "Used.OnlyLabel"),
        ("label written without the finalizer", lambda p, e: same(p, e) and e["ev"] == "call" and e["abs"] == "update:label" and e["applied"] and not e["noop"],
         lambda e: None, "Finalizer.BeforeLabel"),
        ("replay although not asked for", lambda p, e: e["ev"] == "replaywait" and e["rw"]["arrived"],
         lambda e: e["seen"].update(replay=False), "Replay.OnlyIfAsked"),
        ("replay with another policy", lambda p, e: e["ev"] == "replaywait" and e["rw"]["arrived"],
         lambda e: e["rw"].update(pol="Orphan" if e["rw"]["pol"] != "Orphan" else "Background"), "Replay.Policy"),
        ("replay did not happen", lambda p, e: e["ev"] == "replaywait" and e["rw"]["arrived"],
         lambda e: e["rw"].update(arrived=False), "Replay.Happens"),
        ("status written after a failed call", lambda p, e: same(p, e) and e["ev"] == "call" and e["abs"] == "status:usage" and e["outcome"] == "ok",
         lambda e: e["fails"].append({"abs": "get:using", "outcome": "error", "injected": "error"}), "Exit.NoStatusAfterFailure"),
        ("waiting reconcile requeues at once", lambda p, e: e["ev"] == "end" and "Normal:WaitingUsingDeleted" in e["evs"],
         lambda e: e.update(after=0), "Wait.Exit"),
        ("poll interval off", lambda p, e: e["ev"] == "end" and e["result"] == "ok" and e["after"] == 60000 and not e["fails"],
         lambda e: e.update(after=1000), "Requeue.Poll"),
        ("world changed in a steady reconcile", lambda p, e: e["ev"] == "end" and e["clean"] and e["prevClean"] and e["startDigest"] == e["prevDigest"],
         lambda e: e["post"].update(digest="0000"), "Quiescent"),
        ("delete allowed although a Usage names the resource", lambda p, e: same(p, e) and e["ev"] == "delreq" and e["req"]["cls"] == "inuse",
         lambda e: e["req"].update(o="allow"), "Webhook.Deny"),
        ("message counts one Usage too many", lambda p, e: same(p, e) and e["ev"] == "delreq" and e["req"]["cls"] == "inuse" and e["req"]["wf"] == "none",
         lambda e: e["req"].update(n=e["req"]["n"] + 1), "Webhook.Message"),
        ("attempt not recorded", lambda p, e: same(p, e) and e["ev"] == "delreq" and e["req"]["cls"] == "inuse" and e["req"]["wf"] == "none" and not e["req"]["dry"],
         lambda e: e["req"].update(ann="none"), "Webhook.Recorded"),
    ]
    for what, pick, mut, formula in corruptions:
        idx = None
        for i in range(1, len(lines)):
            if pick(json.loads(lines[i - 1]), json.loads(lines[i])):
                idx = i
                break
        if idx is None:
            ok = False
            print("corruption %-58s NO CANDIDATE LINE" % what)
            continue
        lo = idx
        while lo > 0 and json.loads(lines[lo])["ev"] != "reset":
            lo -= 1
        window = [json.loads(x) for x in lines[lo:idx + 1]]
        e = window[-1]
        mut(e)
        if formula == "Finalizer.BeforeLabel":
            for u in window[-2]["post"]["us"]:
                u["fin"] = False
        cp = os.path.join(ctx.work, "corrupt.ndjson")
        with open(cp, "w") as f:
            f.write("\n".join(json.dumps(x) for x in window) + "\n")
        viols, _ = ctx.monitor("MonUsageLifecycle", cp)
        hit = any(f == formula and ln == len(window) for f, ln, _ in viols)
        ok &= hit
        print("corruption %-58s line %d: %s" % (what, idx + 1, "REJECTED by " + formula if hit else "NOT NOTICED %s" % viols[:5]), flush=True)
    print("selftest", "PASSED" if ok else "FAILED")
    return 0 if ok else 1


if __name__ == "__main__":
    sys.exit(main())
