"""C07 - claim and XR exchange exactly the fields each side owns.
Reference partition + formulas: spec/FieldPartition.tla; input enumeration and design-level check of the
oracle: spec/MCFieldPartition.tla; driver: harness/drivers/fieldpartition (real
claim.ServerSideCompositeSyncer / ClientSideCompositeSyncer / PatchingManagedFieldsUpgrader on simapi, claims
pruned by the real apiextensions pruning algorithm with the schema of the real generated claim CRD);
monitor: spec/MonFieldPartition.tla."""
import concurrent.futures
import glob
import json
import os
import re

import vlib

PID = "C07"
MON_FORMULAS = ["SyncSucceeds", "NoLeakToXR.ClaimOnly", "NoLeakToXR.ConnSecret", "NoLeakToXR.Other", "UserSpecPropagated",
                "SelectionPropagated", "RevisionToXR.OnlyIfManual", "LabelsAnnotations.Propagated",
                "LabelsAnnotations.ReservedNotPropagated", "ExternalNameToXR", "XRSidePreserved.ResourceRefs",
                "XRSidePreserved.ConnSecret", "XRSidePreserved.ExternalName", "XRSidePreserved.Ownership", "ClaimRefSet",
                "UserStatusToClaim",
                "NoLeakToClaim.Status", "NoLeakToClaim.OtherStatus", "NoLeakToClaim.Spec", "NoLeakToClaim.SpecSSA",
                "NoLeakToClaim.Meta", "CompositionRefToClaim.OnlyIfNone", "RevisionToClaim.OnlyIfAutomatic",
                "ExternalNameToClaim"]


def regression():
    out = []
    for p in sorted(glob.glob(os.path.join(vlib.VERIF, "scenarios", PID, "*.json"))):
        with open(p) as f:
            out.append(json.load(f))
    return out


def write_shards(ctx, emitted_file, shards):
    """One scenario per emitted vector, streamed round-robin into shard files (the thorough tier emits ~10^5
    vectors of ~5 kB). Returns (paths, number of scenarios)."""
    paths = [os.path.join(ctx.work, "scenarios_%02d.ndjson" % i) for i in range(shards)]
    fos = [open(p, "w") for p in paths]
    n = 0
    for sc in regression():
        fos[n % shards].write(json.dumps(sc) + "\n")
        n += 1
    if emitted_file:
        with open(emitted_file) as f:
            for i, line in enumerate(f, 1):
                fos[n % shards].write('{"id":"%s-%07d","input":%s}\n' % (PID, i, line.strip()))
                n += 1
    for fo in fos:
        fo.close()
    return paths, n


def find_scenarios(paths, ids):
    out = {}
    if not ids:
        return out
    pats = {i: ('"id":"%s"' % i, '"id": "%s"' % i) for i in ids}
    for p in paths:
        with open(p) as f:
            for line in f:
                head = line[:80]
                for i, (a, b) in pats.items():
                    if a in head or b in head:
                        out[i] = json.loads(line)
    return out


def hits(ctx):
    """Per-formula count of trace lines on which the formula's antecedent was true (printed by the monitor)."""
    tot = {}
    for out in glob.glob(os.path.join(ctx.work, "mon*", "tlc_MonFieldPartition.out")):
        with open(out) as f:
            for m in re.finditer(r'^"HITS\|([^|"]+)\|(\d+)"$', f.read(), re.M):
                tot[m.group(1)] = tot.get(m.group(1), 0) + int(m.group(2))
    return tot


def drive_and_judge(ctx, paths, chunk, rounds=2):
    binp = ctx.go_build("./drivers/fieldpartition")
    prefix = os.path.join(ctx.work, "trace.ndjson")

    def one(i):
        summ = os.path.join(ctx.work, "summary_%02d.json" % i)
        ctx.run([binp, "-scenarios", paths[i], "-trace", "%s.s%02d" % (prefix, i), "-summary", summ,
                 "-chunk", str(chunk), "-rounds", str(rounds)])
        with open(summ) as f:
            return json.load(f)

    with concurrent.futures.ThreadPoolExecutor(max_workers=len(paths)) as ex:
        s = vlib.merge_summaries(list(ex.map(one, range(len(paths)))))
    # (errors of the real Sync on these fault-free, well-formed vectors used to be taken for a harness problem (exit 2). They are
    # judged now: formula SyncSucceeds - a sync that fails here fails on every retry. Only upgrade errors remain a harness matter.)
    if s.get("upgrade_errors"):
        raise vlib.Inconclusive("the real managed-fields Upgrade returned errors on well-formed inputs (harness problem): %s" % s.get("upgrade_errors"))
    if s.get("sync_errors"):
        vlib.log("  the real Sync returned errors on %d fault-free vectors (judged by SyncSucceeds): %s" %
                 (sum(s["sync_errors"].values()), sorted(s["sync_errors"].items(), key=lambda kv: -kv[1])[:3]))
    viols, nlines = ctx.monitor("MonFieldPartition", prefix, heap="5g", par=6)
    scs = find_scenarios(paths, {v[2].split("/")[0] for v in viols})
    for formula, line, scid in viols:
        base = scid.split("/")[0]
        ctx.violation(formula, scid, ctx.replay_file(scs.get(base, {"id": base})), "trace line %d" % line, fingerprint=formula)
    return s, nlines


def run(ctx):
    cfg = "MCFieldPartition_quick.cfg" if ctx.quick else "MCFieldPartition_thorough.cfg"
    mc = ctx.model_check("MCFieldPartition", cfg, workers=8 if ctx.quick else 16, timeout=300 if ctx.quick else 1800,
                         env={"VERIF_SEED": str(ctx.seed)})
    paths, n = write_shards(ctx, mc["emitted_file"], 6 if ctx.quick else 8)
    s, nlines = drive_and_judge(ctx, paths, 0 if ctx.quick else 6000)
    if not s.get("samples"):
        with open(sorted(glob.glob(os.path.join(ctx.work, "trace.ndjson.s00*")))[0]) as f:
            s["samples"] = [json.loads(f.readline())]
    from checks import wiring_rider
    wr = wiring_rider.run(ctx, PID)
    ctx.cov["wiring_rider"] = wr
    h = hits(ctx)
    vac = [f for f in MON_FORMULAS if h.get(f, 0) == 0]
    if vac:
        raise vlib.Inconclusive("formulas never exercised by the replayed vectors (vacuous run): %s" % vac)
    ctx.cov.update(dict(
        states=mc["states"], transitions=mc["transitions"], traces_validated_against_impl=s["syncs"],
        samples=(s.get("samples") or [])[:2], model_cfg=cfg, vectors_emitted=mc["emitted"], vectors_replayed=s["vectors"],
        syncs=s["syncs"], per_syncer_mode_round=s["per_syncer_mode_round"], events=nlines, drift=0,
        claim_leaves_pruned=s["claim_leaves_pruned"], xrs_created_by_sync=s["xrs_created_by_sync"],
        monitor_formulas=MON_FORMULAS, formula_hits=h, exhaustive=(s["vectors"] == n),
        model_invariants=["InvNoLeakToXR", "InvPropagated", "InvRevision", "InvReserved", "InvXRSide", "InvClaimRef",
                          "InvUserStatus", "InvNoLeakToClaim", "InvCompRef", "InvExtToClaim"],
        checker_cmd="tlc MCFieldPartition (M,G: enumerates the vectors, checks the oracle on the abstract syncer models) -> "
                    "harness/drivers/fieldpartition on /repo (T) -> tlc MonFieldPartition",
        rule="every enumerated vector (claim as the user wrote it, pre-existing XR, syncer, mode) is materialised on simapi, the "
             "claim pruned with the real generated claim CRD, the real Sync run (after the real managed-fields Upgrade for ssa); "
             "round 2 re-syncs the objects round 1 produced after the XR controller filled in XR-side machinery",
    ))
    ctx.assumptions += [
        "values are atoms (strings); leaves under metadata.labels, metadata.annotations, spec, status are compared",
        "conditional fields (compositionRevisionRef, compositionRef towards the claim) are judged by direction only; removal of XR "
        "fields after removal from the claim and revision propagation on the first sync are not asserted (DESIGN C07 Limits)",
        "client-side syncer: late initialisation of claim spec fields absent from the claim (selection and user fields) from the XR is "
        "documented behaviour of the legacy syncer and not judged; XR-owned machinery in the claim spec is (NoLeakToClaim.Spec); "
        "for the server-side syncer every claim spec entry must be explained (NoLeakToClaim.SpecSSA)",
        "UserStatusToClaim is judged for the client-side syncer only when the claim already has a status object",
        "reserved keys: prefix kubernetes.io / k8s.io or a subdomain (the listed key universe)",
        "simapi models the API server rules listed in spec/KubeAPI.tla (structured-merge-diff field management, lists atomic)",
        "verdict only from objects stored by the real syncers, judged by MonFieldPartition.tla",
    ]


def replay(ctx, path):
    with open(path) as f:
        sc = json.load(f)
    if sc.get("rider") == "wiring":
        from checks import wiring_rider
        return wiring_rider.replay(ctx, path)
    sp = ctx.write_scenarios([sc])
    s, nlines = drive_and_judge(ctx, [sp], 0)
    ctx.cov.update(dict(states=1, transitions=1, traces_validated_against_impl=s["syncs"], samples=(s.get("samples") or [sc])[:1],
                        events=nlines, formula_hits=hits(ctx)))
