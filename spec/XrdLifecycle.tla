---------------------------- MODULE XrdLifecycle ----------------------------
(***************************************************************************)
(* X02 - the ESTABLISHING and UPDATE path of the two XRD reconcilers, as   *)
(* implemented at the pinned commit:                                       *)
(*   def = definition.Reconciler (internal/controller/apiextensions/       *)
(*         definition/reconciler.go): composite CRD "x", XR controller,    *)
(*         condition Established, status.controllers.compositeResourceType *)
(*   off = offered.Reconciler (.../offered/reconciler.go): claim CRD "c",  *)
(*         claim controller, condition Offered, ...compositeResourceClaimType *)
(* Both reconcile the same XRD object, in one process, through one engine. *)
(* One action per API call / engine call in code order:                    *)
(*   get:xrd, [update:xrd = AddFinalizer], Apply = get:crd + (create:crd | *)
(*   update:crd, resourceVersion-checked, MustBeControllableBy), wait for  *)
(*   Established, [stop if the recorded type differs from the desired],    *)
(*   IsRunning ? status:xrd : (start, watches, status:xrd).                *)
(* The reconciler's copy of the XRD (loc), "the XRD moved since I read it" *)
(* (dirty: its resourceVersion-checked writes are then refused) and "the   *)
(* CRD moved since Apply read it" (cdirty) are explicit.  Environment, also*)
(* in the middle of reconciles: the user edits the XRD (referenceable      *)
(* version, schema, claimNames on / off) or asks for its deletion (the     *)
(* model stops there: the deletion branch is module Teardown, C08) or      *)
(* deletes it and creates another XRD of the same name (Recreate); the     *)
(* API server marks a CRD Established / not; third parties edit, take over *)
(* or delete a CRD.  Faults at every API call: fail (no effect, the call   *)
(* returns an error: replayed both as a 500 and, on writes, as a Conflict),*)
(* crashBefore / crashAfter (the PROCESS dies: both reconciles end, the    *)
(* engine forgets every controller), miss (a cached read answers NotFound);*)
(* at every engine call: fail.                                             *)
(*                                                                         *)
(* ENGINE CONTRACT ASSUMED (C13 checks the real engine against it): Start  *)
(* of a running name is a no-op; Stop of a name that is not running is a   *)
(* no-op; a failed Start / Stop / StartWatches has no effect; StartWatches *)
(* is idempotent and all-or-nothing; the engine is per process.            *)
(*                                                                         *)
(* WHAT THE AUTHORS EVIDENTLY INTEND (checked against code and comments):  *)
(*  P1 StartOnlyEstablished - a controller is started only in a reconcile  *)
(*     whose Apply of the CRD succeeded and came back Established          *)
(*     ("waiting for ... CustomResourceDefinition to be established").     *)
(*     NOT promised, hence not asserted: that the controller is stopped    *)
(*     when somebody else deletes the CRD or it loses Established (there   *)
(*     is no Stop outside the version change and the deletion branch), nor *)
(*     that a CRD that is being deleted is left alone (Apply does not look *)
(*     at the deletionTimestamp).                                          *)
(*  P2 CondTruth - Established / Offered = True (Watching...) is written   *)
(*     only while the controller runs (.Running), watches its kind         *)
(*     (.Watches: the condition reason is "Watching..."), for the          *)
(*     referenceable version this reconcile read (.Version), and the       *)
(*     recorded type says what runs (.TypeRef; API doc of                  *)
(*     status.controllers: "the type ... Crossplane is currently           *)
(*     reconciling ... Its version will eventually become consistent with  *)
(*     the definition's referenceable version").                           *)
(*  P3 Restart - "Referenceable version changed; stopped ... controller":  *)
(*     Start is only called while nothing runs under the name (.StopFirst);*)
(*     outside the deletion branch a controller that runs for the desired  *)
(*     version and is recorded so is not stopped (.NoNeedlessStop).  Two   *)
(*     controllers for one XRD cannot exist by the engine contract (one    *)
(*     per name).                                                          *)
(*  P4 Faithful - every CRD write carries exactly the rendering of the XRD *)
(*     this reconcile read (.Write); resourceVersion-checked XRD writes    *)
(*     never change the spec (.XrdSpecKept: no lost update); after a       *)
(*     settled reconcile the CRD corresponds to the current XRD            *)
(*     (AfterReconcile.Crd).  "Corresponds" includes the controller        *)
(*     reference: it must name the CURRENT XRD object (uid) - judged also  *)
(*     across Recreate (same name, new uid, generation 1, other spec) with *)
(*     the reconciler objects kept alive.                                  *)
(*  P5 Foreign (C02 placement) - a CRD controlled by somebody else is      *)
(*     never written (.Untouched) and the reconcile ends in an error       *)
(*     (.Surfaces).  NOT promised: a condition (the code only emits an     *)
(*     event), so "surfaces in the conditions" is read as "the reconcile   *)
(*     fails and reports nothing new".                                     *)
(*  P6 FinalizerFirst - the XRD carries the reconciler's finalizer before  *)
(*     the CRD is written or the controller started.                       *)
(*  P7 NotOffered - an XRD without claimNames makes the offered reconciler *)
(*     fail at rendering, before any write or engine call.  NOT promised:  *)
(*     that REMOVING claimNames stops the claim controller or removes the  *)
(*     claim CRD - nothing does (the offered controller does not even      *)
(*     watch such an XRD, and its render error precedes the deletion       *)
(*     branch, so the offered finalizer then stays for good: observation,  *)
(*     reported, not judged).  Adding claimNames (back) establishes both:  *)
(*     AfterReconcile.* of actor off.                                      *)
(*  P8 AfterReconcile / Quiescent - whatever happened before (faults,      *)
(*     crashes, edits, interleavings), a reconcile that returns "done" in  *)
(*     a quiet environment leaves CRD, controller, watches, condition,     *)
(*     recorded type and finalizer consistent with the XRD, and the next   *)
(*     reconcile writes nothing (a fixed point).                           *)
(*                                                                         *)
(* FINDINGS OF THE MODEL (TLC, cfg MCXrdLifecycle_witness_asis; replayed   *)
(* on the real reconcilers, see checks/x02.py):                            *)
(*  D17 the status update after Start / StartWatches fails (any error, or  *)
(*      the Conflict the OTHER reconciler's write to the same XRD causes,  *)
(*      fault-free): the controller runs, the type is not recorded; the    *)
(*      IsRunning branch never records it, and with an empty recorded type *)
(*      a later change of the referenceable version is never followed      *)
(*      (no Stop, no restart).  CondTruth.TypeRef / .Version,              *)
(*      AfterReconcile.TypeRef / .Version.  The same with a recorded type  *)
(*      when the version is edited there and back (v1 -> v2 -> v1) around  *)
(*      a restart whose status update fails: v2 runs, v1 stays recorded    *)
(*      and is trusted.  FixTypeRef = candidate repair ("record, then      *)
(*      start", see NeedStop / Record).                                    *)
(*  D18 StartWatches fails after Start succeeded: the next reconcile finds *)
(*      the controller running and reports Watching although no watch was  *)
(*      ever started.  CondTruth.Watches, AfterReconcile.Watches.          *)
(*      FixWatches = candidate repair (StartWatches in the running branch).*)
(***************************************************************************)
EXTENDS Integers, Sequences, FiniteSets, TLC

CONSTANTS
  Inits,            \* initial configurations: [state : {"fresh","created","settled"}, claim : BOOLEAN, crdx : {"none","foreign","free"}]
  EnvKinds,         \* subset of {"ver","s","claimOn","claimOff","unest","tamper","grab","crddel","xrddel","recreate"} ("est", "crdgone" are always on)
  FaultKinds,       \* subset of {"fail","crashBefore","crashAfter","miss","efail"}   (efail: engine call fails)
  MaxEnv, MaxFaults,
  MaxRecs,          \* reconciles per actor
  Interleave,       \* TRUE: the two reconcilers run concurrently (call granularity)
  MidEnv,           \* TRUE: the environment also acts in the middle of reconciles
  WaitEstablished,  \* TRUE = the code; FALSE switches the "wait until Established" guard off (witness)
  FixTypeRef,       \* FALSE = the code; TRUE = candidate repair of D17
  FixWatches        \* FALSE = the code; TRUE = candidate repair of D18

A == {"def", "off"}
Oth(a) == IF a = "def" THEN "off" ELSE "def"
W(a) == IF a = "def" THEN "x" ELSE "c"
ActorOf(w) == IF w = "x" THEN "def" ELSE "off"
Ws == {"x", "c"}
OtherVer(v) == IF v = "v1" THEN "v2" ELSE "v1"

VARIABLES
  xrd,      \* [ex, del, ver, s, claim, fin : A -> BOOLEAN, cond : A -> {"none","True"}, type : A -> {"none","v1","v2"}]
  crd,      \* Ws -> [st : {"none","live","deleting"}, ctrl : {"none","xrd","foreign"}, ver, s, t (tampered), est]
  run,      \* Ws -> BOOLEAN : the engine runs the controller
  wver,     \* Ws -> "none" | version its watches were started for
  pc, loc,  \* per actor: program counter, local copies
  dirty,    \* A -> BOOLEAN : the XRD changed since the actor read (or last wrote) it
  cdirty,   \* A -> BOOLEAN : the actor's CRD changed since its Apply read it
  recs, envs, faults,
  quiet,    \* ghost, A -> BOOLEAN : no environment step since the actor's reconcile began
  bad,      \* ghost : names of violated rules
  hist

vars == <<xrd, crd, run, wver, pc, loc, dirty, cdirty, recs, envs, faults, quiet, bad, hist>>
view == <<xrd, crd, run, wver, pc, loc, dirty, cdirty, recs, envs, faults, quiet, bad>>

NoCrd == [st |-> "none", ctrl |-> "none", ver |-> "none", s |-> 0, t |-> FALSE, est |-> FALSE]
Rendered(v, s, e) == [st |-> "live", ctrl |-> "xrd", ver |-> v, s |-> s, t |-> FALSE, est |-> e]
NoLoc == [ver |-> "none", s |-> 0, type |-> "none", est |-> FALSE]
H(a, k, f) == [t |-> "call", a |-> a, k |-> k, f |-> f]
E(k) == [t |-> "env", a |-> "env", k |-> k, f |-> ""]
Log(e) == hist' = Append(hist, e)

Init == \E i \in Inits :
  LET up == i.state # "fresh"          \* finalizers there, CRDs created and Established
      on == i.state = "settled"        \* controllers started and recorded
      own(b) == IF up /\ b THEN Rendered("v1", 0, TRUE) ELSE NoCrd
  IN
  /\ xrd = [ex |-> TRUE, del |-> FALSE, ver |-> "v1", s |-> 0, claim |-> i.claim,
            fin |-> [def |-> up, off |-> up /\ i.claim],
            cond |-> [def |-> IF on THEN "True" ELSE "none", off |-> IF on /\ i.claim THEN "True" ELSE "none"],
            type |-> [def |-> IF on THEN "v1" ELSE "none", off |-> IF on /\ i.claim THEN "v1" ELSE "none"]]
  /\ crd = [x |-> IF i.crdx = "none" THEN own(TRUE)
                  ELSE [Rendered("v1", 0, TRUE) EXCEPT !.ctrl = IF i.crdx = "foreign" THEN "foreign" ELSE "none"],
            c |-> own(i.claim)]
  /\ run = [x |-> on, c |-> on /\ i.claim]
  /\ wver = [x |-> IF on THEN "v1" ELSE "none", c |-> IF on /\ i.claim THEN "v1" ELSE "none"]
  /\ pc = [a \in A |-> "idle"] /\ loc = [a \in A |-> NoLoc]
  /\ dirty = [a \in A |-> FALSE] /\ cdirty = [a \in A |-> FALSE]
  /\ recs = [a \in A |-> 0] /\ envs = 0 /\ faults = 0
  /\ quiet = [a \in A |-> FALSE] /\ bad = {}
  /\ hist = << [t |-> "init", a |-> i.crdx, k |-> i.state, f |-> IF i.claim THEN "claim" ELSE "noclaim"] >>

----------------------------------------------------------------------------
(* Environment *)
AllIdle == \A a \in A : pc[a] = "idle"
EnvMay == MidEnv \/ AllIdle
Counted(k) == k \in EnvKinds /\ envs < MaxEnv /\ EnvMay
EnvUnch == /\ quiet' = [a \in A |-> FALSE]
           /\ UNCHANGED <<run, wver, pc, loc, recs, faults, bad>>
AllDirty == [a \in A |-> TRUE]
CDirty(w) == [cdirty EXCEPT ![ActorOf(w)] = TRUE]
Live == xrd.ex /\ ~xrd.del

EditVer == /\ Counted("ver") /\ Live /\ xrd' = [xrd EXCEPT !.ver = OtherVer(@)] /\ dirty' = AllDirty
           /\ Log(E("ver")) /\ envs' = envs + 1 /\ UNCHANGED <<crd, cdirty>> /\ EnvUnch
EditS == /\ Counted("s") /\ Live /\ xrd' = [xrd EXCEPT !.s = 1 - @] /\ dirty' = AllDirty
         /\ Log(E("s")) /\ envs' = envs + 1 /\ UNCHANGED <<crd, cdirty>> /\ EnvUnch
ClaimOn == /\ Counted("claimOn") /\ Live /\ ~xrd.claim /\ xrd' = [xrd EXCEPT !.claim = TRUE] /\ dirty' = AllDirty
           /\ Log(E("claimOn")) /\ envs' = envs + 1 /\ UNCHANGED <<crd, cdirty>> /\ EnvUnch
ClaimOff == /\ Counted("claimOff") /\ Live /\ xrd.claim /\ xrd' = [xrd EXCEPT !.claim = FALSE] /\ dirty' = AllDirty
            /\ Log(E("claimOff")) /\ envs' = envs + 1 /\ UNCHANGED <<crd, cdirty>> /\ EnvUnch
\* the user asks for the deletion of the XRD: gone at once without finalizers, else marked (module Teardown takes over)
XrdDelete == /\ Counted("xrddel") /\ Live
             /\ xrd' = (IF xrd.fin["def"] \/ xrd.fin["off"] THEN [xrd EXCEPT !.del = TRUE] ELSE [xrd EXCEPT !.ex = FALSE])
             /\ dirty' = AllDirty /\ Log(E("xrddel")) /\ envs' = envs + 1 /\ UNCHANGED <<crd, cdirty>> /\ EnvUnch
\* the API server accepts the names of a live CRD (free step: needed for progress) / withdraws that
Establish(w) == /\ EnvMay /\ crd[w].st = "live" /\ ~crd[w].est /\ crd' = [crd EXCEPT ![w].est = TRUE] /\ cdirty' = CDirty(w)
                /\ Log(E("est:" \o w)) /\ UNCHANGED <<xrd, dirty, envs>> /\ EnvUnch
Unestablish(w) == /\ Counted("unest") /\ crd[w].st = "live" /\ crd[w].est /\ crd' = [crd EXCEPT ![w].est = FALSE] /\ cdirty' = CDirty(w)
                  /\ Log(E("unest:" \o w)) /\ envs' = envs + 1 /\ UNCHANGED <<xrd, dirty>> /\ EnvUnch
\* third parties: edit the CRD's spec, take control of it, delete it (Kubernetes holds it with its clean-up finalizer for a while)
Tamper(w) == /\ Counted("tamper") /\ crd[w].st = "live" /\ ~crd[w].t /\ crd' = [crd EXCEPT ![w].t = TRUE] /\ cdirty' = CDirty(w)
             /\ Log(E("tamper:" \o w)) /\ envs' = envs + 1 /\ UNCHANGED <<xrd, dirty>> /\ EnvUnch
Grab(w) == /\ Counted("grab") /\ crd[w].st = "live" /\ crd[w].ctrl # "foreign" /\ crd' = [crd EXCEPT ![w].ctrl = "foreign"] /\ cdirty' = CDirty(w)
           /\ Log(E("grab:" \o w)) /\ envs' = envs + 1 /\ UNCHANGED <<xrd, dirty>> /\ EnvUnch
CrdDelete(w) == /\ Counted("crddel") /\ crd[w].st = "live" /\ crd' = [crd EXCEPT ![w].st = "deleting"] /\ cdirty' = CDirty(w)
                /\ Log(E("crddel:" \o w)) /\ envs' = envs + 1 /\ UNCHANGED <<xrd, dirty>> /\ EnvUnch
CrdGone(w) == /\ EnvMay /\ crd[w].st = "deleting" /\ crd' = [crd EXCEPT ![w] = NoCrd] /\ cdirty' = CDirty(w)
              /\ Log(E("crdgone:" \o w)) /\ UNCHANGED <<xrd, dirty, envs>> /\ EnvUnch
\* A whole life ends and another begins: the user deletes the XRD, both reconcilers' deletion branches run to the end
\* (module Teardown: controllers stopped, own CRDs deleted, finalizers removed, the XRD gone), and an XRD with the SAME
\* NAME and a DIFFERENT spec is created: a new object (new uid, metadata.generation 1 again, no finalizers, no status).
\* The reconciler objects live on; nothing they remember of the old incarnation may leak into the new one (P4 is judged
\* across this step: the CRD must render the CURRENT spec and its controller reference must name the CURRENT uid).
\* Only between reconciles (one key is never reconciled concurrently with its own deletion) and only when the teardown can
\* finish (an XRD whose claimNames were removed keeps the offered finalizer for good, see P7).
FreshXrd(v, sv, cl) == [ex |-> TRUE, del |-> FALSE, ver |-> v, s |-> sv, claim |-> cl,
                        fin |-> [a \in A |-> FALSE], cond |-> [a \in A |-> "none"], type |-> [a \in A |-> "none"]]
Recreate == /\ "recreate" \in EnvKinds /\ envs < MaxEnv /\ AllIdle /\ Live /\ (xrd.claim \/ ~xrd.fin["off"])
            /\ \E v \in {"v1", "v2"}, sv \in {0, 1}, cl \in BOOLEAN :
                 /\ <<v, sv, cl>> # <<xrd.ver, xrd.s, xrd.claim>>
                 /\ xrd' = FreshXrd(v, sv, cl)
                 /\ Log(E("recreate:" \o v \o ":" \o ToString(sv) \o ":" \o (IF cl THEN "claim" ELSE "noclaim")))
            /\ crd' = [w \in Ws |-> IF crd[w].ctrl = "xrd" THEN NoCrd ELSE crd[w]]
            /\ run' = [w \in Ws |-> FALSE] /\ wver' = [w \in Ws |-> "none"]
            /\ dirty' = AllDirty /\ cdirty' = [a \in A |-> TRUE] /\ envs' = envs + 1
            /\ quiet' = [a \in A |-> FALSE] /\ UNCHANGED <<pc, loc, recs, faults, bad>>
Env == \/ EditVer \/ EditS \/ ClaimOn \/ ClaimOff \/ XrdDelete \/ Recreate
       \/ \E w \in Ws : Establish(w) \/ Unestablish(w) \/ Tamper(w) \/ Grab(w) \/ CrdDelete(w) \/ CrdGone(w)

----------------------------------------------------------------------------
(* Reconcile plumbing *)
Go(a, p) == pc' = [pc EXCEPT ![a] = p] /\ UNCHANGED recs
EndRec(a) == pc' = [pc EXCEPT ![a] = "idle"] /\ recs' = [recs EXCEPT ![a] = @ + 1]
\* the process dies: every reconcile in flight ends, the engine forgets everything
CrashAll == /\ pc' = [b \in A |-> "idle"] /\ recs' = [b \in A |-> IF pc[b] # "idle" THEN recs[b] + 1 ELSE recs[b]]
            /\ run' = [w \in Ws |-> FALSE] /\ wver' = [w \in Ws |-> "none"]
CanFault(k) == faults < MaxFaults /\ k \in FaultKinds
Ok(a, k) == Log(H(a, k, "ok")) /\ UNCHANGED faults
Inj(a, k, f) == CanFault(f) /\ faults' = faults + 1 /\ Log(H(a, k, f))
\* an engine call can only fail with an error (a crash right there equals a crash at the neighbouring API call)
EInj(a, k) == CanFault("efail") /\ faults' = faults + 1 /\ Log(H(a, k, "fail"))
SetLoc(a, f, v) == loc' = [loc EXCEPT ![a][f] = v]

\* rules checked where the step happens (design level; the monitor re-evaluates them on the real traces)
\* ok status write that reports Watching: what must be true in the state it is written in
CondBad(a, R, V, T, seenVer) ==
  (IF ~R THEN {"CondTruth.Running"} ELSE {})
  \cup (IF R /\ V = "none" THEN {"CondTruth.Watches"} ELSE {})
  \cup (IF V # "none" /\ V # seenVer THEN {"CondTruth.Version"} ELSE {})
  \cup (IF V # "none" /\ T # V THEN {"CondTruth.TypeRef"} ELSE {})
\* a reconcile that returned "done" in a quiet environment
AfterBad(a, X, R, V) ==
  LET w == W(a) IN
  IF ~quiet[a] THEN {} ELSE
  (IF crd[w] # Rendered(X.ver, X.s, TRUE) THEN {"AfterReconcile.Crd"} ELSE {})
  \cup (IF ~R THEN {"AfterReconcile.Running"} ELSE {})
  \cup (IF R /\ V = "none" THEN {"AfterReconcile.Watches"} ELSE {})
  \cup (IF V # "none" /\ V # X.ver THEN {"AfterReconcile.Version"} ELSE {})
  \cup (IF V # "none" /\ X.type[a] # X.ver THEN {"AfterReconcile.TypeRef"} ELSE {})
  \cup (IF X.cond[a] # "True" THEN {"AfterReconcile.Cond"} ELSE {})
  \cup (IF ~X.fin[a] THEN {"AfterReconcile.Finalizer"} ELSE {})

\* ---- get:xrd
GetXrd(a) ==
  /\ pc[a] = "idle" /\ recs[a] < MaxRecs /\ Live /\ (Interleave \/ pc[Oth(a)] = "idle")
  /\ \/ /\ Ok(a, "get:xrd")
        /\ loc' = [loc EXCEPT ![a] = [ver |-> xrd.ver, s |-> xrd.s, type |-> xrd.type[a], est |-> FALSE]]
        /\ dirty' = [dirty EXCEPT ![a] = FALSE] /\ quiet' = [quiet EXCEPT ![a] = TRUE]
        /\ (IF a = "off" /\ ~xrd.claim THEN EndRec(a)                 \* rendering the claim CRD fails
            ELSE Go(a, IF xrd.fin[a] THEN "getcrd" ELSE "addfin"))
        /\ UNCHANGED <<run, wver>>
     \/ /\ Inj(a, "get:xrd", "fail") /\ EndRec(a) /\ UNCHANGED <<loc, dirty, quiet, run, wver>>
     \/ /\ Inj(a, "get:xrd", "crashBefore") /\ CrashAll /\ UNCHANGED <<loc, dirty, quiet>>
  /\ UNCHANGED <<xrd, crd, cdirty, envs, bad>>

\* ---- AddFinalizer: Update(xrd), resourceVersion-checked
AddFin(a) ==
  /\ pc[a] = "addfin"
  /\ LET okW == xrd.ex /\ ~dirty[a]
         X1 == IF okW THEN [xrd EXCEPT !.fin[a] = TRUE] ELSE xrd
         D1 == IF okW THEN [dirty EXCEPT ![Oth(a)] = TRUE] ELSE dirty
     IN \/ /\ Ok(a, "update:xrd") /\ xrd' = X1 /\ dirty' = D1
           /\ (IF okW THEN Go(a, "getcrd") ELSE EndRec(a)) /\ UNCHANGED <<run, wver>>
        \/ /\ Inj(a, "update:xrd", "fail") /\ EndRec(a) /\ UNCHANGED <<xrd, dirty, run, wver>>
        \/ /\ Inj(a, "update:xrd", "crashBefore") /\ CrashAll /\ UNCHANGED <<xrd, dirty>>
        \/ /\ Inj(a, "update:xrd", "crashAfter") /\ xrd' = X1 /\ dirty' = D1 /\ CrashAll
  /\ UNCHANGED <<crd, cdirty, loc, envs, quiet, bad>>

\* ---- Apply(crd, MustBeControllableBy(xrd)): Get, then Create or Update
GetCrd(a) ==
  /\ pc[a] = "getcrd"
  /\ LET w == W(a) IN
     \/ /\ Ok(a, "get:crd") /\ cdirty' = [cdirty EXCEPT ![a] = FALSE]
        /\ (IF crd[w].st = "none" THEN Go(a, "create")
            ELSE IF crd[w].ctrl = "foreign" THEN EndRec(a)             \* not controllable: the reconcile fails
            ELSE Go(a, "update"))
        /\ UNCHANGED <<run, wver>>
     \/ /\ crd[w].st # "none" /\ Inj(a, "get:crd", "miss") /\ cdirty' = [cdirty EXCEPT ![a] = FALSE]
        /\ Go(a, "create") /\ UNCHANGED <<run, wver>>
     \/ /\ Inj(a, "get:crd", "fail") /\ EndRec(a) /\ UNCHANGED <<cdirty, run, wver>>
     \/ /\ Inj(a, "get:crd", "crashBefore") /\ CrashAll /\ UNCHANGED cdirty
  /\ UNCHANGED <<xrd, crd, loc, dirty, envs, quiet, bad>>

FinBad(a) == IF xrd.ex /\ ~xrd.fin[a] THEN {"FinalizerFirst"} ELSE {}
CreateCrd(a) ==
  /\ pc[a] = "create"
  /\ LET w == W(a)
         okW == crd[w].st = "none"
         C1 == IF okW THEN [crd EXCEPT ![w] = Rendered(loc[a].ver, loc[a].s, FALSE)] ELSE crd
         B1 == IF okW THEN bad \cup FinBad(a) ELSE bad
     IN \/ /\ Ok(a, "create:crd") /\ crd' = C1 /\ bad' = B1 /\ UNCHANGED <<run, wver>>
           \* a new CRD is not Established yet: requeue (AlreadyExists: error)
           /\ (IF okW /\ ~WaitEstablished THEN Go(a, "decide") ELSE EndRec(a))
        \/ /\ Inj(a, "create:crd", "fail") /\ EndRec(a) /\ UNCHANGED <<crd, bad, run, wver>>
        \/ /\ Inj(a, "create:crd", "crashBefore") /\ CrashAll /\ UNCHANGED <<crd, bad>>
        \/ /\ Inj(a, "create:crd", "crashAfter") /\ crd' = C1 /\ bad' = B1 /\ CrashAll
  /\ UNCHANGED <<xrd, loc, dirty, cdirty, envs, quiet>>

\* Update(rendered CRD) replaces metadata and spec: ownership, tampering are put right; on a CRD that is being
\* deleted it also wipes Kubernetes' clean-up finalizer, so the CRD disappears at once
UpdateCrd(a) ==
  /\ pc[a] = "update"
  /\ LET w == W(a)
         okW == crd[w].st # "none" /\ ~cdirty[a]
         gone == okW /\ crd[w].st = "deleting"
         C1 == IF ~okW THEN crd
               ELSE IF gone THEN [crd EXCEPT ![w] = NoCrd]
               ELSE [crd EXCEPT ![w] = Rendered(loc[a].ver, loc[a].s, crd[w].est)]
         B1 == IF okW /\ C1 # crd THEN bad \cup FinBad(a) ELSE bad
         est == okW /\ ~gone /\ crd[w].est
     IN \/ /\ Ok(a, "update:crd") /\ crd' = C1 /\ bad' = B1 /\ SetLoc(a, "est", est) /\ UNCHANGED <<run, wver>>
           /\ (IF okW /\ ~gone /\ (est \/ ~WaitEstablished) THEN Go(a, "decide") ELSE EndRec(a))
        \/ /\ Inj(a, "update:crd", "fail") /\ EndRec(a) /\ UNCHANGED <<crd, bad, loc, run, wver>>
        \/ /\ Inj(a, "update:crd", "crashBefore") /\ CrashAll /\ UNCHANGED <<crd, bad, loc>>
        \/ /\ Inj(a, "update:crd", "crashAfter") /\ crd' = C1 /\ bad' = B1 /\ CrashAll /\ UNCHANGED loc
  /\ UNCHANGED <<xrd, dirty, cdirty, envs, quiet>>

\* ---- local decision (no call): restart on a version change, skip the start if the engine runs the controller
\* FixTypeRef (candidate repair of D17): "record, then start" - whenever the recorded type is not the desired one the
\* controller is stopped (a no-op if nothing runs), the desired type is recorded (condition withdrawn), and only then is
\* the new controller started; so whatever runs was recorded before it started.
NeedStop(a) == IF FixTypeRef THEN loc[a].type # loc[a].ver
               ELSE loc[a].type # "none" /\ loc[a].type # loc[a].ver
Decide(a) ==
  /\ pc[a] = "decide"
  /\ Go(a, IF NeedStop(a) THEN "stop"
           ELSE IF run[W(a)] THEN (IF FixWatches THEN "watchesR" ELSE "statusR")
           ELSE "start")
  /\ UNCHANGED <<xrd, crd, run, wver, loc, dirty, cdirty, envs, faults, quiet, bad, hist>>

Stop(a) ==
  /\ pc[a] = "stop"
  /\ LET w == W(a) IN
     \/ /\ Ok(a, "stop") /\ run' = [run EXCEPT ![w] = FALSE] /\ wver' = [wver EXCEPT ![w] = "none"]
        /\ Go(a, IF FixTypeRef THEN "record" ELSE "start")
     \/ /\ EInj(a, "stop") /\ EndRec(a) /\ UNCHANGED <<run, wver>>
  /\ UNCHANGED <<xrd, crd, loc, dirty, cdirty, envs, quiet, bad>>

Start(a) ==
  /\ pc[a] = "start"
  /\ LET w == W(a) IN
     \/ /\ Ok(a, "start") /\ run' = [run EXCEPT ![w] = TRUE] /\ Go(a, "watches")
        /\ bad' = bad \cup (IF ~loc[a].est THEN {"StartOnlyEstablished"} ELSE {})
                      \cup (IF run[w] THEN {"Restart.StopFirst"} ELSE {}) \cup FinBad(a)
     \/ /\ EInj(a, "start") /\ EndRec(a) /\ UNCHANGED <<run, bad>>
  /\ UNCHANGED <<xrd, crd, wver, loc, dirty, cdirty, envs, quiet>>

Watches(a) ==
  /\ pc[a] \in {"watches", "watchesR"}
  /\ LET w == W(a) IN
     \/ /\ Ok(a, "watches") /\ wver' = [wver EXCEPT ![w] = IF @ = "none" THEN loc[a].ver ELSE @]
        /\ Go(a, IF pc[a] = "watches" THEN "statusS" ELSE "statusR")
     \/ /\ EInj(a, "watches") /\ EndRec(a) /\ UNCHANGED wver
  /\ UNCHANGED <<xrd, crd, run, loc, dirty, cdirty, envs, quiet, bad>>

\* ---- only with FixTypeRef: Status().Update(xrd) that records the desired type and withdraws the condition
Record(a) ==
  /\ pc[a] = "record"
  /\ LET okW == xrd.ex /\ ~dirty[a]
         X1 == IF okW THEN [xrd EXCEPT !.cond[a] = "False", !.type[a] = loc[a].ver] ELSE xrd
         D1 == IF okW /\ X1 # xrd THEN [dirty EXCEPT ![Oth(a)] = TRUE] ELSE dirty
     IN \/ /\ Ok(a, "status:xrd") /\ xrd' = X1 /\ dirty' = D1 /\ UNCHANGED <<run, wver>>
           /\ (IF okW THEN Go(a, "start") ELSE EndRec(a))
        \/ /\ Inj(a, "status:xrd", "fail") /\ EndRec(a) /\ UNCHANGED <<xrd, dirty, run, wver>>
        \/ /\ Inj(a, "status:xrd", "crashBefore") /\ CrashAll /\ UNCHANGED <<xrd, dirty>>
        \/ /\ Inj(a, "status:xrd", "crashAfter") /\ xrd' = X1 /\ dirty' = D1 /\ CrashAll
  /\ UNCHANGED <<crd, loc, cdirty, envs, quiet, bad>>

\* ---- Status().Update(xrd), resourceVersion-checked.  statusS (after a start) also records the type.
Status(a) ==
  /\ pc[a] \in {"statusR", "statusS"}
  /\ LET w == W(a)
         okW == xrd.ex /\ ~dirty[a]
         X1 == IF ~okW THEN xrd
               ELSE IF pc[a] = "statusS" THEN [xrd EXCEPT !.cond[a] = "True", !.type[a] = loc[a].ver]
               ELSE [xrd EXCEPT !.cond[a] = "True"]
         D1 == IF okW /\ X1 # xrd THEN [dirty EXCEPT ![Oth(a)] = TRUE] ELSE dirty     \* a no-op write keeps the resourceVersion
         CB == IF okW THEN CondBad(a, run[w], wver[w], X1.type[a], loc[a].ver) ELSE {}
     IN \/ /\ Ok(a, "status:xrd") /\ xrd' = X1 /\ dirty' = D1 /\ EndRec(a) /\ UNCHANGED <<run, wver>>
           /\ bad' = bad \cup CB \cup (IF okW THEN AfterBad(a, X1, run[w], wver[w]) ELSE {})
        \/ /\ Inj(a, "status:xrd", "fail") /\ EndRec(a) /\ UNCHANGED <<xrd, dirty, run, wver, bad>>
        \/ /\ Inj(a, "status:xrd", "crashBefore") /\ CrashAll /\ UNCHANGED <<xrd, dirty, bad>>
        \/ /\ Inj(a, "status:xrd", "crashAfter") /\ xrd' = X1 /\ dirty' = D1 /\ CrashAll /\ bad' = bad \cup CB
  /\ UNCHANGED <<crd, loc, cdirty, envs, quiet>>

Rec == \E a \in A : GetXrd(a) \/ AddFin(a) \/ GetCrd(a) \/ CreateCrd(a) \/ UpdateCrd(a) \/ Decide(a)
                    \/ Stop(a) \/ Record(a) \/ Start(a) \/ Watches(a) \/ Status(a)
Next == Env \/ Rec
Spec == Init /\ [][Next]_vars

----------------------------------------------------------------------------
(* Design-level properties *)
\* what the code as written keeps under every schedule, fault and edit
SafeNames == {"StartOnlyEstablished", "Restart.StopFirst", "FinalizerFirst", "CondTruth.Running",
              "AfterReconcile.Crd", "AfterReconcile.Running", "AfterReconcile.Cond", "AfterReconcile.Finalizer"}
Safe == bad \cap SafeNames = {}
\* what it does not keep (D17, D18): expected to FAIL for the code as written, to hold with the repairs
Converges == bad \ SafeNames = {}
AllGood == bad = {}
\* a controlled-by-somebody-else CRD is never written; XRD writes never touch the spec (resourceVersion check)
ForeignFrozen == [][\A w \in Ws : (crd[w].ctrl = "foreign" /\ hist'[Len(hist')].t = "call") => crd'[w] = crd[w]]_vars
XrdSpecKept == [][hist'[Len(hist')].t = "call" => (xrd'.ver = xrd.ver /\ xrd'.s = xrd.s /\ xrd'.claim = xrd.claim /\ xrd'.del = xrd.del)]_vars
=============================================================================
