------------------------------- MODULE KubeAPI -------------------------------
(***************************************************************************)
(* The Kubernetes API server as Crossplane's controllers see it, for one   *)
(* object: the contract that harness/simapi implements and that every      *)
(* controller module relies on.  It is stated as a step relation           *)
(* Step(pre, op, post) over an abstract object, independent of simapi's    *)
(* code, and simapi is trace-checked against it (MonKubeAPI.tla: random    *)
(* operation sequences against the real simapi, every recorded step must   *)
(* satisfy the relation).  The rules:                                      *)
(*                                                                         *)
(*  Reads         Get / List never change anything.                        *)
(*  Create        AlreadyExists if the object exists (nothing changes);    *)
(*                a new object gets a fresh resourceVersion, generation 1, *)
(*                and - for kinds with a status subresource - no status.   *)
(*  Update        NotFound if absent; Conflict (nothing changes) if the    *)
(*                request carries a resourceVersion other than the stored  *)
(*                one; the main resource ignores status, the status        *)
(*                subresource ignores everything else.                     *)
(*  NoOp          a write that leaves the object identical keeps the       *)
(*                resourceVersion; any change takes a strictly larger one. *)
(*  Generation    bumped exactly when something outside metadata/status    *)
(*                changes.                                                 *)
(*  Controllers   a request that would leave two controller references is  *)
(*                Invalid; nothing changes.                                *)
(*  Finalizers    Delete of an object with finalizers sets the deletion    *)
(*                timestamp and keeps it; without finalizers it is gone;   *)
(*                removing the last finalizer of a deleting object removes *)
(*                it; the deletion timestamp cannot be unset.              *)
(*  DryRun        changes nothing, answers as the real call would.         *)
(*  Faults        an injected error / conflict / crash-before leaves the   *)
(*                store unchanged; crash-after applies the effect.         *)
(*  Apply         server-side apply: the manager's intent is merged in;    *)
(*                fields it owned and no longer asserts are removed unless *)
(*                another manager owns them; fields of other managers      *)
(*                stay; without force a value owned by another manager     *)
(*                conflicts; creates the object if absent.                 *)
(***************************************************************************)
EXTENDS Integers, Sequences, FiniteSets, TLC

\* abstract object: [ex, rv, gen, del, fins (sequence, as a set), ctrl, f1, f2, st, own1, own2]
\*   f1, f2: spec fields ("-" = absent); st: a status field; own1/own2: the SSA managers owning f1 / f2 (sets as sequences)
Range(s) == {s[i] : i \in DOMAIN s}
Same(a, b) == /\ a.ex = b.ex /\ a.rv = b.rv /\ a.gen = b.gen /\ a.del = b.del /\ Range(a.fins) = Range(b.fins)
              /\ a.ctrl = b.ctrl /\ a.f1 = b.f1 /\ a.f2 = b.f2 /\ a.st = b.st
\* (field ownership is part of the object: managedFields)
Content(a) == <<a.del, Range(a.fins), a.ctrl, a.f1, a.f2, a.st, Range(a.own1), Range(a.own2)>>
Spec_(a) == <<a.f1, a.f2>>
Unchanged(pre, post) == Same(pre, post)
\* rv / generation bookkeeping of a write that went through
\* (op.identical: the whole stored object - also the parts this abstraction does not show, e.g. ownership of other fields -
\* is the same before and after)
Booked(pre, post, op) ==
  /\ post.ex
  /\ (op.identical => post.rv = pre.rv)                          \* NoOp
  /\ (~op.identical => post.rv > pre.rv)
  /\ (Content(post) # Content(pre) => ~op.identical)
  /\ (Spec_(post) = Spec_(pre) => post.gen = pre.gen)             \* Generation
  /\ (Spec_(post) # Spec_(pre) => post.gen = pre.gen + 1)
Finalized(pre, req) == pre.del /\ Range(req.fins) = {}           \* the last finalizer of a deleting object is removed

Injected(op) == op.injected \in {"error", "conflict", "crashBefore"}

Reads(pre, op, post) == op.verb \in {"get", "list"} => Unchanged(pre, post)
Faults(pre, op, post) == Injected(op) => (Unchanged(pre, post) /\ op.outcome \in {"error", "conflict", "dropped"})
DryRun(pre, op, post) == op.dry => Unchanged(pre, post)

Create(pre, op, post) ==
  (op.verb = "create" /\ ~Injected(op)) =>
     IF pre.ex THEN op.outcome = "exists" /\ Unchanged(pre, post)
     ELSE IF op.req.ctrls > 1 THEN op.outcome = "invalid" /\ Unchanged(pre, post)
     ELSE /\ op.outcome = "ok"
          /\ (op.dry \/ (/\ post.ex /\ post.rv > op.maxrv /\ post.gen = 1 /\ ~post.del
                         /\ post.f1 = op.req.f1 /\ post.f2 = op.req.f2 /\ post.st = "-"
                         /\ Range(post.fins) = Range(op.req.fins) /\ post.ctrl = op.req.ctrl))

Update(pre, op, post) ==
  (op.verb = "update" /\ op.sub = "" /\ ~Injected(op)) =>
     IF ~pre.ex THEN op.outcome = "notfound" /\ Unchanged(pre, post)
     ELSE IF op.req.rv # 0 /\ op.req.rv # pre.rv THEN op.outcome = "conflict" /\ Unchanged(pre, post)
     ELSE IF op.req.ctrls > 1 THEN op.outcome = "invalid" /\ Unchanged(pre, post)
     ELSE /\ op.outcome = "ok"
          /\ (op.dry \/
              IF Finalized(pre, op.req) THEN ~post.ex
              ELSE /\ Booked(pre, post, op)
                   /\ post.f1 = op.req.f1 /\ post.f2 = op.req.f2 /\ post.st = pre.st      \* status ignored
                   /\ Range(post.fins) = Range(op.req.fins) /\ post.ctrl = op.req.ctrl
                   /\ post.del = pre.del)                                                  \* cannot be unset (or set)

StatusUpdate(pre, op, post) ==
  (op.verb = "update" /\ op.sub = "status" /\ ~Injected(op)) =>
     IF ~pre.ex THEN op.outcome = "notfound" /\ Unchanged(pre, post)
     ELSE IF op.req.rv # 0 /\ op.req.rv # pre.rv THEN op.outcome = "conflict" /\ Unchanged(pre, post)
     ELSE /\ op.outcome = "ok"
          /\ (op.dry \/ (/\ Booked(pre, post, op) /\ post.st = op.req.st
                         /\ post.f1 = pre.f1 /\ post.f2 = pre.f2 /\ Range(post.fins) = Range(pre.fins)
                         /\ post.ctrl = pre.ctrl /\ post.del = pre.del /\ post.gen = pre.gen))

\* a JSON merge patch of f1 (and of the resourceVersion as a precondition when the patch carries one)
MergePatch(pre, op, post) ==
  (op.verb = "patch-merge" /\ ~Injected(op)) =>
     IF ~pre.ex THEN op.outcome = "notfound" /\ Unchanged(pre, post)
     ELSE IF op.req.rv # 0 /\ op.req.rv # pre.rv THEN op.outcome = "conflict" /\ Unchanged(pre, post)
     ELSE /\ op.outcome = "ok"
          /\ (op.dry \/ (/\ Booked(pre, post, op) /\ post.f1 = op.req.f1 /\ post.f2 = pre.f2 /\ post.st = pre.st
                         /\ Range(post.fins) = Range(pre.fins) /\ post.ctrl = pre.ctrl /\ post.del = pre.del))

Delete(pre, op, post) ==
  (op.verb = "delete" /\ ~Injected(op)) =>
     IF ~pre.ex THEN op.outcome = "notfound" /\ Unchanged(pre, post)
     ELSE IF op.req.rv # 0 /\ op.req.rv # pre.rv THEN op.outcome = "conflict" /\ Unchanged(pre, post)
     ELSE /\ op.outcome = "ok"
          /\ (op.dry \/
              IF Range(pre.fins) = {} THEN ~post.ex
              ELSE /\ post.ex /\ post.del /\ Range(post.fins) = Range(pre.fins)
                   /\ post.f1 = pre.f1 /\ post.f2 = pre.f2 /\ post.st = pre.st /\ post.ctrl = pre.ctrl
                   /\ (pre.del => post.rv = pre.rv) /\ (~pre.del => post.rv > pre.rv))

\* server-side apply by manager m of an intent that asserts f1 and / or f2 ("-" = not asserted)
OwnedBy(o, f, m) == m \in Range(IF f = 1 THEN o.own1 ELSE o.own2)
Others(o, f, m) == Range(IF f = 1 THEN o.own1 ELSE o.own2) \ {m}
ApplyField(pre, post, f, m, want, force) ==
  LET old == IF f = 1 THEN pre.f1 ELSE pre.f2
      new == IF f = 1 THEN post.f1 ELSE post.f2 IN
  IF want # "-" THEN new = want                                        \* asserted: set (conflicts are judged below)
  ELSE IF pre.ex /\ OwnedBy(pre, f, m) /\ Others(pre, f, m) = {} THEN new = "-"   \* dropped and nobody else owns it: removed
  ELSE new = old                                                       \* not ours / also someone else's: kept
ApplyConflicts(pre, op) ==
  \E f \in {1, 2} : LET want == IF f = 1 THEN op.req.f1 ELSE op.req.f2
                        old == IF f = 1 THEN pre.f1 ELSE pre.f2 IN
                    want # "-" /\ pre.ex /\ old # "-" /\ old # want /\ Others(pre, f, op.mgr) # {}
Apply(pre, op, post) ==
  (op.verb = "patch-apply" /\ ~Injected(op)) =>
     IF op.req.rv # 0 /\ (~pre.ex \/ op.req.rv # pre.rv) THEN op.outcome = "conflict" /\ Unchanged(pre, post)
     ELSE IF ~op.force /\ ApplyConflicts(pre, op) THEN op.outcome = "conflict" /\ Unchanged(pre, post)
     ELSE /\ op.outcome = "ok"
          /\ (op.dry \/ (/\ post.ex
                         /\ ApplyField(pre, post, 1, op.mgr, op.req.f1, op.force)
                         /\ ApplyField(pre, post, 2, op.mgr, op.req.f2, op.force)
                         /\ (pre.ex => (Booked(pre, post, op) /\ post.st = pre.st /\ post.del = pre.del
                                        /\ Range(post.fins) = Range(pre.fins) /\ post.ctrl = pre.ctrl))
                         /\ (~pre.ex => (post.gen = 1 /\ post.rv > op.maxrv /\ post.st = "-"))))

Step(pre, op, post) ==
  /\ Reads(pre, op, post) /\ Faults(pre, op, post) /\ DryRun(pre, op, post)
  /\ Create(pre, op, post) /\ Update(pre, op, post) /\ StatusUpdate(pre, op, post)
  /\ MergePatch(pre, op, post) /\ Delete(pre, op, post) /\ Apply(pre, op, post)
=============================================================================
