SPECIFICATION Spec
CONSTANTS
  InitRevs <- RevFresh
  InitICs <- IcTie
  InitVst <- VstDefault
  InitOk <- OkMany
  Feats <- OnlyTrue
  Orders <- BothOrders
  ICs <- NoICs
  Imgs <- ImgsNone
  MaxSig = 2
  MaxRev = 1
  MaxFaults = 0
  MaxEnv = 0
  MidEnv = TRUE
  EnvKinds <- NoEnv
  FaultKinds <- NoFaults
  GateOn = TRUE
  GateSkipsInactive = TRUE
  Sticky = TRUE
  VecICs <- NoICs
  VecEvICs <- NoICs
  VecImgs <- NoICs
VIEW view
ACTION_CONSTRAINT Emit
CHECK_DEADLOCK FALSE
INVARIANTS GateSafe RepairedSig VerdictShape RepairedRev InactiveDeactivates
