SPECIFICATION Spec
CONSTANTS
  Foreground = FALSE
  MaxRecs = 2
  MaxEnv = 2
  MaxFaults = 0
  ThirdParty = FALSE
VIEW view
ACTION_CONSTRAINT EmitEnd
CHECK_DEADLOCK FALSE

