"""X07 - the life cycle of a package and of its revisions around the cores that C14 / C15 / C16 / C17 / C08 / X01 cover
(extension beyond C01..C20).  Package manager reconciler: pause, ImageConfig selection and pull secrets, what is handed down
to the current revision (and only to it), status (currentRevision / Installed / Healthy mirrored), every exit.  Revision
reconciler: pause, finalizer, deletion path (cache entry, Lock entry, finalizer), order of the stages, what an Inactive
revision does, conditions / events / requeue at every exit, repair.  Both REAL reconcilers run in one world.
Model: spec/PkgLifecycle.tla; driver: harness/drivers/pkglifecycle; monitor: spec/MonPkgLifecycle.tla."""
import glob
import json
import os

import vlib

PID = "X07"
MODULE = "MCPkgLifecycle"
# (cfg suffix, scenarios replayed) per tier
QUICK = [("quick", 420), ("quick_odd", 160), ("quick_rev", 420), ("quick_gate", 100), ("quick_both", 260)]
THOROUGH = [("thorough", 14000), ("thorough_rev", 14000), ("thorough_both", 12000), ("thorough_ic", 3540), ("thorough_f2", 6000), ("thorough_rev_f2", 6000),
            ("quick", 14374), ("quick_odd", 6083), ("quick_rev", 11294), ("quick_gate", 2000), ("quick_both", 2030)]
# witness cfgs: a guard of the model switched off (or the code as it was before the repairs 5d1ffe1 / 5866e3a of the findings
# F-a / F-c, or as it is for observation O1) must violate the named invariant (anti-vacuity at model level); `fixed` = the
# same start as witness_aswritten with the repair of F-a holds the invariant
WITNESS = [("witness_finfirst", ["StepProps"]), ("witness_aswritten", ["RemovalHandedDown"]), ("witness_manual", ["DesiredStateDefined"]),
           ("witness_lockmiss", ["LockBeforeFin"]), ("fixed", [])]

MON_FORMULAS = [
    "Paused.Calls", "Paused.Condition", "Paused.Exit", "Unpause.Calls", "Unpause.Cleans", "Pkg.OnlyStatusWrites", "Pkg.SpecUntouched",
    "Mgr.WritesOnly", "Rev.WritesOnly", "Rev.StatusOnlyStatus", "Rev.SpecUntouched", "Gone.Calls", "Gone.Exit",
    "Secrets.OwnKept", "Select.Longest", "Select.EventOnlyNew",
    "Mgr.HandDown.Source", "Mgr.HandDown.PullPolicy", "Mgr.HandDown.IgnoreConstraints", "Mgr.HandDown.SkipDependencies",
    "Mgr.HandDown.RuntimeConfigRef", "Mgr.HandDown.PullSecrets", "Mgr.HandDown.PullSecrets.Removed", "Mgr.HandDown.ControllerConfigRef",
    "Mgr.HandDown.ControllerConfigRef.Removed", "Mgr.HandDown.Owner", "Mgr.HandDown.CommonLabels", "Mgr.Activate.Automatic",
    "Mgr.Activate.Manual", "Mgr.Activate.Defined", "Mgr.Deactivate.Only", "Mgr.Foreign.Untouched", "Mgr.Apply.KeepsRest",
    "Mgr.Status.Current", "Mgr.Status.CurrentOnlyFinal", "Mgr.Status.Installed", "Mgr.Health.Mirror", "Mgr.Health.TrueOnlyIfListedTrue",
    "Mgr.Health.OnlyFinal", "Mgr.Exit.PullConfig.Condition", "Mgr.Exit.PullConfig", "Mgr.Exit.Unpack.Condition", "Mgr.Exit.Unpack",
    "Mgr.Exit.Waiting.Condition", "Mgr.Exit.Waiting", "Mgr.Exit.NoStatus", "Mgr.Exit.Event", "Mgr.Exit.Conflict",
    "Mgr.Requeue.OnFailure", "Mgr.Requeue.Final", "Mgr.Quiescent", "Mgr.Quiescent.InactivePackage", "Rev.Quiescent", "Rev.Quiescent.TwoRevisionsInLock",
    "Rev.Deleting.Calls", "Rev.Deleting.CacheFirst", "Rev.Deleting.LockStage", "Rev.Deleting.LockFirst", "Rev.Deleting.LockFirst.CacheMiss",
    "Rev.Deleting.OnlyFinalizer", "Rev.Finalizer.Kept", "Rev.Finalizer.First", "Rev.Finalizer.BeforeLock",
    "Rev.Order.Release", "Rev.Order.Deactivate", "Rev.Order.InactiveFirst", "Rev.Inactive.WithRefs", "Rev.Order.Content", "Rev.Order.Gate",
    "Rev.Order.Resolve", "Rev.Order.Pre", "Rev.Order.Establish", "Rev.Order.Post", "Rev.Establish.Control", "Rev.Inactive.NoLockEntry",
    "Rev.Resolve.AddsSelf", "Rev.Lock.OnlyOwnEntry", "Rev.Refs.AfterEstablish", "Rev.Meta.Adds",
    "Rev.Exit.Condition", "Rev.Exit.Incompatible", "Rev.Exit.Incompatible.NoRequeue", "Rev.Exit.NoStatus", "Rev.Exit.Event", "Rev.Exit.Conflict",
    "Rev.Exit.HealthyTrue", "Rev.Exit.Success", "Rev.Requeue.NeverPolls", "Rev.Requeue.OnlyConflict", "Rev.Requeue.OnFailure",
    "Settled.Stable", "Settled.Stable.InactivePackage", "Settled.Pkg.Paused", "Settled.Current", "Settled.HandDown", "Settled.HandDown.Removed",
    "Settled.Active", "Settled.Installed", "Settled.Health.Now", "Settled.Rev.Paused", "Settled.Rev.Deleted", "Settled.Gone.CacheEntry",
    "Settled.Gone.LockEntry", "Settled.Rev.Finalizer", "Settled.Rev.Health", "Settled.Rev.Health.UndefinedState", "Settled.Rev.Lock",
]


def features(h):
    """Features of a scenario for the feature-covering sample: those of the history (vlib.hist_features) and those of the
    initial configuration (which revisions exist and in which state, the package's policy / pause / optional fields, the
    ImageConfigs), so that rare starting points are always represented."""
    fs = set(vlib.hist_features(h))
    init = h[0] if isinstance(h, list) and h and isinstance(h[0], dict) else {}
    pk = init.get("pkg", {})
    for k in ("pol", "paused", "pull", "sec", "ccr", "lab", "curRev"):
        fs.add("pkg.%s=%s" % (k, pk.get(k)))
    for r, rv in sorted(init.get("revs", {}).items()):
        if rv.get("ex"):
            fs.add("%s:%s/%s/fin=%s/ofin=%s/paused=%s/refs=%s/rtc=%s/skip=%s" % (r, rv.get("ctrl"), rv.get("des"), rv.get("fin"), rv.get("ofin"),
                                                                              rv.get("paused"), rv.get("refs"), rv.get("rtc"), rv.get("skip")))
    fs.add("ics=%s" % ",".join(sorted(init.get("ics", []))))
    fs.add("lockex=%s" % init.get("lockex"))
    return fs


def sample(ctx, mc, n):
    if mc["emitted"] <= n:
        return ctx.sample_lines_uniform(mc["emitted_file"], n, mc["emitted"])
    return ctx.sample_lines_stratified(mc["emitted_file"], n, mc["emitted"], key=features)


def regression():
    out = []
    for p in sorted(glob.glob(os.path.join(vlib.VERIF, "scenarios", PID, "*.json"))):
        with open(p) as f:
            out.append(json.load(f))
    return out


def build(ctx):
    """go build of the driver; VERIF_X07_OVERLAY = a `go build -overlay` file (used by checks/x07_selftest.py for
    scratch mutants of the code under test; nothing is written to /repo)."""
    ov = os.environ.get("VERIF_X07_OVERLAY")
    if not ov:
        return ctx.go_build("./drivers/pkglifecycle")
    import shutil
    import subprocess
    bindir = os.path.join(ctx.work, "bin")
    os.makedirs(bindir, exist_ok=True)
    out = os.path.join(bindir, "pkglifecycle")
    e = dict(os.environ)
    e.update(vlib.GOENV)
    shutil.copy("/repo/go.sum", os.path.join(vlib.HARNESS, "go.sum"))
    p = subprocess.run(["go", "build", "-overlay", ov, "-o", out, "./drivers/pkglifecycle"], cwd=vlib.HARNESS, env=e,
                       stdout=subprocess.PIPE, stderr=subprocess.STDOUT, text=True)
    if p.returncode != 0:
        raise vlib.Inconclusive("harness does not build with overlay %s:\n%s" % (ov, p.stdout[-3000:]))
    return out


def expand_id(by_id, scid):
    parts = scid.split("/")
    base = dict(by_id.get(parts[0], {"id": parts[0]}))
    base["id"] = scid
    base.pop("sweepall", None)
    for p in parts[1:]:
        if p.startswith("sweep-"):
            _, r, k, o = p.split("-")
            base["sweep"] = {"rec": int(r[1:]), "idx": int(k[1:]), "outcome": o}
    return base


def hit_counts(prefix):
    """How often the things the formulas talk about occur in the recorded traces (anti-vacuity; not part of the verdict)."""
    d = os.path.dirname(prefix)
    c = {}

    def inc(k):
        c[k] = c.get(k, 0) + 1
    for fn in sorted(os.listdir(d)):
        if not fn.startswith(os.path.basename(prefix)):
            continue
        with open(os.path.join(d, fn)) as f:
            for line in f:
                e = json.loads(line)
                ev, seen, a = e["ev"], e["seen"], e["actor"]
                if ev == "seam":
                    inc("seam:%s:%s" % (e["cls"], e["outcome"]))
                    if e["cls"] in ("head", "fetch"):
                        with_secret = [x for x in e["configs"] if x["secret"] != "none"]
                        inc("registry:%s:configs=%d:extra=%s" % (e["cls"], len(with_secret), "yes" if len(e["arg"]["secrets"]) > len(seen["secs"]) else "no"))
                        if len({"".join(p) for x in with_secret for p in x["prefixes"]}) < sum(len(x["prefixes"]) for x in with_secret):
                            inc("registry:tie-among-configs")
                    if e["cls"] == "establish":
                        inc("establish:control=%s:des=%s" % (e["arg"]["control"], seen["des"]))
                if ev == "call":
                    if e["injected"]:
                        inc("injected:%s:%s" % (a, e["injected"]))
                    if e["applied"] and not e["noop"]:
                        inc("write:%s:%s:%s" % (a, e["cls"], e["kind"]))
                    if e["outcome"] == "conflict" and not e["injected"]:
                        inc("stale-conflict:%s:%s" % (a, e["cls"]))
                    if e["cls"] == "status" and e["outcome"] == "ok":
                        if a == "mgr":
                            p = e["post"]["pkg"]
                            inc("status:mgr:%s:%s:%s" % (p["synced"], p["inst"] + ("/" + p["istep"] if p["istep"] != "none" else ""), p["healthy"]))
                        else:
                            r = [x for x in e["post"]["revs"] if x["name"] == e["tgt"]]
                            if r:
                                inc("status:rev:%s:%s%s" % (r[0]["synced"], r[0]["healthy"], "/" + r[0]["hstep"] if r[0]["hstep"] != "none" else ""))
                if ev == "end":
                    kind = "gone" if seen["got"] and not seen["ex"] else "paused" if seen["paused"] else "deleting" if seen["del"] else \
                        "cleaning" if seen["pcond"] else "inactive+refs" if seen["des"] == "Inactive" and seen["refs"] else \
                        "inactive" if seen["des"] == "Inactive" else "work" if seen["got"] else "noget"
                    inc("end:%s:%s:%s" % (a, kind, e["result"]))
                    if e["clean"]:
                        inc("end:%s:clean" % a)
                    if e["steady"]:
                        inc("end:%s:steady" % a)
                    if e["requeue"]:
                        inc("end:%s:requeue" % a)
                    if e["after"]:
                        inc("end:%s:after=%d" % (a, e["after"]))
                if ev == "env":
                    inc("env:" + e["verb"] + (":mid" if e["rec"] and e["seen"]["got"] else ""))
                if ev == "settled":
                    inc("settled:stable=%s:rounds=%d" % (e["stable"], e["rounds"]))
    return dict(sorted(c.items()))


def drive_and_judge(ctx, scs, sweep=0, shards=8, counts=True):
    by_id = {s["id"]: s for s in scs}
    binp = build(ctx)
    prefix, s = ctx.run_sharded(binp, scs, ["-sweep", str(sweep), "-chunk", "40000"], shards=shards)
    viols, nlines = ctx.monitor("MonPkgLifecycle", prefix, par=8)
    if nlines != s["events"]:
        # (every recorded event has to be judged; trace files vanish when a second run of this check wipes the work directory)
        raise vlib.Inconclusive("the monitor read %d of the %d recorded events - was another ./check X07 running at the same time?" % (nlines, s["events"]))
    for formula, line, scid in viols:
        ctx.violation(formula, scid, ctx.replay_file(expand_id(by_id, scid)), "trace line %d" % line, fingerprint=formula)
    hc = hit_counts(prefix) if counts else {}
    byf = {}
    for formula, _, _ in viols:
        byf[formula] = byf.get(formula, 0) + 1
    s["violations_by_formula"] = dict(sorted(byf.items()))
    return s, nlines, hc


def run(ctx):
    import concurrent.futures
    plan = QUICK if ctx.quick else THOROUGH
    scs, states, trans, emitted, consts = [], 0, 0, 0, {}

    def mc_one(name):
        return ctx.model_check(MODULE, "%s_%s.cfg" % (MODULE, name), sub="mc_" + name, workers=4 if ctx.quick else 8,
                               timeout=300 if ctx.quick else 3000)
    # (the model runs are independent of each other: side by side; the sampling below is sequential, hence seeded)
    with concurrent.futures.ThreadPoolExecutor(max_workers=5 if ctx.quick else 3) as ex:
        mcs = list(ex.map(mc_one, [name for name, _ in plan]))
    for (name, n), mc in zip(plan, mcs):
        cfg = "%s_%s.cfg" % (MODULE, name)
        scs += [{"id": "%s-%s-%07d" % (PID, name, i), "hist": h} for i, h in sample(ctx, mc, n)]
        states += mc["states"]
        trans += mc["transitions"]
        emitted += mc["emitted"]
        consts[cfg] = dict(states=mc["states"], transitions=mc["transitions"], depth=mc["depth"], scenarios=mc["emitted"])
    # witnesses: thorough tier (and checks/x07_selftest.py)
    for name, expect in ([] if ctx.quick else WITNESS):
        cfg = "%s_%s.cfg" % (MODULE, name)
        mc = ctx.model_check(MODULE, cfg, sub="mc_" + name, workers=1, timeout=300, expect_violations=expect)
        consts[cfg] = dict(states=mc["states"], violated=mc["violated"], expected=expect)
    # the first scenarios of some configurations are also swept over every real call index x outcome
    nsweep = 1 if ctx.quick else 6
    seen = {}
    for sc in scs:
        cfg = sc["id"].split("-")[1]
        if cfg in ("quick", "quick_rev", "quick_both") and seen.get(cfg, 0) < nsweep and len(sc["hist"]) > 12:
            sc["sweepall"] = True
            seen[cfg] = seen.get(cfg, 0) + 1
    chosen = regression() + scs
    s, nlines, hc = drive_and_judge(ctx, chosen, shards=8 if ctx.quick else 14)
    ctx.cov.update(dict(
        states=states, transitions=trans, traces_validated_against_impl=s["runs"], samples=s["samples"][:2],
        model_runs=consts, scenarios_emitted=emitted, scenarios_replayed=s["scenarios"], reconciles=s["reconciles"],
        sweep_runs=s["sweep_runs"], events=nlines,
        per_action_counts={k: v for k, v in s["counts"].items()},
        drift=dict(unmatched_calls=s["drift"], runs_with_drift=s["drift_runs"], by_call=s.get("drift_by_abs", {})),
        formula_hit_counts=hc, monitor_formulas=MON_FORMULAS, violations_by_formula=s["violations_by_formula"], exhaustive=(emitted == len(scs)),
        checker_cmd="tlc MCPkgLifecycle (M,G) -> harness/drivers/pkglifecycle on /repo (T) -> tlc MonPkgLifecycle",
        rule="one scenario per model transition that ends a reconcile (shortest history reaching it); every failure kind (error "
             "value / Conflict / cache miss / dead process before / after the effect; seams: error / Conflict / no digest / "
             "forced cache miss) is its own transition; every scenario is followed by the fault-free aftermath (reconcilers "
             "run when something they watch changed or they asked for it, then everybody once more) whose outcome is judged "
             "(Settled.*); sweep = every real call index x {error, conflict, crash before, crash after, cache miss}; time "
             "passes between reconciles (every lastTransitionTime is moved into the past)",
    ))
    ctx.assumptions += [
        "simapi models the API server rules the reconcilers rely on (optimistic concurrency on Update / status Update / merge "
        "patches that carry a resourceVersion or uid, JSON merge patch semantics (RFC 7386: an absent key is left alone), "
        "finalizers and deletionTimestamp, garbage collection of dependents, no-op writes keep the resourceVersion)",
        "recording fakes at the seams: registry (Head / Fetch), package cache (in memory), Establisher, runtime hooks; the "
        "parser, the Provider linter, the dependency manager, the ImageConfig store, the Revisioner, the ImageBackend, the "
        "finalizer and the applicator are the real ones; packages have no dependencies (C17's subject)",
        "packagePullPolicy Never, revisionHistoryLimit / garbage collection of old revisions (C14), signature verification "
        "(C15) are not part of this module; one package (a Provider), at most two revisions",
        "list order of ImageConfigs is the store's (by name); ties between equally long prefixes are not judged",
        "verdict only from traces of the real reconcilers judged by MonPkgLifecycle.tla",
    ]


def replay(ctx, path):
    with open(path) as f:
        sc = json.load(f)
    s, nlines, _ = drive_and_judge(ctx, [sc], shards=1, counts=False)
    ctx.cov.update(dict(states=1, transitions=1, traces_validated_against_impl=s["runs"], samples=[sc], events=nlines))
