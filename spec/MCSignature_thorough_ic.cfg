SPECIFICATION Spec
CONSTANTS
  InitRevs <- RevVerdicts
  InitICs <- IcMix
  InitVst <- VstDefault
  InitOk <- OkBoth
  Feats <- OnlyTrue
  Orders <- Fwd
  ICs <- IcsT
  Imgs <- ImgsT
  MaxSig = 3
  MaxRev = 0
  MaxFaults = 1
  MaxEnv = 3
  MidEnv = TRUE
  EnvKinds <- EnvWorld
  FaultKinds <- FaultsFew
  GateOn = TRUE
  GateSkipsInactive = TRUE
  Sticky = TRUE
  VecICs <- NoICs
  VecEvICs <- NoICs
  VecImgs <- NoICs
VIEW view
ACTION_CONSTRAINT Emit
CHECK_DEADLOCK FALSE
INVARIANTS GateSafe RepairedSig VerdictShape RepairedRev InactiveDeactivates
