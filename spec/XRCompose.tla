---------------------------- MODULE XRCompose ----------------------------
(***************************************************************************)
(* The composite resource (XR) reconcile as implemented at the pinned      *)
(* commit: composite.Reconciler.Reconcile with either the function         *)
(* pipeline composer (FunctionComposer.Compose, Mode = "Pipeline") or the  *)
(* patch-and-transform composer with named templates (PTComposer.Compose + *)
(* GarbageCollectingAssociator, Mode = "PT").  One action per API call the *)
(* composer makes, in code order; every call may fail without effect (the  *)
(* reconcile ends) or crash the process after taking effect.  The          *)
(* environment chooses what is desired (function output / template names), *)
(* how the pipeline fails, deletes composed resources, finalises them.     *)
(*                                                                         *)
(* Composed resources are identified by abstract ids in order of           *)
(* allocation (GenerateName yields a fresh id; ids are never re-used).     *)
(* Properties: C01 (NoLeak, AtMostOne, NameStable, Quiescent), C03         *)
(* (FailSafe, GcExact, NeverDeleteDesired), C02 placements on composed     *)
(* resources.  The reconciler's prologue (finalizer, revision fetch,       *)
(* naming label) touches only the XR's metadata and is not modelled; the   *)
(* harness sweeps faults over those real calls separately.                 *)
(***************************************************************************)
EXTENDS Integers, Sequences, FiniteSets, TLC

CONSTANTS
  Mode,        \* "Pipeline" | "PT"
  Names,       \* desired resource names / template names
  MaxObjs,     \* bound on allocated composed resource ids
  MaxRecs, MaxFaults, MaxEnv,
  ForeignAt,   \* "none" | "ref": an object controlled by a foreign owner, annotated with a name in Names, is referenced by the XR
               \* | "name" (Pipeline only): the function asks for a fixed metadata.name that a foreign-controlled object has
  RenderFails, \* PT: the environment may make templates fail to render
  CacheMisses, \* TRUE: the informer cache may miss referenced resources (Pipeline)
  VerBumps,    \* TRUE: the environment may move the desired resources to another apiVersion of their kind
  Legacies,    \* TRUE: the composed resources' managed fields may become what a client-side-apply writer left
  Forges,      \* TRUE: the desired resources' bodies may carry a stale composition-resource-name annotation
  FailKinds    \* ways the pipeline can fail (Pipeline mode): subset of {"fnerror","fatal","reqloop","reqlabel","reqflip","badinput","nocreds"} + step suffix

Ids == 1..MaxObjs
None == 0
FixedId == MaxObjs + 1        \* the object with the fixed name of ForeignAt = "name"
AllIds == 1..(MaxObjs + 1)
FixedName == CHOOSE n \in Names : TRUE    \* the desired name that asks for the fixed metadata.name

VARIABLES
  store,    \* id -> [st, ctrl, rname]   st: "none" | "live" | "deleting"; ctrl: "xr" | "foreign" | "nobody"
  refs,     \* set of ids in the XR's spec.resourceRefs
  want,     \* names the environment currently wants (function output / template names)
  deco,     \* decorations of the desired resources' bodies the environment switched on: subset of {"ver", "forge"}
  rfail,    \* PT: templates that currently fail to render (a Required from-XR patch whose source field is missing)
  nextId,   \* next id GenerateName will produce
  pc,
  obs,      \* name -> id observed / associated in this reconcile (None if not)
  des,      \* name -> id of the desired resource in this reconcile
  wantR,    \* the desired names of this reconcile (what the pipeline returned / the revision read)
  todo,     \* sequence of pending loop items
  recs, faults, envs,
  pfail,    \* "" or how this reconcile's Compose failed (a pipeline failure kind, "err"): nothing may be written any more
  startS, startR,  \* store / refs at the start of this reconcile (ghost)
  cmiss,    \* the informer cache missed a referenced resource in this reconcile (the observer fell back to a live read)
  gcd,      \* ids the collector deleted in this reconcile (ghost)
  quiet,    \* no environment step and no fault since the previous reconcile started (ghost)
  steady,   \* the previous reconcile completed fault-free in a quiet environment (ghost)
  bad,      \* ghost: names of violated step properties (kept as state so that TLC reports them as invariants)
  hist

vars == <<store, refs, want, rfail, deco, nextId, pc, obs, des, wantR, todo, recs, faults, envs, pfail, startS, cmiss, startR, gcd, quiet, steady, bad, hist>>
view == <<store, refs, want, rfail, deco, nextId, pc, obs, des, wantR, todo, recs, faults, envs, pfail, startS, cmiss, startR, gcd, quiet, steady, bad>>

Absent == [st |-> "none", ctrl |-> "nobody", rname |-> "-"]
Exists(o) == store[o].st # "none"
Live(o) == store[o].st = "live"
Mine(o) == store[o].ctrl # "foreign"
IdStr(o) == IF o = FixedId THEN "fixed" ELSE "o" \o ToString(o)

H(t, k, o, f) == [t |-> t, k |-> k, o |-> o, f |-> f]
Log(e) == hist' = Append(hist, e)
SetToSeq(S) == LET RECURSIVE F(_)
                   F(T) == IF T = {} THEN <<>> ELSE LET x == CHOOSE y \in T : \A z \in T : y <= z IN <<x>> \o F(T \ {x})
               IN F(S)
NamesSeq(S) == LET RECURSIVE F(_)
                   F(T) == IF T = {} THEN <<>> ELSE LET x == CHOOSE y \in T : TRUE IN <<x>> \o F(T \ {x})
               IN F(S)

\* a Resources-mode Composition needs at least one template (the revision is rejected as invalid otherwise)
Wants == IF Mode = "PT" THEN (SUBSET Names) \ {{}} ELSE SUBSET Names

Init ==
  /\ store = [o \in AllIds |->
               IF ForeignAt = "ref" /\ o = 1 THEN [st |-> "live", ctrl |-> "foreign", rname |-> FixedName]
               ELSE IF ForeignAt = "name" /\ o = FixedId THEN [st |-> "live", ctrl |-> "foreign", rname |-> "-"]
               ELSE Absent]
  /\ refs = (IF ForeignAt = "ref" THEN {1} ELSE {})
  /\ want \in Wants /\ rfail = {} /\ deco = {}
  /\ nextId = (IF ForeignAt = "ref" THEN 2 ELSE 1)
  /\ pc = "idle" /\ obs = [n \in Names |-> None] /\ des = [n \in Names |-> None] /\ wantR = {}
  /\ todo = <<>> /\ recs = 0 /\ faults = 0 /\ envs = 0 /\ pfail = ""
  /\ startS = store /\ cmiss = FALSE /\ startR = refs /\ gcd = {} /\ quiet = FALSE /\ steady = FALSE /\ bad = {}
  /\ hist = << [t |-> "init", mode |-> Mode, want |-> want, foreignAt |-> ForeignAt, names |-> Names,
               fixedName |-> FixedName] >>

----------------------------------------------------------------------------
(* Environment, between reconciles.                                        *)
EnvOK == pc = "idle" /\ envs < MaxEnv
EnvUnch == /\ envs' = envs + 1 /\ quiet' = FALSE /\ steady' = FALSE
           /\ UNCHANGED <<refs, nextId, pc, obs, des, wantR, todo, recs, faults, pfail, startS, cmiss, startR, gcd, bad>>
ChangeWant == /\ EnvOK /\ \E w \in Wants : w # want /\ want' = w
                 /\ Log([t |-> "env", k |-> "want", o |-> "", f |-> "", names |-> w])
              /\ UNCHANGED <<store, rfail, deco>> /\ EnvUnch
\* PT: the XR field a template's Required patch reads (dis)appears: the template cannot be rendered for now
ChangeRFail == /\ Mode = "PT" /\ RenderFails /\ EnvOK /\ \E r \in SUBSET Names : r # rfail /\ rfail' = r
                  /\ Log([t |-> "env", k |-> "rfail", o |-> "", f |-> "", names |-> r])
               /\ UNCHANGED <<store, want, deco>> /\ EnvUnch
\* the desired resources move to another served apiVersion of the same kind (the function / the template is upgraded):
\* same kind, same names - nothing about which resources exist changes, every existing one is updated in place
Toggle(d) == deco' = IF d \in deco THEN deco \ {d} ELSE deco \cup {d}
ChangeVer == /\ VerBumps /\ EnvOK /\ Toggle("ver") /\ Log(H("env", "ver", "", "")) /\ UNCHANGED <<store, want, rfail>> /\ EnvUnch
\* the bodies the author supplies (function output / template base) start or stop carrying a
\* crossplane.io/composition-resource-name annotation that names ANOTHER resource (YAML pasted from a live composed
\* resource, a body built by copying another one). RenderComposedResourceMetadata stamps Crossplane's own value over it:
\* nothing about which resources exist, or under which name they are associated, changes
\* (added after the seeded changes C01-m5 / C03-m6 - "keep an annotation that is already there" - were missed)
ChangeForge == /\ Forges /\ EnvOK /\ Toggle("forge") /\ Log(H("env", "forge", "", "")) /\ UNCHANGED <<store, want, rfail>> /\ EnvUnch
\* the managed fields of the existing composed resources are (again) what a client-side-apply writer left: one Update entry of
\* manager "crossplane" - the state of an XR whose Composition was just moved from mode Resources to mode Pipeline, or that was
\* last reconciled by a Crossplane without server-side apply. The function composer upgrades such resources (a JSON patch that
\* clears the managed fields, pinned to the resourceVersion it read) after it has persisted the references and before it
\* applies; nothing about which resources exist changes (added after the seeded changes C03-m9 - the upgrade moved in front
\* of the pipeline - and C02-m10 - the upgrade patch lost its resourceVersion pin - were missed)
ChangeLegacy == /\ Legacies /\ EnvOK /\ Toggle("legacy") /\ Log(H("env", "legacy", "", "")) /\ UNCHANGED <<store, want, rfail>> /\ EnvUnch
\* a user (or a provider's finalizer) deletes a composed resource: it is gone, or stays with a deletionTimestamp
UserDelete(o) == /\ EnvOK /\ Live(o) /\ store[o].ctrl = "xr"
                 /\ \E s \in {"deleting", "none"} :
                      /\ store' = [store EXCEPT ![o] = IF s = "none" THEN Absent ELSE [@ EXCEPT !.st = "deleting"]]
                      /\ Log(H("env", IF s = "none" THEN "remove" ELSE "markdeleted", IdStr(o), ""))
                 /\ UNCHANGED <<want, rfail, deco>> /\ EnvUnch
Finalize(o) == /\ EnvOK /\ store[o].st = "deleting"
               /\ store' = [store EXCEPT ![o] = Absent] /\ Log(H("env", "finalize", IdStr(o), ""))
               /\ UNCHANGED <<want, rfail, deco>> /\ EnvUnch
Env == ChangeWant \/ ChangeRFail \/ ChangeVer \/ ChangeForge \/ ChangeLegacy \/ \E o \in Ids : UserDelete(o) \/ Finalize(o)

----------------------------------------------------------------------------
(* Reconcile plumbing.                                                     *)
(* Per call: ok | "error" (no effect; in the prologue the reconcile        *)
(* returns, inside Compose the reconciler still writes the XR status) |    *)
(* "crashBefore" (no effect, the process is gone; the harness also uses a  *)
(* conflict here, on which the reconciler returns at once) | "crashAfter". *)
CanFault == faults < MaxFaults
Stay == UNCHANGED <<recs, steady, quiet>>
Ended == pc' = "idle" /\ todo' = <<>> /\ recs' = recs + 1
End(ok) == Ended /\ steady' = (ok /\ quiet) /\ quiet' = quiet
Ok(k, o) == Log(H("call", k, o, "ok")) /\ UNCHANGED faults
Faulted(k, o, f) == CanFault /\ faults' = faults + 1 /\ Log(H("call", k, o, f))
Fail(k, o) == Faulted(k, o, "error") /\ Ended /\ steady' = FALSE /\ quiet' = FALSE            \* prologue
FailC(k, o) == /\ Faulted(k, o, "error") /\ pc' = "status" /\ todo' = <<>> /\ pfail' = "err"  \* inside Compose
               /\ quiet' = FALSE /\ UNCHANGED <<recs, steady>>
Dies(k, o) == Faulted(k, o, "crashBefore") /\ Ended /\ steady' = FALSE /\ quiet' = FALSE /\ UNCHANGED pfail
Crash(k, o) == Faulted(k, o, "crashAfter") /\ Ended /\ steady' = FALSE /\ quiet' = FALSE /\ UNCHANGED pfail
NoEffect(k, o) == FailC(k, o) \/ Dies(k, o)
\* a Compose error that is not injected (controller mismatch ...): the reconciler writes the status and returns
ErrC == pc' = "status" /\ todo' = <<>> /\ pfail' = "err" /\ Stay /\ UNCHANGED <<hist, faults>>

\* step-property ghosts
Steady == steady /\ quiet /\ (rfail \cap want = {})   \* (an unrendered template means the composed state does not match the desired state)
NoteWrite(o) ==   \* a write reached composed resource o
  bad' = bad \cup (IF pfail # "" THEN {"FailSafe"} ELSE {})
               \cup (IF store[o].ctrl = "foreign" THEN {"ForeignTouched"} ELSE {})
               \cup (IF Steady THEN {"Quiescent"} ELSE {})
NoteDelete(o) ==
  bad' = bad \cup (IF pfail # "" THEN {"FailSafe"} ELSE {})
               \cup (IF store[o].ctrl = "foreign" THEN {"ForeignTouched"} ELSE {})
               \cup (IF store[o].rname \in wantR THEN {"NeverDeleteDesired"} ELSE {})
               \cup (IF Steady THEN {"Quiescent"} ELSE {})

Start == /\ pc = "idle" /\ recs < MaxRecs
         /\ \/ /\ Ok("get", "xr") /\ pc' = "observe" /\ todo' = SetToSeq(refs)
               /\ obs' = [n \in Names |-> None] /\ des' = [n \in Names |-> None] /\ wantR' = {}
               /\ pfail' = "" /\ startS' = store /\ cmiss' = FALSE /\ startR' = refs /\ gcd' = {}
               /\ quiet' = TRUE /\ UNCHANGED <<recs, steady>>
            \/ /\ (Fail("get", "xr") \/ Dies("get", "xr")) /\ UNCHANGED <<obs, des, wantR, pfail, startS, cmiss, startR, gcd>>
         /\ UNCHANGED <<store, refs, want, rfail, deco, nextId, envs, bad>>

\* ---- observation (Pipeline: ObserveComposedResources; PT: AssociateTemplates reads each reference)
\* A referenced resource that is gone is skipped; one controlled by someone else is ignored (Pipeline)
\* or associated by its annotation anyway (PT: the later Apply refuses it).
Observe == /\ pc = "observe" /\ todo # <<>>
           /\ LET o == todo[1] IN
              \/ /\ Ok("get", IdStr(o)) /\ Stay
                 /\ (IF Exists(o) /\ (Mine(o) \/ Mode = "PT") /\ store[o].rname \in Names
                     THEN obs' = [obs EXCEPT ![store[o].rname] = o] ELSE UNCHANGED obs)
                 /\ todo' = Tail(todo) /\ UNCHANGED <<pc, pfail>>
              \/ /\ NoEffect("get", IdStr(o)) /\ UNCHANGED obs
           /\ UNCHANGED <<store, refs, want, rfail, deco, nextId, des, wantR, envs, startS, cmiss, startR, gcd, bad>>
\* Pipeline: the informer cache has not seen the referenced resource yet (it answers NotFound although the resource
\* exists); the observer reads it from the API server instead.  If that read fails the observation fails - the resource
\* is NOT taken for gone.
ObserveMiss == /\ Mode = "Pipeline" /\ CacheMisses /\ pc = "observe" /\ todo # <<>>
               /\ LET o == todo[1]
                      miss == H("call", "get", IdStr(o), "miss") IN
                  /\ Exists(o)
                  /\ \/ /\ hist' = hist \o <<miss, H("call", "uget", IdStr(o), "ok")>> /\ UNCHANGED faults /\ Stay
                        /\ (IF Mine(o) /\ store[o].rname \in Names
                            THEN obs' = [obs EXCEPT ![store[o].rname] = o] ELSE UNCHANGED obs)
                        /\ todo' = Tail(todo) /\ UNCHANGED <<pc, pfail>>
                     \/ /\ CanFault /\ faults' = faults + 1
                        /\ hist' = hist \o <<miss, H("call", "uget", IdStr(o), "error")>>
                        /\ pc' = "status" /\ todo' = <<>> /\ pfail' = "err" /\ quiet' = FALSE /\ UNCHANGED <<recs, steady, obs>>
               /\ cmiss' = TRUE
               /\ UNCHANGED <<store, refs, want, rfail, deco, nextId, des, wantR, envs, startS, startR, gcd, bad>>
ObserveDone == /\ pc = "observe" /\ todo = <<>> /\ pc' = "desire"
               /\ UNCHANGED <<store, refs, want, rfail, deco, nextId, obs, des, wantR, todo, recs, faults, envs, pfail, startS, cmiss, startR, gcd, quiet, steady, bad, hist>>

\* ---- what is desired in this reconcile
\* Pipeline: run the functions (the environment decides the outcome). A failing pipeline ends Compose
\* with an error before anything was written.  PT: the template names of the revision just read.
Desire == /\ pc = "desire"
          /\ \/ /\ Log([t |-> "call", k |-> "desire", o |-> "", f |-> "ok", names |-> want]) /\ UNCHANGED faults /\ Stay
                /\ wantR' = want
                /\ des' = [n \in Names |-> IF n \in want THEN obs[n] ELSE None]
                /\ todo' = (IF Mode = "PT" THEN <<>> ELSE NamesSeq({n \in want : obs[n] = None}))
                /\ pc' = (IF Mode = "PT" THEN "ptgc" ELSE "alloc") /\ UNCHANGED pfail
             \/ /\ Mode = "Pipeline" /\ \E fk \in FailKinds :
                     /\ Log([t |-> "call", k |-> "desire", o |-> "", f |-> fk, names |-> want]) /\ UNCHANGED faults
                     /\ pfail' = fk
                /\ wantR' = want /\ UNCHANGED <<des, todo>>
                /\ pc' = "status" /\ Stay      \* the reconciler still writes the XR's status (Synced=False)
          /\ UNCHANGED <<store, refs, want, rfail, deco, nextId, obs, recs, envs, startS, cmiss, startR, gcd, bad>>

\* ---- allocate names (GenerateName = a Get that must answer NotFound)
NewId == IF nextId <= MaxObjs THEN nextId ELSE None
Alloc == /\ pc = "alloc" /\ todo # <<>>
         /\ LET n == todo[1] IN
            IF Mode = "Pipeline" /\ ForeignAt = "name" /\ n = FixedName
            THEN /\ des' = [des EXCEPT ![n] = FixedId] /\ todo' = Tail(todo)      \* the function named it: no generation
                 /\ UNCHANGED <<nextId, pc, hist, faults, pfail>> /\ Stay
            ELSE /\ NewId # None
                 /\ \/ /\ Ok("get", IdStr(NewId)) /\ des' = [des EXCEPT ![n] = NewId] /\ nextId' = nextId + 1
                       /\ todo' = Tail(todo) /\ UNCHANGED <<pc, pfail>> /\ Stay
                    \/ /\ Mode = "Pipeline" /\ NoEffect("get", IdStr(NewId)) /\ nextId' = nextId + 1 /\ UNCHANGED des
                    \* PT: a failed name generation is not terminal; the template is left unrendered for this reconcile
                    \/ /\ Mode = "PT" /\ Faulted("get", IdStr(NewId), "error") /\ nextId' = nextId + 1
                       /\ todo' = Tail(todo) /\ quiet' = FALSE /\ UNCHANGED <<des, pc, pfail, recs, steady>>
                    \/ /\ Mode = "PT" /\ Dies("get", IdStr(NewId)) /\ nextId' = nextId + 1 /\ UNCHANGED des
         /\ UNCHANGED <<store, refs, want, rfail, deco, obs, wantR, envs, startS, cmiss, startR, gcd, bad>>
GcList == SetToSeq({obs[n] : n \in {m \in Names : obs[m] # None /\ m \notin wantR}})
PipeAllocExit == /\ Mode = "Pipeline" /\ pc = "alloc" /\ todo = <<>>
                 /\ pc' = "gcstrip" /\ todo' = GcList
                 /\ UNCHANGED <<store, refs, want, rfail, deco, nextId, obs, des, wantR, recs, faults, envs, pfail, startS, cmiss, startR, gcd, quiet, steady, bad, hist>>
\* PT allocates after garbage collection and then persists the references
PtAllocExit == /\ Mode = "PT" /\ pc = "alloc" /\ todo = <<>> /\ pc' = "refs"
               /\ UNCHANGED <<store, refs, want, rfail, deco, nextId, obs, des, wantR, todo, recs, faults, envs, pfail, startS, cmiss, startR, gcd, quiet, steady, bad, hist>>

\* ---- garbage collection: strip the composition labels (Update), then Delete
Gone(o) == [store EXCEPT ![o] = Absent]
GcStrip == /\ pc = "gcstrip" /\ todo # <<>>
           /\ LET o == todo[1] IN
              IF ~Mine(o) /\ startS[o].ctrl # "foreign"   \* (only after GcGrab: the collector still holds the copy it read, which names the XR)
              THEN /\ Ok("update", IdStr(o)) /\ pc' = "status" /\ todo' = <<>> /\ pfail' = "err" /\ Stay    \* Conflict
                   /\ UNCHANGED <<store, bad, gcd>>
              ELSE IF ~Mine(o) THEN ErrC /\ UNCHANGED <<store, bad, gcd>>       \* controller mismatch: error, nothing touched
              ELSE \/ /\ Ok("update", IdStr(o)) /\ pc' = "gcdelete" /\ UNCHANGED <<todo, store, gcd, pfail>> /\ Stay
                      /\ (IF Exists(o) THEN NoteDelete(o) ELSE UNCHANGED bad)
                   \/ /\ NoEffect("update", IdStr(o)) /\ UNCHANGED <<store, bad, gcd>>
                   \/ /\ Crash("update", IdStr(o)) /\ UNCHANGED <<store, gcd>>
                      /\ (IF Exists(o) THEN NoteDelete(o) ELSE UNCHANGED bad)
           /\ UNCHANGED <<refs, want, rfail, deco, nextId, obs, des, wantR, envs, startS, cmiss, startR>>
\* the environment in the middle of a collection: the resource the collector is about to strip is removed out of band
\* (a user deletes it, its provider finalises it) - the collector's Update / Delete then answer NotFound, which it ignores.
\* (The P&T associator interleaves its reads with the collection - Get o1, Update o1, Delete o1, Get o2 ... - while this model
\* collects after all reads: the replay places the step in front of the Update of its object, past the reads of other objects
\* that the model has earlier - replay.Aligner.PastEnv.)
GcVanish == /\ pc = "gcstrip" /\ todo # <<>> /\ envs < MaxEnv
            /\ LET o == todo[1] IN
               /\ Exists(o) /\ Mine(o)
               \* n: how many resources the collector still has to visit (it ranges over a Go map: which one it meets first differs
               \* from run to run, so the harness repeats such runs, and the sampling makes sure runs with n > 1 are among them)
               /\ store' = Gone(o) /\ Log([t |-> "env", k |-> "remove", o |-> IdStr(o), f |-> "", n |-> Len(todo)])
            /\ envs' = envs + 1 /\ quiet' = FALSE
            /\ UNCHANGED <<refs, want, rfail, deco, nextId, pc, obs, des, wantR, todo, recs, faults, pfail, startS, cmiss, startR, gcd, steady, bad>>
\* ... or another owner makes itself its controller (the collector still holds the copy it observed, which names the XR):
\* the collector's Update carries the observed resourceVersion and is refused (Conflict) - composition fails, nothing is deleted
GcGrab == /\ pc = "gcstrip" /\ todo # <<>> /\ envs < MaxEnv
          /\ LET o == todo[1] IN
             /\ Live(o) /\ store[o].ctrl = "xr"
             /\ store' = [store EXCEPT ![o].ctrl = "foreign"] /\ Log(H("env", "grab", IdStr(o), ""))
          /\ envs' = envs + 1 /\ quiet' = FALSE
          /\ UNCHANGED <<refs, want, rfail, deco, nextId, pc, obs, des, wantR, todo, recs, faults, pfail, startS, cmiss, startR, gcd, steady, bad>>
GcDelete == /\ pc = "gcdelete"
            /\ LET o == todo[1] IN
               \/ /\ Ok("delete", IdStr(o)) /\ store' = Gone(o) /\ todo' = Tail(todo) /\ pc' = "gcstrip" /\ Stay /\ UNCHANGED pfail
                  /\ gcd' = (IF Exists(o) THEN gcd \cup {o} ELSE gcd)
                  /\ (IF Exists(o) THEN NoteDelete(o) ELSE UNCHANGED bad)
               \/ /\ NoEffect("delete", IdStr(o)) /\ UNCHANGED <<store, bad, gcd>>
               \/ /\ Crash("delete", IdStr(o)) /\ store' = Gone(o)
                  /\ gcd' = (IF Exists(o) THEN gcd \cup {o} ELSE gcd)
                  /\ (IF Exists(o) THEN NoteDelete(o) ELSE UNCHANGED bad)
            /\ UNCHANGED <<refs, want, rfail, deco, nextId, obs, des, wantR, envs, startS, cmiss, startR>>
GcDone == /\ pc = "gcstrip" /\ todo = <<>>
          /\ pc' = (IF Mode = "PT" THEN "alloc" ELSE "refs")
          /\ todo' = (IF Mode = "PT" THEN NamesSeq({n \in wantR : obs[n] = None}) ELSE <<>>)
          /\ UNCHANGED <<store, refs, want, rfail, deco, nextId, obs, des, wantR, recs, faults, envs, pfail, startS, cmiss, startR, gcd, quiet, steady, bad, hist>>
\* PT: the associator collects referenced resources whose template vanished while it reads the references;
\* modelled after the reads, before names are allocated (no write happens in between)
PtGc == /\ pc = "ptgc" /\ pc' = "gcstrip" /\ todo' = GcList
        /\ UNCHANGED <<store, refs, want, rfail, deco, nextId, obs, des, wantR, recs, faults, envs, pfail, startS, cmiss, startR, gcd, quiet, steady, bad, hist>>

\* ---- persist the references: all desired ids (Pipeline: SSA patch of spec.resourceRefs; PT: Update of the XR)
NewRefs == {des[n] : n \in wantR} \ {None}
RefsVerb == IF Mode = "PT" THEN "update" ELSE "patch"
\* With legacy managed fields the composer upgrades every observed resource right after it persisted the references: a JSON
\* patch pinned to the resourceVersion of the copy it observed. If another owner took one of them over since the observation
\* (UpGrab), that patch is refused (Conflict), Compose returns the error and nothing of the foreign owner's object is touched
\* (added after the seeded change C02-m10 - the upgrade patch lost its resourceVersion pin - was missed).
UpBlocked == /\ Mode = "Pipeline" /\ "legacy" \in deco
             /\ \E o \in startR : Exists(o) /\ store[o].ctrl = "foreign" /\ startS[o].ctrl = "xr"
UpGrab == /\ Mode = "Pipeline" /\ "legacy" \in deco /\ pc = "refs" /\ envs < MaxEnv
          /\ \E o \in startR \cap {des[n] : n \in wantR} :
                /\ o # None /\ Live(o) /\ store[o].ctrl = "xr" /\ startS[o].ctrl = "xr"
                /\ store' = [store EXCEPT ![o].ctrl = "foreign"] /\ Log(H("env", "grab", IdStr(o), ""))
          /\ envs' = envs + 1 /\ quiet' = FALSE
          /\ UNCHANGED <<refs, want, rfail, deco, nextId, pc, obs, des, wantR, todo, recs, faults, pfail, startS, cmiss, startR, gcd, steady, bad>>
PersistRefs == /\ pc = "refs"
               /\ \/ /\ Ok(RefsVerb, "xr") /\ refs' = NewRefs /\ Stay
                     /\ (IF UpBlocked THEN pc' = "status" /\ todo' = <<>> /\ pfail' = "err"
                                      ELSE pc' = "apply" /\ todo' = NamesSeq({n \in wantR : des[n] # None /\ n \notin rfail}) /\ UNCHANGED pfail)
                     /\ bad' = bad \cup (IF Steady /\ NewRefs # refs THEN {"Quiescent"} ELSE {})
                  \/ /\ NoEffect(RefsVerb, "xr") /\ UNCHANGED <<refs, bad>>
                  \/ /\ Crash(RefsVerb, "xr") /\ refs' = NewRefs /\ UNCHANGED bad
               /\ UNCHANGED <<store, want, rfail, deco, nextId, obs, des, wantR, envs, startS, cmiss, startR, gcd>>

\* ---- apply every desired resource. Pipeline: one server-side apply, refused as Invalid when another controller
\* owns the object (the resource is reported unsynced, composition continues).  PT: Get, then Create or Patch,
\* refused by MustBeControllableBy (composition ends with an error).
Applied(n) == LET o == des[n] IN
  IF ~Exists(o) THEN [store EXCEPT ![o] = [st |-> "live", ctrl |-> "xr", rname |-> n]]
  ELSE [store EXCEPT ![o] = [@ EXCEPT !.ctrl = "xr", !.rname = n]]      \* an uncontrolled resource is adopted
Changes(n) == Applied(n) # store
ApplyVerb(o) == IF Mode = "Pipeline" THEN "patch" ELSE IF Exists(o) THEN "patch" ELSE "create"
ApplyGet == /\ Mode = "PT" /\ pc = "apply" /\ todo # <<>>
            /\ LET o == des[todo[1]] IN
               \/ /\ Ok("get", IdStr(o))
                  /\ (IF Exists(o) /\ ~Mine(o) THEN pc' = "status" /\ todo' = <<>> /\ pfail' = "err" /\ Stay
                      ELSE pc' = "applyw" /\ UNCHANGED <<todo, pfail>> /\ Stay)
               \/ NoEffect("get", IdStr(o))
            /\ UNCHANGED <<store, refs, want, rfail, deco, nextId, obs, des, wantR, envs, startS, cmiss, startR, gcd, bad>>
ApplyW == /\ ((Mode = "PT" /\ pc = "applyw") \/ (Mode = "Pipeline" /\ pc = "apply" /\ todo # <<>>))
          /\ LET n == todo[1]
                 o == des[n] IN
             IF Exists(o) /\ ~Mine(o)
             THEN /\ Ok(ApplyVerb(o), IdStr(o)) /\ todo' = Tail(todo) /\ pc' = "apply" /\ UNCHANGED <<store, bad, pfail>> /\ Stay   \* Invalid: skipped
             ELSE \/ /\ Ok(ApplyVerb(o), IdStr(o)) /\ store' = Applied(n) /\ todo' = Tail(todo) /\ pc' = "apply" /\ Stay /\ UNCHANGED pfail
                     /\ (IF Changes(n) THEN NoteWrite(o) ELSE UNCHANGED bad)
                  \/ /\ NoEffect(ApplyVerb(o), IdStr(o)) /\ UNCHANGED <<store, bad>>
                  \/ /\ Crash(ApplyVerb(o), IdStr(o)) /\ store' = Applied(n)
                     /\ (IF Changes(n) THEN NoteWrite(o) ELSE UNCHANGED bad)
          /\ UNCHANGED <<refs, want, rfail, deco, nextId, obs, des, wantR, envs, startS, cmiss, startR, gcd>>
ApplyDone == /\ pc = "apply" /\ todo = <<>> /\ pc' = "xrstatus"
             /\ UNCHANGED <<store, refs, want, rfail, deco, nextId, obs, des, wantR, todo, recs, faults, envs, pfail, startS, cmiss, startR, gcd, quiet, steady, bad, hist>>

\* ---- the composer's last write to the XR (Pipeline: SSA status patch; PT: merge patch of the XR),
\* then the reconciler's Status().Update.  Neither touches composed resources or references.
XrVerb == IF Mode = "PT" THEN "patch" ELSE "patch-status"
XrStatus == /\ pc = "xrstatus"
            /\ \/ /\ Ok(XrVerb, "xr") /\ pc' = "status" /\ UNCHANGED <<todo, pfail>> /\ Stay
               \/ NoEffect(XrVerb, "xr")
               \/ Crash(XrVerb, "xr")
            /\ UNCHANGED <<store, refs, want, rfail, deco, nextId, obs, des, wantR, envs, startS, cmiss, startR, gcd, bad>>
Status == /\ pc = "status"
          /\ \/ /\ Ok("update-status", "xr") /\ End(pfail = "")
             \/ Fail("update-status", "xr")
             \/ Dies("update-status", "xr")
             \/ Crash("update-status", "xr")
          /\ UNCHANGED <<store, refs, want, rfail, deco, nextId, obs, des, wantR, envs, pfail, startS, cmiss, startR, gcd, bad>>

Rec == Start \/ Observe \/ ObserveMiss \/ ObserveDone \/ Desire \/ Alloc \/ PipeAllocExit \/ PtAllocExit \/ PtGc \/ GcStrip \/ GcVanish \/ GcGrab \/ UpGrab \/ GcDelete \/ GcDone
       \/ PersistRefs \/ ApplyGet \/ ApplyW \/ ApplyDone \/ XrStatus \/ Status
Next == Env \/ Rec
Spec == Init /\ [][Next]_vars

----------------------------------------------------------------------------
(* C01 *)
Owned(o) == Live(o) /\ store[o].ctrl = "xr"
NoLeak == \A o \in AllIds : Owned(o) => o \in refs
LiveFor(n) == {o \in AllIds : Owned(o) /\ store[o].rname = n}
AtMostOne == \A n \in Names : Cardinality(LiveFor(n)) <= 1
NameStable == [][\A n \in Names : (LiveFor(n) # {} /\ LiveFor(n)' # {}) => LiveFor(n)' = LiveFor(n)]_vars
(* C01 Quiescent, C03 FailSafe / NeverDeleteDesired, C02 ForeignTouched: recorded as ghosts at the writing step *)
StepProps == bad = {}
(* C03 GcExact: a reconcile that completed deleted exactly the observed, controllable resources that are no longer desired *)
GcExact == (pc = "idle" /\ steady) =>
             gcd = {o \in startR : startS[o].st # "none" /\ startS[o].ctrl # "foreign"
                                   /\ startS[o].rname \in Names /\ startS[o].rname \notin wantR}
=============================================================================
