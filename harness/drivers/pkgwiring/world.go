package main

// One world per option vector: the real pkg.Setup on a fake manager over simapi, and the captured controllers.

import (
	"context"
	"fmt"
	"reflect"
	"sort"
	"strings"
	"sync"
	"time"

	corev1 "k8s.io/api/core/v1"
	apimeta "k8s.io/apimachinery/pkg/api/meta"
	metav1 "k8s.io/apimachinery/pkg/apis/meta/v1"
	"k8s.io/apimachinery/pkg/apis/meta/v1/unstructured"
	"k8s.io/apimachinery/pkg/runtime/schema"
	"k8s.io/apimachinery/pkg/types"
	"k8s.io/utils/ptr"
	"sigs.k8s.io/controller-runtime/pkg/client"
	"sigs.k8s.io/controller-runtime/pkg/client/apiutil"
	"sigs.k8s.io/controller-runtime/pkg/handler"
	"sigs.k8s.io/controller-runtime/pkg/reconcile"

	xpv1 "github.com/crossplane/crossplane-runtime/apis/common/v1"
	xpcontroller "github.com/crossplane/crossplane-runtime/pkg/controller"
	"github.com/crossplane/crossplane-runtime/pkg/feature"
	"github.com/crossplane/crossplane-runtime/pkg/logging"

	pkgv1 "github.com/crossplane/crossplane/apis/pkg/v1"
	pkgv1alpha1 "github.com/crossplane/crossplane/apis/pkg/v1alpha1"
	pkgv1beta1 "github.com/crossplane/crossplane/apis/pkg/v1beta1"
	"github.com/crossplane/crossplane/internal/controller/pkg"
	pkgcontroller "github.com/crossplane/crossplane/internal/controller/pkg/controller"
	"github.com/crossplane/crossplane/internal/controller/pkg/manager"
	"github.com/crossplane/crossplane/internal/controller/pkg/resolver"
	"github.com/crossplane/crossplane/internal/controller/pkg/revision"
	"github.com/crossplane/crossplane/internal/controller/pkg/signature"
	"github.com/crossplane/crossplane/internal/features"
	"github.com/crossplane/crossplane/internal/xpkg"
	"github.com/crossplane/crossplane/zzverif/fakes"
	"github.com/crossplane/crossplane/zzverif/simapi"
)

// vec is one option vector (the input TLC enumerates).
type vec struct {
	Sig  bool   `json:"sig"`  // EnableAlphaSignatureVerification
	Upg  bool   `json:"upg"`  // EnableAlphaDependencyVersionUpgrades
	Drc  bool   `json:"drc"`  // EnableBetaDeploymentRuntimeConfigs
	Down bool   `json:"down"` // AutomaticDependencyDowngradeEnabled
	Rt   string `json:"rt"`   // PackageRuntime
	Reg  string `json:"reg"`  // DefaultRegistry
	Ns   string `json:"ns"`   // Namespace
	Sa   string `json:"sa"`   // ServiceAccount
	Est  int    `json:"est"`  // MaxConcurrentPackageEstablishers
	Conc int    `json:"conc"` // MaxConcurrentReconciles
}

type watch struct {
	kind    string
	obj     client.Object
	handler handler.TypedEventHandler[client.Object, reconcile.Request]
}

type ctl struct {
	idx        int
	name       string
	do         reconcile.Reconciler
	conc       int
	recoverP   bool
	watches    []watch
	fam        string // manager | revision | signature | resolver | unknown: the package of the core reconciler
	forKind    string // the kind of the watch whose handler enqueues the object itself
	t          string // the package type the For kind belongs to ("Lock" for the resolver, "other")
	core       reflect.Value
	coreType   string
	wrappers   int
	obs        map[string]any
	fetcherSet string
}

type world struct {
	in   vec
	s    *simapi.Server
	c    *simapi.Client
	mgr  *fakes.Manager
	feat *feature.Flags

	cache *recCache
	lim   *recLimiter
	val   *recValidator

	ctls     []*ctl
	setupErr string

	mu    sync.Mutex
	actor string
	api   map[string]*apiLog // per actor, since the last wipe
	conf  func(*simapi.Call) simapi.Decision
}

type objID struct{ k, ns, n string }

type apiLog struct {
	gets, writes map[objID]bool
	lists        map[string]bool
	calls        int
}

func newAPILog() *apiLog {
	return &apiLog{gets: map[objID]bool{}, lists: map[string]bool{}, writes: map[objID]bool{}}
}

func lower(t string) string { return strings.ToLower(t) }

func newWorld(in vec) *world {
	w := &world{in: in, cache: newRecCache(), lim: &recLimiter{}, val: &recValidator{}, api: map[string]*apiLog{}, actor: "env"}
	theReg.actor = w.currentActor
	w.s = simapi.NewServer(theScheme)
	w.c = simapi.NewClient(w.s, "xp")
	w.c.Intercept = func(cl *simapi.Call) simapi.Decision {
		if w.conf != nil {
			return w.conf(cl)
		}
		return simapi.Proceed
	}
	w.s.OnEvent = w.onEvent
	w.mgr = &fakes.Manager{Client: &mclient{Client: w.c}, Sch: theScheme}
	w.feat = &feature.Flags{}
	if in.Sig {
		w.feat.Enable(features.EnableAlphaSignatureVerification)
	}
	if in.Upg {
		w.feat.Enable(features.EnableAlphaDependencyVersionUpgrades)
	}
	if in.Drc {
		w.feat.Enable(features.EnableBetaDeploymentRuntimeConfigs)
	}
	return w
}

func (w *world) options() pkgcontroller.Options {
	return pkgcontroller.Options{
		Options: xpcontroller.Options{Logger: logging.NewNopLogger(), GlobalRateLimiter: w.lim, PollInterval: time.Minute,
			MaxConcurrentReconciles: w.in.Conc, Features: w.feat},
		Cache: w.cache, Namespace: w.in.Ns, ServiceAccount: w.in.Sa, DefaultRegistry: w.in.Reg,
		FetcherOptions: []xpkg.FetcherOpt{xpkg.WithUserAgent(userAgent), xpkg.WithCustomCA(caPool)},
		PackageRuntime: pkgcontroller.PackageRuntime(w.in.Rt), MaxConcurrentPackageEstablishers: w.in.Est,
		AutomaticDependencyDowngradeEnabled: w.in.Down,
	}
}

// setup runs the production Setup and takes the controllers it registered.
func (w *world) setup() {
	func() {
		defer func() {
			if r := recover(); r != nil {
				w.setupErr = fmt.Sprintf("panic: %v", r)
			}
		}()
		if err := pkg.Setup(w.mgr, w.options()); err != nil {
			w.setupErr = err.Error()
		}
	}()
	for i, r := range w.mgr.Runnables() {
		w.ctls = append(w.ctls, w.capture(i, r))
	}
}

func kindOf(o any) string {
	ro, ok := o.(interface{ GetObjectKind() schema.ObjectKind })
	if !ok || o == nil || reflect.ValueOf(o).IsNil() {
		return "none"
	}
	obj, ok := o.(client.Object)
	if ok {
		if gvk, err := apiutil.GVKForObject(obj, theScheme); err == nil {
			return gvk.Kind
		}
	}
	if rl, ok := o.(client.ObjectList); ok {
		if gvk, err := apiutil.GVKForObject(rl, theScheme); err == nil {
			return gvk.Kind
		}
	}
	if k := ro.GetObjectKind().GroupVersionKind().Kind; k != "" {
		return k
	}
	return "unknown:" + typeName(o)
}

func typeOfKind(k string) string {
	for _, t := range types3 {
		if k == t || k == t+"Revision" {
			return t
		}
	}
	if k == "Lock" {
		return "Lock"
	}
	return "other"
}

// capture reads a registered controller (controller-runtime's internal Controller) by reflection and walks down
// the wrappers of its reconciler to the core.
func (w *world) capture(i int, r any) *ctl {
	c := &ctl{idx: i, fam: "unknown", forKind: "none", t: "other", obs: map[string]any{}, fetcherSet: "none"}
	st, ok := structOf(reflect.ValueOf(r))
	if !ok {
		c.name = "not-a-controller:" + typeName(r)
		return c
	}
	if f, ok := fieldOf(st, "Name"); ok && f.Kind() == reflect.String {
		c.name = f.String()
	}
	if f, ok := fieldOf(st, "MaxConcurrentReconciles"); ok && f.Kind() == reflect.Int {
		c.conc = int(f.Int())
	}
	if f, ok := fieldOf(st, "RecoverPanic"); ok && f.Kind() == reflect.Ptr && !f.IsNil() {
		c.recoverP = f.Elem().Bool()
	}
	if f, ok := fieldOf(st, "Do"); ok && !f.IsNil() {
		c.do, _ = f.Interface().(reconcile.Reconciler)
	}
	if f, ok := fieldOf(st, "startWatches"); ok && f.Kind() == reflect.Slice {
		for j := 0; j < f.Len(); j++ {
			src, ok := structOf(f.Index(j))
			if !ok {
				continue
			}
			wt := watch{kind: "unknown"}
			if tf, ok := fieldOf(src, "Type"); ok && !tf.IsNil() {
				if o, ok := tf.Interface().(client.Object); ok {
					wt.obj, wt.kind = o, kindOf(o)
				}
			}
			if hf, ok := fieldOf(src, "Handler"); ok && !hf.IsNil() {
				wt.handler, _ = hf.Interface().(handler.TypedEventHandler[client.Object, reconcile.Request])
				// the owner handler resolves the owner's scope through the manager's REST mapper (nil in the fake
				// manager): give it one that knows the package kinds
				if hs, ok := structOf(hf); ok {
					if mf, ok := fieldOf(hs, "mapper"); ok && mf.Kind() == reflect.Interface {
						mf.Set(reflect.ValueOf(theMapper()))
					}
				}
				if _, self := hf.Interface().(*handler.EnqueueRequestForObject); self && c.forKind == "none" {
					c.forKind = wt.kind
				}
			}
			c.watches = append(c.watches, wt)
		}
	}
	c.t = typeOfKind(c.forKind)
	// rate limiter -> silent requeue on conflict -> the reconciler: walk down whatever is there
	cur := reflect.ValueOf(c.do)
	for depth := 0; cur.IsValid() && depth < 6; depth++ {
		if !cur.IsValid() || (cur.Kind() == reflect.Ptr && cur.IsNil()) {
			break
		}
		switch cur.Interface().(type) {
		case *manager.Reconciler:
			c.fam = "manager"
		case *revision.Reconciler:
			c.fam = "revision"
		case *signature.Reconciler:
			c.fam = "signature"
		case *resolver.Reconciler:
			c.fam = "resolver"
		}
		s, ok := structOf(cur)
		if !ok {
			break
		}
		if c.fam != "unknown" {
			c.core, c.coreType = s, cur.Type().String()
			break
		}
		var next reflect.Value
		for _, n := range []string{"inner", "Reconciler"} {
			if f, ok := fieldOf(s, n); ok && f.Kind() == reflect.Interface && !f.IsNil() {
				next = f.Elem()
			}
		}
		if !next.IsValid() {
			c.coreType = cur.Type().String()
			break
		}
		c.wrappers++
		cur = next
	}
	return c
}

var mapperOnce sync.Once
var mapperVal apimeta.RESTMapper

// theMapper knows the (cluster scoped) package kinds: the API discovery below the owner handler.
func theMapper() apimeta.RESTMapper {
	mapperOnce.Do(func() {
		m := apimeta.NewDefaultRESTMapper(nil)
		for _, k := range []string{"Provider", "Configuration", "Function", "ProviderRevision", "ConfigurationRevision", "FunctionRevision"} {
			m.Add(schema.GroupVersionKind{Group: "pkg.crossplane.io", Version: "v1", Kind: k}, apimeta.RESTScopeRoot)
		}
		m.Add(schema.GroupVersionKind{Group: "pkg.crossplane.io", Version: "v1beta1", Kind: "Lock"}, apimeta.RESTScopeRoot)
		mapperVal = m
	})
	return mapperVal
}

// ---------------------------------------------------------------- the API log

func (w *world) onEvent(e *simapi.Event) {
	w.mu.Lock()
	defer w.mu.Unlock()
	a := w.api[w.actor]
	if a == nil {
		a = newAPILog()
		w.api[w.actor] = a
	}
	a.calls++
	id := objID{e.Kind, e.NS, e.Name}
	switch e.Verb {
	case "get":
		a.gets[id] = true
	case "list":
		a.lists[e.Kind] = true
	default:
		a.writes[id] = true
	}
}

func (w *world) currentActor() string {
	w.mu.Lock()
	defer w.mu.Unlock()
	return w.actor
}

func (w *world) as(actor string) {
	w.mu.Lock()
	w.actor = actor
	w.mu.Unlock()
}

func (w *world) calls(actor string) int {
	w.mu.Lock()
	defer w.mu.Unlock()
	if a := w.api[actor]; a != nil {
		return a.calls
	}
	return 0
}

// wipe empties the store and every recorder: the next scenario starts from nothing.
func (w *world) wipe() {
	for _, k := range w.s.Keys() {
		w.s.Remove(k)
	}
	w.mu.Lock()
	w.api = map[string]*apiLog{}
	w.actor = "env"
	w.mu.Unlock()
	w.cache.reset()
	theReg.reset()
	w.val.calls = nil
	w.lim.set(0)
	w.conf = nil
}

// ---------------------------------------------------------------- typed objects by package type

func newPkg(t, name, source string) pkgv1.Package {
	// the optional fields carry what the API server's defaulting puts there
	ps := pkgv1.PackageSpec{Package: source, RevisionActivationPolicy: ptr.To(pkgv1.AutomaticActivation), RevisionHistoryLimit: ptr.To[int64](1),
		PackagePullPolicy: ptr.To(corev1.PullIfNotPresent), SkipDependencyResolution: ptr.To(false)}
	rs := pkgv1.PackageRuntimeSpec{RuntimeConfigReference: &pkgv1.RuntimeConfigReference{Name: "default"}}
	switch t {
	case "Provider":
		return &pkgv1.Provider{ObjectMeta: metav1.ObjectMeta{Name: name}, Spec: pkgv1.ProviderSpec{PackageSpec: ps, PackageRuntimeSpec: rs}}
	case "Configuration":
		return &pkgv1.Configuration{ObjectMeta: metav1.ObjectMeta{Name: name}, Spec: pkgv1.ConfigurationSpec{PackageSpec: ps}}
	case "Function":
		return &pkgv1.Function{ObjectMeta: metav1.ObjectMeta{Name: name}, Spec: pkgv1.FunctionSpec{PackageSpec: ps, PackageRuntimeSpec: rs}}
	}
	panic("no package type " + t)
}

// newRev builds a revision of type t; cc / rc are the ControllerConfig / DeploymentRuntimeConfig references
// ("" = none) of the types that have a runtime.
func newRev(t, name, source, cc, rc string, state pkgv1.PackageRevisionDesiredState) pkgv1.PackageRevision {
	ps := pkgv1.PackageRevisionSpec{Package: source, DesiredState: state, Revision: 1, SkipDependencyResolution: ptr.To(false)}
	rs := pkgv1.PackageRevisionRuntimeSpec{}
	if cc != "" {
		rs.ControllerConfigReference = &pkgv1.ControllerConfigReference{Name: cc}
	}
	if rc != "" {
		rs.RuntimeConfigReference = &pkgv1.RuntimeConfigReference{Name: rc}
	}
	om := metav1.ObjectMeta{Name: name}
	switch t {
	case "Provider":
		return &pkgv1.ProviderRevision{ObjectMeta: om, Spec: pkgv1.ProviderRevisionSpec{PackageRevisionSpec: ps, PackageRevisionRuntimeSpec: rs}}
	case "Configuration":
		return &pkgv1.ConfigurationRevision{ObjectMeta: om, Spec: ps}
	case "Function":
		return &pkgv1.FunctionRevision{ObjectMeta: om, Spec: pkgv1.FunctionRevisionSpec{PackageRevisionSpec: ps, PackageRevisionRuntimeSpec: rs}}
	}
	panic("no package type " + t)
}

func gk(kind string) schema.GroupKind {
	switch kind {
	case "Lock", "ImageConfig", "DeploymentRuntimeConfig":
		return schema.GroupKind{Group: "pkg.crossplane.io", Kind: kind}
	case "ControllerConfig":
		return schema.GroupKind{Group: "pkg.crossplane.io", Kind: kind}
	case "Deployment":
		return schema.GroupKind{Group: "apps", Kind: kind}
	case "Service", "Secret", "ServiceAccount":
		return schema.GroupKind{Kind: kind}
	case "CustomResourceDefinition":
		return schema.GroupKind{Group: "apiextensions.k8s.io", Kind: kind}
	case "CompositeResourceDefinition", "Composition":
		return schema.GroupKind{Group: "apiextensions.crossplane.io", Kind: kind}
	case "ValidatingWebhookConfiguration", "MutatingWebhookConfiguration":
		return schema.GroupKind{Group: "admissionregistration.k8s.io", Kind: kind}
	}
	return schema.GroupKind{Group: "pkg.crossplane.io", Kind: kind}
}

func imageConfig(name string, prefixes []string, pullSecret string, verify bool) *pkgv1beta1.ImageConfig {
	ic := &pkgv1beta1.ImageConfig{ObjectMeta: metav1.ObjectMeta{Name: name}}
	for _, p := range prefixes {
		ic.Spec.MatchImages = append(ic.Spec.MatchImages, pkgv1beta1.ImageMatch{Prefix: p})
	}
	if pullSecret != "" {
		ic.Spec.Registry = &pkgv1beta1.RegistryConfig{Authentication: &pkgv1beta1.RegistryAuthentication{PullSecretRef: corev1.LocalObjectReference{Name: pullSecret}}}
	}
	if verify {
		ic.Spec.Verification = &pkgv1beta1.ImageVerification{Provider: pkgv1beta1.ImageVerificationProviderCosign,
			Cosign: &pkgv1beta1.CosignVerificationConfig{Authorities: []pkgv1beta1.CosignAuthority{{Name: "a", Keyless: &pkgv1beta1.KeylessRef{
				Identities: []pkgv1beta1.Identity{{Issuer: "https://issuer.example.org", Subject: "release@example.org"}}}}}}}
	}
	return ic
}

// seedNamespace puts what a running Crossplane pod finds around it: its ServiceAccount, the root CA, the default
// DeploymentRuntimeConfig, the TLS secrets of the package under test (already issued, so that no key pair has to
// be generated in every scenario).
func (w *world) seedNamespace(pkgNames ...string) {
	w.s.Put(&corev1.ServiceAccount{ObjectMeta: metav1.ObjectMeta{Name: w.in.Sa, Namespace: w.in.Ns}, ImagePullSecrets: []corev1.LocalObjectReference{{Name: "xp-pull"}}})
	w.s.Put(&corev1.Secret{ObjectMeta: metav1.ObjectMeta{Name: "crossplane-root-ca", Namespace: w.in.Ns}, Data: map[string][]byte{corev1.TLSCertKey: caCertPEM, corev1.TLSPrivateKeyKey: caKeyPEM}})
	w.s.Put(&pkgv1beta1.DeploymentRuntimeConfig{ObjectMeta: metav1.ObjectMeta{Name: "default"}})
	for _, n := range pkgNames {
		for _, suf := range []string{pkgv1.TLSServerSecretNameSuffix, pkgv1.TLSClientSecretNameSuffix} {
			w.s.Put(&corev1.Secret{ObjectMeta: metav1.ObjectMeta{Name: n + suf, Namespace: w.in.Ns},
				Data: map[string][]byte{corev1.TLSCertKey: caCertPEM, corev1.TLSPrivateKeyKey: caKeyPEM, "ca.crt": caCertPEM}})
		}
	}
}

// ---------------------------------------------------------------- running a captured reconciler

type recResult struct {
	requeue bool
	after   time.Duration
	err     error
	hung    bool
	panicV  string
}

func (c *ctl) reconcile(w *world, actor, name string) recResult {
	w.as(actor)
	defer w.as("env")
	if c.do == nil {
		return recResult{err: fmt.Errorf("no reconciler")}
	}
	w.c.BeginReconcile()
	ch := make(chan recResult, 1)
	go func() {
		defer func() {
			if r := recover(); r != nil {
				ch <- recResult{panicV: fmt.Sprint(r), err: fmt.Errorf("panic: %v", r)}
			}
		}()
		res, err := c.do.Reconcile(context.Background(), reconcile.Request{NamespacedName: types.NamespacedName{Name: name}})
		ch <- recResult{requeue: res.Requeue, after: res.RequeueAfter, err: err}
	}()
	select {
	case r := <-ch:
		return r
	case <-time.After(20 * time.Second):
		return recResult{hung: true, err: fmt.Errorf("reconcile did not return within 20s")}
	}
}

func errText(err error) string {
	if err == nil {
		return ""
	}
	s := err.Error()
	if len(s) > 160 {
		s = s[:160]
	}
	return s
}

func condOf(u *unstructured.Unstructured, typ string) string {
	if u == nil {
		return "absent"
	}
	conds, _, _ := unstructured.NestedSlice(u.Object, "status", "conditions")
	for _, c := range conds {
		m, _ := c.(map[string]any)
		if m["type"] == typ {
			return fmt.Sprintf("%v:%v", m["status"], m["reason"])
		}
	}
	return "unset"
}

func setCond(u *unstructured.Unstructured, c xpv1.Condition) {
	conds, _, _ := unstructured.NestedSlice(u.Object, "status", "conditions")
	out := []any{}
	for _, x := range conds {
		if m, _ := x.(map[string]any); m["type"] != string(c.Type) {
			out = append(out, x)
		}
	}
	out = append(out, map[string]any{"type": string(c.Type), "status": string(c.Status), "reason": string(c.Reason), "lastTransitionTime": "2024-01-01T00:00:00Z"})
	_ = unstructured.SetNestedSlice(u.Object, out, "status", "conditions")
}

// record projects the log; alias maps the names the code generated (the revision) and the package's name to
// abstract ids.
func (a *apiLog) record(alias func(string) string) map[string]any {
	if a == nil {
		a = newAPILog()
	}
	objs := func(m map[objID]bool) []any {
		seen := map[string]objID{}
		for o := range m {
			o.n = alias(o.n)
			seen[o.k+"|"+o.ns+"/"+o.n] = o
		}
		keys := make([]string, 0, len(seen))
		for k := range seen {
			keys = append(keys, k)
		}
		sort.Strings(keys)
		out := []any{}
		for _, k := range keys {
			out = append(out, map[string]any{"k": seen[k].k, "ns": seen[k].ns, "n": seen[k].n})
		}
		return out
	}
	return map[string]any{"gets": objs(a.gets), "lists": sortedKeys(a.lists), "writes": objs(a.writes), "calls": a.calls}
}

func sortedStrings(ss []string) []string {
	out := append([]string(nil), ss...)
	sort.Strings(out)
	return out
}

var _ = pkgv1alpha1.ControllerConfigKind
