SPECIFICATION Spec
CONSTANTS
  Profiles <- Profiles1
  Perturb = "conf-carries-crd"
CHECK_DEADLOCK FALSE
INVARIANTS RefConsistent
