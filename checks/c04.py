"""C04 - every pipeline step sees exactly the state the function contract promises.
Reference interpreter + formulas: spec/Pipeline.tla; input enumeration: spec/MCPipeline.tla;
driver: harness/drivers/pipeline (real composite.Reconciler + FunctionComposer + FetchingFunctionRunner +
ExistingExtraResourcesFetcher on simapi with scripted functions in process / behind the real
xfn.PackagedFunctionRunner over gRPC on unix sockets); monitor: spec/MonPipeline.tla."""
import glob
import json
import os

import vlib

PID = "C04"
MON_FORMULAS = ["Order.First", "Order.Next", "Order.AllSteps", "Threading.Desired", "Threading.Context",
                "SameObserved.Once", "SameObserved.Content", "Rounds.Extra", "Rounds.Context", "Rounds.Rerun",
                "Rounds.Stop", "Rounds.Bound", "Rounds.Unstable", "OwnInput.Input", "OwnInput.Creds",
                "Final.Outcome", "Final.Applied", "Final.Refs", "Final.XR", "Results.Order", "Results.Conditions",
                "Results.Surfaced", "Results.XRConditions", "Results.FatalStops", "Routing.Step", "Routing.SameContent",
                "Routing.Endpoint", "Routing.Delivered", "Routing.ClosedAfterGC", "Reference.Calls", "Reference.Outcome"]


def regression():
    out = []
    for p in sorted(glob.glob(os.path.join(vlib.VERIF, "scenarios", PID, "*.json"))):
        with open(p) as f:
            out.append(json.load(f))
    return out


def scenarios_from(emitted_file):
    """One scenario per emitted vector. 'order' (whether a newer FunctionRevision sorts after or before the
    older ones) alternates and is stored, so that a replay is exact."""
    scs = []
    with open(emitted_file) as f:
        for i, line in enumerate(f, 1):
            scs.append({"id": "%s-%07d" % (PID, i), "order": "desc" if i % 2 else "asc", "input": json.loads(line)})
    return scs


def drive_and_judge(ctx, scs, shards):
    by_id = {s["id"]: s for s in scs}
    binp = ctx.go_build("./drivers/pipeline")
    prefix, s = ctx.run_sharded(binp, scs, [], shards=shards)
    viols, nlines = ctx.monitor("MonPipeline", prefix)
    # a Harness.* formula is a self-check of the harness (Go program family = TLA+ program family, the reconcile
    # reached Compose): what was recorded for such a vector cannot be judged
    broken = sorted({scid for formula, _, scid in viols if formula.startswith("Harness.")})
    for formula, line, scid in viols:
        if scid in broken:
            continue
        ctx.violation(formula, scid, ctx.replay_file(by_id.get(scid, {"id": scid})), "trace line %d" % line, fingerprint=formula)
    if broken:
        what = sorted({f for f, _, scid in viols if scid in broken})
        raise vlib.Inconclusive("harness self-check failed for %d vectors (e.g. %s: %s); replay %s" %
                                (len(broken), broken[0], what, ctx.replay_file(by_id.get(broken[0], {"id": broken[0]}))))
    if s.get("errors"):
        raise vlib.Inconclusive("driver met unexpected errors: %s" % s["errors"][:3])
    return s, nlines


def rider_observed(ctx):
    """'Each step sees every existing composed resource of this XR' while the XR controller runs as the XRD controller
    wires it (definition.Reconciler.CompositeReconcilerOptions: which client - informer cache or live - the observer
    gets), under informer-cache misses, mid-reconcile faults and environment steps: the Pipeline-mode behaviours of module
    XRCompose (C01 / C03), judged by MonXRCompose's Observed.Complete.  Added after the seeded change C04-m6 was missed."""
    from checks import xrcompose
    sub = ctx.sub("xrcompose")
    scs, st, tr = [], 0, 0
    for name, n in ([("pipe_quick", 500)] if ctx.quick else [("pipe_thorough", 6000), ("pipe_quick", 3000)]):
        mc = sub.model_check("MCXRCompose", "MCXRCompose_%s.cfg" % name, sub="mc_" + name, workers=8, timeout=1500)
        scs += [{"id": "%s-%s-%07d" % (PID, name, i), "hist": h} for i, h in sub.sample_lines_stratified(mc["emitted_file"], n, mc["emitted"])]
        st += mc["states"]
        tr += mc["transitions"]
    s, n = xrcompose.drive_and_judge(sub, PID, scs, sweep=0, variants="rotate", shards=4 if ctx.quick else 10)
    ctx.violations += sub.violations
    return dict(states=st, transitions=tr, runs=s["runs"], events=n, formulas=xrcompose.FORMULAS[PID])


def run(ctx):
    cfg = "MCPipeline_quick.cfg" if ctx.quick else "MCPipeline_thorough.cfg"
    mc = ctx.model_check("MCPipeline", cfg, workers=8 if ctx.quick else 16, timeout=300 if ctx.quick else 3000)
    scs = regression() + scenarios_from(mc["emitted_file"])
    s, nlines = drive_and_judge(ctx, scs, 6 if ctx.quick else 12)
    ob = rider_observed(ctx)
    from checks import fnrunner_rider
    fr = fnrunner_rider.run(ctx, PID)
    ctx.cov.update(dict(
        observed_rider=ob, fnrunner_rider=fr,
        states=mc["states"], transitions=mc["transitions"], traces_validated_against_impl=s["vectors"],
        samples=(s.get("samples") or [])[:3], model_cfg=cfg, vectors_emitted=mc["emitted"], vectors_replayed=s["vectors"],
        per_family=s["families"], antecedent_hits=s["hits"], branch_hits=s.get("branches", {}), events=nlines, drift=0,
        monitor_formulas=MON_FORMULAS, exhaustive=(s["vectors"] == len(scs)),
        model_invariants=["RefPipeline", "RefSelf", "RefBounds", "RefRouting"],
        checker_cmd="tlc MCPipeline (M,G: input vectors) -> harness/drivers/pipeline on /repo (T) -> tlc MonPipeline",
        rule="every input vector of the bounded domain (program tuple x cluster content x transport; connection-table "
             "operation sequence) is replayed once on the real code; the expected call sequence / outcome stays in TLA+",
    ))
    ctx.assumptions += [
        "'all deterministic programs' is approximated by the 13-program family of spec/Pipeline.tla",
        "simapi models the API server rules listed in spec/KubeAPI.tla (Get/List with label selectors for extra resources)",
        "results are judged for runs that end ok or with a fatal result; when a step fails with an error Compose returns no events (not asserted)",
        "protobuf re-encoding fidelity (v1 -> v1beta1) is observed through deterministic-marshal digests on both sides, not modelled",
        "verdict only from the real request sequences / outcomes judged by MonPipeline.tla",
    ]


def replay(ctx, path):
    with open(path) as f:
        sc = json.load(f)
    if sc.get("rider") == "fnrunner":
        from checks import fnrunner_rider
        return fnrunner_rider.replay(ctx, PID, path)
    if str(sc.get("id", "")).startswith(PID + "-pipe_"):      # a scenario of the observed-state rider
        from checks import xrcompose
        xrcompose.replay(ctx, PID, path)
        return
    s, nlines = drive_and_judge(ctx, [sc], 1)
    ctx.cov.update(dict(states=1, transitions=1, traces_validated_against_impl=s["vectors"], samples=[sc], events=nlines))
