SPECIFICATION Spec
CONSTANTS
  Profiles <- Profiles1
  Perturb = "fn-rev-is-provider-rev"
CHECK_DEADLOCK FALSE
INVARIANTS RefConsistent
