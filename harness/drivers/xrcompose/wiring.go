// The production wiring of the XR controller, taken from the real code instead of being copied:
//   - the reconciler options come from definition.Reconciler.CompositeReconcilerOptions (which composer, observer,
//     fetchers, selectors, publishers the XRD controller hands to every XR controller, and WHICH of the two clients -
//     the informer cache or the live one - each of them gets);
//   - functions are called through the real xfn.PackagedFunctionRunner over gRPC: "fn1" is served by an in-process
//     server that speaks apiextensions.fn.proto.v1, "fn2" by one that only speaks v1beta1 (so every pipeline also
//     exercises the runner's v1 -> v1beta1 fallback, for responses and for errors).
//
// Added after the seeded changes C01-m6 / C04-m6 (observer wired with the cache twice) and C03-m5 (the fallback client
// loses the RPC error) were missed by a driver that had a hand-written copy of the wiring and an in-process runner.
package main

import (
	"context"
	"fmt"
	"net"
	"os"
	"path/filepath"
	"reflect"
	"sync"
	"time"
	"unsafe"

	"google.golang.org/grpc"
	"google.golang.org/protobuf/proto"
	metav1 "k8s.io/apimachinery/pkg/apis/meta/v1"
	"sigs.k8s.io/controller-runtime/pkg/client"
	"sigs.k8s.io/controller-runtime/pkg/reconcile"

	"github.com/crossplane/crossplane-runtime/pkg/controller"
	"github.com/crossplane/crossplane-runtime/pkg/event"
	"github.com/crossplane/crossplane-runtime/pkg/resource"
	ucomposite "github.com/crossplane/crossplane-runtime/pkg/resource/unstructured/composite"

	fnv1 "github.com/crossplane/crossplane/apis/apiextensions/fn/proto/v1"
	fnv1beta1 "github.com/crossplane/crossplane/apis/apiextensions/fn/proto/v1beta1"
	v1 "github.com/crossplane/crossplane/apis/apiextensions/v1"
	pkgv1 "github.com/crossplane/crossplane/apis/pkg/v1"
	"github.com/crossplane/crossplane/internal/controller/apiextensions/composite"
	apiextcontroller "github.com/crossplane/crossplane/internal/controller/apiextensions/controller"
	"github.com/crossplane/crossplane/internal/controller/apiextensions/definition"
	"github.com/crossplane/crossplane/internal/engine"
	"github.com/crossplane/crossplane/internal/xfn"
	"github.com/crossplane/crossplane/zzverif/simapi"
)

// ---------------------------------------------------------------- function servers

var (
	curMu    sync.Mutex
	curWorld *world // the world whose scripted pipeline the servers play (one scenario runs at a time)
	targets  = map[string]string{}
	runner   *xfn.PackagedFunctionRunner
)

func current() *world {
	curMu.Lock()
	defer curMu.Unlock()
	return curWorld
}

func setCurrent(w *world) {
	curMu.Lock()
	curWorld = w
	curMu.Unlock()
}

type v1Impl struct {
	fnv1.UnimplementedFunctionRunnerServiceServer
	fn string
}

func (i *v1Impl) RunFunction(ctx context.Context, req *fnv1.RunFunctionRequest) (*fnv1.RunFunctionResponse, error) {
	return current().runFunction(ctx, i.fn, req)
}

type betaImpl struct {
	fnv1beta1.UnimplementedFunctionRunnerServiceServer
	fn string
}

// the scripted pipeline is written against v1: the server converts (the messages are wire compatible)
func (i *betaImpl) RunFunction(ctx context.Context, breq *fnv1beta1.RunFunctionRequest) (*fnv1beta1.RunFunctionResponse, error) {
	b, err := proto.Marshal(breq)
	if err != nil {
		return nil, err
	}
	req := &fnv1.RunFunctionRequest{}
	if err := proto.Unmarshal(b, req); err != nil {
		return nil, err
	}
	rsp, err := current().runFunction(ctx, i.fn, req)
	if err != nil {
		return nil, err
	}
	if b, err = proto.Marshal(rsp); err != nil {
		return nil, err
	}
	brsp := &fnv1beta1.RunFunctionResponse{}
	if err := proto.Unmarshal(b, brsp); err != nil {
		return nil, err
	}
	return brsp, nil
}

// startServers starts the two function servers on unix sockets in dir and the one PackagedFunctionRunner every world
// uses (its reader always reads the FunctionRevisions of the current world; they name the same endpoints in every world).
func startServers(dir string) {
	if err := os.MkdirAll(dir, 0o755); err != nil {
		panic(err)
	}
	for _, d := range []struct {
		fn   string
		beta bool
	}{{"fn1", false}, {"fn2", true}} {
		p := filepath.Join(dir, fmt.Sprintf("%s-%d.sock", d.fn, os.Getpid()))
		_ = os.Remove(p)
		lis, err := net.Listen("unix", p)
		if err != nil {
			panic(err)
		}
		gs := grpc.NewServer()
		if d.beta {
			fnv1beta1.RegisterFunctionRunnerServiceServer(gs, &betaImpl{fn: d.fn})
		} else {
			fnv1.RegisterFunctionRunnerServiceServer(gs, &v1Impl{fn: d.fn})
		}
		go func() { _ = gs.Serve(lis) }()
		targets[d.fn] = "unix://" + p
	}
	runner = xfn.NewPackagedFunctionRunner(worldReader{})
}

func stopServers(dir string) {
	for _, t := range targets {
		_ = os.Remove(t[len("unix://"):])
	}
	_ = os.Remove(dir)
}

// worldReader is the client.Reader of the PackagedFunctionRunner: the current world's API server, unintercepted.
type worldReader struct{}

func (worldReader) Get(ctx context.Context, key client.ObjectKey, obj client.Object, opts ...client.GetOption) error {
	return current().xfnc.Get(ctx, key, obj, opts...)
}

func (worldReader) List(ctx context.Context, list client.ObjectList, opts ...client.ListOption) error {
	return current().xfnc.List(ctx, list, opts...)
}

// putFunctions installs the two functions: an inactive revision on a dead endpoint, listed before the active one.
func putFunctions(s *simapi.Server) {
	for _, fn := range []string{"fn1", "fn2"} {
		s.Put(&pkgv1.Function{ObjectMeta: metav1.ObjectMeta{Name: fn}})
		old := &pkgv1.FunctionRevision{ObjectMeta: metav1.ObjectMeta{Name: fn + "-a-old", Labels: map[string]string{pkgv1.LabelParentPackage: fn}}}
		old.Spec.DesiredState = pkgv1.PackageRevisionInactive
		old.Status.Endpoint = "unix:///nonexistent/" + fn
		s.Put(old)
		fr := &pkgv1.FunctionRevision{ObjectMeta: metav1.ObjectMeta{Name: fn + "-b-new", Labels: map[string]string{pkgv1.LabelParentPackage: fn}}}
		fr.Spec.DesiredState = pkgv1.PackageRevisionActive
		fr.Status.Endpoint = targets[fn]
		s.Put(fr)
	}
}

// ---------------------------------------------------------------- the XR controller as the XRD controller builds it

// the engine the definition reconciler hands to CompositeReconcilerOptions: it only serves the two clients
type clientEngine struct{ c, uc client.Client }

func (e *clientEngine) Start(string, ...engine.ControllerOption) error { return nil }
func (e *clientEngine) Stop(context.Context, string) error             { return nil }
func (e *clientEngine) IsRunning(string) bool                          { return true }
func (e *clientEngine) GetWatches(string) ([]engine.WatchID, error)    { return nil, nil }
func (e *clientEngine) StartWatches(string, ...engine.Watch) error     { return nil }
func (e *clientEngine) StopWatches(context.Context, string, ...engine.WatchID) (int, error) {
	return 0, nil
}
func (e *clientEngine) GetCached() client.Client             { return e.c }
func (e *clientEngine) GetUncached() client.Client           { return e.uc }
func (e *clientEngine) GetFieldIndexer() client.FieldIndexer { return nil }

func xrd() *v1.CompositeResourceDefinition {
	d := &v1.CompositeResourceDefinition{ObjectMeta: metav1.ObjectMeta{Name: "xthings.ex.org", UID: "xrd-uid"}}
	d.Spec.Group = xrGVK.Group
	d.Spec.Names.Kind, d.Spec.Names.Plural = xrGVK.Kind, "xthings"
	d.Spec.Versions = []v1.CompositeResourceDefinitionVersion{{Name: xrGVK.Version, Served: true, Referenceable: true}}
	return d
}

// buildReconciler: definition.Reconciler.CompositeReconcilerOptions on the XRD, then composite.NewReconciler with the
// engine's two clients, exactly as definition.Reconciler.Reconcile starts an XR controller. The Composer the options chose
// is wrapped (through the unexported field) only to observe whether Compose returned an error.
func (w *world) buildReconciler() reconcile.Reconciler {
	setCurrent(w)
	d := xrd()
	dr := definition.NewReconciler(definition.NewClientApplicator(w.c),
		definition.WithControllerEngine(&clientEngine{c: w.c, uc: w.uc}),
		definition.WithRecorder(event.NewNopRecorder()),
		definition.WithOptions(apiextcontroller.Options{
			Options:        controller.Options{PollInterval: time.Minute},
			FunctionRunner: runner,
		}))
	opts := dr.CompositeReconcilerOptions(context.Background(), d)
	rec := composite.NewReconciler(w.c, w.uc, resource.CompositeKind(d.GetCompositeGroupVersionKind()), opts...)
	f := reflect.ValueOf(rec).Elem().FieldByName("resource")
	if !f.IsValid() || f.Type() != reflect.TypeOf((*composite.Composer)(nil)).Elem() {
		panic("composite.Reconciler has no field 'resource' of type Composer any more: adapt the driver")
	}
	p := (*composite.Composer)(unsafe.Pointer(f.UnsafeAddr()))
	inner := *p
	*p = composite.ComposerFn(func(ctx context.Context, xr *ucomposite.Unstructured, req composite.CompositionRequest) (composite.CompositionResult, error) {
		res, err := inner.Compose(ctx, xr, req)
		w.composed, w.composeErr = true, err
		return res, err
	})
	return rec
}
