SPECIFICATION Spec
CONSTANTS
  USeq <- S1
  Useds <- U2
  Configs <- CfgMix
  InitSel <- SelAll
  InitCtl <- CtlU2
  Policies <- Pol2
  DryRuns <- OnlyFalse
  HookFaults <- HookOk
  EnvKinds <- EnvMix
  FaultKinds <- FaultsAll
  MaxCreates = 1
  MaxRecs = 4
  MaxFaults = 1
  MaxEnv = 3
  MaxDel = 1
  MidEnv = TRUE
  BFin = TRUE
  FinFirst = TRUE
  DryRunAware = TRUE
  PanicFree = TRUE
VIEW view
ACTION_CONSTRAINT Emit
CHECK_DEADLOCK FALSE
INVARIANTS TypeOK StepProps FinBeforeLabel FinResolved OwnOnlyBy PendSane Repaired
