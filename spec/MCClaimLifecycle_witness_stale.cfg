SPECIFICATION Spec
CONSTANTS
  Syncer = "CSA"
  Pres <- PresMine
  Cdps <- PolFg
  Xdefs <- PolNone
  Ofins <- OnlyFalse
  Rdys <- RdyT
  Conn = TRUE
  MaxRecs = 3
  MaxFaults = 1
  MaxEnv = 1
  MidEnv = TRUE
  EnvKinds <- EnvDelete
  FaultKinds <- FaultsVal
  FinFirst = TRUE
  RvCheck = TRUE
  FixDeleting = TRUE
  FixMiss = FALSE
  FixStale = FALSE
VIEW view
ACTION_CONSTRAINT Emit
CHECK_DEADLOCK FALSE
INVARIANTS NoStaleError
