----------------------------- MODULE PkgWiring -----------------------------
(***************************************************************************)
(* X11 - what the Setup functions of the package controllers must wire:    *)
(* reference semantics.                                                    *)
(*                                                                         *)
(* Subject: internal/controller/pkg/pkg.go Setup and the ten Setup         *)
(* functions it calls (manager.SetupProvider / SetupConfiguration /        *)
(* SetupFunction, revision.Setup*Revision, signature.Setup*Revision,       *)
(* resolver.Setup): three hand-written near-copies per controller.  The    *)
(* drivers of C14 .. C17, X01, X07, X09 build the reconcilers themselves;  *)
(* which linter, list type, dependency manager, hooks, registry, cache,    *)
(* wrappers and watches PRODUCTION gives each of them is decided there.    *)
(*                                                                         *)
(* This module is the oracle.  It is NOT transcribed from the Go code: it  *)
(* starts from what a package type IS (the table Type below: its kinds,    *)
(* what its packages may carry, whether it runs a workload, who calls      *)
(* whom) and from what each controller is FOR, and derives from that, for  *)
(* every controller of pkg.Setup x package type x option vector, what must *)
(* be observed of the controller the real Setup function registered.       *)
(* harness/drivers/pkgwiring observes (behaviourally wherever possible),   *)
(* MonPkgWiring.tla compares.                                              *)
(*                                                                         *)
(* Option vector  in = [sig, upg, drc, down : BOOLEAN, rt, reg, ns, sa :   *)
(* STRING, est, conc : Nat]                                                *)
(*   sig  EnableAlphaSignatureVerification                                 *)
(*   upg  EnableAlphaDependencyVersionUpgrades                             *)
(*   drc  EnableBetaDeploymentRuntimeConfigs                               *)
(*   down AutomaticDependencyDowngradeEnabled                              *)
(*   rt   PackageRuntime: "Deployment" | "External"                        *)
(*   reg / ns / sa   DefaultRegistry / Namespace / ServiceAccount          *)
(*   est / conc      MaxConcurrentPackageEstablishers / MaxConcurrentReconciles *)
(*                                                                         *)
(* Interpretations (each follows the reading the authors evidently intend) *)
(*  I1 controllers registered: a manager and a revision controller per     *)
(*     package type and the Lock resolver ALWAYS; the three signature      *)
(*     controllers exactly when signature verification is enabled (without *)
(*     the flag nothing waits for a verdict, with it every active revision *)
(*     does - a missing signature controller would block that type).       *)
(*  I2 a Function package certainly may carry CRDs (its input types); for  *)
(*     other object kinds in a Function package nothing is asserted (the   *)
(*     function linter has no per-object rule).  Provider and              *)
(*     Configuration packages must be refused objects of the other's kind. *)
(*  I3 the revision controllers' dependency manager works on the PLAIN     *)
(*     DAG under every flag vector: Resolve judges the revision's own      *)
(*     direct dependencies itself and reports a violated constraint as     *)
(*     `invalid` (C17 Resolve.Satisfied); the upgrading DAG - which turns  *)
(*     such a dependency into an implied one - belongs to the controller   *)
(*     that CHOOSES versions, the resolver, and there exactly when version *)
(*     upgrades are enabled.  Downgrades need both upg and down.           *)
(*  I4 watches: what a controller cannot work without is required (Must):  *)
(*     its own kind, ImageConfig, and - for a type with a runtime under    *)
(*     PackageRuntime Deployment - the Deployment it waits for, the        *)
(*     ControllerConfig and (flag drc) the DeploymentRuntimeConfig its     *)
(*     revisions reference.  Harmless extra watches of a type with a       *)
(*     runtime are allowed (May): Service / Secret / ServiceAccount, and   *)
(*     all of them under PackageRuntime External.  A                       *)
(*     DeploymentRuntimeConfig watch without the flag is not allowed.      *)
(*  I5 an ImageConfig event concerns a controller only if the config       *)
(*     carries what that controller consumes - a pull secret (manager,     *)
(*     revision, resolver) or a verification policy (signature) - and then *)
(*     exactly the objects of the controller's OWN kind whose source       *)
(*     starts with one of its prefixes (the resolver: the Lock).           *)
(*  I6 PackageRuntime values other than Deployment / External are refused  *)
(*     by cmd/crossplane before Setup runs: not in the domain.             *)
(*  I7 the operator's registry options (Options.FetcherOptions: the        *)
(*     --user-agent "that will be set on all package requests", the        *)
(*     --ca-bundle-path "to use when fetching packages from registry")     *)
(*     belong to everything that talks to the registry on behalf of a      *)
(*     package controller: the fetchers of the manager, revision and       *)
(*     resolver controllers AND the signature validator, which reads the   *)
(*     signatures of the same packages from the same registry (a registry  *)
(*     behind a private CA is otherwise reachable for the pull and         *)
(*     unreachable for the verification that gates the pull).  The driver  *)
(*     observes the User-Agent of the requests as the witness of the       *)
(*     options having been handed on.                                      *)
(***************************************************************************)
EXTENDS Integers, Sequences, FiniteSets

Range(s) == {s[i] : i \in DOMAIN s}

-----------------------------------------------------------------------------
(* What a package type is.  `Perturb` names one cell that is deliberately   *)
(* wrong (witness configurations: the consistency laws below must notice);  *)
(* "none" everywhere else.                                                  *)
CONSTANT Perturb

Types == {"Provider", "Configuration", "Function"}

BaseType ==
  [Provider |->
     [pkg |-> "Provider", rev |-> "ProviderRevision", list |-> "ProviderRevisionList", meta |-> "mP", lower |-> "provider",
      workload |-> TRUE,                     \* runs a controller binary
      serves |-> {"webhooks"},               \* the API server calls its conversion / admission webhooks
      calls |-> {"apiserver", "functions"},  \* ... and it authenticates as a client
      carries |-> {"CRD", "MWC", "VWC"}, refuses |-> {"XRD", "CMP"}],
   Configuration |->
     [pkg |-> "Configuration", rev |-> "ConfigurationRevision", list |-> "ConfigurationRevisionList", meta |-> "mC", lower |-> "configuration",
      workload |-> FALSE, serves |-> {}, calls |-> {},
      carries |-> {"XRD", "CMP"}, refuses |-> {"CRD", "MWC", "VWC"}],
   Function |->
     [pkg |-> "Function", rev |-> "FunctionRevision", list |-> "FunctionRevisionList", meta |-> "mF", lower |-> "function",
      workload |-> TRUE,
      serves |-> {"grpc"},                   \* Crossplane calls it over gRPC: it needs an endpoint and a server certificate
      calls |-> {},                          \* it calls nobody: no client certificate
      carries |-> {"CRD"}, refuses |-> {}]]  \* I2

Type ==
  CASE Perturb = "fn-rev-is-provider-rev" -> [BaseType EXCEPT !.Function.rev = "ProviderRevision"]
    [] Perturb = "fn-meta-is-provider"    -> [BaseType EXCEPT !.Function.meta = "mP"]
    [] Perturb = "conf-has-workload"      -> [BaseType EXCEPT !.Configuration.workload = TRUE]
    [] Perturb = "conf-carries-crd"       -> [BaseType EXCEPT !.Configuration.carries = {"XRD", "CMP", "CRD"}]
    [] Perturb = "fn-list-of-other-kind"  -> [BaseType EXCEPT !.Function.list = "ProviderRevisionList"]
    [] OTHER -> BaseType

PkgKind(t)     == Type[t].pkg
RevKind(t)     == Type[t].rev
RevListKind(t) == Type[t].list
Lower(t)       == Type[t].lower
HasRuntime(t)  == Type[t].workload
MetaDocs   == {"mP", "mC", "mF"}
ObjectDocs == {"CRD", "XRD", "CMP", "MWC", "VWC"}

\* laws every sane table obeys (checked by TLC at model level; a perturbed table breaks one)
TableConsistent ==
  /\ \A t, u \in Types : t # u =>
       /\ PkgKind(t) # PkgKind(u) /\ RevKind(t) # RevKind(u) /\ RevListKind(t) # RevListKind(u)
       /\ Type[t].meta # Type[u].meta /\ Lower(t) # Lower(u)
  /\ \A t \in Types :
       /\ RevKind(t) = PkgKind(t) \o "Revision" /\ RevListKind(t) = RevKind(t) \o "List"
       /\ Type[t].meta \in MetaDocs
       /\ Type[t].carries \cap Type[t].refuses = {}
       /\ Type[t].carries \cup Type[t].refuses \subseteq ObjectDocs
       /\ (Type[t].serves # {} \/ Type[t].calls # {}) => Type[t].workload     \* only a workload serves or calls
       /\ ({"MWC", "VWC"} \cap Type[t].carries # {}) => "webhooks" \in Type[t].serves
       /\ Type[t].workload => "CRD" \in Type[t].carries                       \* a workload brings its own API types
       /\ ~Type[t].workload => "CRD" \notin Type[t].carries                   \* ... and only a workload does
  /\ \A d \in {"XRD", "CMP"} : Cardinality({t \in Types : d \in Type[t].carries}) = 1   \* compositions live in exactly one type

-----------------------------------------------------------------------------
(* Controllers *)
Families == {"manager", "revision", "signature", "resolver"}
Ctl(f, t) == [fam |-> f, t |-> t]

\* I1
Registered(in) ==
  {Ctl("manager", t) : t \in Types} \cup {Ctl("revision", t) : t \in Types} \cup {Ctl("resolver", "Lock")}
  \cup (IF in.sig THEN {Ctl("signature", t) : t \in Types} ELSE {})

ForKind(f, t) ==
  CASE f = "manager" -> PkgKind(t)
    [] f \in {"revision", "signature"} -> RevKind(t)
    [] OTHER -> "Lock"

Group == ".pkg.crossplane.io"
CtlName(f, t) ==
  CASE f = "manager"   -> "packages/" \o Lower(t) \o Group
    [] f = "revision"  -> "packages/" \o Lower(t) \o "revision" \o Group
    [] f = "signature" -> "package-signature-verification/" \o Lower(t) \o "revision" \o Group
    [] OTHER           -> "packages/lock" \o Group

\* the runtime hooks a revision controller runs: those of its own type, only for a type that runs a workload, only
\* when Crossplane itself deploys it
Hooks(t, in) == IF HasRuntime(t) /\ in.rt = "Deployment" THEN t ELSE "none"

\* I7
RegistryClients == {"manager", "revision", "resolver", "signature"}
CarriesRegistryOptions(f) == f \in RegistryClients

-----------------------------------------------------------------------------
(* Watches (I4) and what an event enqueues (I5) *)
RuntimeKinds == {"Deployment", "Service", "Secret", "ServiceAccount"}
OwnerKinds == {PkgKind(t) : t \in Types} \cup {RevKind(t) : t \in Types}

Role(f, t, k) ==
  CASE k = ForKind(f, t) -> "for"
    [] k = "ImageConfig" -> "imageconfig"
    [] f = "manager" /\ k = RevKind(t) -> "owns"
    [] f = "revision" /\ k \in RuntimeKinds -> "owns"
    [] f = "revision" /\ k = "ControllerConfig" -> "controllerconfig"
    [] f = "revision" /\ k = "DeploymentRuntimeConfig" -> "runtimeconfig"
    [] f = "resolver" /\ k \in {RevKind(u) : u \in Types} -> "lock"
    [] OTHER -> "none"

MustWatch(f, t, in) ==
  CASE f = "manager"   -> {PkgKind(t), RevKind(t), "ImageConfig"}
    [] f = "revision"  -> {RevKind(t), "ImageConfig"} \cup
                          (IF Hooks(t, in) # "none"
                           THEN {"Deployment", "ControllerConfig"} \cup (IF in.drc THEN {"DeploymentRuntimeConfig"} ELSE {})
                           ELSE {})
    [] f = "signature" -> {RevKind(t), "ImageConfig"}
    [] OTHER           -> {"Lock", "ImageConfig"} \cup {RevKind(u) : u \in Types}

MayWatch(f, t, in) ==
  IF f = "revision" /\ HasRuntime(t)
  THEN RuntimeKinds \cup {"ControllerConfig"} \cup (IF in.drc THEN {"DeploymentRuntimeConfig"} ELSE {})
  ELSE {}

ProbesOf(k) ==
  CASE k = "ImageConfig" -> {"icPull", "icPullB", "icVerify", "icBare", "icBoth"}
    [] k = "ControllerConfig" -> {"cc1", "cc2"}
    [] k = "DeploymentRuntimeConfig" -> {"rc1", "default", "rc9"}
    [] OTHER -> {"plain"} \cup {"own:" \o o : o \in OwnerKinds}

\* The probe world (harness/drivers/pkgwiring seedProbeWorld): for EVERY type u two packages  <u>-a (source under
\* reg.a/), <u>-b (source under reg.b/other) and their revisions <u>-a-r1 (controllerConfigRef cc1, runtimeConfigRef
\* rc1), <u>-b-r1 (runtimeConfigRef default).  icPull / icBoth / icVerify / icBare match reg.a/, icPullB matches
\* reg.b/other; icPull, icPullB, icBoth carry a pull secret; icVerify, icBoth a verification policy.
Enqueued(f, t, k, p) ==
  LET role == Role(f, t, k)
      obj(x) == IF f = "manager" THEN Lower(t) \o "-" \o x ELSE Lower(t) \o "-" \o x \o "-r1"
      consumes == IF f = "signature" THEN p \in {"icVerify", "icBoth"} ELSE p \in {"icPull", "icPullB", "icBoth"}
  IN CASE role = "for"  -> {"x1"}
       [] role = "owns" -> IF p = "own:" \o ForKind(f, t) THEN {"own-r"} ELSE {}
       [] role = "lock" -> {"lock"}
       [] role = "imageconfig" ->
            IF ~consumes THEN {}
            ELSE IF f = "resolver" THEN {"lock"}
            ELSE {obj(IF p = "icPullB" THEN "b" ELSE "a")}
       [] role = "controllerconfig" -> IF p = "cc1" THEN {obj("a")} ELSE {}
       [] role = "runtimeconfig" -> (CASE p = "rc1" -> {obj("a")} [] p = "default" -> {obj("b")} [] OTHER -> {})
       [] OTHER -> {}

-----------------------------------------------------------------------------
(* The content pipeline of a revision controller *)
\* what the wired parser + linter must answer for a stream of meta documents ms (a sequence) and one object document
LintMeta(t, ms) == IF Len(ms) = 1 /\ ms[1] = Type[t].meta THEN "ok" ELSE "lint"
\* own meta + one object of kind k: "ok", "lint", or "any" (I2: nothing asserted)
LintObj(t, k) == IF k \in Type[t].carries THEN "ok" ELSE IF k \in Type[t].refuses THEN "lint" ELSE "any"

-----------------------------------------------------------------------------
(* Dependencies (I3) *)
ApiVersion == "pkg.crossplane.io/v1"
\* the Lock entry a revision of type t writes for itself
LockEntry(t, name, source, version) ==
  [name |-> name, apiVersion |-> ApiVersion, kind |-> PkgKind(t), type |-> "none", source |-> source, version |-> version]

\* the resolver on a Lock whose dependency acme/dep-b (tags v0.9.0 v1.0.0 v1.1.0 v2.0.0) is ...
ResolverInstalls    == "v2.0.0"                                            \* missing, wanted >=v1.0.0: the highest satisfying tag
ResolverUpgrades(in)   == IF in.upg THEN "v1.1.0" ELSE "v1.0.0"            \* at v1.0.0, wanted >=v1.1.0: the lowest not-older one
ResolverDowngrades(in) == IF in.upg /\ in.down THEN "v0.9.0" ELSE "v1.0.0" \* at v1.0.0, wanted <v1.0.0: the highest older one

-----------------------------------------------------------------------------
(* Installing a package of type t, source acme/pkg-<t>:v1.0.0 (no registry), through the registered controllers *)
PkgName(t) == "pkg-" \o Lower(t)
Repo(t)    == "acme/pkg-" \o Lower(t)
Docs(t)    == CASE t = "Provider" -> {"CRD", "VWC"} [] t = "Configuration" -> {"XRD", "CMP"} [] OTHER -> {"CRD"}   \* what the test package carries
KindOfDoc(d) ==
  CASE d = "CRD" -> "CustomResourceDefinition" [] d = "XRD" -> "CompositeResourceDefinition" [] d = "CMP" -> "Composition"
    [] d = "VWC" -> "ValidatingWebhookConfiguration" [] OTHER -> "MutatingWebhookConfiguration"

Gate(in) == IF in.sig THEN "closed" ELSE "open"
RuntimeObjects(t, in) ==
  IF Hooks(t, in) = "none" THEN {}
  ELSE {"Deployment|" \o in.ns \o "/REV", "ServiceAccount|" \o in.ns \o "/REV", "Service|" \o in.ns \o "/PKG"}   \* PKG / REV: the package's / revision's name
RuntimeImage(t, in) == IF Hooks(t, in) = "none" THEN "none" ELSE in.reg \o "/" \o Repo(t) \o ":v1.0.0"
\* a function is reached through its endpoint; nothing else has one
Endpoint(t, in) == IF Hooks(t, in) # "none" /\ "grpc" \in Type[t].serves THEN "dns:///" \o PkgName(t) \o "." \o in.ns \o ":9443" ELSE "none"
Established(t) == {KindOfDoc(d) \o "|" \o RevKind(t) : d \in Docs(t)}
WebhookNamespace(t, in) == IF "VWC" \in Docs(t) THEN in.ns ELSE "none"

-----------------------------------------------------------------------------
(* Symmetry: the copies of one controller differ only in what the package type implies.  A value observed of the   *)
(* copy for type t is abstracted by replacing everything that names t by a placeholder, and everything that names  *)
(* ANOTHER type by a mark (OTHER..) that no correct copy produces where a correct copy has OWN.. / PKG / REV.      *)
AbsKind(k, t) ==
  CASE k = PkgKind(t) -> "PKG" [] k = RevKind(t) -> "REV" [] k = RevListKind(t) -> "REVLIST"
    [] \E u \in Types \ {t} : k = PkgKind(u) -> "OTHER-PKG"
    [] \E u \in Types \ {t} : k = RevKind(u) -> "OTHER-REV"
    [] \E u \in Types \ {t} : k = RevListKind(u) -> "OTHER-REVLIST"
    [] OTHER -> k

ProbeNames == {"x1", "own-r", "lock"}
Suffixes == {"-a", "-b", "-a-r1", "-b-r1"}
AbsName(n, t) ==
  IF \E s \in Suffixes : n = Lower(t) \o s THEN "OWN" \o (CHOOSE s \in Suffixes : n = Lower(t) \o s)
  ELSE IF \E u \in Types \ {t} : \E s \in Suffixes : n = Lower(u) \o s
       THEN "OTHER" \o (CHOOSE s \in Suffixes : \E u \in Types \ {t} : n = Lower(u) \o s)
  ELSE n

AbsProbe(p, t) ==
  IF \E o \in OwnerKinds : p = "own:" \o o THEN "own:" \o AbsKind(CHOOSE o \in OwnerKinds : p = "own:" \o o, t) ELSE p

AbsCtlName(n, f, t) == IF n = CtlName(f, t) THEN "NAME" ELSE n
=============================================================================
