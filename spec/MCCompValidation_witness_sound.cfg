SPECIFICATION Spec
CONSTANTS
  Tier = "quick"
  Fams = {"patch"}
  KnownCells = {}
CHECK_DEADLOCK FALSE
INVARIANTS DesignSound
