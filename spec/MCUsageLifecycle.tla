--------------------------- MODULE MCUsageLifecycle ---------------------------
EXTENDS UsageLifecycle, Json
\* scenario emission: one line per transition that ends a reconcile, is a delete request or a replayed deletion
\* (shortest history reaching it)
LastK == hist'[Len(hist')].k
Emit == (recs' > recs \/ LastK \in {"delreq", "fire"}) => PrintT(<<"TRACE", ToJson(hist')>>)

S1 == <<"s1">>
S2 == <<"s1", "s2">>
\* the Usage that lists first has an unresolvable spec.by (F-b needs it to precede the other one)
U1 == <<"u1">>
U2 == <<"u1", "u2">>
Cfg(xo, xb, xc, xr, xn) == [of |-> xo, by |-> xb, comp |-> xc, replay |-> xr, rsn |-> xn]
\* a plain protection with a reason / by a using resource / both / composed
CfgPlain == {Cfg("u1", "none", FALSE, FALSE, TRUE)}
CfgBasic == {Cfg("u1", "none", FALSE, FALSE, TRUE), Cfg("u1", "b1", FALSE, FALSE, FALSE), Cfg("u1", "b1", TRUE, FALSE, TRUE)}
\* every way of naming the used / using resource
CfgSel == {Cfg("sel", "none", FALSE, FALSE, TRUE), Cfg("selctl", "sel", TRUE, FALSE, FALSE), Cfg("selctl", "none", FALSE, FALSE, TRUE),
           Cfg("u2", "selctl", TRUE, FALSE, FALSE), Cfg("sel", "selctl", FALSE, FALSE, FALSE), Cfg("u1", "sel", FALSE, FALSE, FALSE)}
\* replayDeletion on / off, alone and next to a second Usage of the same resource
CfgReplay == {Cfg("u1", "none", FALSE, TRUE, TRUE), Cfg("u1", "b1", FALSE, TRUE, FALSE), Cfg("u1", "none", FALSE, FALSE, TRUE)}
CfgReplayComp == {Cfg("u1", "b1", TRUE, TRUE, FALSE), Cfg("u1", "none", FALSE, TRUE, TRUE)}
\* deletion: composed with a using resource (waits), not composed (released at once), without spec.by
CfgDel == {Cfg("u1", "b1", TRUE, FALSE, FALSE), Cfg("u1", "b1", FALSE, FALSE, FALSE), Cfg("u1", "none", TRUE, FALSE, TRUE)}
\* webhook: a Usage whose spec.by never resolves lists before a plain one
CfgHook == {Cfg("u1", "selctl", FALSE, FALSE, FALSE), Cfg("u1", "none", FALSE, TRUE, TRUE), Cfg("u1", "b1", FALSE, FALSE, TRUE)}
\* a mix for the thorough tier
CfgMix == {Cfg("u1", "none", FALSE, FALSE, TRUE), Cfg("u1", "b1", TRUE, TRUE, FALSE), Cfg("sel", "sel", FALSE, FALSE, FALSE),
           Cfg("selctl", "selctl", TRUE, FALSE, TRUE), Cfg("u2", "b1", FALSE, TRUE, TRUE)}
PolAll == {"none", "Background", "Foreground", "Orphan"}
Pol2 == {"none", "Foreground"}
Pol1 == {"none"}
Bools == {FALSE, TRUE}
OnlyFalse == {FALSE}
OnlyTrue == {TRUE}
HookOk == {"none"}
HookAll == {"none", "list", "patch"}
NoSet == {}
SelAll == {"u1", "u2"}
SelU2 == {"u2"}
CtlU2 == {"u2"}
FaultsAll == {"error", "conflict", "miss", "crashBefore", "crashAfter"}
FaultsErr == {"error", "conflict"}
FaultsCrash == {"crashBefore", "crashAfter"}
FaultsFew == {"error", "crashAfter"}
EnvUsage == {"create", "delS", "replayS", "reasonS", "touchS"}
EnvSel == {"create", "relabelU", "relabelB", "dropU", "delB"}
EnvDel == {"create", "delS", "delB", "finB", "gc", "delreq"}
EnvReplay == {"create", "delS", "delreq", "replayS"}
EnvReplayB == {"create", "delB", "gc", "delreq", "recreateU"}
EnvRecreate == {"create", "dropU", "makeU", "recreateU", "delB", "makeB", "gc", "delS"}
EnvHook == {"create", "delreq", "delS"}
EnvMix == {"create", "delS", "reasonS", "relabelU", "recreateU", "delB", "finB", "makeB", "gc", "delreq"}
EnvAll == {"create", "delS", "replayS", "reasonS", "touchS", "relabelU", "relabelB", "dropU", "makeU", "recreateU",
           "delB", "finB", "makeB", "gc", "delreq"}
=============================================================================
