module github.com/crossplane/crossplane/zzverif

go 1.23.0

toolchain go1.23.7

require (
	github.com/crossplane/crossplane v0.0.0
	github.com/evanphx/json-patch v5.9.0+incompatible
	k8s.io/api v0.31.2
	k8s.io/apimachinery v0.31.2
	k8s.io/utils v0.0.0-20240711033017-18e509b52bc8
	sigs.k8s.io/controller-runtime v0.19.0
	sigs.k8s.io/structured-merge-diff/v4 v4.4.1
)

require (
	github.com/davecgh/go-spew v1.1.2-0.20180830191138-d8f796af33cc // indirect
	github.com/emicklei/go-restful/v3 v3.12.1 // indirect
	github.com/evanphx/json-patch/v5 v5.9.0 // indirect
	github.com/fxamacker/cbor/v2 v2.7.0 // indirect
	github.com/go-logr/logr v1.4.2 // indirect
	github.com/go-openapi/jsonpointer v0.21.0 // indirect
	github.com/go-openapi/jsonreference v0.21.0 // indirect
	github.com/go-openapi/swag v0.23.0 // indirect
	github.com/gogo/protobuf v1.3.2 // indirect
	github.com/golang/protobuf v1.5.4 // indirect
	github.com/google/gnostic-models v0.6.9-0.20230804172637-c7be7c783f49 // indirect
	github.com/google/go-cmp v0.6.0 // indirect
	github.com/google/gofuzz v1.2.0 // indirect
	github.com/google/uuid v1.6.0 // indirect
	github.com/josharian/intern v1.0.0 // indirect
	github.com/json-iterator/go v1.1.12 // indirect
	github.com/mailru/easyjson v0.7.7 // indirect
	github.com/modern-go/concurrent v0.0.0-20180306012644-bacd9c7ef1dd // indirect
	github.com/modern-go/reflect2 v1.0.2 // indirect
	github.com/munnerz/goautoneg v0.0.0-20191010083416-a7dc8b61c822 // indirect
	github.com/pkg/errors v0.9.1 // indirect
	github.com/x448/float16 v0.8.4 // indirect
	golang.org/x/net v0.36.0 // indirect
	golang.org/x/oauth2 v0.27.0 // indirect
	golang.org/x/sys v0.30.0 // indirect
	golang.org/x/term v0.29.0 // indirect
	golang.org/x/text v0.22.0 // indirect
	golang.org/x/time v0.6.0 // indirect
	google.golang.org/protobuf v1.35.2 // indirect
	gopkg.in/inf.v0 v0.9.1 // indirect
	gopkg.in/yaml.v2 v2.4.0 // indirect
	gopkg.in/yaml.v3 v3.0.1 // indirect
	k8s.io/client-go v0.31.2 // indirect
	k8s.io/klog/v2 v2.130.1 // indirect
	k8s.io/kube-openapi v0.0.0-20240808142205-8e686545bdb8 // indirect
	sigs.k8s.io/json v0.0.0-20221116044647-bc3834ca7abd // indirect
	sigs.k8s.io/yaml v1.4.0 // indirect
)

replace github.com/crossplane/crossplane => /repo
