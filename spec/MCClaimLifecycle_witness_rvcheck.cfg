SPECIFICATION Spec
CONSTANTS
  Syncer = "CSA"
  Pres <- PresFresh
  Cdps <- PolNone
  Xdefs <- PolNone
  Ofins <- OnlyFalse
  Rdys <- RdyNone
  Conn = TRUE
  MaxRecs = 1
  MaxFaults = 1
  MaxEnv = 1
  MidEnv = TRUE
  EnvKinds <- EnvPause
  FaultKinds <- NoFaults
  FinFirst = TRUE
  RvCheck = FALSE
  FixDeleting = TRUE
  FixMiss = FALSE
  FixStale = FALSE
VIEW view
ACTION_CONSTRAINT Emit
CHECK_DEADLOCK FALSE
INVARIANTS StepProps
