SPECIFICATION Spec
CONSTANTS
  Tier = "witness"
  Fams = {"patch"}
  KnownCells = {"ConvertFormatOnInteger"}
  FixConvertObject <- NoFix
CHECK_DEADLOCK FALSE
INVARIANTS DesignSoundDone
