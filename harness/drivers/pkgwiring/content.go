package main

// Package content: the small package streams (one meta document + objects) the linter probes and the install
// scenarios use, and the OCI images pushed to the in-process registry. The documents are the ones
// harness/drivers/pkgrevision builds (reduced).

import (
	"bytes"
	"fmt"
	"io"
	"log"
	"strings"

	"github.com/google/go-containerregistry/pkg/name"
	"github.com/google/go-containerregistry/pkg/v1/empty"
	"github.com/google/go-containerregistry/pkg/v1/mutate"
	"github.com/google/go-containerregistry/pkg/v1/remote"
	admv1 "k8s.io/api/admissionregistration/v1"
	extv1 "k8s.io/apiextensions-apiserver/pkg/apis/apiextensions/v1"
	metav1 "k8s.io/apimachinery/pkg/apis/meta/v1"
	kruntime "k8s.io/apimachinery/pkg/runtime"
	"k8s.io/utils/ptr"
	"sigs.k8s.io/yaml"

	apixv1 "github.com/crossplane/crossplane/apis/apiextensions/v1"
	pkgmetav1 "github.com/crossplane/crossplane/apis/pkg/meta/v1"
	"github.com/crossplane/crossplane/internal/xpkg"
)

const crdGroup = "example.org"

func nopLogger() *log.Logger { return log.New(io.Discard, "", 0) }

func crdNames(n string) extv1.CustomResourceDefinitionNames {
	kind := strings.ToUpper(n[:1]) + n[1:]
	return extv1.CustomResourceDefinitionNames{Kind: kind, ListKind: kind + "List", Plural: n + "s", Singular: n}
}

// docYAML builds one document from its token; tag makes the names of the objects of different packages distinct.
func docYAML(tok, tag string) []byte {
	n := strings.ToLower(strings.TrimPrefix(tok, "m")) + tag
	var o kruntime.Object
	switch tok {
	case "mP":
		o = &pkgmetav1.Provider{TypeMeta: metav1.TypeMeta{APIVersion: "meta.pkg.crossplane.io/v1", Kind: "Provider"}, ObjectMeta: metav1.ObjectMeta{Name: "meta-" + tag}}
	case "mC":
		o = &pkgmetav1.Configuration{TypeMeta: metav1.TypeMeta{APIVersion: "meta.pkg.crossplane.io/v1", Kind: "Configuration"}, ObjectMeta: metav1.ObjectMeta{Name: "meta-" + tag}}
	case "mF":
		o = &pkgmetav1.Function{TypeMeta: metav1.TypeMeta{APIVersion: "meta.pkg.crossplane.io/v1", Kind: "Function"}, ObjectMeta: metav1.ObjectMeta{Name: "meta-" + tag}}
	case "CRD":
		o = &extv1.CustomResourceDefinition{TypeMeta: metav1.TypeMeta{APIVersion: "apiextensions.k8s.io/v1", Kind: "CustomResourceDefinition"},
			ObjectMeta: metav1.ObjectMeta{Name: n + "s." + crdGroup},
			Spec: extv1.CustomResourceDefinitionSpec{Group: crdGroup, Names: crdNames(n), Scope: extv1.ClusterScoped,
				Versions: []extv1.CustomResourceDefinitionVersion{{Name: "v1", Served: true, Storage: true,
					Schema: &extv1.CustomResourceValidation{OpenAPIV3Schema: &extv1.JSONSchemaProps{Type: "object"}}}}}}
	case "XRD":
		o = &apixv1.CompositeResourceDefinition{TypeMeta: metav1.TypeMeta{APIVersion: "apiextensions.crossplane.io/v1", Kind: "CompositeResourceDefinition"},
			ObjectMeta: metav1.ObjectMeta{Name: "x" + n + "s." + crdGroup},
			Spec: apixv1.CompositeResourceDefinitionSpec{Group: crdGroup, Names: crdNames("x" + n),
				Versions: []apixv1.CompositeResourceDefinitionVersion{{Name: "v1", Served: true, Referenceable: true,
					Schema: &apixv1.CompositeResourceValidation{OpenAPIV3Schema: kruntime.RawExtension{Raw: []byte(`{"type":"object"}`)}}}}}}
	case "CMP":
		o = &apixv1.Composition{TypeMeta: metav1.TypeMeta{APIVersion: "apiextensions.crossplane.io/v1", Kind: "Composition"},
			ObjectMeta: metav1.ObjectMeta{Name: n},
			Spec: apixv1.CompositionSpec{CompositeTypeRef: apixv1.TypeReference{APIVersion: crdGroup + "/v1", Kind: "X" + n},
				Mode:     ptr.To(apixv1.CompositionModePipeline),
				Pipeline: []apixv1.PipelineStep{{Step: "render", FunctionRef: apixv1.FunctionReference{Name: "function-render"}}}}}
	case "MWC":
		o = &admv1.MutatingWebhookConfiguration{TypeMeta: metav1.TypeMeta{APIVersion: "admissionregistration.k8s.io/v1", Kind: "MutatingWebhookConfiguration"},
			ObjectMeta: metav1.ObjectMeta{Name: n},
			Webhooks: []admv1.MutatingWebhook{{Name: n + ".example.org", AdmissionReviewVersions: []string{"v1"}, SideEffects: ptr.To(admv1.SideEffectClassNone),
				ClientConfig: admv1.WebhookClientConfig{Service: &admv1.ServiceReference{Namespace: "packaged", Name: "webhook", Path: ptr.To("/mutate")}}}}}
	case "VWC":
		o = &admv1.ValidatingWebhookConfiguration{TypeMeta: metav1.TypeMeta{APIVersion: "admissionregistration.k8s.io/v1", Kind: "ValidatingWebhookConfiguration"},
			ObjectMeta: metav1.ObjectMeta{Name: n},
			Webhooks: []admv1.ValidatingWebhook{{Name: n + ".example.org", AdmissionReviewVersions: []string{"v1"}, SideEffects: ptr.To(admv1.SideEffectClassNone),
				ClientConfig: admv1.WebhookClientConfig{Service: &admv1.ServiceReference{Namespace: "packaged", Name: "webhook", Path: ptr.To("/validate")}}}}}
	default:
		panic("unknown document token " + tok)
	}
	y, err := yaml.Marshal(o)
	if err != nil {
		panic(err)
	}
	return y
}

func stream(tag string, toks ...string) []byte {
	var buf bytes.Buffer
	for _, t := range toks {
		buf.WriteString("---\n")
		buf.Write(docYAML(t, tag))
	}
	return buf.Bytes()
}

// metaTok is the meta document of a package type.
func metaTok(t string) string { return "m" + t[:1] }

// packageToks is the content of the package installed for type t: its meta document and objects of every kind a
// package of that type certainly may carry.
func packageToks(t string) []string {
	switch t {
	case "Provider":
		return []string{"mP", "CRD", "VWC"}
	case "Configuration":
		return []string{"mC", "XRD", "CMP"}
	}
	return []string{"mF", "CRD"}
}

// pushImage writes a package image holding the stream to the in-process registry under repo:tag.
func pushImage(rt *regRT, repo, tag string, raw []byte) {
	cfgFile, err := empty.Image.ConfigFile()
	if err != nil {
		panic(err)
	}
	cfg := cfgFile.Config
	cfg.Labels = map[string]string{}
	layer, err := xpkg.Layer(bytes.NewReader(raw), xpkg.StreamFile, xpkg.PackageAnnotation, int64(len(raw)), xpkg.StreamFileMode, &cfg)
	if err != nil {
		panic(err)
	}
	img, err := mutate.AppendLayers(empty.Image, layer)
	if err != nil {
		panic(err)
	}
	if img, err = mutate.Config(img, cfg); err != nil {
		panic(err)
	}
	if img, err = xpkg.AnnotateLayers(img); err != nil {
		panic(err)
	}
	ref, err := name.ParseReference(fmt.Sprintf("registry.internal/%s:%s", repo, tag))
	if err != nil {
		panic(err)
	}
	if err := remote.Write(ref, img, remote.WithTransport(rt)); err != nil {
		panic(fmt.Sprintf("push %s:%s: %v", repo, tag, err))
	}
}
