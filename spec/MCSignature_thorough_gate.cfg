SPECIFICATION Spec
CONSTANTS
  InitRevs <- RevGate
  InitICs <- IcVb
  InitVst <- VstDefault
  InitOk <- OkBoth
  Feats <- Bools
  Orders <- Fwd
  ICs <- IcsVb
  Imgs <- ImgsNone
  MaxSig = 1
  MaxRev = 3
  MaxFaults = 1
  MaxEnv = 2
  MidEnv = TRUE
  EnvKinds <- EnvRev
  FaultKinds <- FaultsAll
  GateOn = TRUE
  GateSkipsInactive = TRUE
  Sticky = TRUE
  VecICs <- NoICs
  VecEvICs <- NoICs
  VecImgs <- NoICs
VIEW view
ACTION_CONSTRAINT Emit
CHECK_DEADLOCK FALSE
INVARIANTS GateSafe RepairedSig VerdictShape RepairedRev InactiveDeactivates
