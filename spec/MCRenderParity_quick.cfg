SPECIFICATION Spec
CONSTANTS
  Progs12 <- RAllProgs
  Progs3 <- QuickProgs3
  MaxSteps = 3
  Worlds12 <- QuickWorlds12
  Worlds3 <- QuickWorlds3
ACTION_CONSTRAINT Emit
CHECK_DEADLOCK FALSE
INVARIANTS RefRender RefParity RefBounds RefAgreesWithPipeline
