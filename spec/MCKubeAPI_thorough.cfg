SPECIFICATION Spec
CONSTANTS
  MaxOps = 4
  Alphabet = "all"
VIEW view
ACTION_CONSTRAINT Emit
CHECK_DEADLOCK FALSE
INVARIANTS Conforms
