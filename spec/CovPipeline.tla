---------------------------- MODULE CovPipeline ----------------------------
(* TLC's -coverage cost model expands every operator application into a tree (no sharing), which does not   *)
(* terminate in reasonable time on MCPipeline (Interp + 30 formulas).  This wrapper evaluates the core of    *)
(* the reference - the pipeline loop, the requirements loop, the program semantics, the selector matching    *)
(* and the routing reference - on the same inputs, for the coverage run only.                                *)
EXTENDS Pipeline
VARIABLES input, out
Ex == {<<>>, <<"e1">>, <<"e2">>, <<"e1", "e2">>}
Init == /\ out = "-"
        /\ \/ \E n \in 1..2 : \E ps \in [1..n -> AllProgs] : \E ex \in Ex :
                input = [family |-> "pipeline", steps |-> ps, extras |-> ex, existing |-> <<"a", "z">>, transport |-> "inproc", ops |-> <<>>]
           \/ \E n \in 1..3 : \E os \in [1..n -> RouteOps] :
                input = [family |-> "routing", steps |-> <<>>, extras |-> <<>>, existing |-> <<>>, transport |-> "grpc", ops |-> os]
Compute == /\ out = "-"
           /\ out' = IF input.family = "pipeline" THEN StepsFrom(input, 1, {}, "none", {}).st ELSE RouteRef(input.ops)[Len(input.ops)].server
           /\ UNCHANGED input
Spec == Init /\ [][Compute]_<<input, out>>
=============================================================================
