---------------------------- MODULE MCPkgManager ----------------------------
EXTENDS PkgManager, Json
DSeq3 == <<"d1", "d2", "d3">>
Reg2 == [t \in {"t1", "t2"} |-> IF t = "t1" THEN "d1" ELSE "d2"]
LimitsNil1 == {-1, 1}
DSeq4 == <<"d1", "d2", "d3", "d4">>
\* scenario emission: one line per transition that ends a reconcile
Emit == (pc # "idle" /\ pc' = "idle") => PrintT(<<"TRACE", ToJson(hist')>>)
=============================================================================
