// Driver for spec/Deps.tla (property C17): feeds every input vector that TLC
// enumerated from MCDeps.tla to the real, unmodified dependency code
//
//   - internal/dag            NewMapDag / NewUpgradingMapDag: Init, Sort, TraceNode
//   - internal/controller/pkg/resolver  Reconciler.Reconcile end to end on simapi
//     (fake Fetcher.Tags; Lock and packages live in simapi)
//   - internal/controller/pkg/revision  PackageDependencyManager.Resolve on simapi
//
// and records one trace line per vector: the input verbatim plus the projected
// real output. The abstract versions / constraints of the model are
// materialised here as real tag, constraint and digest strings, and the real
// answers are mapped back. No property logic lives here: spec/MonDeps.tla
// judges the recorded outputs. A panic of the real code is recovered and
// recorded as part of the outcome.
package main

import (
	"context"
	"encoding/json"
	"errors"
	"flag"
	"fmt"
	"math/rand"
	"os"
	"sort"
	"strings"

	"github.com/google/go-containerregistry/pkg/name"
	ggcr "github.com/google/go-containerregistry/pkg/v1"
	metav1 "k8s.io/apimachinery/pkg/apis/meta/v1"
	"k8s.io/apimachinery/pkg/apis/meta/v1/unstructured"
	"k8s.io/apimachinery/pkg/runtime"
	"k8s.io/apimachinery/pkg/types"
	"k8s.io/utils/ptr"
	"sigs.k8s.io/controller-runtime/pkg/reconcile"

	"github.com/crossplane/crossplane-runtime/pkg/feature"

	pkgmetav1 "github.com/crossplane/crossplane/apis/pkg/meta/v1"
	pkgv1 "github.com/crossplane/crossplane/apis/pkg/v1"
	"github.com/crossplane/crossplane/apis/pkg/v1beta1"
	"github.com/crossplane/crossplane/internal/controller/pkg/resolver"
	"github.com/crossplane/crossplane/internal/controller/pkg/revision"
	"github.com/crossplane/crossplane/internal/dag"
	"github.com/crossplane/crossplane/internal/features"
	"github.com/crossplane/crossplane/internal/xpkg"
	"github.com/crossplane/crossplane/zzverif/fakes"
	"github.com/crossplane/crossplane/zzverif/scen"
	"github.com/crossplane/crossplane/zzverif/simapi"
	"github.com/crossplane/crossplane/zzverif/trace"
)

const (
	registry = "xpkg.example.org"
	base     = registry + "/org/"
)

// ---------------------------------------------------------------- abstract values

// Ver is the abstract version record of Deps.tla.
type Ver struct {
	K   string `json:"k"`
	Maj int    `json:"maj"`
	Min int    `json:"min"`
	Pat int    `json:"pat"`
	Pre int    `json:"pre"`
	Sp  int    `json:"sp"`
	D   string `json:"d"`
}

// Con is the abstract constraint record of Deps.tla.
type Con struct {
	Op string `json:"op"`
	A  Ver    `json:"a"`
	B  Ver    `json:"b"`
	D  string `json:"d"`
	Sp int    `json:"sp"`
}

var (
	noVer     = Ver{K: "none", Pre: 2, D: "none"}
	junkTags  = []string{"latest", "1.0.0.0", "v2.x", "main"}
	badCons   = []string{"not-a-range", ">>1.0.0", "sha256:abc", "1.0.0 &&"}
	preSuffix = []string{"-alpha", "-rc.1", ""}
)

func digestHex(d string) string {
	h := fmt.Sprintf("%x", d)
	return h + strings.Repeat("0", 64-len(h))
}

func triple(v Ver) string {
	return fmt.Sprintf("%d.%d.%d%s", v.Maj, v.Min, v.Pat, preSuffix[v.Pre])
}

// verString materialises an abstract version as a real tag / digest.
func verString(v Ver) string {
	switch v.K {
	case "sem":
		if v.Sp == 0 {
			return "v" + triple(v)
		}
		return triple(v)
	case "junk":
		return junkTags[v.Sp]
	case "digest":
		return "sha256:" + digestHex(v.D)
	}
	return ""
}

// conString materialises an abstract constraint as a real constraint string.
func conString(c Con) string {
	a, b := triple(c.A), triple(c.B)
	if c.Sp == 1 {
		a = "v" + a
	}
	switch c.Op {
	case "ge":
		return ">=" + a
	case "gt":
		return ">" + a
	case "le":
		return "<=" + a
	case "lt":
		return "<" + a
	case "eq":
		if c.Sp == 1 {
			return a // a bare pinned version, v-prefixed
		}
		return "=" + a
	case "caret":
		return "^" + a
	case "tilde":
		return "~" + a
	case "range":
		return a + " - " + b
	case "between":
		return ">=" + a + ", <" + b
	case "any":
		return "*"
	case "digest":
		return "sha256:" + digestHex(c.D)
	case "invalid":
		return badCons[c.Sp]
	}
	panic("unknown constraint op " + c.Op)
}

func key(v Ver) int { return ((v.Maj*10+v.Min)*10+v.Pat)*10 + v.Pre }

// back maps real version strings to the abstract versions they came from.
type back map[string]Ver

func (b back) add(vs ...Ver) {
	for _, v := range vs {
		if v.K != "none" {
			b[verString(v)] = v
		}
	}
}

func (b back) of(s string) Ver {
	if s == "" {
		return noVer
	}
	if v, ok := b[s]; ok {
		return v
	}
	for _, d := range []string{"dA", "dB"} {
		if s == "sha256:"+digestHex(d) {
			return Ver{K: "digest", Pre: 2, D: d}
		}
	}
	return Ver{K: "other", Pre: 2, D: "none"}
}

// versionOf splits the version off a package's spec.package.
func versionOf(src, repo string) string {
	rest := strings.TrimPrefix(src, repo)
	if rest == src || rest == "" {
		return "?" + src
	}
	return rest[1:] // drop ':' or '@'
}

// ---------------------------------------------------------------- real-code plumbing

var scheme = func() *runtime.Scheme {
	s := runtime.NewScheme()
	_ = pkgv1.AddToScheme(s)
	_ = v1beta1.AddToScheme(s)
	return s
}()

type fetcher struct {
	tags  func(repo string) []string
	calls int
}

func (f *fetcher) Fetch(context.Context, name.Reference, ...string) (ggcr.Image, error) {
	return nil, errors.New("not used")
}

func (f *fetcher) Head(context.Context, name.Reference, ...string) (*ggcr.Descriptor, error) {
	return nil, errors.New("not used")
}

func (f *fetcher) Tags(_ context.Context, ref name.Reference, _ ...string) ([]string, error) {
	f.calls++
	return append([]string(nil), f.tags(ref.Context().Name())...), nil
}

// guard runs fn and reports a panic of the real code instead of dying.
func guard(fn func()) (panicked bool, msg string) {
	defer func() {
		if r := recover(); r != nil {
			panicked, msg = true, fmt.Sprint(r)
		}
	}()
	fn()
	return false, ""
}

func provider(n, src string) *pkgv1.Provider {
	p := &pkgv1.Provider{ObjectMeta: metav1.ObjectMeta{Name: n}}
	p.Spec.Package = src
	return p
}

func pkgSource(repo, ver string) string {
	if strings.HasPrefix(ver, "sha256:") {
		return repo + "@" + ver
	}
	return repo + ":" + ver
}

// lockBase is how the Lock spells package sources in this vector: with the registry, or (every other install / update vector)
// without it, the way a package's crossplane.yaml usually names its dependencies - "org/d" and "xpkg.example.org/org/d" are the
// same repository under the configured default registry, and the installed Package objects always carry the full form
// (added after the seeded change C17-m9 - the resolver finds the installed package by comparing source strings - was missed).
var lockBase = base

func lockDep(target string, c string) v1beta1.Dependency {
	return v1beta1.Dependency{Package: lockBase + target, Type: ptr.To(v1beta1.ProviderPackageType), Constraints: c}
}

func lockPkg(n, ver string, deps []v1beta1.Dependency) v1beta1.LockPackage {
	if deps == nil {
		deps = []v1beta1.Dependency{}
	}
	return v1beta1.LockPackage{Name: n + "-rev", Type: ptr.To(v1beta1.ProviderPackageType), Source: lockBase + n, Version: ver, Dependencies: deps}
}

// packages projects the Provider objects in the store: repository -> version string.
func packages(s *simapi.Server) map[string]string {
	out := map[string]string{}
	for _, u := range s.All(simapi.Key{Group: "pkg.crossplane.io", Kind: "Provider"}.GK()) {
		src, _, _ := unstructured.NestedString(u.Object, "spec", "package")
		if strings.HasPrefix(src, "org/") {
			src = registry + "/" + src // (a source without registry names the repository of the default registry)
		}
		if !strings.HasPrefix(src, base) {
			out["?"+u.GetName()] = src
			continue
		}
		rest := strings.TrimPrefix(src, base)
		i := strings.IndexAny(rest, ":@")
		if i < 0 {
			out[rest] = ""
			continue
		}
		out[rest[:i]] = rest[i+1:]
	}
	return out
}

type resolverRun struct {
	panicked bool
	msg      string
	err      bool
	cond     string
	tagCalls int
	before   map[string]string
	after    map[string]string
	lockSame bool
}

// runResolver drives the real Lock reconciler once, end to end.
func runResolver(lock []v1beta1.LockPackage, installed map[string]string, tags func(repo string) []string, up, down bool) resolverRun {
	s := simapi.NewServer(scheme)
	c := simapi.NewClient(s, "resolver")
	s.Put(&v1beta1.Lock{ObjectMeta: metav1.ObjectMeta{Name: "lock"}, Packages: lock})
	for n, v := range installed {
		s.Put(provider(xpkg.ToDNSLabel("org/"+n), pkgSource(base+n, v)))
	}
	f := &fetcher{tags: tags}
	flags := &feature.Flags{}
	opts := []resolver.ReconcilerOption{
		resolver.WithFetcher(f),
		resolver.WithDefaultRegistry(registry),
		resolver.WithConfigStore(xpkg.NewImageConfigStore(c, "crossplane-system")),
		resolver.WithFeatures(flags),
	}
	if up {
		flags.Enable(features.EnableAlphaDependencyVersionUpgrades)
		opts = append(opts, resolver.WithNewDagFn(dag.NewUpgradingMapDag))
		if down {
			opts = append(opts, resolver.WithDowngradesEnabled())
		}
	}
	r := resolver.NewReconciler(&fakes.Manager{Client: c, Sch: scheme}, opts...)
	out := resolverRun{before: packages(s)}
	lockBefore, _, _ := unstructured.NestedSlice(s.Peek(simapi.Key{Group: "pkg.crossplane.io", Kind: "Lock", Name: "lock"}).Object, "packages")
	var err error
	out.panicked, out.msg = guard(func() {
		_, err = r.Reconcile(context.Background(), reconcile.Request{NamespacedName: types.NamespacedName{Name: "lock"}})
	})
	out.err = err != nil
	out.tagCalls = f.calls
	out.after = packages(s)
	out.cond = "none"
	if l := s.Peek(simapi.Key{Group: "pkg.crossplane.io", Kind: "Lock", Name: "lock"}); l != nil {
		conds, _, _ := unstructured.NestedSlice(l.Object, "status", "conditions")
		for _, cd := range conds {
			if m, ok := cd.(map[string]any); ok && m["type"] == "Resolved" {
				out.cond = fmt.Sprintf("%v/%v", m["status"], m["reason"])
			}
		}
		lockAfter, _, _ := unstructured.NestedSlice(l.Object, "packages")
		a, _ := json.Marshal(lockBefore)
		b, _ := json.Marshal(lockAfter)
		out.lockSame = string(a) == string(b)
	}
	return out
}

// ---------------------------------------------------------------- family "dag"

type dagInput struct {
	Lock []struct {
		N   string `json:"n"`
		Ver Ver    `json:"ver"`
	} `json:"lock"`
	Edges []struct {
		F string `json:"f"`
		T string `json:"t"`
		C Con    `json:"c"`
	} `json:"edges"`
}

func sorted(m map[string]bool) []string {
	out := make([]string, 0, len(m))
	for k := range m {
		out = append(out, k)
	}
	sort.Strings(out)
	return out
}

func short(id string) string { return strings.TrimPrefix(strings.TrimPrefix(id, base), "org/") }

func runDagImpl(newDag dag.NewDAGFn, pkgs []v1beta1.LockPackage) map[string]any {
	out := map[string]any{"panic": false, "initErr": false, "implied": []string{}, "sortErr": false, "sortMsg": "", "order": []string{}, "trace": []any{}}
	p, msg := guard(func() {
		d := newDag()
		implied, err := d.Init(v1beta1.ToNodes(pkgs...))
		if err != nil {
			out["initErr"] = true
			return
		}
		im := map[string]bool{}
		for _, n := range implied {
			im[short(n.Identifier())] = true
		}
		out["implied"] = sorted(im)
		order, err := d.Sort()
		if err != nil {
			out["sortErr"] = true
			out["sortMsg"] = err.Error()
		} else {
			o := []string{}
			for _, id := range order {
				o = append(o, short(id))
			}
			out["order"] = o
		}
		tr := []any{}
		for _, lp := range pkgs {
			tree, err := d.TraceNode(lp.Source)
			keys := map[string]bool{}
			for k := range tree {
				keys[short(k)] = true
			}
			tr = append(tr, map[string]any{"n": short(lp.Source), "err": err != nil, "r": sorted(keys)})
		}
		out["trace"] = tr
	})
	if p {
		out["panic"] = true
		out["sortMsg"] = msg
	}
	return out
}

func (d *drv) runDag(raw json.RawMessage, rng *rand.Rand) map[string]any {
	var in dagInput
	must(json.Unmarshal(raw, &in))
	rng.Shuffle(len(in.Lock), func(i, j int) { in.Lock[i], in.Lock[j] = in.Lock[j], in.Lock[i] })
	rng.Shuffle(len(in.Edges), func(i, j int) { in.Edges[i], in.Edges[j] = in.Edges[j], in.Edges[i] })
	build := func() []v1beta1.LockPackage {
		var pkgs []v1beta1.LockPackage
		for _, l := range in.Lock {
			var deps []v1beta1.Dependency
			for _, e := range in.Edges {
				if e.F == l.N {
					deps = append(deps, lockDep(e.T, conString(e.C)))
				}
			}
			pkgs = append(pkgs, lockPkg(l.N, verString(l.Ver), deps))
		}
		return pkgs
	}
	out := map[string]any{
		"plain": runDagImpl(dag.NewMapDag, build()),
		"upg":   runDagImpl(dag.NewUpgradingMapDag, build()),
	}
	if out["plain"].(map[string]any)["sortErr"].(bool) {
		d.sum.Outcomes["dag:cycle"]++
	} else {
		d.sum.Outcomes["dag:acyclic"]++
	}
	// end to end: does the resolver install / change anything for this lock?
	installed := map[string]string{}
	for _, l := range in.Lock {
		installed[l.N] = verString(l.Ver)
	}
	tags := func(string) []string { return []string{"v2.0.0", "latest", "v1.0.0"} }
	runs := []any{}
	for _, up := range []bool{false, true} {
		r := runResolver(build(), installed, tags, up, false)
		created, changed := map[string]bool{}, map[string]bool{}
		for n, v := range r.after {
			if b, ok := r.before[n]; !ok {
				created[n] = true
			} else if b != v {
				changed[n] = true
			}
		}
		for n := range r.before {
			if _, ok := r.after[n]; !ok {
				changed[n] = true
			}
		}
		runs = append(runs, map[string]any{"up": up, "created": sorted(created), "changed": sorted(changed), "err": r.err, "panic": r.panicked, "cond": r.cond})
		if r.panicked {
			d.sum.Outcomes["dag:resolver-panic"]++
			d.notePanic(r.msg)
		}
		if len(created)+len(changed) > 0 {
			d.sum.Outcomes["dag:resolver-installed"]++
		} else {
			d.sum.Outcomes["dag:resolver-nothing"]++
		}
	}
	out["runs"] = runs
	return out
}

// ---------------------------------------------------------------- families "install" / "update"

type verInput struct {
	Cons   []Con `json:"cons"`
	Tags   []Ver `json:"tags"`
	Iv     Ver   `json:"iv"`
	InLock bool  `json:"inLock"`
	Up     bool  `json:"up"`
	Down   bool  `json:"down"`
}

func (d *drv) runVer(fam string, raw json.RawMessage, _ *rand.Rand) map[string]any {
	var in verInput
	must(json.Unmarshal(raw, &in))
	bk := back{}
	bk.add(in.Tags...)
	bk.add(in.Iv)
	var lock []v1beta1.LockPackage
	for i, c := range in.Cons {
		lock = append(lock, lockPkg(fmt.Sprintf("p%d", i+1), "v1.0.0", []v1beta1.Dependency{lockDep("d", conString(c))}))
	}
	installed := map[string]string{}
	if in.Iv.K != "none" {
		installed["d"] = verString(in.Iv)
		if in.InLock {
			lock = append(lock, lockPkg("d", verString(in.Iv), nil))
		}
	}
	var tagStrings []string
	for _, t := range in.Tags {
		tagStrings = append(tagStrings, verString(t))
	}
	r := runResolver(lock, installed, func(repo string) []string {
		if repo == base+"d" {
			return tagStrings
		}
		return nil
	}, in.Up, in.Down)
	afterS, have := r.after["d"]
	after := noVer
	if have {
		after = bk.of(afterS)
	}
	others := 0 // packages other than the dependency that appeared or changed (never expected)
	for n, v := range r.after {
		if n != "d" && r.before[n] != v {
			others++
		}
	}
	out := map[string]any{"pkg": after, "raw": afterS, "changed": have && afterS != installed["d"] || !have && in.Iv.K != "none",
		"created": have && in.Iv.K == "none", "others": others, "lockSame": r.lockSame,
		"panic": r.panicked, "err": r.err, "cond": r.cond, "tagCalls": r.tagCalls}
	cls := "kept"
	switch {
	case r.panicked:
		cls = "panic"
		d.notePanic(r.msg)
	case out["created"].(bool):
		cls = "created-" + after.K
	case out["changed"].(bool):
		cls = "moved-" + after.K
		if after.K == "sem" && in.Iv.K == "sem" {
			// observation only (which branch of the selection was exercised), not a judgement
			if key(after) >= key(in.Iv) {
				cls = "moved-up"
			} else {
				cls = "moved-down"
			}
		}
	case r.err:
		cls = "error"
	}
	d.sum.Outcomes[fam+":"+cls]++
	return out
}

// ---------------------------------------------------------------- family "resolve"

type resInput struct {
	Lock []struct {
		N    string `json:"n"`
		Ver  Ver    `json:"ver"`
		Deps []struct {
			T string `json:"t"`
			C Con    `json:"c"`
		} `json:"deps"`
	} `json:"lock"`
	Self []struct {
		T string `json:"t"`
		C Con    `json:"c"`
	} `json:"self"`
	SelfIn bool `json:"selfIn"`
	Up     bool `json:"up"`
}

func (d *drv) runResolve(raw json.RawMessage, rng *rand.Rand) map[string]any {
	var in resInput
	must(json.Unmarshal(raw, &in))
	rng.Shuffle(len(in.Lock), func(i, j int) { in.Lock[i], in.Lock[j] = in.Lock[j], in.Lock[i] })
	rng.Shuffle(len(in.Self), func(i, j int) { in.Self[i], in.Self[j] = in.Self[j], in.Self[i] })
	var lock []v1beta1.LockPackage
	for _, l := range in.Lock {
		var deps []v1beta1.Dependency
		for _, e := range l.Deps {
			deps = append(deps, lockDep(e.T, conString(e.C)))
		}
		lock = append(lock, lockPkg(l.N, verString(l.Ver), deps))
	}
	meta := &pkgmetav1.Provider{}
	var selfDeps []v1beta1.Dependency
	for _, e := range in.Self {
		meta.Spec.DependsOn = append(meta.Spec.DependsOn, pkgmetav1.Dependency{Provider: ptr.To(base + e.T), Version: conString(e.C)})
		selfDeps = append(selfDeps, lockDep(e.T, conString(e.C)))
	}
	if in.SelfIn {
		sp := lockPkg("s", "v1.0.0", selfDeps)
		at := rng.Intn(len(lock) + 1)
		lock = append(lock[:at], append([]v1beta1.LockPackage{sp}, lock[at:]...)...)
	}
	s := simapi.NewServer(scheme)
	c := simapi.NewClient(s, "revision")
	s.Put(&v1beta1.Lock{ObjectMeta: metav1.ObjectMeta{Name: "lock"}, Packages: lock})
	newDag := dag.NewMapDag
	if in.Up {
		newDag = dag.NewUpgradingMapDag
	}
	m := revision.NewPackageDependencyManager(c, newDag, pkgv1.ProviderGroupVersionKind)
	pr := &pkgv1.ProviderRevision{ObjectMeta: metav1.ObjectMeta{Name: "s-rev"}}
	pr.Spec.Package = base + "s:v1.0.0"
	pr.Spec.DesiredState = pkgv1.PackageRevisionActive
	var found, installed, invalid int
	var err error
	p, msg := guard(func() { found, installed, invalid, err = m.Resolve(context.Background(), meta, pr) })
	present := map[string]bool{}
	if l := s.Peek(simapi.Key{Group: "pkg.crossplane.io", Kind: "Lock", Name: "lock"}); l != nil {
		pk, _, _ := unstructured.NestedSlice(l.Object, "packages")
		for _, x := range pk {
			if mm, ok := x.(map[string]any); ok {
				src, _ := mm["source"].(string)
				present[short(src)] = true
			}
		}
	}
	emsg := ""
	if err != nil {
		emsg = err.Error()
	}
	if p {
		d.notePanic(msg)
		emsg = "panic: " + msg
	}
	switch {
	case p:
		d.sum.Outcomes["resolve:panic"]++
	case err != nil:
		d.sum.Outcomes["resolve:unsatisfied"]++
	default:
		d.sum.Outcomes["resolve:satisfied"]++
	}
	return map[string]any{"ok": err == nil && !p, "panic": p, "found": found, "installed": installed, "invalid": invalid,
		"present": sorted(present), "msg": emsg}
}

// ---------------------------------------------------------------- main

type summary struct {
	Vectors  int            `json:"vectors"`
	Events   int            `json:"events"`
	Families map[string]int `json:"families"`
	Outcomes map[string]int `json:"outcomes"`
	Panics   map[string]int `json:"panics"`
	Samples  []any          `json:"samples"`
}

type drv struct {
	sum *summary
}

func (d *drv) notePanic(msg string) {
	if len(msg) > 120 {
		msg = msg[:120]
	}
	d.sum.Panics[msg]++
}

func must(err error) {
	if err != nil {
		fmt.Fprintln(os.Stderr, "driver:", err)
		os.Exit(2)
	}
}

func main() {
	scenarios := flag.String("scenarios", "", "NDJSON file of input vectors")
	tracePath := flag.String("trace", "", "output trace")
	sumPath := flag.String("summary", "", "output summary JSON")
	chunk := flag.Int("chunk", 0, "split the trace into files of about this many events")
	seed := flag.Int64("seed", 1, "seed for list orders (a scenario's own seed field wins)")
	flag.Parse()

	raws, err := scen.Load(*scenarios)
	must(err)
	tw, err := trace.New(*tracePath, *chunk)
	must(err)
	d := &drv{sum: &summary{Families: map[string]int{}, Outcomes: map[string]int{}, Panics: map[string]int{}, Samples: []any{}}}
	sampled := map[string]bool{}
	for i, raw := range raws {
		var sc struct {
			ID    string          `json:"id"`
			Input json.RawMessage `json:"input"`
			Seed  *int64          `json:"seed"`
		}
		must(json.Unmarshal(raw, &sc))
		var hd struct {
			Fam string `json:"fam"`
		}
		must(json.Unmarshal(sc.Input, &hd))
		sd := *seed*1000003 + int64(i)
		if sc.Seed != nil {
			sd = *sc.Seed
		}
		rng := rand.New(rand.NewSource(sd))
		var out map[string]any
		switch hd.Fam {
		case "dag":
			out = d.runDag(sc.Input, rng)
		case "install", "update":
			lockBase = base
			if i%2 == 1 {
				lockBase = "org/"
			}
			out = d.runVer(hd.Fam, sc.Input, rng)
			lockBase = base
		case "resolve":
			out = d.runResolve(sc.Input, rng)
		default:
			must(fmt.Errorf("unknown family %q in scenario %s", hd.Fam, sc.ID))
		}
		tw.Boundary()
		ev := map[string]any{"ev": "out", "scenario": sc.ID, "fam": hd.Fam, "seed": fmt.Sprint(sd), "input": sc.Input, "output": out}
		tw.Emit(ev)
		d.sum.Vectors++
		d.sum.Families[hd.Fam]++
		if !sampled[hd.Fam] && (i%7 == 3 || len(raws) < 50) {
			sampled[hd.Fam] = true
			d.sum.Samples = append(d.sum.Samples, ev)
		}
	}
	d.sum.Events = tw.Lines
	must(tw.Close())
	must(scen.WriteJSON(*sumPath, d.sum))
}
