package main

// The C05 family (spec/Conditions.tla): one vector = what an XR (or claim)
// reconcile is given; the real reconciler produces the conditions; the trace
// records input, conditions before and after.

import (
	"context"
	"encoding/json"
	"fmt"
	"os"
	"sort"

	"google.golang.org/protobuf/types/known/structpb"
	kerrors "k8s.io/apimachinery/pkg/api/errors"
	"k8s.io/apimachinery/pkg/apis/meta/v1/unstructured"
	"k8s.io/apimachinery/pkg/runtime/schema"
	"k8s.io/apimachinery/pkg/types"
	"k8s.io/apimachinery/pkg/util/validation/field"
	"sigs.k8s.io/controller-runtime/pkg/reconcile"

	"github.com/crossplane/crossplane-runtime/pkg/resource"

	fnv1 "github.com/crossplane/crossplane/apis/apiextensions/fn/proto/v1"
	"github.com/crossplane/crossplane/internal/controller/apiextensions/claim"
	"github.com/crossplane/crossplane/internal/names"
	"github.com/crossplane/crossplane/zzverif/replay"
	"github.com/crossplane/crossplane/zzverif/scen"
	"github.com/crossplane/crossplane/zzverif/simapi"
	"github.com/crossplane/crossplane/zzverif/trace"
)

type condVec struct {
	Fam    string            `json:"fam"`
	Mode   string            `json:"mode"`
	Ready  map[string]bool   `json:"ready"`
	Apply  map[string]string `json:"apply"`
	Render map[string]string `json:"render"`
	XR     string            `json:"xr"`
	Conds  []struct {
		Type   string `json:"type"`
		Status string `json:"status"`
		Target string `json:"target"`
	} `json:"conds"`
	Err     string `json:"err"`
	Prior   string `json:"prior"`
	XRReady string `json:"xrReady"`
	Checks  string `json:"checks"`
}

// condScript is what the scripted function returns in a conditions run.
type condScript struct {
	ready  map[string]bool
	poison map[string]bool
	xr     string
	conds  []*fnv1.Condition
	fatal  bool
}

func observed(u *unstructured.Unstructured) map[string]any {
	out := map[string]any{"ready": "none", "synced": "none", "custom": "none", "readyReason": "none", "syncedReason": "none", "claimTypes": []any{}}
	if u == nil {
		return out
	}
	cs, _, _ := unstructured.NestedSlice(u.Object, "status", "conditions")
	for _, c := range cs {
		m, _ := c.(map[string]any)
		st, _ := m["status"].(string)
		rs, _ := m["reason"].(string)
		switch m["type"] {
		case "Ready":
			out["ready"], out["readyReason"] = st, rs
		case "Synced":
			out["synced"], out["syncedReason"] = st, rs
		case "Custom1":
			out["custom"] = st
		}
	}
	ts, _, _ := unstructured.NestedStringSlice(u.Object, "status", "claimConditionTypes")
	sort.Strings(ts)
	out["claimTypes"] = strs(ts)
	return out
}

func (w *world) condFunction(sc *condScript) func(context.Context, string, *fnv1.RunFunctionRequest) (*fnv1.RunFunctionResponse, error) {
	return func(_ context.Context, name string, req *fnv1.RunFunctionRequest) (*fnv1.RunFunctionResponse, error) {
		xrs, _ := structpb.NewStruct(map[string]any{"apiVersion": "ex.org/v1", "kind": "XThing", "status": map[string]any{"observed": "yes"}})
		rsp := &fnv1.RunFunctionResponse{Desired: &fnv1.State{Composite: &fnv1.Resource{Resource: xrs}}, Context: req.GetContext()}
		rsp.Desired.Resources = map[string]*fnv1.Resource{}
		for _, n := range w.names {
			spec := map[string]any{"param": n}
			if sc.poison[n] {
				spec["poison"] = true
			}
			s, _ := structpb.NewStruct(map[string]any{"apiVersion": "ex.org/v1", "kind": "Thing", "spec": spec})
			r := &fnv1.Resource{Resource: s}
			if sc.ready[n] {
				r.Ready = fnv1.Ready_READY_TRUE
			}
			rsp.Desired.Resources[n] = r
		}
		switch sc.xr {
		case "true":
			rsp.Desired.Composite.Ready = fnv1.Ready_READY_TRUE
		case "false":
			rsp.Desired.Composite.Ready = fnv1.Ready_READY_FALSE
		}
		if name == "fn2" {
			// the last step sends the conditions and, if so scripted, a fatal result after them
			rsp.Conditions = sc.conds
			if sc.fatal {
				rsp.Results = []*fnv1.Result{{Severity: fnv1.Severity_SEVERITY_FATAL, Message: "fatal"}}
			}
		}
		return rsp, nil
	}
}

func fnConds(v *condVec) []*fnv1.Condition {
	out := []*fnv1.Condition{}
	for _, c := range v.Conds {
		fc := &fnv1.Condition{Type: c.Type, Reason: "Forged"}
		switch c.Status {
		case "True":
			fc.Status = fnv1.Status_STATUS_CONDITION_TRUE
		case "False":
			fc.Status = fnv1.Status_STATUS_CONDITION_FALSE
		default:
			fc.Status = fnv1.Status_STATUS_CONDITION_UNKNOWN
		}
		if c.Target == "CompositeAndClaim" {
			t := fnv1.Target_TARGET_COMPOSITE_AND_CLAIM
			fc.Target = &t
		}
		out = append(out, fc)
	}
	return out
}

var poisonErr = func(k simapi.Key) error {
	return kerrors.NewInvalid(schema.GroupKind{Group: k.Group, Kind: k.Kind}, k.Name, field.ErrorList{field.Invalid(field.NewPath("spec", "poison"), true, "poisoned")})
}

func runCondXR(tw *trace.Writer, id string, raw json.RawMessage, v *condVec) {
	tw.Boundary()
	init := map[string]any{"mode": v.Mode, "names": []any{"a", "b"}, "want": []any{"a", "b"}, "foreignAt": "none", "fixedName": "a"}
	w := newWorld(tw, id, init)
	w.s.OnEvent = nil
	// the API server rejects poisoned composed resources as invalid
	w.s.Reject = func(_ string, u *unstructured.Unstructured) error {
		if u.GetKind() == "Thing" {
			if p, _, _ := unstructured.NestedBool(u.Object, "spec", "poison"); p {
				return poisonErr(simapi.KeyOf(u))
			}
		}
		return nil
	}
	sc := &condScript{ready: map[string]bool{}, poison: map[string]bool{}}
	w.fnOverride = w.condFunction(sc)
	if v.Mode == "PT" {
		// templates: a required patch per template (render failure when its source is missing) and an optional poison patch
		w.s.Mutate(revKey, func(u *unstructured.Unstructured) {
			res := []any{}
			for _, n := range w.names {
				t := map[string]any{
					"name": n,
					"base": map[string]any{"apiVersion": "ex.org/v1", "kind": "Thing", "spec": map[string]any{"param": n}},
					"patches": []any{
						map[string]any{"type": "FromCompositeFieldPath", "fromFieldPath": "spec.req" + n, "toFieldPath": "spec.req", "policy": map[string]any{"fromFieldPath": "Required"}},
						map[string]any{"type": "FromCompositeFieldPath", "fromFieldPath": "spec.poison" + n, "toFieldPath": "spec.poison"},
					},
				}
				if v.Checks != "" && v.Checks != "default" {
					// two readiness checks: ready means both pass
					t["readinessChecks"] = []any{
						map[string]any{"type": "MatchString", "fieldPath": "status.state", "matchString": "available"},
						map[string]any{"type": "MatchCondition", "matchCondition": map[string]any{"type": "Ready", "status": "True"}},
					}
				}
				res = append(res, t)
			}
			_ = unstructured.SetNestedSlice(u.Object, res, "spec", "resources")
		})
		w.s.Mutate(xrKey, func(u *unstructured.Unstructured) {
			for _, n := range w.names {
				_ = unstructured.SetNestedField(u.Object, "x", "spec", "req"+n)
			}
		})
	}
	rec := func() {
		w.recNo++
		w.c.BeginReconcile()
		w.composed, w.composeErr = false, nil
		_, _ = w.rec.Reconcile(context.Background(), reconcile.Request{NamespacedName: types.NamespacedName{Name: xrName}})
	}
	markReady := func(ready map[string]bool) {
		for _, o := range w.s.All(cdGVK.GroupKind()) {
			n := o.GetAnnotations()[annName]
			st, state := "False", "available"
			if ready[n] {
				st = "True"
			} else if v.Checks == "failfirst" {
				st, state = "True", "creating" // only the first check fails
			}
			w.s.Mutate(simapi.KeyOf(o), func(u *unstructured.Unstructured) {
				_ = unstructured.SetNestedField(u.Object, state, "status", "state")
				_ = unstructured.SetNestedSlice(u.Object, []any{map[string]any{"type": "Ready", "status": st, "reason": "Available", "lastTransitionTime": "2024-01-01T00:00:00Z"}}, "status", "conditions")
			})
		}
	}
	// ---- the reconciles before: establish the prior conditions
	allReady := map[string]bool{"a": true, "b": true}
	if v.Mode == "PT" {
		rec() // creates the composed resources
		if v.Prior == "ready" || v.Prior == "both" {
			markReady(allReady)
			rec()
		}
	} else if v.Prior != "none" {
		if v.Prior == "ready" || v.Prior == "both" {
			sc.ready = allReady
		}
		if v.Prior == "custom" || v.Prior == "both" {
			sc.conds = []*fnv1.Condition{{Type: "Custom1", Status: fnv1.Status_STATUS_CONDITION_TRUE, Reason: "Prior"}}
		}
		rec()
	}
	before := observed(w.s.Peek(xrKey))
	// ---- the reconcile under test
	sc.ready, sc.poison, sc.xr, sc.conds, sc.fatal = v.Ready, map[string]bool{}, v.XR, fnConds(v), v.Err == "fatal"
	for _, n := range w.names {
		if v.Apply[n] == "invalid" {
			sc.poison[n] = true
		}
	}
	if v.Mode == "PT" {
		markReady(v.Ready)
		w.s.Mutate(xrKey, func(u *unstructured.Unstructured) {
			for _, n := range w.names {
				if v.Render[n] == "fail" {
					unstructured.RemoveNestedField(u.Object, "spec", "req"+n)
				}
				if v.Apply[n] == "invalid" {
					_ = unstructured.SetNestedField(u.Object, true, "spec", "poison"+n)
				}
			}
		})
	}
	rec()
	var in map[string]any
	_ = json.Unmarshal(raw, &in)
	tw.Emit(map[string]any{"ev": "out", "scenario": id, "input": in, "before": before, "after": observed(w.s.Peek(xrKey)),
		"composed": w.composed, "composeErr": w.composeErr != nil})
}

// ---- claim leg: the real claim reconciler observes its bound XR's Ready condition
func runCondClaim(tw *trace.Writer, id string, raw json.RawMessage, v *condVec) {
	tw.Boundary()
	init := map[string]any{"mode": "Pipeline", "names": []any{"a", "b"}, "want": []any{}, "foreignAt": "none", "fixedName": "a"}
	w := newWorld(tw, id, init)
	w.s.OnEvent = nil
	cmGVK := schema.GroupVersionKind{Group: "ex.org", Version: "v1", Kind: "Thing2Claim"}
	w.s.Namespaced(cmGVK.GroupKind())
	cmKey := simapi.Key{Group: "ex.org", Kind: "Thing2Claim", Namespace: "ns", Name: "cm"}
	cm := &unstructured.Unstructured{Object: map[string]any{}}
	cm.SetGroupVersionKind(cmGVK)
	cm.SetNamespace("ns")
	cm.SetName("cm")
	_ = unstructured.SetNestedField(cm.Object, compName, "spec", "compositionRef", "name")
	w.s.Put(cm)
	cc := simapi.NewClient(w.s, "claim")
	opts := []claim.ReconcilerOption{}
	if v.Mode == "SSA" {
		opts = append(opts, claim.WithCompositeSyncer(claim.NewServerSideCompositeSyncer(cc, names.NewNameGenerator(cc))),
			claim.WithManagedFieldsUpgrader(claim.NewPatchingManagedFieldsUpgrader(cc)))
	}
	cr := claim.NewReconciler(cc, resource.CompositeClaimKind(cmGVK), resource.CompositeKind(xrGVK), opts...)
	rec := func() {
		cc.BeginReconcile()
		_, _ = cr.Reconcile(context.Background(), reconcile.Request{NamespacedName: types.NamespacedName{Namespace: "ns", Name: "cm"}})
	}
	setXRReady := func(st string) {
		for _, x := range w.s.All(xrGVK.GroupKind()) {
			if x.GetName() == xrName {
				continue
			}
			w.s.Mutate(simapi.KeyOf(x), func(u *unstructured.Unstructured) {
				if st == "absent" {
					unstructured.RemoveNestedField(u.Object, "status", "conditions")
					return
				}
				_ = unstructured.SetNestedSlice(u.Object, []any{map[string]any{"type": "Ready", "status": st, "reason": "Available", "lastTransitionTime": "2024-01-01T00:00:00Z"}}, "status", "conditions")
			})
		}
	}
	rec() // binds: creates the XR
	rec()
	if v.Prior == "ready" {
		setXRReady("True")
		rec()
	}
	before := observed(w.s.Peek(cmKey))
	setXRReady(v.XRReady)
	rec()
	var in map[string]any
	_ = json.Unmarshal(raw, &in)
	nXR := len(w.s.All(xrGVK.GroupKind())) - 1
	tw.Emit(map[string]any{"ev": "out", "scenario": id, "input": in, "before": before, "after": observed(w.s.Peek(cmKey)),
		"composed": nXR == 1, "composeErr": false})
}

func condsMain(scenarios, tracePath, sumPath string, chunk int) {
	raws, err := scen.Load(scenarios)
	if err != nil {
		fmt.Fprintln(os.Stderr, err)
		os.Exit(2)
	}
	tw, err := trace.New(tracePath, chunk)
	if err != nil {
		fmt.Fprintln(os.Stderr, err)
		os.Exit(2)
	}
	sum := &summary{DriftByAbs: map[string]int{}}
	for _, raw := range raws {
		var sc struct {
			ID   string          `json:"id"`
			Hist json.RawMessage `json:"hist"`
		}
		if err := json.Unmarshal(raw, &sc); err != nil {
			fmt.Fprintln(os.Stderr, "bad scenario:", err)
			os.Exit(2)
		}
		v := &condVec{}
		if err := json.Unmarshal(sc.Hist, v); err != nil {
			fmt.Fprintln(os.Stderr, "bad vector:", err)
			os.Exit(2)
		}
		sum.Scenarios++
		if len(sum.Samples) < 2 {
			sum.Samples = append(sum.Samples, json.RawMessage(raw))
		}
		if v.Fam == "claim" {
			runCondClaim(tw, sc.ID, sc.Hist, v)
		} else {
			runCondXR(tw, sc.ID, sc.Hist, v)
		}
		sum.Runs++
	}
	sum.Events = tw.Lines
	sum.Counts = tw.Counts
	_ = tw.Close()
	_ = scen.WriteJSON(sumPath, sum)
	_ = replay.Entry{}
}
