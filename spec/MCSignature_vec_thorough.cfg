SPECIFICATION SpecVec
CONSTANTS
  InitRevs <- RevFresh
  InitICs <- IcNone
  InitVst <- VstDefault
  InitOk <- OkNone
  Feats <- OnlyTrue
  Orders <- Fwd
  ICs <- NoICs
  Imgs <- ImgsNone
  MaxSig = 0
  MaxRev = 0
  MaxFaults = 0
  MaxEnv = 0
  MidEnv = FALSE
  EnvKinds <- NoEnv
  FaultKinds <- NoFaults
  GateOn = TRUE
  GateSkipsInactive = TRUE
  Sticky = TRUE
  VecICs <- VecT
  VecEvICs <- VecEvT
  VecImgs <- VecImgsT
CHECK_DEADLOCK FALSE
