// Package simapi is a small, stateful, in-memory model of the Kubernetes API
// server as Crossplane's controllers see it through controller-runtime's
// client.Client. It is the Go twin of spec/KubeAPI.tla: every semantic rule
// implemented here has an operator of the same name there.
//
// It is deliberately not a general purpose fake: it implements the rules the
// properties in /verif/properties.jsonl depend on (resourceVersions and
// optimistic concurrency, AlreadyExists, merge / JSON / apply patches with real
// structured-merge-diff field management, at most one controller reference,
// finalizers and deletionTimestamp, the status subresource, dry-run, no-op
// writes that keep the resourceVersion, dependents garbage collection, DELETE
// admission) and exposes what a verification harness needs (a write log, fault
// injection at every call, scheduler gates, stale reads).
package simapi

import (
	"encoding/json"
	"fmt"
	"reflect"
	"sort"
	"strconv"
	"sync"
	"time"

	kerrors "k8s.io/apimachinery/pkg/api/errors"
	metav1 "k8s.io/apimachinery/pkg/apis/meta/v1"
	"k8s.io/apimachinery/pkg/apis/meta/v1/unstructured"
	"k8s.io/apimachinery/pkg/runtime"
	"k8s.io/apimachinery/pkg/runtime/schema"
	"k8s.io/apimachinery/pkg/types"
	utiljson "k8s.io/apimachinery/pkg/util/json"
	"k8s.io/apimachinery/pkg/util/validation/field"
	"sigs.k8s.io/controller-runtime/pkg/client"
)

// Key identifies a stored object independently of its API version.
type Key struct {
	Group, Kind, Namespace, Name string
}

func (k Key) String() string {
	return fmt.Sprintf("%s/%s/%s/%s", k.Group, k.Kind, k.Namespace, k.Name)
}

// GK of the key.
func (k Key) GK() schema.GroupKind { return schema.GroupKind{Group: k.Group, Kind: k.Kind} }

// ObjInfo is the cheap projection of one object logged with every write.
type ObjInfo struct {
	Exists   bool   `json:"exists"`
	Ctrl     string `json:"ctrl"` // UID of the controller owner reference, "" if none
	RV       string `json:"rv"`
	UID      string `json:"uid"`
	Deleting bool   `json:"del"`
}

// Event is one entry of the server's call log.
type Event struct {
	Seq      int     `json:"seq"`
	Actor    string  `json:"actor"`
	Idx      int     `json:"idx"` // call index within the actor's current reconcile (1-based)
	Verb     string  `json:"verb"`
	Sub      string  `json:"sub"`
	Group    string  `json:"group"`
	Kind     string  `json:"kind"`
	NS       string  `json:"ns"`
	Name     string  `json:"name"`
	DryRun   bool    `json:"dry"`
	Manager  string  `json:"mgr"`
	Outcome  string  `json:"outcome"`  // ok | notfound | exists | conflict | invalid | denied | error | dropped
	Injected string  `json:"injected"` // "" | error | conflict | crashBefore | crashAfter
	Applied  bool    `json:"applied"`  // the store changed (or would have, for dry-run)
	Noop     bool    `json:"noop"`     // a write that left the object byte-identical
	Removed  bool    `json:"removed"`  // the object disappeared from the store
	Pre      ObjInfo `json:"pre"`
	Post     ObjInfo `json:"post"`

	// PreObj / PostObj are deep copies of the stored object before / after a
	// write (nil for reads). Not serialised.
	PreObj  *unstructured.Unstructured `json:"-"`
	PostObj *unstructured.Unstructured `json:"-"`
}

// IsWrite reports whether the verb mutates.
func (e *Event) IsWrite() bool {
	switch e.Verb {
	case "get", "list":
		return false
	}
	return true
}

// Decision is what an Interceptor tells the server to do with a call.
type Decision int

// Decisions.
const (
	Proceed      Decision = iota
	FailError             // 500, no effect, reconcile continues
	FailConflict          // 409, no effect (writes only), reconcile continues
	CrashBefore           // no effect, the actor is dead for the rest of the reconcile
	CrashAfter            // effect applied, the actor is dead for the rest of the reconcile
	CacheMiss             // reads only: 404 although the object exists (an informer cache that has not seen it yet)
	FailNoMatch           // no effect: "no matches for kind" (the kind is not served: its CRD is not installed / established)
)

func (d Decision) String() string {
	return [...]string{"", "error", "conflict", "crashBefore", "crashAfter", "cacheMiss", "noMatch"}[d]
}

// Call describes a call about to be served.
type Call struct {
	Actor  string
	Idx    int
	Verb   string
	Sub    string
	Key    Key
	DryRun bool
	Write  bool
	// Obj is the request body of a create / update / apply (nil otherwise). Read only.
	Obj *unstructured.Unstructured
}

// Server is the object store.
type Server struct {
	mu sync.Mutex

	Scheme *runtime.Scheme

	objs map[Key]*unstructured.Unstructured
	hist map[Key][]*unstructured.Unstructured // every stored version, oldest first (nil entry = absent)
	rv   int64
	uid  int64
	seq  int
	now  time.Time

	namespaced map[schema.GroupKind]bool
	noStatus   map[schema.GroupKind]bool
	keepHist   map[schema.GroupKind]bool

	indexers map[schema.GroupKind]map[string]client.IndexerFunc

	fms map[string]*fieldManagerEntry

	// Log is the complete call log.
	Log []*Event
	// OnEvent, if set, is called (without the server lock held) after every call.
	OnEvent func(*Event)

	// DeleteAdmission, if set, is consulted for every non-dry-run DELETE of an
	// existing object (the stand-in for a validating webhook with its
	// objectSelector evaluated by the callee). A non-nil error denies.
	DeleteAdmission func(obj *unstructured.Unstructured, opts *client.DeleteOptions) error

	// Reject, if set, may veto a create/update/patch with an Invalid error:
	// it is the stand-in for CRD schema validation and admission.
	Reject func(verb string, obj *unstructured.Unstructured) error
}

// NewServer returns an empty server. Kinds are cluster scoped unless declared
// with Namespaced, and have a status subresource unless declared with NoStatus.
func NewServer(s *runtime.Scheme) *Server {
	srv := &Server{
		Scheme:     s,
		objs:       map[Key]*unstructured.Unstructured{},
		hist:       map[Key][]*unstructured.Unstructured{},
		namespaced: map[schema.GroupKind]bool{},
		noStatus:   map[schema.GroupKind]bool{},
		keepHist:   map[schema.GroupKind]bool{},
		indexers:   map[schema.GroupKind]map[string]client.IndexerFunc{},
		fms:        map[string]*fieldManagerEntry{},
		now:        time.Date(2024, 1, 1, 0, 0, 0, 0, time.UTC),
	}
	for _, gk := range []schema.GroupKind{
		{Kind: "Secret"}, {Kind: "ConfigMap"}, {Kind: "ServiceAccount"}, {Kind: "Service"}, {Kind: "Event"},
		{Group: "apps", Kind: "Deployment"},
	} {
		srv.namespaced[gk] = true
	}
	for _, gk := range []schema.GroupKind{
		{Kind: "Secret"}, {Kind: "ConfigMap"}, {Kind: "ServiceAccount"}, {Kind: "Event"},
		{Group: "rbac.authorization.k8s.io", Kind: "ClusterRole"},
		{Group: "rbac.authorization.k8s.io", Kind: "ClusterRoleBinding"},
		{Group: "admissionregistration.k8s.io", Kind: "ValidatingWebhookConfiguration"},
		{Group: "admissionregistration.k8s.io", Kind: "MutatingWebhookConfiguration"},
	} {
		srv.noStatus[gk] = true
	}
	return srv
}

// Namespaced declares kinds as namespaced.
func (s *Server) Namespaced(gks ...schema.GroupKind) {
	for _, gk := range gks {
		s.namespaced[gk] = true
	}
}

// NoStatus declares kinds without a status subresource.
func (s *Server) NoStatus(gks ...schema.GroupKind) {
	for _, gk := range gks {
		s.noStatus[gk] = true
	}
}

// KeepHistory makes the server remember every stored version of the kind so
// that stale reads can be served.
func (s *Server) KeepHistory(gks ...schema.GroupKind) {
	for _, gk := range gks {
		s.keepHist[gk] = true
	}
}

// ---- direct (environment) access, bypassing interception and the call log ----

// Peek returns a deep copy of the stored object or nil.
func (s *Server) Peek(k Key) *unstructured.Unstructured {
	s.mu.Lock()
	defer s.mu.Unlock()
	if o, ok := s.objs[k]; ok {
		return o.DeepCopy()
	}
	return nil
}

// Read calls fn with the stored objects under the server lock. fn must not
// modify them or retain references (projection functions use this to avoid
// deep copies).
func (s *Server) Read(fn func(keys []Key, objs map[Key]*unstructured.Unstructured)) {
	s.mu.Lock()
	defer s.mu.Unlock()
	fn(s.keysLocked(), s.objs)
}

// Keys returns all keys, sorted.
func (s *Server) Keys() []Key {
	s.mu.Lock()
	defer s.mu.Unlock()
	return s.keysLocked()
}

func (s *Server) keysLocked() []Key {
	ks := make([]Key, 0, len(s.objs))
	for k := range s.objs {
		ks = append(ks, k)
	}
	sort.Slice(ks, func(i, j int) bool { return ks[i].String() < ks[j].String() })
	return ks
}

// All returns deep copies of all objects of a group-kind ("" kind = all).
func (s *Server) All(gk schema.GroupKind) []*unstructured.Unstructured {
	s.mu.Lock()
	defer s.mu.Unlock()
	var out []*unstructured.Unstructured
	for _, k := range s.keysLocked() {
		if gk.Kind == "" || k.GK() == gk {
			out = append(out, s.objs[k].DeepCopy())
		}
	}
	return out
}

// History returns every stored version of the object (nil = absent at that point).
func (s *Server) History(k Key) []*unstructured.Unstructured {
	s.mu.Lock()
	defer s.mu.Unlock()
	return append([]*unstructured.Unstructured(nil), s.hist[k]...)
}

// Put stores the object as the environment (a user, another controller) would,
// assigning uid/resourceVersion as needed. No validation beyond that.
func (s *Server) Put(o runtime.Object) *unstructured.Unstructured {
	u := s.mustUnstructured(o)
	s.mu.Lock()
	defer s.mu.Unlock()
	k := KeyOf(u)
	if old, ok := s.objs[k]; ok {
		if u.GetUID() == "" {
			u.SetUID(old.GetUID())
		}
		if u.GetCreationTimestamp().Time.IsZero() {
			u.SetCreationTimestamp(old.GetCreationTimestamp())
		}
	}
	if u.GetUID() == "" {
		u.SetUID(s.nextUID())
	}
	if u.GetCreationTimestamp().Time.IsZero() {
		u.SetCreationTimestamp(metav1.NewTime(s.tick()))
	}
	u.SetResourceVersion(s.nextRV())
	s.store(k, u)
	return u.DeepCopy()
}

// Mutate applies fn to the stored object as the environment would and bumps
// its resourceVersion if it changed. Returns false if the object is absent.
// If after the mutation the object is deleting and has no finalizers it is removed.
func (s *Server) Mutate(k Key, fn func(u *unstructured.Unstructured)) bool {
	s.mu.Lock()
	defer s.mu.Unlock()
	o, ok := s.objs[k]
	if !ok {
		return false
	}
	n := o.DeepCopy()
	fn(n)
	if reflect.DeepEqual(n.Object, o.Object) {
		return true
	}
	if n.GetDeletionTimestamp() != nil && len(n.GetFinalizers()) == 0 {
		s.remove(k)
		return true
	}
	n.SetResourceVersion(s.nextRV())
	s.store(k, n)
	return true
}

// Remove deletes the object from the store unconditionally (environment).
func (s *Server) Remove(k Key) {
	s.mu.Lock()
	defer s.mu.Unlock()
	if _, ok := s.objs[k]; ok {
		s.remove(k)
	}
}

// MarkDeleted performs what a user's kubectl delete does: deletionTimestamp if
// finalizers are present, removal otherwise.
func (s *Server) MarkDeleted(k Key) {
	s.mu.Lock()
	defer s.mu.Unlock()
	o, ok := s.objs[k]
	if !ok {
		return
	}
	if len(o.GetFinalizers()) == 0 {
		s.remove(k)
		return
	}
	if o.GetDeletionTimestamp() != nil {
		return
	}
	n := o.DeepCopy()
	t := metav1.NewTime(s.tick())
	n.SetDeletionTimestamp(&t)
	n.SetResourceVersion(s.nextRV())
	s.store(k, n)
}

// GCStep performs one step of the Kubernetes garbage collector: it deletes
// (honouring finalizers) every object all of whose owners are absent (by
// UID), and finishes foreground deletions that have no blocking dependents
// left. It returns the keys it acted on.
func (s *Server) GCStep() []Key {
	s.mu.Lock()
	defer s.mu.Unlock()
	uids := map[types.UID]bool{}
	for _, o := range s.objs {
		uids[o.GetUID()] = true
	}
	var acted []Key
	for _, k := range s.keysLocked() {
		o := s.objs[k]
		ors := o.GetOwnerReferences()
		if len(ors) == 0 {
			continue
		}
		alive := false
		for _, or := range ors {
			if uids[or.UID] {
				alive = true
			}
		}
		if alive {
			continue
		}
		acted = append(acted, k)
		if len(o.GetFinalizers()) == 0 {
			s.remove(k)
			continue
		}
		if o.GetDeletionTimestamp() == nil {
			n := o.DeepCopy()
			t := metav1.NewTime(s.tick())
			n.SetDeletionTimestamp(&t)
			n.SetResourceVersion(s.nextRV())
			s.store(k, n)
		}
	}
	// foreground deletion: remove the foregroundDeletion finalizer when no
	// dependent with blockOwnerDeletion remains.
	for _, k := range s.keysLocked() {
		o := s.objs[k]
		if o.GetDeletionTimestamp() == nil || !hasString(o.GetFinalizers(), metav1.FinalizerDeleteDependents) {
			continue
		}
		blocked := false
		for _, d := range s.objs {
			for _, or := range d.GetOwnerReferences() {
				if or.UID == o.GetUID() && or.BlockOwnerDeletion != nil && *or.BlockOwnerDeletion {
					blocked = true
				}
			}
		}
		if blocked {
			// the GC deletes blocking dependents of a foreground-deleting owner
			for _, dk := range s.keysLocked() {
				d := s.objs[dk]
				for _, or := range d.GetOwnerReferences() {
					if or.UID == o.GetUID() && d.GetDeletionTimestamp() == nil {
						acted = append(acted, dk)
						if len(d.GetFinalizers()) == 0 {
							s.remove(dk)
						} else {
							n := d.DeepCopy()
							t := metav1.NewTime(s.tick())
							n.SetDeletionTimestamp(&t)
							n.SetResourceVersion(s.nextRV())
							s.store(dk, n)
						}
					}
				}
			}
			continue
		}
		n := o.DeepCopy()
		n.SetFinalizers(without(n.GetFinalizers(), metav1.FinalizerDeleteDependents))
		acted = append(acted, k)
		if len(n.GetFinalizers()) == 0 {
			s.remove(k)
		} else {
			n.SetResourceVersion(s.nextRV())
			s.store(k, n)
		}
	}
	return acted
}

// ---- internals ----

func (s *Server) nextRV() string {
	s.rv++
	return strconv.FormatInt(s.rv, 10)
}

func (s *Server) nextUID() types.UID {
	s.uid++
	return types.UID(fmt.Sprintf("uid-%04d", s.uid))
}

func (s *Server) tick() time.Time {
	s.now = s.now.Add(time.Second)
	return s.now
}

// Now returns the server's logical clock.
func (s *Server) Now() time.Time { s.mu.Lock(); defer s.mu.Unlock(); return s.now }

func (s *Server) store(k Key, u *unstructured.Unstructured) {
	s.objs[k] = u
	if s.keepHist[k.GK()] {
		s.hist[k] = append(s.hist[k], u.DeepCopy())
	}
}

func (s *Server) remove(k Key) {
	delete(s.objs, k)
	if s.keepHist[k.GK()] {
		s.hist[k] = append(s.hist[k], nil)
	}
}

func (s *Server) mustUnstructured(o runtime.Object) *unstructured.Unstructured {
	u, err := s.toUnstructured(o)
	if err != nil {
		panic(err)
	}
	return u
}

// toUnstructured converts any client object to a deep-copied unstructured
// carrying apiVersion and kind.
func (s *Server) toUnstructured(o runtime.Object) (*unstructured.Unstructured, error) {
	if w, ok := o.(interface {
		GetUnstructured() *unstructured.Unstructured
	}); ok {
		return w.GetUnstructured().DeepCopy(), nil
	}
	if u, ok := o.(*unstructured.Unstructured); ok {
		return u.DeepCopy(), nil
	}
	gvk, err := s.gvkFor(o)
	if err != nil {
		return nil, err
	}
	// JSON round trip rather than DefaultUnstructuredConverter: it is what the
	// wire does and it honours custom marshalers.
	b, err := json.Marshal(o)
	if err != nil {
		return nil, err
	}
	m := map[string]any{}
	if err := utiljson.Unmarshal(b, &m); err != nil {
		return nil, err
	}
	u := &unstructured.Unstructured{Object: m}
	u.SetGroupVersionKind(gvk)
	// typed objects marshal a null creationTimestamp and an empty status
	if md, ok := m["metadata"].(map[string]any); ok {
		if md["creationTimestamp"] == nil {
			delete(md, "creationTimestamp")
		}
	}
	return u, nil
}

func (s *Server) gvkFor(o runtime.Object) (schema.GroupVersionKind, error) {
	if gvk := o.GetObjectKind().GroupVersionKind(); gvk.Kind != "" {
		if _, isU := o.(runtime.Unstructured); isU {
			return gvk, nil
		}
	}
	gvks, _, err := s.Scheme.ObjectKinds(o)
	if err != nil {
		return schema.GroupVersionKind{}, err
	}
	if len(gvks) == 0 {
		return schema.GroupVersionKind{}, fmt.Errorf("no kind registered for %T", o)
	}
	return gvks[0], nil
}

// into writes the stored content u into the caller's object o, presenting it
// in the API version the caller asked for.
func (s *Server) into(u *unstructured.Unstructured, gvk schema.GroupVersionKind, o runtime.Object) error {
	c := u.DeepCopy()
	c.SetGroupVersionKind(gvk)
	if w, ok := o.(interface {
		GetUnstructured() *unstructured.Unstructured
	}); ok {
		w.GetUnstructured().Object = c.Object
		return nil
	}
	if ou, ok := o.(*unstructured.Unstructured); ok {
		ou.Object = c.Object
		return nil
	}
	// Typed: zero the target first so that absent fields do not survive.
	v := reflect.ValueOf(o)
	if v.Kind() == reflect.Ptr && !v.IsNil() {
		v.Elem().Set(reflect.Zero(v.Elem().Type()))
	}
	b, err := json.Marshal(c.Object)
	if err != nil {
		return err
	}
	if err := json.Unmarshal(b, o); err != nil {
		return err
	}
	// controller-runtime's typed client leaves TypeMeta empty after decoding.
	o.GetObjectKind().SetGroupVersionKind(schema.GroupVersionKind{})
	return nil
}

// KeyOf returns the key of an unstructured object.
func KeyOf(u *unstructured.Unstructured) Key {
	gvk := u.GroupVersionKind()
	return Key{Group: gvk.Group, Kind: gvk.Kind, Namespace: u.GetNamespace(), Name: u.GetName()}
}

func info(u *unstructured.Unstructured) ObjInfo {
	if u == nil {
		return ObjInfo{}
	}
	i := ObjInfo{Exists: true, RV: u.GetResourceVersion(), UID: string(u.GetUID()), Deleting: u.GetDeletionTimestamp() != nil}
	if c := metav1.GetControllerOf(u); c != nil {
		i.Ctrl = string(c.UID)
	}
	return i
}

func hasString(ss []string, s string) bool {
	for _, x := range ss {
		if x == s {
			return true
		}
	}
	return false
}

func without(ss []string, s string) []string {
	out := make([]string, 0, len(ss))
	for _, x := range ss {
		if x != s {
			out = append(out, x)
		}
	}
	return out
}

func gr(k Key) schema.GroupResource {
	return schema.GroupResource{Group: k.Group, Resource: k.Kind}
}

func invalid(k Key, msg string) error {
	return kerrors.NewInvalid(k.GK(), k.Name, field.ErrorList{field.Invalid(field.NewPath("metadata"), k.Name, msg)})
}
